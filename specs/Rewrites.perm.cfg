\* Order-independence of the specification on three-entry tables: one shard
\* (a seventh of the tables; the orchestrator substitutes Shard from the seed)
\* with all six orderings of every table.  Nothing is emitted.
CONSTANTS U = "small" MaxLen = 3 EmitFrom = 99 Shard = 1 Perms = TRUE Families = 0 Mode = "gen"
INIT Init
NEXT Next
INVARIANTS PermutationInvariant
