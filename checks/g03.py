"""G03 -- safe search enforcement (growth item; statement in notes/G03.md).

 1. checks/g03_rules.py regenerates SafeSearchRules.tla from the working tree's
    rule files (internal/filtering/safesearch/rules/*.txt + rules.go) and picks
    the name universes for (tier, seed).
 2. TLC: SafeSearch.tla -- TableSpec (decision vectors), RespSpec (whose
    settings count + what the DNS server answers), Spec (the state machine, three
    universes: mc = global only, TTL 2, four query types; client = with the
    persistent client; mc3 = TTL 3 (TLC coverage statistics in both tiers, walked
    in the thorough tier); invariants of the statement checked exhaustively).
 3. Direction A: the table is replayed into package safesearch (fresh engines
    and one long-lived DNSFilter driven through its HTTP handlers); the
    labelled edges of the state machines are walked (edge-covering tour + seeded
    random walk) on one real system under a virtual clock, reply + projected state compared after
    every step; the response vectors are replayed into a real dnsforward.Server
    and, at verdict level with the real client life cycle (HTTP add / update /
    delete, restart from the configuration objects), into package home.
 4. Direction B: seeded random histories over all services / rule hosts are
    recorded and validated by TraceSafeSearch.tla.
"""
import concurrent.futures
import json
import os
import random
import re
from collections import deque

import vlib
import g03_rules

PKG_SS = "internal/filtering/safesearch"
PKG_DF = "internal/dnsforward"
PKG_HOME = "internal/home"
FILES = ["zz_verif_common_test.go", "zz_verif_g03_test.go"]
KEY_STALE = "legacy-enable-keeps-stale-engine"


# ------------------------------------------------------------ classification
def py_decide(rules, sv, lc, qt):
    """The verdicts an engine built for services sv gives (used ONLY to classify
    a reproduced disagreement as the known stale-engine finding)."""
    if qt not in ("A", "AAAA", "HTTPS"):
        return [{"k": "pass", "v": ""}]
    out = []
    for r in rules:
        if r["host"] == lc and r["svc"] in sv:
            if r["rr"] == "CNAME":
                out.append({"k": "cname", "v": r["val"]})
            elif r["rr"] == qt:
                out.append({"k": "ip", "v": r["val"]})
            else:
                out.append({"k": "nodata", "v": ""})
    return out or [{"k": "pass", "v": ""}]


def same_verdict(a, b):
    return a["k"] == b["k"] and (a["k"] in ("pass", "nodata") or a.get("v", "") == b.get("v", ""))


def stale_engine_explains(rules, boot_g, steps, got):
    """True iff the failing last step is a question decided by the GLOBAL
    settings, the master switch was turned on by POST /control/safesearch/enable
    since the global engine was last built (engine = the services of the last
    PUT with enabled=true, or of the start-up configuration if that was
    enabled, or none), and the observed verdict is exactly what that stale
    engine gives."""
    if not steps:
        return False
    engine = set(boot_g["sv"]) if boot_g["en"] else None
    g = {"en": boot_g["en"], "sv": list(boot_g["sv"])}
    cl = None
    legacy_on = False
    for s in steps[:-1]:
        a = s["a"]
        if a == "put":
            g = dict(s["x"]["c"])
            if g["en"]:
                engine, legacy_on = set(g["sv"]), False
        elif a == "enable":
            if not g["en"]:
                legacy_on = True
            g = dict(g, en=True)
        elif a == "disable":
            g = dict(g, en=False)
        elif a == "restart":
            engine, legacy_on = (set(g["sv"]) if g["en"] else None), False
        elif a == "clset":
            cl = s["x"]["cl"]
        elif a == "cldel":
            cl = None
    last = steps[-1]
    if last["a"] != "query" or not legacy_on or not g["en"]:
        return False
    x = last["x"]
    if x["who"] == "client" and cl and cl.get("known") and cl.get("own"):
        return False
    if not x["prot"]:
        return False
    stale = py_decide(rules, engine or set(), x["lc"], x["qt"])
    current = py_decide(rules, set(g["sv"]), x["lc"], x["qt"])
    return any(same_verdict(got, v) for v in stale) and not any(same_verdict(got, v) for v in current)


def classify_walk(rules, rec):
    try:
        if stale_engine_explains(rules, rec["boot"]["g"], rec["steps"], rec["got"]):
            return KEY_STALE
    except (KeyError, TypeError, IndexError):
        pass
    return None


# ------------------------------------------------------------------ tours
def norm(x):
    if isinstance(x, dict):
        return {k: norm(v) for k, v in sorted(x.items())}
    if isinstance(x, list):
        return sorted((norm(v) for v in x), key=lambda v: json.dumps(v, sort_keys=True))
    return x


def skey(s):
    # TLC prints one value always the same way; leg_walk cross-checks the
    # number of distinct keys with TLC's count of distinct states.
    return json.dumps(s, sort_keys=True)


def plan_tour(edges, init_key, rng, target=None):
    """Greedy edge-covering walk from init: follow an uncovered edge of the
    current state if there is one, else the shortest path (over any edges) to
    the nearest state that has one.  target: set of edge indices to cover
    (default all).  Returns the list of edge indices walked."""
    ids = {}
    for e in edges:
        for k in (e["sk"], e["dk"]):
            if k not in ids:
                ids[k] = len(ids)
    n = len(ids)
    src = [ids[e["sk"]] for e in edges]
    dst = [ids[e["dk"]] for e in edges]
    want = None if target is None else set(target)
    left = [[] for _ in range(n)]
    succ = [{} for _ in range(n)]
    for i in range(len(edges)):
        s, d = src[i], dst[i]
        if want is None or i in want:
            left[s].append(i)
        if d != s and d not in succ[s]:
            succ[s][d] = i
    for l in left:
        rng.shuffle(l)
    succ = [list(d.items()) for d in succ]
    remaining = sum(len(l) for l in left)
    walk, cur = [], ids[init_key]
    stamp = [0] * n
    prev_s = [0] * n
    prev_e = [0] * n
    gen = 0
    while remaining:
        l = left[cur]
        if l:
            i = l.pop()
            remaining -= 1
            walk.append(i)
            cur = dst[i]
            continue
        gen += 1
        stamp[cur] = gen
        dq, goal = deque([cur]), -1
        while dq and goal < 0:
            u = dq.popleft()
            for v, ei in succ[u]:
                if stamp[v] != gen:
                    stamp[v] = gen
                    prev_s[v], prev_e[v] = u, ei
                    if left[v]:
                        goal = v
                        break
                    dq.append(v)
        if goal < 0:
            raise vlib.Inconclusive("tour: %d edges unreachable from the walk's position" % remaining)
        path, u = [], goal
        while u != cur:
            path.append(prev_e[u])
            u = prev_s[u]
        path.reverse()
        walk.extend(path)
        cur = goal
    return walk


WEIGHTS = {"query": 45, "put": 20, "enable": 8, "disable": 7, "restart": 4, "tick": 10, "clset": 10, "cldel": 3}


def random_walk(edges, start, rng, n):
    """n seeded random steps from start: the action kind is drawn by WEIGHTS,
    then one of the state's edges of that kind uniformly.  Histories the
    edge-covering tour does not contain (the implementation may keep state the
    specification does not have)."""
    by_state = {}
    for i, e in enumerate(edges):
        by_state.setdefault(e["sk"], {}).setdefault(e["a"], []).append(i)
    walk, cur = [], start
    for _ in range(n):
        kinds = by_state[cur]
        names = sorted(kinds)
        a = rng.choices(names, weights=[WEIGHTS.get(k, 1) for k in names])[0]
        i = rng.choice(kinds[a])
        walk.append(i)
        cur = edges[i]["dk"]
    return walk


# ------------------------------------------------------------------- legs
class G03:
    def __init__(self, ctx):
        self.ctx = ctx
        self.rng = random.Random(ctx.seed)
        self.cov = {}
        self.samples = []

    # -- 1
    def generate(self):
        ctx = self.ctx
        self.tla = ctx.path("SafeSearchRules.generated.tla")
        try:
            self.info = g03_rules.generate(vlib.REPO, self.tla, seed=ctx.seed, tier=ctx.tier)
        except g03_rules.RulesError as e:
            raise vlib.Inconclusive("cannot instantiate the rule table from the repository: %s" % e)
        self.extra = [(self.tla, "SafeSearchRules.tla")]
        self.rules = self.info["rules"]
        ctx.log("rule table: %d rules of %d services; table names %d, response names %d, state-machine universe %s / %s" % (
            len(self.rules), len(self.info["services"]), len(self.info["table_names"]), len(self.info["resp_names"]),
            [n["q"] for n in self.info["mc_names"]], self.info["mc_svcs"]))
        if len(self.rules) < 20 or len(self.info["services"]) < 2:
            raise vlib.Inconclusive("implausibly small rule table")

    def tlc(self, cfg, **kw):
        kw.setdefault("workers", 2)
        kw.setdefault("heap", "3g")
        kw.setdefault("timeout", 600)
        r = self.ctx.tlc("SafeSearch", cfg, extra_files=self.extra, **kw)
        if kw.get("coverage"):
            r["cov_out"] = r["out"]
        r.pop("out", None)
        return r

    # -- table
    def leg_table(self):
        ctx = self.ctx
        r = self.tlc("SafeSearch.table.cfg")
        vecs = [v for v in r["vectors"] if v.get("t") == "d"]
        if len(vecs) != 32 * len(self.info["table_names"]):
            raise vlib.Inconclusive("table: %d vectors, expected %d" % (len(vecs), 32 * len(self.info["table_names"])))
        vin, vout = ctx.path("g03_table_in.ndjson"), ctx.path("g03_table_out.ndjson")
        vlib.write_ndjson(vin, vecs)
        rc, out = ctx.go_test(PKG_SS, FILES, "^TestZZVerifG03Table$", env={"VERIF_IN": vin, "VERIF_OUT": vout}, synctest=True)
        rows = vlib.read_ndjson(vout)
        summ = [x for x in rows if x.get("kind") == "summary"]
        if rc != 0 or not summ:
            raise vlib.Inconclusive("G03 table replay did not complete:\n" + out[-3000:])
        for x in rows:
            if x.get("kind") == "bad":
                ctx.disagreement(None, x, "table: %s %s under %s answered %s, the specification admits %s (%s)" % (
                    x["q"], x["qt"], json.dumps(x["c"]), json.dumps(x["got"]), json.dumps(x["want"]), x["how"]))

        def nontrivial(v):
            return any(o["k"] != "pass" for outs in v["o"].values() for o in outs)
        nt = sum(1 for v in vecs if nontrivial(v))
        kinds = {o["k"] for v in vecs for outs in v["o"].values() for o in outs}
        if not {"pass", "cname", "ip", "nodata"} <= kinds:
            raise vlib.Inconclusive("vacuous table: verdict kinds %s" % sorted(kinds))
        self.samples += [vecs[0], next(v for v in vecs if nontrivial(v))]
        return {"vectors": len(vecs), "evaluations": summ[0]["evaluations"], "nontrivial": nt, "flaky": summ[0]["flaky"],
                "settings_changes": summ[0]["puts"]}

    # -- responses (dnsforward) and verdicts with the real client life cycle (home)
    def resp_vectors(self):
        r = self.tlc("SafeSearch.resp.cfg")
        vecs = [v for v in r["vectors"] if v.get("t") == "r"]
        want = 8 * 10 * 4 * len(self.info["resp_names"])
        if len(vecs) != want:
            raise vlib.Inconclusive("responses: %d vectors, expected %d" % (len(vecs), want))
        kinds = {(o["cname"] != "", o["addr"] != "", o["fromup"]) for v in vecs for outs in v["o"].values() for o in outs}
        if len(kinds) < 4:
            raise vlib.Inconclusive("vacuous response table: response shapes %s" % sorted(kinds))
        return vecs

    def leg_resp(self, vecs):
        ctx = self.ctx
        vin, vout = ctx.path("g03_resp_in.ndjson"), ctx.path("g03_resp_out.ndjson")
        vlib.write_ndjson(vin, [{k: v[k] for k in ("t", "g", "cl", "prot", "who", "q", "lc", "o")} for v in vecs])
        rc, out = ctx.go_test(PKG_DF, FILES, "^TestZZVerifG03Resp$", env={"VERIF_IN": vin, "VERIF_OUT": vout})
        rows = vlib.read_ndjson(vout)
        summ = [x for x in rows if x.get("kind") == "summary"]
        if rc != 0 or not summ:
            raise vlib.Inconclusive("G03 response replay did not complete:\n" + out[-3000:])
        for x in rows:
            if x.get("kind") == "bad":
                ctx.disagreement(None, x, "response: %s; %s -- the specification admits %s (%s)" % (
                    x["concrete"], x["problem"] or json.dumps(x["got"]), json.dumps(x["want"]), x["how"]))
        nt = sum(1 for v in vecs if any(not (o["fromup"] and o["cname"] == "") for outs in v["o"].values() for o in outs))
        self.samples.append({"response_vector": {k: vecs[len(vecs) // 2][k] for k in ("g", "cl", "prot", "who", "q", "o")}})
        return {"vectors": len(vecs), "evaluations": summ[0]["evaluations"], "nontrivial": nt, "flaky": summ[0]["flaky"],
                "reconfigurations": summ[0]["reconfigurations"]}

    def leg_home(self, vecs):
        ctx = self.ctx
        vin, vout = ctx.path("g03_home_in.ndjson"), ctx.path("g03_home_out.ndjson")
        vlib.write_ndjson(vin, [{k: v[k] for k in ("t", "g", "cl", "prot", "who", "q", "lc", "v")} for v in vecs])
        rc, out = ctx.go_test(PKG_HOME, FILES, "^TestZZVerifG03Home$", env={"VERIF_IN": vin, "VERIF_OUT": vout})
        rows = vlib.read_ndjson(vout)
        summ = [x for x in rows if x.get("kind") == "summary"]
        if rc != 0 or not summ:
            raise vlib.Inconclusive("G03 home replay did not complete:\n" + out[-3000:])
        for x in rows:
            if x.get("kind") == "bad":
                ctx.disagreement(None, x, "home: %s under g=%s client=%s answered %s, the specification admits %s (%s)" % (
                    x["concrete"], json.dumps(x["g"]), json.dumps(x["cl"]), json.dumps(x["got"]), json.dumps(x["want"]), x["how"]))
        if summ[0]["restarts"] == 0 or summ[0]["reconfigurations"] < 20:
            raise vlib.Inconclusive("vacuous home leg: %s" % summ[0])
        return {"vectors": len(vecs), "evaluations": summ[0]["evaluations"], "flaky": summ[0]["flaky"],
                "reconfigurations": summ[0]["reconfigurations"], "restarts": summ[0]["restarts"],
                "deprecated_client_form": summ[0]["deprecated_client_form"]}

    # -- walks
    def leg_walk(self, cfg, tag, coverage=False, fraction=1.0, extra=0, need=("pass", "cname", "ip", "nodata"), walk_it=True):
        ctx = self.ctx
        r = self.tlc(cfg, coverage=coverage)
        edges = [v for v in r["vectors"] if v.get("t") == "e"]
        if not edges or len(edges) != r["generated"] - 1:
            raise vlib.Inconclusive("%s: %d edges printed, TLC generated %d transitions" % (cfg, len(edges), r["generated"] - 1))
        if coverage:
            taken = {m.group(1): int(m.group(3)) for m in re.finditer(
                r"^<(\w+) line \d+, col \d+ to line \d+, col \d+ of module SafeSearch[^>]*>: (\d+):(\d+)", r["cov_out"], re.M)}
            for act in ("Put", "Legacy", "Restart", "Tick", "Query"):
                if taken.get(act, 0) == 0:
                    raise vlib.Inconclusive("vacuous: action %s never taken in %s (%s)" % (act, cfg, taken))
        for e in edges:
            e["sk"], e["dk"] = skey(e["s"]), skey(e["d"])
        states = {e["sk"] for e in edges}
        if len(states) != r["distinct"]:
            raise vlib.Inconclusive("%s: %d source states in the edges, TLC found %d distinct states" % (cfg, len(states), r["distinct"]))
        acts = {}
        for e in edges:
            acts[e["a"]] = acts.get(e["a"], 0) + 1
        kinds = {o["k"] for e in edges if e["a"] == "query" for o in e["o"]}
        if not set(need) <= kinds:
            raise vlib.Inconclusive("vacuous state machine %s: verdict kinds %s" % (cfg, sorted(kinds)))
        if not walk_it:
            return {"states": r["distinct"], "edges": len(edges), "edges_covered": 0, "steps": 0, "by_action": acts, "walked": False,
                    "truncated_by_known_finding": 0, "exhaustive": True}
        init = {"g": {"en": False, "sv": []}, "cl": {"known": False, "own": False, "conf": {"en": False, "sv": []}}, "gc": [], "cc": []}
        ctx.log("%s: graph of %d states, %d edges" % (tag, len(states), len(edges)))
        if skey(init) not in states:
            raise vlib.Inconclusive("%s: initial state not among the printed states" % cfg)
        target = None
        if fraction < 1.0:
            target = [i for i in range(len(edges)) if self.rng.random() < fraction]
        walk = plan_tour(edges, skey(init), self.rng, target)
        tour_steps = len(walk)
        ctx.log("%s: tour of %d steps planned" % (tag, tour_steps))
        end = edges[walk[-1]]["dk"] if walk else skey(init)
        walk += random_walk(edges, end, self.rng, extra)
        text = open(os.path.join(vlib.SPECS, cfg)).read()
        ttl = int(re.search(r"TTL\s*=\s*(\d+)", text).group(1))
        qtypes = re.findall(r'"(\w+)"', re.search(r"MCQtypes\s*=\s*\{([^}]*)\}", text).group(1))
        hdr = {"t": "h", "cfg": tag, "ttl": ttl, "names": self.info["mc_names"], "qtypes": qtypes,
               "svcs": self.info["mc_svcs"], "init": init}
        win, wout = ctx.path("g03_walk_%s_in.ndjson" % tag), ctx.path("g03_walk_%s_out.ndjson" % tag)
        with open(win, "w") as fh:
            fh.write(json.dumps(hdr) + "\n")
            for i in walk:
                e = edges[i]
                fh.write(json.dumps({"a": e["a"], "x": e["x"], "d": e["d"], "o": e["o"], "i": i}) + "\n")
        rc, out = ctx.go_test(PKG_SS, FILES, "^TestZZVerifG03Walk$", env={"VERIF_IN": win, "VERIF_OUT": wout}, synctest=True)
        rows = vlib.read_ndjson(wout)
        summ = [x for x in rows if x.get("kind") == "summary"]
        if rc != 0 or not summ or summ[0]["steps"] != len(walk):
            raise vlib.Inconclusive("G03 walk %s did not complete:\n%s" % (tag, out[-3000:]))
        known = 0
        for x in rows:
            if x.get("kind") != "bad":
                continue
            key = classify_walk(self.rules, x)
            what = "walk %s, step %d: after [%s] %s" % (tag, x["step"], "; ".join(x["history"][-6:]), x["what"])
            rec = {k: x[k] for k in ("leg", "cfg", "boot", "history", "steps", "what", "got", "want", "dst", "names", "svcs", "ttl")}
            if ctx.disagreement(key, rec, what) == "known":
                known += 1
        if summ[0]["live_entries_seen"] == 0:
            raise vlib.Inconclusive("vacuous walk %s: no engine was ever seen remembering a result" % tag)
        covered = len(set(walk[:tour_steps]))
        e0 = edges[walk[len(walk) // 2]]
        self.samples.append({"edge": {k: e0[k] for k in ("s", "a", "x", "d", "o")}})
        return {"states": r["distinct"], "edges": len(edges), "edges_covered": covered, "steps": len(walk), "tour_steps": tour_steps,
                "random_steps": extra, "by_action": acts,
                "truncated_by_known_finding": known, "flaky": summ[0]["flaky"], "resyncs": summ[0]["resyncs"],
                "live_entries_seen": summ[0]["live_entries_seen"], "steps_memory_equal": summ[0]["steps_memory_equal"],
                "exhaustive": covered == len(edges)}

    # -- trace
    def leg_trace(self):
        ctx = self.ctx
        tout = ctx.path("g03_trace.ndjson")
        rc, out = ctx.go_test(PKG_SS, FILES, "^TestZZVerifG03Trace$", env={"VERIF_OUT": tout}, synctest=True)
        rows = vlib.read_ndjson(tout)
        if rc != 0 or len(rows) < 1000:
            raise vlib.Inconclusive("G03 trace driver did not complete:\n" + out[-3000:])
        r = ctx.tlc("TraceSafeSearch", "TraceSafeSearch.cfg", workers=1, timeout=900, heap="4g",
                    extra_files=self.extra + [(tout, "trace.ndjson")])
        r.pop("out", None)
        if not r["vectors"]:
            raise vlib.Inconclusive("trace specification produced no verdict")
        verdict = r["vectors"][-1]
        if verdict["n"] != len(rows):
            raise vlib.Inconclusive("trace specification consumed %s of %d lines" % (verdict["n"], len(rows)))
        known = 0
        for ln, why in sorted(verdict["bad"]):
            rec = self.trace_record(rows, ln, why)
            key = None
            if why == "verdict" and stale_engine_explains(self.rules, rec["boot"]["g"], rec["steps"], rec["got"]):
                key = KEY_STALE
            what = "trace line %d rejected by TraceSafeSearch (%s): %s" % (ln, why, json.dumps(rows[ln - 1])[:400])
            if ctx.disagreement(key, rec, what) == "known":
                known += 1
        acts = {}
        for x in rows:
            acts[x["act"]] = acts.get(x["act"], 0) + 1
        hits = sum(1 for x in rows if x["act"] == "query" and x["out"]["k"] in ("cname", "ip", "nodata"))
        live = sum(len(x["glive"]) + sum(len(v) for v in x["clive"].values()) for x in rows)
        if hits < 50 or live == 0 or any(acts.get(a, 0) == 0 for a in ("put", "enable", "restart", "clset", "tick", "query")):
            raise vlib.Inconclusive("vacuous trace: %s, %d rewritten answers, %d remembered entries seen" % (acts, hits, live))
        self.samples.append({"trace_line": rows[len(rows) // 3]})
        return {"lines": len(rows), "rejected": len(verdict["bad"]), "rejected_known": known, "by_action": acts,
                "rewritten_answers": hits, "remembered_entries_seen": live}

    def trace_record(self, rows, ln, why):
        """The history of trace line ln in the walk vocabulary, from the last
        restart (or the beginning), for the classifier and the replay file."""
        start = 0
        for i in range(ln - 2, -1, -1):
            if rows[i]["act"] == "restart":
                start = i + 1
                break
        g = {"en": False, "sv": []}
        for x in rows[:start]:
            if x["act"] == "put":
                g = x["c"]
            elif x["act"] in ("enable", "disable"):
                g = dict(g, en=x["act"] == "enable")
        steps = []
        target = rows[ln - 1]
        for x in rows[start:ln]:
            a = x["act"]
            if a == "query":
                who = "client" if x["who"] == target.get("who") and x["who"] != "other" else "other"
                steps.append({"a": a, "x": {"who": who, "prot": x["prot"], "q": x["q"], "lc": x["lc"], "qt": x["qt"]}})
            elif a == "put":
                steps.append({"a": a, "x": {"c": x["c"]}})
            elif a == "clset" and x["cn"] == target.get("who"):
                steps.append({"a": a, "x": {"cl": x["cr"]}})
            elif a == "cldel" and x["cn"] == target.get("who"):
                steps.append({"a": a, "x": {}})
            elif a in ("enable", "disable", "tick"):
                steps.append({"a": a, "x": {}})
        return {"leg": "trace", "why": why, "line": ln, "boot": {"g": g}, "steps": steps, "got": target["out"],
                "row": target}


def run(ctx):
    g = G03(ctx)
    g.generate()
    quick = ctx.quick
    with concurrent.futures.ThreadPoolExecutor(max_workers=8) as ex:
        f_table = ex.submit(g.leg_table)
        extra = 20000 if quick else 300000
        frac = 0.4 if quick else 1.0   # quick: the tours cover a seeded 40 % of the edges
        f_mc = ex.submit(g.leg_walk, "SafeSearch.mc.cfg", "mc", False, frac, extra)
        f_cl = ex.submit(g.leg_walk, "SafeSearch.client.cfg", "client", False, frac, extra, ("pass", "cname", "ip"))
        f_tr = ex.submit(g.leg_trace)
        f_vecs = ex.submit(g.resp_vectors)
        f_resp = ex.submit(lambda: g.leg_resp(f_vecs.result()))
        f_home = ex.submit(lambda: g.leg_home(f_vecs.result()))
        futures = {"table": f_table, "mc": f_mc, "client": f_cl, "trace": f_tr, "resp": f_resp, "home": f_home}
        # The TTL-3 universe: TLC's own coverage statistics (vacuity) in both
        # tiers, walked in the thorough tier only.
        futures["mc3"] = ex.submit(g.leg_walk, "SafeSearch.mc3.cfg", "mc3", True, 1.0, extra, ("pass", "cname", "ip", "nodata"), not quick)
        res, first_err = {}, None
        for name, f in futures.items():
            try:
                res[name] = f.result()
            except vlib.Inconclusive as e:
                first_err = first_err or e
        if first_err:
            raise first_err
    walks = [res[k] for k in ("mc", "client", "mc3") if k in res]
    evaluations = res["table"]["evaluations"] + res["resp"]["evaluations"] + res["home"]["evaluations"] + sum(w["steps"] for w in walks) + res["trace"]["lines"]
    cov = {
        "traces_validated_against_impl": sum(w["steps"] for w in walks) + res["trace"]["lines"],
        "evaluations": evaluations,
        "distinct_nontrivial": res["table"]["nontrivial"] + res["resp"]["nontrivial"] + sum(w["edges_covered"] for w in walks),
        "rule": "table: one vector per (settings of the family, name of the generated universe), non-trivial = some query type is rewritten; "
                "state machines: one step per labelled edge of SafeSearch.tla (reply and projected state compared after every step), "
                "every edge counts; trace: one line per step of a seeded random history validated by TraceSafeSearch.tla",
        "rule_table": {"rules": len(g.rules), "services": g.info["services"]},
        "universe": {"table_names": len(g.info["table_names"]), "mc_names": g.info["mc_names"], "mc_svcs": g.info["mc_svcs"]},
        "table": res["table"], "responses": res["resp"], "home": res["home"], "walks": {k: res[k] for k in ("mc", "client", "mc3") if k in res}, "trace": res["trace"],
        "truncated_by_known_finding": sum(w["truncated_by_known_finding"] for w in walks) + res["trace"]["rejected_known"],
        "exhaustive": all(w["exhaustive"] for w in walks) and all(w.get("walked", True) for w in walks),
        "samples": g.samples[:6],
    }
    return ctx.finish("model_checking", cov, assumptions=[
        "TLC; the generator checks/g03_rules.py (rule lines of a shape it does not know make the check inconclusive); "
        "conc/abs of the harnesses (service name <-> switch, filtering.Result -> verdict)",
        "package level: real DNSFilter + its HTTP handlers + real client.Storage, engines under testing/synctest's virtual clock; "
        "the persistent client's engine is built by the harness the way package home does (engine iff own safe search enabled)",
        "other host checkers (hosts files, filter lists, blocked services, safe browsing, parental) are configured so that they do not match",
    ])


def replay(ctx, path):
    doc = json.load(open(path))
    rec = doc["record"]
    g = G03(ctx)
    g.generate()
    if rec.get("leg") == "walk":
        hdr = {"t": "h", "cfg": "replay", "ttl": rec["ttl"], "names": rec["names"], "qtypes": ["A", "AAAA", "HTTPS", "TXT"],
               "svcs": rec["svcs"], "init": rec["boot"]}
        win, wout = ctx.path("g03_replay_in.ndjson"), ctx.path("g03_replay_out.ndjson")
        with open(win, "w") as fh:
            fh.write(json.dumps(hdr) + "\n")
            for s in rec["steps"]:
                fh.write(json.dumps(s) + "\n")
        rc, out = ctx.go_test(PKG_SS, FILES, "^TestZZVerifG03Walk$", env={"VERIF_IN": win, "VERIF_OUT": wout}, synctest=True)
        rows = vlib.read_ndjson(wout)
        bad = [x for x in rows if x.get("kind") == "bad"]
        print(json.dumps({"history": rec["history"], "expected": rec["want"],
                          "observed": [b["what"] for b in bad] or "agrees with the specification"}, indent=1))
        return 1 if bad else 0
    if rec.get("leg") == "table":
        vec = {"t": "d", "c": rec["c"], "q": rec["q"], "lc": rec["lc"], "o": {rec["qt"]: rec["want"]}}
        vin, vout = ctx.path("g03_replay_in.ndjson"), ctx.path("g03_replay_out.ndjson")
        vlib.write_ndjson(vin, [vec])
        rc, out = ctx.go_test(PKG_SS, FILES, "^TestZZVerifG03Table$", env={"VERIF_IN": vin, "VERIF_OUT": vout}, synctest=True)
        bad = [x for x in vlib.read_ndjson(vout) if x.get("kind") == "bad"]
        print(json.dumps({"expected": rec["want"], "observed": [b["got"] for b in bad] or "admissible"}, indent=1))
        return 1 if bad else 0
    if rec.get("leg") in ("resp", "home"):
        field, pkg, test = ("o", PKG_DF, "^TestZZVerifG03Resp$") if rec["leg"] == "resp" else ("v", PKG_HOME, "^TestZZVerifG03Home$")
        if "qt" not in rec:
            print(json.dumps({"record": rec, "note": "configuration read-back disagreement: re-run ./check G03 with the same VERIF_SEED"}, indent=1)[:2000])
            return 2
        vec = {"t": "r", "g": rec["g"], "cl": rec["cl"], "prot": rec["prot"], "who": rec["who"], "q": rec["q"], "lc": rec["lc"],
               field: {rec["qt"]: rec["want"]}}
        vin, vout = ctx.path("g03_replay_in.ndjson"), ctx.path("g03_replay_out.ndjson")
        vlib.write_ndjson(vin, [vec])
        rc, out = ctx.go_test(pkg, FILES, test, env={"VERIF_IN": vin, "VERIF_OUT": vout})
        bad = [x for x in vlib.read_ndjson(vout) if x.get("kind") == "bad"]
        print(json.dumps({"expected": rec["want"], "observed": [[b.get("got"), b.get("problem", "")] for b in bad] or "admissible"}, indent=1))
        return 1 if bad else 0
    print(json.dumps({"record": rec, "note": "trace line: re-run ./check G03 with the same VERIF_SEED (the history is in record.steps)"}, indent=1)[:3000])
    return 2
