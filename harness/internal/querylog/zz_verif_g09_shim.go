package querylog

import "time"

// ZZVerifG09Quiesce returns when no flush of the memory buffer to the log file
// is requested or running (or after bound).  Overlaid at build time by the G09
// check (never part of the repository); it changes no behaviour: the G09
// harness runs some systems with a small memory buffer so that entries reach
// the file, and must not read the log while a flush is half done (between the
// clearing of the buffer and the write to the file an entry is in neither).
func (l *queryLog) ZZVerifG09Quiesce(bound time.Duration) (ok bool) {
	deadline := time.Now().Add(bound)
	for {
		l.bufferLock.Lock()
		pending := l.flushPending
		l.bufferLock.Unlock()
		if !pending {
			break
		}

		if time.Now().After(deadline) {
			return false
		}

		time.Sleep(200 * time.Microsecond)
	}

	// A running flush holds this lock from before the buffer is cleared until
	// the file has been written.
	l.fileFlushLock.Lock()
	l.fileFlushLock.Unlock()

	return true
}
