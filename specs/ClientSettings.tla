--------------------------- MODULE ClientSettings ---------------------------
(***************************************************************************)
(* C04, settings clause, as a pure decision table:                         *)
(*                                                                         *)
(*   "... that client's own filtering, safe-browsing, parental,            *)
(*   safe-search and blocked-services settings are applied exactly when    *)
(*   it opts out of the global ones."                                      *)
(*                                                                         *)
(* Clients.tla treats a client's own values as one opaque token; here they *)
(* are real values.  One registry with ONE client that owns address 5;     *)
(* TLC enumerates every combination of                                     *)
(*     global value  x  own value  x  opt-out switch                       *)
(* for each of the five settings (the four booleans of `vals` =            *)
(* <<filtering, safe search, safe browsing, parental>> under the switch    *)
(* `own`, the blocked-services set under the switch `bs`), times the state *)
(* of the two blocked-services schedules at the time of the request (no    *)
(* schedule / request inside the pause window / schedule but request       *)
(* outside the window, for the client's own schedule; none / inside for    *)
(* the global one), and prints, per                                        *)
(* combination, what ClientsCore!Effective demands for a request from the  *)
(* client's address (hit), from an address nobody owns (miss), and from    *)
(* that address with a ClientID that only resembles the client's mac       *)
(* (like).  The Go                                                         *)
(* harness builds the client the way package home does (the per-client     *)
(* safe-search engine exists only when its own safe search is enabled) and *)
(* compares the filtering.Settings produced by Settings() +                *)
(* ApplyAdditionalFiltering for every vector.                              *)
(***************************************************************************)
EXTENDS ClientsCore, Sequences, TLC, Json

VARIABLES st, vec
svars == <<st, vec>>

Bools4 == [1..4 -> BOOLEAN]
GSvcs  == {{}, {"a"}}               \* global blocked services
CSvcs  == {{}, {"a"}, {"b"}}        \* the client's own: none / same as global / different

Me == <<"ip", 5, 0>>
MyMac == <<"mac", 1, 0>>

\* State of a blocked-services schedule when the request arrives.  "none" and
\* "out" are the same for the spec (no pause in effect) and differ in how the
\* harness builds the schedule (empty / non-empty but elsewhere in the week).
CSched == {"none", "in", "out"}
GSched == {"none", "in"}

Vector(g, gs, gp, v, cs, cp, own, bs) ==
    LET c == [name |-> "n1", ids |-> {Me, MyMac}, own |-> own, bs |-> bs, vals |-> v, svcs |-> cs,
              pause |-> (cp = "in")]
        G == [vals |-> g, svcs |-> gs, pause |-> (gp = "in")]
    IN [g |-> g, gs |-> gs, gp |-> gp, v |-> v, cs |-> cs, cp |-> cp, own |-> own, bs |-> bs,
        hit  |-> Effective({c}, <<>>, G, NoId, 5),
        miss |-> Effective({c}, <<>>, G, NoId, 12),
        \* a foreign address presenting a ClientID spelled like the client's mac
        like |-> Effective({c}, <<>>, G, <<"cidmac", 1, 0>>, 12)]

Init == st = "pick" /\ vec = <<>>

Pick == /\ st = "pick"
        /\ \E g \in Bools4, v \in Bools4, own \in BOOLEAN, bs \in BOOLEAN, gs \in GSvcs, cs \in CSvcs,
              gp \in GSched, cp \in CSched :
             /\ vec' = Vector(g, gs, gp, v, cs, cp, own, bs)
             /\ PrintT(<<"@@V", ToJson(vec')>>)
        /\ st' = "done"

Spec == Init /\ [][Pick]_svars

\* The clause, setting by setting.
Done == st = "done"
EachSettingOwnIffOptedOut ==
    Done => /\ \A i \in 1..4 : vec.hit.vals[i] = IF vec.own THEN vec.v[i] ELSE vec.g[i]
            /\ vec.hit.svcs = IF vec.bs THEN (IF vec.cp = "in" THEN {} ELSE vec.cs)
                                       ELSE (IF vec.gp = "in" THEN {} ELSE vec.gs)
            /\ vec.hit.who = "n1"
\* Opted out and inside its own pause: nothing is blocked, whatever the global list.
OptedOutAndPausedBlocksNothing ==
    Done /\ vec.bs /\ vec.cp = "in" => vec.hit.svcs = {}
ForeignRequestGetsGlobal ==
    Done => /\ vec.miss.who = "" /\ vec.miss.vals = vec.g
            /\ vec.miss.svcs = IF vec.gp = "in" THEN {} ELSE vec.gs
            /\ vec.like = vec.miss
=============================================================================
