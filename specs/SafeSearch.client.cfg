SPECIFICATION Spec
CONSTANTS
  TTL = 2
  WithClient = TRUE
  MCQtypes = {"A", "TXT"}
INVARIANTS TypeOK OnlyListedEnabled ListedEnabledAlways ClientPrecedence MemoryCurrent
