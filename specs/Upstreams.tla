----------------------------- MODULE Upstreams -----------------------------
(***************************************************************************)
(* G11 -- upstream configuration and selection, private reverse lookups,   *)
(* as a state machine over the vocabulary of UpstreamsCore.tla.            *)
(*                                                                         *)
(*   cfg    the configuration in effect = the configuration reported by    *)
(*          GET /control/dns_info: upstream_dns, fallback_dns,             *)
(*          bootstrap_dns, local_ptr_upstreams (abstract lists),           *)
(*          use_private_ptr_resolvers                                      *)
(*   sys    what the operating system lists as its resolvers, without      *)
(*          AdGuard Home's own addresses (environment, never changes)      *)
(*   down   the upstream servers that do not respond at the moment         *)
(*                                                                         *)
(* Actions                                                                 *)
(*   SetConfig(r)        POST /control/dns_config with request r: accepted *)
(*                       (200, the fields of r replace the stored ones) or *)
(*                       rejected (400, nothing changes)                   *)
(*   Query(loc, q)       one question; changes nothing.  Its admissible    *)
(*                       outcomes are Out(cfg, sys, down, loc, q)          *)
(*   TestUpstreams(r)    POST /control/test_upstream_dns; changes nothing  *)
(*   UpstreamFails(u), UpstreamRecovers(u)     environment                 *)
(*   Observe             prints the state with its verdict table and, for  *)
(*                       down = {}, all its SetConfig edges: what TLC      *)
(*                       explores is what the Go harness replays           *)
(*                                                                         *)
(* TLC explores ALL histories over a finite universe (UpLists, FbLists,    *)
(* BootVals, PtrLists, UseVals, Shapes, Near, Queries, Locs, FailSet,      *)
(* SysVals; several configurations at the end of the module).  The         *)
(* statement's sentences are restated declaratively (not through Sel/Out's *)
(* case analysis) as invariants over every reachable state and as          *)
(* assertions on every SetConfig transition.                               *)
(***************************************************************************)
EXTENDS UpstreamsCore, TLC, Json

CONSTANTS
    UpLists,       \* values of upstream_dns a request may carry (valid and invalid)
    FbLists,       \* ... of fallback_dns
    BootVals,      \* ... of bootstrap_dns (tokens)
    PtrLists,      \* ... of local_ptr_upstreams
    UseVals,       \* ... of use_private_ptr_resolvers
    Shapes,        \* the sets of fields a request may carry
    Near(_, _),    \* Near(cfg, r): which of these requests are explored in cfg
    Queries,       \* the questions of the verdict table
    Locs,          \* the client localities of the verdict table
    FailSet,       \* the upstreams that may stop responding
    SysVals,       \* the values of sys
    TestReqs       \* the requests of POST /control/test_upstream_dns

VARIABLES cfg, sys, down
vars == <<cfg, sys, down>>

\* The configuration AdGuard Home starts with in every history.
Cfg0 == [up |-> List({"u1"}, {}), fb |-> NoList, boot |-> "b1", ptr |-> NoList, use |-> FALSE]

Init == cfg = Cfg0 /\ sys \in SysVals /\ down = {}

\* ---------------------------------------------------------------- requests
Requests ==
    UNION {
        {Req(has, u, f, b, p, x) :
            u \in (IF "up" \in has THEN UpLists ELSE {NoList}),
            f \in (IF "fb" \in has THEN FbLists ELSE {NoList}),
            b \in (IF "boot" \in has THEN BootVals ELSE {"-"}),
            p \in (IF "ptr" \in has THEN PtrLists ELSE {NoList}),
            x \in (IF "use" \in has THEN UseVals ELSE {FALSE})}
        : has \in Shapes}

ReqsIn(c) == {r \in Requests : Near(c, r)}

\* ----------------------------------------------------------------- actions
\* The sentences about one dns_config call, asserted on every transition:
\*   (a) a request with an invalid line is rejected; a rejected request
\*       changes nothing;
\*   (b) an accepted request replaces exactly the fields it carries;
\*   (c) whatever is stored is valid.
SetOK(c, r, res) ==
    /\ ~FieldsOK(r) => res.code = 400
    /\ res.code = 400 => res.cfg = c
    /\ res.code = 200 =>
         /\ \A f \in Fields \ r.has : res.cfg[f] = c[f]
         /\ "up" \in r.has => res.cfg.up = r.up
         /\ "fb" \in r.has => res.cfg.fb = r.fb
         /\ "ptr" \in r.has => res.cfg.ptr = r.ptr
         /\ "use" \in r.has => res.cfg.use = r.use
    /\ CfgValid(res.cfg, sys)

SetConfigAccepted(r) ==
    \E res \in Results(cfg, sys, r) :
        /\ res.code = 200
        /\ Assert(SetOK(cfg, r, res), <<"SetOK", cfg, r, res>>)
        /\ cfg' = res.cfg
        /\ UNCHANGED <<sys, down>>

SetConfigRejected(r) ==
    \E res \in Results(cfg, sys, r) :
        /\ res.code = 400
        /\ Assert(SetOK(cfg, r, res), <<"SetOK", cfg, r, res>>)
        /\ UNCHANGED vars

UpstreamFails(u) == u \notin down /\ down' = down \cup {u} /\ UNCHANGED <<cfg, sys>>
UpstreamRecovers(u) == u \in down /\ down' = down \ {u} /\ UNCHANGED <<cfg, sys>>

\* The sentences about one question, restated without Sel/Out's case
\* analysis and asserted for every question of the table in every state.
IsPriv(q) == q.k = "ptr" /\ q.c \in {"privknown", "privunknown"}
IsLan(q)  == q.k = "a" /\ q.c \in {"lanknown", "lanunknown"}
Private(c) == PtrEff(c.ptr, sys).gen \cup UNION {s.v : s \in c.ptr.secs}

QueryOK(loc, q, a) ==
    \* nothing is sent to an upstream that is not responding ... successfully
    /\ a.by \cap down = {}
    /\ a.cls = "up" <=> a.by # {}
    /\ a.by \subseteq a.may /\ a.must \subseteq a.may
    \* (b) never sent to an upstream that no matching section (or the general
    \* list) names
    /\ ~IsPriv(q) /\ ~IsLan(q) => a.may \subseteq NamedFor(cfg.up, q.n) \cup NamedFor(cfg.fb, q.n)
    \* (b) "More specific domains take priority": a matching section than
    \* which no matching section is more specific decides alone -- only its
    \* upstreams (the general ones if it says "#"), and fallback servers, may
    \* see the question; the upstreams of less specific sections and, if it
    \* names upstreams, the general ones are kept away.  (Except for the very
    \* domain of a "subdomains only" section, where the text is silent.)
    /\ ~IsPriv(q) /\ ~IsLan(q) /\ ~WildAt(cfg.up, q.n) =>
         \A s \in Matching(cfg.up, q.n) :
             (\A t \in Matching(cfg.up, q.n) : Len(t.p.d) <= Len(s.p.d))
                 => a.may \subseteq Named(cfg.up, s) \cup NamedFor(cfg.fb, q.n)
    /\ ~IsPriv(q) /\ ~IsLan(q) /\ Matching(cfg.up, q.n) = {}
         => a.may \subseteq cfg.up.gen \cup NamedFor(cfg.fb, q.n)
    \* (b) fallback servers see a question only after every selected upstream
    \* was asked and none of them responds
    /\ ~IsPriv(q) /\ ~IsLan(q) /\ a.may \ NamedFor(cfg.up, q.n) # {}
         => a.must # {} /\ a.must \subseteq down
    \* (c) private reverse questions and names of DHCP clients never reach a
    \* public upstream that is not also a private reverse server; from
    \* outside they are refused; unknown DHCP names are never forwarded
    /\ IsPriv(q) => a.may \subseteq Private(cfg)
    /\ IsPriv(q) /\ (loc # "local" \/ (~cfg.use /\ q.c = "privunknown")) => a = NX
    /\ IsPriv(q) /\ ~cfg.use => a.may = {}
    /\ IsLan(q) => a.may = {} /\ a.cls \in {"local", "nx"}
    /\ IsLan(q) /\ (loc # "local" \/ q.c = "lanunknown") => a = NX

Query(loc, q) ==
    /\ \A a \in Out(cfg, sys, down, loc, q) : Assert(QueryOK(loc, q, a), <<"QueryOK", cfg, down, loc, q, a>>)
    /\ Assert(Out(cfg, sys, down, loc, q) # {}, <<"no outcome", cfg, q>>)
    /\ UNCHANGED vars

\* The test endpoint reports every named server exactly once, on one side.
TestUpstreams(r) ==
    /\ \E o \in {TestOut(r, down)} :
          Assert(o.ok \cap o.notok = {} /\ o.notok \subseteq down /\ o.ok \cap down = {}
                     /\ o.ok \cup o.notok = NamedAll(r.up) \cup NamedAll(r.fb) \cup NamedAll(r.ptr),
                 <<"TestOK", r, down>>)
    /\ UNCHANGED vars

\* -------------------------------------------------------------- observation
Table == {[loc |-> loc, q |-> q, alts |-> Out(cfg, sys, down, loc, q)] : loc \in Locs, q \in Queries}
Edges == {[req |-> r, res |-> Results(cfg, sys, r)] : r \in ReqsIn(cfg)}

StateRec ==
    [cfg |-> cfg, sys |-> sys, down |-> down, tab |-> Table,
     canfail |-> FailSet \ down,
     \* (the outcome of a test does not depend on the configuration)
     tests |-> IF cfg = Cfg0 THEN {[req |-> r, out |-> TestOut(r, down)] : r \in TestReqs} ELSE {},
     edges |-> IF down = {} THEN Edges ELSE {}]

Observe == PrintT(<<"@@V", ToJson(StateRec)>>) /\ UNCHANGED vars

Next ==
    \/ \E r \in ReqsIn(cfg) : SetConfigAccepted(r) \/ SetConfigRejected(r)
    \/ \E loc \in Locs, q \in Queries : Query(loc, q)
    \/ \E u \in FailSet : UpstreamFails(u) \/ UpstreamRecovers(u)
    \/ \E r \in TestReqs : TestUpstreams(r)
    \/ Observe

Spec == Init /\ [][Next]_vars

\* --------------------------------------------------------------- invariants
TypeOK ==
    /\ cfg.up.gen \subseteq Up /\ cfg.fb.gen \subseteq Up /\ cfg.ptr.gen \subseteq Up
    /\ cfg.use \in BOOLEAN
    /\ down \subseteq FailSet /\ sys \subseteq Up

StoredValid == CfgValid(cfg, sys)

\* Every question has an admissible outcome, and a question whose every
\* admissible upstream set is the same has exactly one.
Decided ==
    \A loc \in Locs, q \in Queries :
        LET O == Out(cfg, sys, down, loc, q) IN
        /\ O # {}
        /\ (q.k = "a" /\ q.c = "plain" /\ Cardinality(Sel(cfg.up, q.n)) = 1 /\ Cardinality(FbSel(cfg.fb, q.n)) = 1)
               => Cardinality(O) = 1

\* ================================================================ universes
Com   == <<"com">>
Ex    == <<"com", "example">>
Www   == <<"com", "example", "www">>
AWww  == <<"com", "example", "www", "a">>
Mail  == <<"com", "example", "mail">>
Other == <<"org", "other">>
Lan(h) == <<"lan", h>>
ArpaV4 == <<"arpa", "in-addr">>
Arpa(a, b, c, d) == <<"arpa", "in-addr", a, b, c, d>>

QA(n)       == [k |-> "a", n |-> n, c |-> "plain"]
QLan(n, c)  == [k |-> "a", n |-> n, c |-> c]
QPtr(n, c)  == [k |-> "ptr", n |-> n, c |-> c]

\* The questions about private reverse lookups and DHCP names (the harness
\* leases 192.168.11.5 to "leasebox", the hosts file names 192.168.11.9).
PtrLease == QPtr(Arpa("192", "168", "11", "5"), "privknown")
PtrHosts == QPtr(Arpa("192", "168", "11", "9"), "privknown")
PtrUnk   == QPtr(Arpa("192", "168", "11", "77"), "privunknown")
PtrPub   == QPtr(Arpa("8", "8", "4", "4"), "pub")
LanKnown == QLan(Lan("leasebox"), "lanknown")
LanUnk   == QLan(Lan("nobody"), "lanunknown")

NearAny(c, r) == TRUE
OneBoot  == {"b1"}
OnePtr   == {NoList}
UseOff   == {FALSE}
LocLocal == {"local"}
LocBoth  == {"local", "ext"}
SysNone  == {{}}
SysBoth  == {{}, {"u4"}}
FailNone == {}
FailPtr  == {"u3", "u4"}

\* ------------------------------------------------- universe "sel": selection
\* upstream_dns: general upstreams x at most one section per level com /
\* example.com (plain or subdomains-only) / www.example.com (plain or
\* subdomains-only), each naming upstreams or "#"; fallback_dns: none,
\* general, general + a section.  Requests change ONE component of one list
\* (every list is reachable from every other; what a request carries is
\* always a whole list).
LvlOpts(d, vals) ==
    {{}} \cup {{Sec(Pat(d, FALSE), v)} : v \in vals} \cup {{Sec(Pat(d, TRUE), v)} : v \in vals}
TopOpts(vals) == {{}} \cup {{Sec(Pat(Com, FALSE), v)} : v \in vals}

SelUpListsOf(gens, topvals, vals) ==
    {List(g, a \cup b \cup c) : g \in gens, a \in TopOpts(topvals), b \in LvlOpts(Ex, vals), c \in LvlOpts(Www, vals)}

SelUpT == SelUpListsOf({{"u1"}, {"u1", "u2"}}, {{"u3"}, {}}, {{"u2"}, {"u2", "u3"}, {}})
SelUpQ == SelUpListsOf({{"u1"}, {"u1", "u2"}}, {{"u3"}}, {{"u2"}, {}})

SelFbT == {NoList, List({"u4"}, {}), List({"u3", "u4"}, {}), List({"u4"}, {Sec(Pat(Ex, FALSE), {"u3"})})}
SelFbQ == {NoList, List({"u4"}, {}), List({"u4"}, {Sec(Pat(Ex, FALSE), {"u3"})})}

SelQueries == {QA(Other), QA(Com), QA(Ex), QA(Www), QA(AWww), QA(Mail)}
SelShapes == {{"up"}, {"fb"}}

Level(l, k) == {s \in l.secs : Len(s.p.d) = k}
Diff(l, m) == Cardinality({k \in 1..3 : Level(l, k) # Level(m, k)}) + (IF l.gen # m.gen THEN 1 ELSE 0)
NearSel(c, r) ==
    /\ "up" \in r.has => Diff(c.up, r.up) = 1
    /\ "fb" \in r.has => r.fb # c.fb

\* ---------------------------------------- universe "val": validation, merge
\* Small valid universes, every kind of invalid line, every request shape:
\* single fields (partial updates), the private pair, and the whole form as
\* the settings page sends it with at most two fields differing from the
\* stored ones.
ValA == List({"u1"}, {})
ValB == List({"u1"}, {Sec(Pat(Ex, FALSE), {"u2"})})
UpBadKinds == {"scheme", "port", "nosection", "noupstream", "domain"}
ValUpLists == {ValA, ValB} \cup {Bad(ValB, k) : k \in UpBadKinds}
ValFbLists == {NoList, List({"u4"}, {})} \cup {Bad(List({"u4"}, {}), k) : k \in {"scheme", "nosection"}}
ValBootVals == {"b1", "b2", "empty", "comment", "blank", "hostname", "scheme", "section"}
PtrU3 == List({"u3"}, {})
ValPtrLists ==
    {NoList, PtrU3, WithSelf(PtrU3), WithSelf(NoList)}
        \cup {Bad(PtrU3, k) : k \in {"scheme", "notarpa", "publicarpa"}}
ValShapes == {{"up"}, {"fb"}, {"boot"}, {"ptr"}, {"use"}, {"ptr", "use"}, Fields}
ValQueries == {QA(Other), QA(Www), PtrUnk, PtrPub}

Changed(c, r) ==
    {f \in {"up", "fb", "ptr", "use"} : r[f] # c[f]}
        \cup (IF r.boot # c.boot /\ ~(r.boot = "empty" /\ c.boot = "default") THEN {"boot"} ELSE {})
NearVal(c, r) == r.has = Fields => Cardinality(Changed(c, r)) <= 2

\* -------------------------------------- universe "ptr": private reverse DNS
\* upstream_dns fixed, with a section for in-addr.arpa (a recipe many
\* installations use) that must never see private reverse questions;
\* fallback none or u2; local_ptr_upstreams: none (-> OS resolvers), one,
\* two, with AdGuard Home's own address, with a section for
\* 168.192.in-addr.arpa or 10.in-addr.arpa.
PtrUp == List({"u1"}, {Sec(Pat(ArpaV4, FALSE), {"u2"})})
Rev192 == <<"arpa", "in-addr", "192", "168">>
Rev10  == <<"arpa", "in-addr", "10">>
PtrPtrLists ==
    {NoList, PtrU3, List({"u3", "u4"}, {}), WithSelf(PtrU3), WithSelf(NoList),
     List({"u4"}, {Sec(Pat(Rev192, FALSE), {"u3"})}), List({"u4"}, {Sec(Pat(Rev10, FALSE), {"u3"})})}
PtrFbLists == {NoList, List({"u2"}, {})}
PtrUpLists == {PtrUp}
\* test_upstream_dns requests of this universe (u3 and u4 may be failing).
PtrTestReqs ==
    {Req({"up", "fb", "ptr"}, u, f, "-", p, FALSE) :
        u \in {PtrUp, Bad(PtrUp, "scheme"), Bad(ValB, "nosection"), List({"u1", "u4"}, {Sec(Pat(Ex, TRUE), {"u3"})})},
        f \in {NoList, List({"u2"}, {}), Bad(List({"u4"}, {}), "port")},
        p \in {NoList, PtrU3, List({"u3", "u4"}, {}), Bad(PtrU3, "scheme")}}
NoTests == {}
PtrShapes == {{"up"}, {"fb"}, {"ptr"}, {"use"}, {"ptr", "use"}}
PtrQueries == {QA(Other), PtrLease, PtrHosts, PtrUnk, PtrPub, LanKnown, LanUnk}
=============================================================================
