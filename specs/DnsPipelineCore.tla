-------------------------- MODULE DnsPipelineCore --------------------------
(***************************************************************************)
(* The request pipeline of dnsforward.Server.handleDNSRequest as pure   *)
(* operators over a pipeline record, so that the stepwise model            *)
(* (DnsPipeline.tla, one action per stage), the vector generator (one      *)
(* verdict table per configuration) and trace validation                   *)
(* (TraceDnsPipeline.tla) share one text.                                  *)
(*                                                                         *)
(* cfg  [rules   set of rules (RuleEngine.tla),                            *)
(*       mode    "default"|"refused"|"nxdomain"|"null_ip"|"custom_ip",     *)
(*       prot    "on"|"off"|"paused" (off until a future instant)|         *)
(*               "expired" (pause already over: on again),                 *)
(*       filt    BOOLEAN  global "filtering enabled",                      *)
(*       svc     "none"|"active"|"paused"   a blocked service configured   *)
(*               globally, and whether its schedule pauses it now: the     *)
(*               pause is in effect iff now, read in the SCHEDULE's time   *)
(*               zone, lies in the range of that zone's current day (the   *)
(*               harness picks zones whose weekday differs from the        *)
(*               server's, with different ranges on the two days),         *)
(*       client  [known   c1 is a persistent client,                       *)
(*                useOwn  it uses its own settings,                        *)
(*                filt    its own "filtering enabled",                     *)
(*                svc     "inherit" | "none" | "active" | "paused" -- its  *)
(*                        OWN set holds another service than the global],  *)
(*       aaaaOff BOOLEAN  AAAA resolving disabled (C02: IPv6 hints),       *)
(*       cache   BOOLEAN  the proxy's response cache is on,                *)
(*       cust    1 | 2    which custom blocking addresses are configured]  *)
(* req  [name, qtype \in {"A","AAAA","HTTPS","TXT"}, client \in {c1,c2},   *)
(*       cid \in {"", "x", "kid"}]                                         *)
(* client is the source ADDRESS; cid the ClientID of an encrypted request  *)
(* ("" none, "kid" the one configured for the persistent client, "x" one   *)
(* that is configured for nobody).  The persistent client, when there is   *)
(* one, owns address c1 and ClientID "kid"; a request is its own when the  *)
(* ClientID says so or, failing that, when the address does.               *)
(*                                                                         *)
(* Legacy rewrites, the hosts container, safe browsing, parental control   *)
(* and safe search are absent from every configuration (they belong to     *)
(* C06 / C19); access lists (stage Before) are empty (C03).                *)
(***************************************************************************)
EXTENDS RuleEngine

CONSTANTS SvcDomains,   \* registrable domains of the GLOBALLY blocked service
          Svc2Domains   \* ... of the service in a client's OWN set (a different one)

\* ------------------------------------------------------- response classes
\* What the client gets, as far as the properties name it:
\*   "up"     the upstream's answer, intact, for the original question
\*   "nx"     NXDOMAIN, no answer records        "ref"  REFUSED
\*   "empty"  NOERROR without answer records (NODATA with or without SOA)
\*   "ip"     NOERROR with address records of the asked type carrying exactly
\*            the address tokens a ("null4"/"null6" = 0.0.0.0 / ::,
\*            "cust4"/"cust6" (or "cust4b"/"cust6b") = the configured custom addresses,
\*            "r1","r2","r6" = addresses written in hosts-style lines)
Cls(c, a) == [c |-> c, a |-> a]
Up == Cls("up", {})

NullTok(qt) == IF qt = "AAAA" THEN "null6" ELSE "null4"
\* cfg.cust \in {1, 2} says WHICH pair of custom blocking addresses is configured
\* (the configuration space of custom_ip includes the addresses themselves).
CustTok(cu, qt) == IF cu = 1 THEN (IF qt = "AAAA" THEN "cust6" ELSE "cust4")
                   ELSE (IF qt = "AAAA" THEN "cust6b" ELSE "cust4b")

\* The synthetic response of a blocking mode -- as a SET of admissible
\* classes, because the statement does not pin everything:
\*  * for A/AAAA the class is fixed by the mode (a singleton), except in
\*    default mode when the block comes from hosts-style lines none of which
\*    has an address of the asked family: null address or empty answer;
\*  * for other query types the statement says "synthetic": NODATA, empty
\*    NOERROR or the mode's rcode.
ModeResponse(mode, cu, qt, ips, hosts) ==
    IF qt \in {"A", "AAAA"}
    THEN CASE mode = "refused"   -> {Cls("ref", {})}
           [] mode = "nxdomain"  -> {Cls("nx", {})}
           [] mode = "null_ip"   -> {Cls("ip", {NullTok(qt)})}
           [] mode = "custom_ip" -> {Cls("ip", {CustTok(cu, qt)})}
           [] mode = "default"   ->
                IF ips # {} THEN {Cls("ip", ips)}
                ELSE IF hosts THEN {Cls("ip", {NullTok(qt)}), Cls("empty", {})}
                ELSE {Cls("ip", {NullTok(qt)})}
    ELSE {Cls("empty", {})} \cup
         (CASE mode = "refused"  -> {Cls("ref", {})}
            [] mode = "nxdomain" -> {Cls("nx", {})}
            [] OTHER             -> {})

\* ------------------------------------------------------ per-request settings
\* dnsforward.Server.UpdatedProtectionStatus
EffProt(cfg) == cfg.prot \in {"on", "expired"}

Persistent(cfg, req) == cfg.client.known /\ (req.cid = "kid" \/ req.client = "c1")

\* client.Storage.ApplyClientFiltering: own settings only when asked for.
EffFilt(cfg, req) ==
    IF Persistent(cfg, req) /\ cfg.client.useOwn THEN cfg.client.filt ELSE cfg.filt

\* filtering.DNSFilter.ApplyAdditionalFiltering: own blocked services replace
\* the global ones; a schedule that contains "now" pauses them.
OwnSvc(cfg, req) == Persistent(cfg, req) /\ cfg.client.svc # "inherit"
EffSvc(cfg, req) == IF OwnSvc(cfg, req) THEN cfg.client.svc ELSE cfg.svc

\* the service set that applies to the request: the client's own or the global
SvcMatches(cfg, req) ==
    \E d \in (IF OwnSvc(cfg, req) THEN Svc2Domains ELSE SvcDomains) : SubOrEq(req.name, d)

Rq(cfg, req, host, rrtype) ==
    [host |-> host, rrtype |-> rrtype, c1 |-> (req.client = "c1"), named |-> Persistent(cfg, req)]

SvcBlocked == [why |-> "S", ips |-> {}, hosts |-> FALSE]

\* filtering.DNSFilter.CheckHost: checkers in the code's order, first match
\* wins: (rewrites: none) -> (hosts container: none) -> rule engines ->
\* blocked services -> (safe browsing, parental, safe search: off).
\* Returns the SET of admissible results: the statement is silent about
\* blocked services for a client whose filtering is off (the code still
\* blocks them: services are gated by protection only).
CheckHost(cfg, req) ==
    LET filt == EffFilt(cfg, req)
        prot == EffProt(cfg)
        m    == MatchHost(cfg.rules, filt, prot, Rq(cfg, req, NameHost(req.name), req.qtype))
    IN IF m.why # "N" THEN {m}
       ELSE IF prot /\ EffSvc(cfg, req) = "active" /\ SvcMatches(cfg, req)
            THEN (IF filt THEN {SvcBlocked} ELSE {SvcBlocked, NotFound})
            ELSE {NotFound}

\* --------------------------------------------------------- answer filtering
\* An upstream answer is a sequence of abstract resource records
\*   [t |-> "CNAME", n |-> name] | [t |-> "A"|"AAAA", a |-> token]
\* | [t |-> "HTTPS", h4 |-> seq of tokens, h6 |-> seq of tokens] | [t |-> "TXT"]
\* (all with the fields t, o, n, a, h4, h6).  o is the owner name of the record
\* (<<>> = the question name).  The statement says "wherever in the answer
\* section the offending record sits ... in any order": neither the position
\* nor the owner of a record matters, so no operator below reads o; it is
\* part of the vector so that the harness renders exactly that section.
\* The (host, rrtype) pairs dnsforward.filterDNSResponse looks up for one RR.
RRChecks(rr, aaaaOff) ==
    CASE rr.t = "CNAME" -> <<[h |-> NameHost(rr.n), t |-> "CNAME"]>>
      [] rr.t = "A"     -> <<[h |-> IPHost(rr.a), t |-> "A"]>>
      [] rr.t = "AAAA"  -> <<[h |-> IPHost(rr.a), t |-> "AAAA"]>>
      [] rr.t = "HTTPS" ->
            [i \in 1..Len(rr.h4) |-> [h |-> IPHost(rr.h4[i]), t |-> "HTTPS"]] \o
            (IF aaaaOff THEN <<>>
             ELSE [i \in 1..Len(rr.h6) |-> [h |-> IPHost(rr.h6[i]), t |-> "HTTPS"]])
      [] OTHER          -> <<>>

\* The rule-engine result for one looked-up host of an answer record
\* (filtering and protection are on when this is evaluated).
RRResult(cfg, req, chk) == MatchHost(cfg.rules, TRUE, TRUE, Rq(cfg, req, chk.h, chk.t))

\* An RR is offending when one of its hosts is blocked; an allowed host does
\* not stop the scan (allow rules override only "that same name or address").
RRBlocked(cfg, req, rr) ==
    LET cs == RRChecks(rr, cfg.aaaaOff)
    IN \E i \in DOMAIN cs : RRResult(cfg, req, cs[i]).why = "B"

\* hosts-flag of the first blocking lookup of rr (widens ModeResponse only).
RRHostsFlag(cfg, req, rr) ==
    LET cs == RRChecks(rr, cfg.aaaaOff)
        i  == CHOOSE k \in DOMAIN cs : /\ RRResult(cfg, req, cs[k]).why = "B"
                                       /\ \A j \in 1..(k - 1) : RRResult(cfg, req, cs[j]).why # "B"
    IN RRResult(cfg, req, cs[i]).hosts

\* ------------------------------------------------------------- the pipeline
\* Pipeline record:
\*   stage   "before","initial","filterbefore","upstream","filterafter","log","done"
\*   set     a response exists (pctx.Res # nil)
\*   local   ... and it was made locally (not received from the upstream)
\*   cls     its class
\*   upLog   names sent to the upstream, in order
\*   why     filtering result: "N" not found, "A" allow-listed, "B" blocked by a
\*           rule, "S" blocked service, "R" blocked because of an answer record
\*   ips, hosts   see MatchHost
\*   sProt, sFilt settings snapshot taken by Initial
\*   ans     the upstream's answer section
\*   hit     this question was asked on this server before, the response cache
\*           is on and it serves the stored upstream answer this time (the
\*           statement does not say when a cache keeps an answer, so a repeated
\*           question may be a hit or not; see VerdictRepeat)
P0 == [stage |-> "before", set |-> FALSE, local |-> FALSE, cls |-> Up, upLog |-> <<>>,
       why |-> "N", ips |-> {}, hosts |-> FALSE, sProt |-> FALSE, sFilt |-> FALSE, ans |-> <<>>,
       hit |-> FALSE]
P0Hit == [P0 EXCEPT !.hit = TRUE]

\* One stage.  ups = the answers the upstream may give.  Returns the set of
\* successor records (several only where the statement leaves a choice).
Step(cfg, req, p, ups) ==
    CASE p.stage = "before" ->          \* access lists are empty here (C03)
            {[p EXCEPT !.stage = "initial"]}
      [] p.stage = "initial" ->         \* processInitial: settings snapshot
            {[p EXCEPT !.stage = "filterbefore", !.sProt = EffProt(cfg), !.sFilt = EffFilt(cfg, req)]}
      [] p.stage = "filterbefore" ->    \* processFilteringBeforeRequest
            IF p.set THEN {[p EXCEPT !.stage = "upstream"]}
            ELSE UNION {
                   IF m.why \in {"B", "S"}
                   THEN {[p EXCEPT !.stage = "upstream", !.set = TRUE, !.local = TRUE, !.cls = c,
                                   !.why = m.why, !.ips = m.ips, !.hosts = m.hosts]
                          : c \in ModeResponse(cfg.mode, cfg.cust, req.qtype, m.ips, m.hosts)}
                   ELSE {[p EXCEPT !.stage = "upstream", !.why = m.why]}
                 : m \in CheckHost(cfg, req)}
      [] p.stage = "upstream" ->        \* processUpstream: only without a response
            IF p.set THEN {[p EXCEPT !.stage = "filterafter"]}
            ELSE IF p.hit                 \* served from the response cache: the stored
                                          \* upstream answer, no exchange -- and it is
                                          \* still an upstream answer for FilterAfter
            THEN {[p EXCEPT !.stage = "filterafter", !.set = TRUE, !.local = FALSE, !.cls = Up,
                            !.ans = ua] : ua \in ups}
            ELSE {[p EXCEPT !.stage = "filterafter", !.set = TRUE, !.local = FALSE, !.cls = Up,
                            !.upLog = Append(p.upLog, req.name), !.ans = ua] : ua \in ups}
      [] p.stage = "filterafter" ->     \* processFilteringAfterResponse
            IF \/ p.why = "A"                     \* queried name allow-listed
               \/ ~p.sProt \/ p.local \/ ~p.sFilt \* protection off / not from upstream / filtering off
            THEN {[p EXCEPT !.stage = "log"]}
            ELSE IF \E i \in DOMAIN p.ans : RRBlocked(cfg, req, p.ans[i])
                 THEN LET i == CHOOSE k \in DOMAIN p.ans :
                                 /\ RRBlocked(cfg, req, p.ans[k])
                                 /\ \A j \in 1..(k - 1) : ~RRBlocked(cfg, req, p.ans[j])
                          hf == RRHostsFlag(cfg, req, p.ans[i])
                      IN {[p EXCEPT !.stage = "log", !.local = TRUE, !.cls = c, !.why = "R", !.hosts = hf]
                           : c \in ModeResponse(cfg.mode, cfg.cust, req.qtype, {}, hf)}
                 ELSE {[p EXCEPT !.stage = "log"]}
      [] p.stage = "log" ->             \* query log / statistics (C08)
            {[p EXCEPT !.stage = "done"]}
      [] OTHER -> {p}

RECURSIVE RunSet(_, _, _, _)
RunSet(cfg, req, ups, ps) ==
    IF \A p \in ps : p.stage = "done" THEN ps
    ELSE RunSet(cfg, req, ups,
                UNION {IF p.stage = "done" THEN {p} ELSE Step(cfg, req, p, ups) : p \in ps})

\* What the harness can observe of a finished pipeline.
Outcome(p) == [why |-> p.why, c |-> p.cls.c, a |-> p.cls.a, calls |-> Len(p.upLog)]

\* The admissible outcomes for one request when the upstream answers ua.
Verdict(cfg, req, ua) == {Outcome(p) : p \in RunSet(cfg, req, {ua}, {P0})}
\* ... and for a question that was asked on this server before (under this or
\* an EARLIER configuration): the verdict depends on the CURRENT configuration
\* only; with the response cache on the stored answer may be used instead of
\* a new exchange, and it is filtered like a fresh one.
VerdictHit(cfg, req, ua) == {Outcome(p) : p \in RunSet(cfg, req, {ua}, {P0Hit})}
VerdictRepeat(cfg, req, ua) ==
    IF cfg.cache THEN Verdict(cfg, req, ua) \cup VerdictHit(cfg, req, ua) ELSE Verdict(cfg, req, ua)
\* What an outcome would have been with a fresh exchange (for the statements,
\* which count exchanges).
AsFetched(o, hit) == IF hit /\ (o.c = "up" \/ o.why = "R") THEN [o EXCEPT !.calls = 1] ELSE o
\* The second answer equals the first: a repeat differs from a first-time
\* outcome at most in the number of exchanges.
Answer(o) == [why |-> o.why, c |-> o.c, a |-> o.a]
RepeatEqualsFirst(cfg, req, ua) ==
    {Answer(o) : o \in VerdictRepeat(cfg, req, ua)} = {Answer(o) : o \in Verdict(cfg, req, ua)}

\* ------------------------------------------- the statements, declaratively
\* Written from the sentences of C01/C02 and NOT through Step/MatchHost, so
\* that checking them against the pipeline is not a tautology.
Live(rs) == {r \in rs : ~r.bad /\ ~\E b \in rs : Negates(b, r)}   \* "enabled" rules of one engine
RuleApplies(r, rq) ==
    IF IsNet(r) THEN NetMatches(r, rq)
    ELSE ~rq.host.isip /\ r.tgt.n = rq.host.n
\* the $badfilter twin must itself apply to the request
LiveFor(rs, rq) == {r \in rs : RuleApplies(r, rq) /\ ~r.bad
                               /\ ~\E b \in rs : b.bad /\ NetMatches(b, rq) /\ Negates(b, r)}

AllowListed(cfg, rq) == LiveFor(AllowRules(cfg.rules), rq) # {}
\* "matches an enabled blocking rule ... and no higher-priority allow rule":
\* hosts-style lines yield to every exception; a network block rule beats an
\* exception only when it alone is $important.
StmtRuleBlocked(cfg, rq) ==
    LET live     == LiveFor(BlockRules(cfg.rules), rq)
        blockers == {r \in live : r.kind \in {"block", "hosts"}}
        excepts  == {r \in live : r.kind = "allow"}
    IN /\ ~AllowListed(cfg, rq)
       /\ \E b \in blockers : \A e \in excepts : b.kind = "block" /\ b.imp /\ ~e.imp
StmtExcepted(cfg, rq) ==
    \/ AllowListed(cfg, rq)
    \/ \E r \in LiveFor(BlockRules(cfg.rules), rq) : r.kind = "allow"
StmtSvcBlocked(cfg, req) ==
    LET rq == Rq(cfg, req, NameHost(req.name), req.qtype)
    IN /\ EffSvc(cfg, req) = "active" /\ SvcMatches(cfg, req)
       /\ ~StmtRuleBlocked(cfg, rq) /\ ~StmtExcepted(cfg, rq)
StmtBlocked(cfg, req) ==
    \/ StmtRuleBlocked(cfg, Rq(cfg, req, NameHost(req.name), req.qtype))
    \/ StmtSvcBlocked(cfg, req)

IsBlockedOutcome(o) == o.why \in {"B", "S"}

\* C01, over the outcome set os of one (cfg, req) whose upstream answer is
\* harmless (no record matches any rule).
C01BlockedNeverForwarded(cfg, req, os) ==
    \A o \in os : IsBlockedOutcome(o) => o.calls = 0
C01BlockedAnswerIsSynthetic(cfg, req, os) ==
    \A o \in os : IsBlockedOutcome(o) =>
        /\ o.c # "up"
        /\ \E ips \in SUBSET {"null4", "r1", "r2", "r6"}, h \in BOOLEAN :
               Cls(o.c, o.a) \in ModeResponse(cfg.mode, cfg.cust, req.qtype, ips, h)
C01StatementBlocks(cfg, req, os) ==
    (EffProt(cfg) /\ EffFilt(cfg, req) /\ StmtBlocked(cfg, req)) => \A o \in os : IsBlockedOutcome(o)
C01AllowedOrUnmatchedForwarded(cfg, req, os) ==
    (EffProt(cfg) /\ EffFilt(cfg, req) /\ ~StmtBlocked(cfg, req)) =>
        \A o \in os : o.calls = 1 /\ o.c = "up" /\ o.why \in {"N", "A"}
C01ProtectionOffBlocksNothing(cfg, req, os) ==
    ~EffProt(cfg) => \A o \in os : o.calls = 1 /\ o.c = "up"
C01ClientFilteringOffSkipsLists(cfg, req, os) ==
    ~EffFilt(cfg, req) => \A o \in os : o.why \notin {"B", "A", "R"}
C01All(cfg, req, os) ==
    /\ os # {}
    /\ C01BlockedNeverForwarded(cfg, req, os)
    /\ C01BlockedAnswerIsSynthetic(cfg, req, os)
    /\ C01StatementBlocks(cfg, req, os)
    /\ C01AllowedOrUnmatchedForwarded(cfg, req, os)
    /\ C01ProtectionOffBlocksNothing(cfg, req, os)
    /\ C01ClientFilteringOffSkipsLists(cfg, req, os)

\* C02, over the outcome set os of one (cfg, req, upstream answer ua) where
\* the query itself was forwarded.
\* Response filtering applies: protection and filtering on, name not allow-listed.
C02Applies(cfg, req) ==
    /\ EffProt(cfg) /\ EffFilt(cfg, req)
    /\ ~StmtExcepted(cfg, Rq(cfg, req, NameHost(req.name), req.qtype))
\* the record at position i reveals something blocked
C02BadAt(cfg, req, ua, i) ==
    LET cs == RRChecks(ua[i], cfg.aaaaOff)
    IN \E k \in DOMAIN cs : StmtRuleBlocked(cfg, Rq(cfg, req, cs[k].h, cs[k].t))
C02Forwarded(os) == \A o \in os : o.calls = 1
C02BadRecordAnywhereBlocks(cfg, req, ua, os) ==
    \A i \in DOMAIN ua :
        (C02Forwarded(os) /\ C02Applies(cfg, req) /\ C02BadAt(cfg, req, ua, i)) =>
            \A o \in os : /\ o.why = "R" /\ o.c # "up"
                          /\ \E h \in BOOLEAN : Cls(o.c, o.a) \in ModeResponse(cfg.mode, cfg.cust, req.qtype, {}, h)
C02NoMatchDeliveredUnchanged(cfg, req, ua, os) ==
    (C02Forwarded(os) /\ C02Applies(cfg, req) /\ ~\E i \in DOMAIN ua : C02BadAt(cfg, req, ua, i)) =>
        \A o \in os : o.c = "up" /\ o.why = "N"
C02NotApplicableDeliveredUnchanged(cfg, req, ua, os) ==
    (C02Forwarded(os) /\ ~C02Applies(cfg, req)) => \A o \in os : o.c = "up" /\ o.why # "R"
C02All(cfg, req, ua, os) ==
    /\ os # {}
    /\ C02BadRecordAnywhereBlocks(cfg, req, ua, os)
    /\ C02NoMatchDeliveredUnchanged(cfg, req, ua, os)
    /\ C02NotApplicableDeliveredUnchanged(cfg, req, ua, os)
=============================================================================
