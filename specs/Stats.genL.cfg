SPECIFICATION Spec
CONSTANTS
  Limits = {2, 3}
  MaxLim = 3
  NCats = 2
  MaxLive = 5
  MaxTick = 4
  DayLen = 24
  DailyAbove = 7
  EmitEdges = TRUE
INVARIANTS TypeOK CountedOnceInItsHour SurvivesRestart ExactlyOneCategory Conservation OldNotReported HourlySumsToTotal DailyNeverExceeds
