\* Termination on the long-chain family: chains of up to 33 links into cycles
\* of length 1..3 and 33; liveness under weak fairness plus the variant.
CONSTANTS U = "chain" MaxLen = 0 EmitFrom = 1 Shard = 0 Perms = FALSE Families = 3 Mode = "live"
SPECIFICATION Spec
PROPERTIES Terminates VariantGrows
INVARIANTS VariantBounded MachineAgrees
