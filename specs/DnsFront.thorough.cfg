SPECIFICATION Spec
CONSTANTS Full = TRUE
INVARIANTS Statements TypeOK
