SPECIFICATION Spec
CONSTANTS BlockLists = {"b1"}
          AllowLists = {"a1"}
          AsIsC = FALSE
          CosmC = FALSE
          Configs <- ConfHTTP
          ForcedBeh <- BehTiny
          SchedBeh <- BehTiny
          FileBeh <- BehTiny
          SetURLBeh <- BehSetURL
          Toggle = FALSE
          SetURLAsIs = TRUE
INVARIANTS InvCoherent
