"""G07 -- the life cycle of filter lists through the admin API (growth item).

  FilterListsCore.tla   the abstract table of lists (side, name, enabled, file content, id), custom rules,
                        global switch, ids handed out; one function per admin request; the rules in force
                        as a function of the table (Verdict); the statement as step predicates.
  FilterLists.tla       closed state graph over small universes; every transition asserted and emitted as an
                        edge; edge-covering tours are walked on real DNSFilters through the real registered
                        handlers, comparing after every step reply class, status, files, ids and the verdicts
                        of check_host / CheckHost.
  TraceFilterLists.tla  validates seeded random longer histories over three sources.

Each real DNSFilter lives in a testing/synctest bubble (virtual clock; synctest.Wait = barrier for the
asynchronous engine rebuild).
"""
import collections
import concurrent.futures
import json
import os
import random
import re
import subprocess
import time

import vlib

PKG = "internal/filtering"
FILES = ["zz_verif_common_test.go", "zz_verif_g07_test.go"]
SHARDS = 6

# universe -> (cfg, urls, whether "blank" is served)
UNIVERSES = [
    ("core", "FilterLists.core.cfg", ["u1", "u2"], False),
    ("verdicts", "FilterLists.verdicts.cfg", ["u1", "u2"], False),
    ("names", "FilterLists.names.cfg", ["u1", "u2"], True),
    ("three", "FilterLists.three.cfg", ["u1", "u2", "u3"], False),      # thorough
    ("threeq", "FilterLists.threeq.cfg", ["u1", "u2", "u3"], False),    # quick: block side only
]
# edges walked per universe: quick / thorough (None = all)
BUDGET = {
    "core": (2000, None), "verdicts": (1400, None), "names": (900, None), "three": (None, None), "threeq": (1200, None),
}

K_ID = "id-reused-after-restart-within-the-second"
K_BLANK = "set-url-blank-body-half-applied"


# ------------------------------------------------------------------ harness
def build(ctx):
    if getattr(ctx, "_g07_bin", None):
        return ctx._g07_bin
    overlay = {os.path.join(vlib.REPO, PKG, f): os.path.join(vlib.HARNESS, PKG, f) for f in FILES}
    ov = ctx.path("g07_overlay.json")
    with open(ov, "w") as fh:
        json.dump({"Replace": overlay}, fh)
    binp = ctx.path("g07_filtering.test")
    t = time.time()
    try:
        p = subprocess.run(["go", "test", "-c", "-overlay", ov, "-vet=off", "-o", binp, "./" + PKG], cwd=vlib.REPO,
                           env=vlib.go_env({"GOEXPERIMENT": "synctest"}), capture_output=True, text=True, timeout=900)
    except subprocess.TimeoutExpired:
        raise vlib.Inconclusive("go test -c timeout")
    ctx.log("go test -c %s: rc=%d %.1fs" % (PKG, p.returncode, time.time() - t))
    if p.returncode != 0 or not os.path.exists(binp):
        raise vlib.Inconclusive("harness build failed in %s:\n%s" % (PKG, (p.stdout + p.stderr)[-3000:]))
    ctx._g07_bin = binp
    return binp


def go(ctx, run, env, timeout=900):
    binp = build(ctx)
    e = vlib.go_env({"VERIF_SEED": str(ctx.seed), "VERIF_TIER": ctx.tier, "GOMAXPROCS": "2", "VERIF_PAR": "2",
                     "GOEXPERIMENT": "synctest"})
    e.update(env)
    try:
        p = subprocess.run([binp, "-test.run", run, "-test.timeout", "%ds" % max(60, timeout - 20)],
                           cwd=os.path.join(vlib.REPO, PKG), env=e, capture_output=True, text=True, timeout=timeout)
    except subprocess.TimeoutExpired:
        raise vlib.Inconclusive("harness test timeout (%s)" % run)
    out = p.stdout + p.stderr
    if "no tests to run" in out:
        raise vlib.Inconclusive("harness test %s not found" % run)
    return p.returncode, out


def go_sharded(ctx, run, envs, timeout=900):
    build(ctx)
    t = time.time()
    with concurrent.futures.ThreadPoolExecutor(max_workers=SHARDS) as ex:
        res = list(ex.map(lambda e: go(ctx, run, e, timeout), envs))
    ctx.log("harness %s x%d: %.1fs" % (run, len(envs), time.time() - t))
    return res


def measure_policy(ctx):
    pout = ctx.path("g07_policy.ndjson")
    rc, out = go(ctx, "^TestZZVerifG07Policy$", {"VERIF_OUT": pout}, timeout=300)
    rows = [r for r in vlib.read_ndjson(pout) if r.get("kind") == "policy"]
    if rc != 0 or not rows:
        raise vlib.Inconclusive("policy measurement did not complete:\n" + out[-3000:])
    if rows[0]["votes"] not in (0, rows[0]["of"]):
        raise vlib.Inconclusive("add_url of a body without rules is accepted %d times of %d" % (rows[0]["votes"], rows[0]["of"]))
    ctx.log("measured: a list body without rules is %s by add_url" % ("accepted" if rows[0]["blank_ok"] else "refused"))
    return bool(rows[0]["blank_ok"])


# -------------------------------------------------------------------- graph
def skey(st):
    return json.dumps({"tab": st["tab"], "user": sorted(st["user"]), "fen": st["fen"], "used": sorted(st["used"]),
                       "blank": st["blank"]}, sort_keys=True)


def norm_edge(e):
    e["act"]["rules"] = sorted(e["act"]["rules"])
    e["sk"], e["dk"] = skey(e["src"]), skey(e["dst"])
    return e


def actions_taken(out):
    acts = collections.Counter()
    for m in re.finditer(r"^<(\w+) line \d+, col \d+ to line \d+, col \d+ of module \w+>: (\d+):(\d+)", out, re.M):
        acts[m.group(1)] += int(m.group(3))
    return acts


def edge_kind(e):
    """A coarse label of what an edge exercises (vacuity check, statistics)."""
    a, s, d = e["act"], e["src"], e["dst"]
    if a["a"] == "add":
        if a["url"] == "bad":
            return "add:invalid-url"
        if s["tab"][a["url"]]["p"]:
            return "add:duplicate" + ("-other-side" if s["tab"][a["url"]]["side"] != a["side"] else "")
        return "add:" + ("ok" if e["ok"] == "yes" else "refused-" + a["beh"])
    if a["a"] == "remove":
        return "remove:" + ("present" if e["sk"] != e["dk"] else ("wrong-side" if s["tab"][a["url"]]["p"] else "absent"))
    if a["a"] == "seturl":
        t = s["tab"][a["url"]]
        if not (t["p"] and t["side"] == a["side"]):
            return "seturl:" + ("wrong-side" if t["p"] else "absent")
        if a["nurl"] == "bad":
            return "seturl:invalid-url"
        if a["nurl"] != a["url"] and s["tab"][a["nurl"]]["p"]:
            return "seturl:url-taken"
        what = []
        if a["nurl"] != a["url"]:
            what.append("url")
        if a["name"] != t["name"]:
            what.append("name")
        if a["en"] != t["en"]:
            what.append("enable" if a["en"] else "disable")
        lab = "seturl:" + ("+".join(what) or "same")
        if e["dl"] != "-":
            lab += ":dl-" + ("ok" if e["ok"] == "yes" else "refused-" + a["beh"])
        return lab
    if a["a"] == "restart":
        return "restart:" + ("with-lists" if any(t["p"] for t in s["tab"].values()) else "empty")
    return a["a"]


def prone(ctx, e):
    """Edges on which an OPEN known finding is expected to show: they end a tour."""
    a = e["act"]
    if a["a"] == "seturl" and a["beh"] == "blank" and e["dl"] != "-" and not e["src"]["blank"]:
        kf = vlib.known_findings().get((ctx.prop, K_BLANK))
        return bool(kf and kf.get("status") == "open")
    return False


class Graph:
    def __init__(self, ctx, uni, urls, edges, init):
        self.ctx, self.uni, self.urls, self.edges, self.init = ctx, uni, urls, edges, init
        self.out = collections.defaultdict(list)
        for i, e in enumerate(edges):
            e["eid"] = i
            self.out[e["sk"]].append(e)
        if init not in self.out:
            raise vlib.Inconclusive("universe %s: no edge leaves the initial state" % uni)

    def path(self, start, goal):
        prev = {start: None}
        q = collections.deque([start])
        while q:
            k = q.popleft()
            if goal(k):
                p = []
                while prev[k] is not None:
                    k, e = prev[k]
                    p.append(e)
                return list(reversed(p))
            for e in self.out.get(k, []):
                if e["dk"] not in prev and not prone(self.ctx, e):
                    prev[e["dk"]] = (k, e)
                    q.append(e["dk"])
        return None

    def tours(self, rng, maxlen, select=None):
        want = None if select is None else {e["eid"] for e in select}
        pending = {}
        for k in sorted(self.out):
            es = [e for e in self.out[k] if want is None or e["eid"] in want]
            rng.shuffle(es)
            # edges that end a tour come last
            es.sort(key=lambda e: prone(self.ctx, e), reverse=True)
            pending[k] = es
        left = sum(len(v) for v in pending.values())
        walks, cur, steps, fresh = [], self.init, [], 0
        while left:
            if not pending.get(cur):
                p = self.path(cur, lambda k: bool(pending.get(k)))
                if p is None and cur == self.init and not steps:
                    raise vlib.Inconclusive("universe %s: edges unreachable from the initial state" % self.uni)
                if not p or len(steps) + len(p) >= maxlen:
                    if fresh:
                        walks.append(steps)
                    cur, steps, fresh = self.init, [], 0
                    continue
                steps += p
                cur = p[-1]["dk"]
                continue
            e = pending[cur].pop()
            left -= 1
            fresh += 1
            steps.append(e)
            cur = e["dk"]
            if prone(self.ctx, e) or len(steps) >= maxlen:
                walks.append(steps)
                cur, steps, fresh = self.init, [], 0
        if fresh:
            walks.append(steps)
        res = []
        for steps in walks:
            if want is not None:
                steps = steps[:max(i for i, e in enumerate(steps) if e["eid"] in want) + 1]
            res.append(steps)
        return res

    def shortest_to(self, e):
        p = self.path(self.init, lambda k: k == e["sk"])
        return None if p is None else p + [e]


def step_json(e, late=True):
    act = dict(e["act"])
    act["late"] = late
    return {"act": act, "ok": e["ok"], "dl": e["dl"], "used": sorted(e["src"]["used"]), "exp": e["obs"]}


def tour_json(tid, urls, steps):
    """steps: list of edges or (edge, late) pairs."""
    js = []
    for s in steps:
        e, late = s if isinstance(s, tuple) else (s, True)
        js.append(step_json(e, late))
    return {"id": tid, "urls": urls, "steps": js}


def run_tours(ctx, tours, tag):
    """tours: list of tour_json dicts.  Returns (rows, summary)."""
    order = sorted(range(len(tours)), key=lambda i: -len(tours[i]["steps"]))
    parts = [[] for _ in range(max(1, min(SHARDS, len(tours))))]
    for n, i in enumerate(order):
        parts[n % len(parts)].append(tours[i])
    envs = []
    for n, part in enumerate(parts):
        vin, vout = ctx.path("g07_tours_in_%s_%d.ndjson" % (tag, n)), ctx.path("g07_tours_out_%s_%d.ndjson" % (tag, n))
        vlib.write_ndjson(vin, part)
        envs.append({"VERIF_IN": vin, "VERIF_OUT": vout})
    rows, summ = [], {"steps": 0, "bad": 0, "tours": 0}
    for env, (rc, out) in zip(envs, go_sharded(ctx, "^TestZZVerifG07Tours$", envs)):
        part = vlib.read_ndjson(env["VERIF_OUT"])
        ss = [r for r in part if r.get("kind") == "summary"]
        if rc != 0 or not ss:
            raise vlib.Inconclusive("G07 tour harness did not complete:\n" + out[-3000:])
        rows += part
        for k in summ:
            summ[k] += ss[0][k]
    return rows, summ


def classify_step(edge, row, history):
    """Narrow classification of a reproduced disagreement on one edge; history = the steps before it."""
    a = edge["act"]
    soon = any(not late and e["act"]["a"] == "restart" for e, late in history)
    if a["a"] == "add" and soon and any(d.startswith("id:") and d.endswith(":notfresh") for d in row["diffs"]):
        return K_ID
    if a["a"] == "seturl" and a["beh"] == "blank" and edge["dl"] != "-" and not edge["src"]["blank"] and row["code"] // 100 == 2:
        # accepted, although add_url refuses such a body; and then neither the new nor the old list is in force
        return K_BLANK
    return None


def what_step(edge, row):
    a = {k: v for k, v in edge["act"].items() if v not in ("-", [], None)}
    return "after %s (reply %s, contacted %s): %s differ; expected reply %s, contact %s, state %s; observed %s" % (
        json.dumps(a, sort_keys=True), row["code"], row["dl"], ",".join(row["diffs"]), edge["ok"], edge["dl"],
        json.dumps(edge["obs"], sort_keys=True), json.dumps(row["got"], sort_keys=True))


def replay_universe(ctx, g, rng, tag, budget, extra_tours=()):
    moves = g.edges
    select = None
    if budget is not None and len(moves) > budget:
        select = rng.sample(moves, budget)
    walks = [[(e, True) for e in w] for w in g.tours(rng, 120, select)] + [list(t) for t in extra_tours]
    tours = [tour_json(i, g.urls, w) for i, w in enumerate(walks)]
    rows, summ = run_tours(ctx, tours, tag)
    bad = [r for r in rows if r.get("kind") == "bad"]
    skipped = [r for r in rows if r.get("kind") == "skip"]
    res = {"tours": len(tours), "steps": summ["steps"], "bad": len(bad), "skipped": len(skipped),
           "lost": sum(r.get("lost", 0) for r in rows if r.get("kind") == "truncated"),
           "known": 0, "flaky": 0, "not_rerun": 0, "truncated_by_known": 0, "contact_mismatch": 0,
           "planned": sum(len(t["steps"]) for t in tours), "edges": len(moves),
           "selected": len(moves) if select is None else len(select)}
    walked = set()
    bad_at = {r["tour"]: r["step"] for r in bad}
    for i, w in enumerate(walks):
        upto = bad_at.get(i, len(w) - 1)
        for e, _ in w[:upto + 1]:
            walked.add(e["eid"])
    res["distinct_edges_walked"] = len(walked)
    res["nontrivial"] = sum(1 for i in walked if g.edges[i]["sk"] != g.edges[i]["dk"] or g.edges[i]["dl"] != "-")
    if skipped:
        ctx.log("skipped tours, first: %s" % json.dumps(skipped[0])[:600])
    if not bad:
        return res
    # Reproduce in isolation, a second time: the shortest history from a fresh
    # installation to the source state, then the edge (for tours with a quick
    # restart: the tour itself); if that does not show it, the prefix of the
    # original tour under its original id (same spellings and failure flavours).
    todo, alike = [], collections.Counter()
    for r in bad:
        w = walks[r["tour"]]
        edge, hist = w[r["step"]][0], w[:r["step"]]
        sig = (edge["act"]["a"], edge_kind(edge), tuple(sorted({d.split(":")[0] for d in r["diffs"]})))
        alike[sig] += 1
        if alike[sig] > 10:
            res["not_rerun"] += 1
            continue
        todo.append((r, edge, hist))
    if len(todo) > 300:
        raise vlib.Inconclusive("%d disagreements to reproduce one by one (first: %s)" % (len(todo), what_step(todo[0][1], todo[0][0])[:800]))

    def rerun(items, stage):
        iso = [tour_json(tid, g.urls, steps) for tid, steps in items]
        rows2, _ = run_tours(ctx, iso, "%s_iso%d" % (tag, stage))
        hit = {}
        for r2 in rows2:
            if r2.get("kind") == "bad":
                hit.setdefault((r2["tour"], r2["step"]), r2)
        return [hit.get((tid, len(steps) - 1)) for tid, steps in items]

    stage1 = []
    for n, (r, edge, hist) in enumerate(todo):
        soon = any(not late for _, late in hist)
        short = None if soon else g.shortest_to(edge)
        steps = [(e, True) for e in short] if short else hist + [(edge, True)]
        stage1.append((100000 + n, steps))
    got = rerun(stage1, 1)
    retry = []
    for (tid, steps), r2, (r, edge, hist) in zip(stage1, got, todo):
        if r2 is not None and sorted(r2["diffs"]) == sorted(r["diffs"]):
            confirm(ctx, res, tag, g, steps, edge, r2)
        else:
            retry.append(((r["tour"], hist + [(edge, True)]), (r, edge, hist)))
    if retry:
        got = rerun([x[0] for x in retry], 2)
        for ((tid, steps), (r, edge, hist)), r2 in zip(retry, got):
            if r2 is not None and sorted(r2["diffs"]) == sorted(r["diffs"]):
                confirm(ctx, res, tag, g, steps, edge, r2)
            else:
                res["flaky"] += 1
    return res


def confirm(ctx, res, tag, g, steps, edge, row):
    if row["diffs"] == ["contact"]:
        # who is contacted is a sanity check of the harness, not part of the statement
        res["contact_mismatch"] += 1
        return
    key = classify_step(edge, row, steps[:-1])
    rec = {"kind": "tour", "universe": tag, "urls": g.urls, "diffs": row["diffs"],
           "observed": {"code": row["code"], "dl": row["dl"], "state": row["got"]},
           "steps": [step_json(e, late) for e, late in steps]}
    if ctx.disagreement(key, rec, what_step(edge, row)) == "known":
        res["known"] += 1
        res["truncated_by_known"] += 1


def soon_probes(g, rng, n):
    """Tours that end in: restart within the second, then add_url of a new list.  The history before it
    has no restart (a late restart would put the clock beyond every id), shortest histories first."""
    prev = {g.init: None}
    q = collections.deque([g.init])
    while q:
        k = q.popleft()
        for e in g.out.get(k, []):
            if e["dk"] not in prev and e["act"]["a"] != "restart" and not prone(g.ctx, e):
                prev[e["dk"]] = (k, e)
                q.append(e["dk"])

    def path(k):
        p = []
        while prev[k] is not None:
            k, e = prev[k]
            p.append(e)
        return list(reversed(p))

    cands = []
    for e in g.edges:
        if e["act"]["a"] != "restart" or e["sk"] not in prev or not any(t["p"] for t in e["dst"]["tab"].values()):
            continue
        adds = [a for a in g.out.get(e["dk"], []) if a["act"]["a"] == "add" and a["ok"] == "yes"]
        if adds:
            cands.append((path(e["sk"]), e, adds))
    rng.shuffle(cands)
    cands.sort(key=lambda c: len(c[0]))
    return [[(x, True) for x in p] + [(e, False), (rng.choice(adds), True)] for p, e, adds in cands[:n]]


# -------------------------------------------------------------- direction B
def trace_rows(ctx, blank_ok, only=None, tag="b"):
    if only is None:
        envs = [{"VERIF_OUT": ctx.path("g07_trace_%s_%d.ndjson" % (tag, n)), "VERIF_SHARD": "%d/%d" % (n, SHARDS),
                 "VERIF_BLANK_OK": "1" if blank_ok else "0"} for n in range(SHARDS)]
    else:
        envs = [{"VERIF_OUT": ctx.path("g07_trace_%s.ndjson" % tag), "VERIF_ONLY": ",".join(map(str, only)),
                 "VERIF_BLANK_OK": "1" if blank_ok else "0"}]
    rows = []
    for env, (rc, out) in zip(envs, go_sharded(ctx, "^TestZZVerifG07Trace$", envs)):
        part = vlib.read_ndjson(env["VERIF_OUT"])
        if rc != 0 or not part:
            raise vlib.Inconclusive("G07 trace driver did not complete:\n" + out[-3000:])
        rows += part
    return rows


def validate_trace(ctx, rows):
    slim = ctx.path("g07_trace_slim_%d.ndjson" % len(ctx.tlc_runs))
    keep = ("ev", "blank", "act", "ok", "dl", "obs")
    vlib.write_ndjson(slim, [{k: r[k] for k in keep if k in r} for r in rows])
    r = ctx.tlc("TraceFilterLists", "TraceFilterLists.cfg", workers=1, extra_files=[(slim, "trace.ndjson")], timeout=600)
    if not r["vectors"]:
        raise vlib.Inconclusive("TraceFilterLists produced no verdict")
    v = r["vectors"][-1]
    if v["n"] != len(rows):
        raise vlib.Inconclusive("TraceFilterLists consumed %s of %d lines" % (v["n"], len(rows)))
    return v


def first_bad(rows, verdict):
    """Per trace the first rejected line; what follows it in that trace is not judged."""
    first = {}
    for n in sorted(verdict["bad"]):
        row = rows[n - 1]
        first.setdefault(row["trace"], row)
    return first


def classify_line(row, hist):
    a = row["act"]
    soon = False
    for h in hist:
        if h["ev"] == "step" and h["act"]["a"] == "restart":
            soon = not h["act"]["late"]    # a later restart puts the clock beyond every id again
    if a["a"] == "add" and soon and a["url"] in row["obs"]["lists"] and row["obs"]["lists"][a["url"]]["p"]:
        # the new list carries an id that a list of this history had before (ids are numbered by first
        # appearance): the id of a list in the table, or of one removed since the last start
        nid = row["obs"]["lists"][a["url"]]["id"]
        if any(t["p"] and t["id"] == nid for h in hist if h["ev"] == "step" for t in h["obs"]["lists"].values()):
            return K_ID
    if a["a"] == "seturl" and a["beh"] == "blank" and row["dl"] != "-" and row["ok"] == "yes" and not row.get("blank_ok"):
        return K_BLANK
    return None


def direction_b(ctx, blank_ok):
    rows = trace_rows(ctx, blank_ok)
    verdict = validate_trace(ctx, rows)
    res = {"lines": len(rows), "traces": len({r["trace"] for r in rows}), "steps": sum(1 for r in rows if r["ev"] == "step"),
           "rejected": len(verdict["bad"]), "odd": len(verdict["odd"]), "known": 0, "flaky": 0, "judged": 0,
           "truncated_by_known": 0, "sample": next((r for r in rows if r["ev"] == "step" and r["i"] > 3), None)}
    if verdict["odd"]:
        r = rows[verdict["odd"][0] - 1]
        raise vlib.Inconclusive("trace: harness and specification disagree on the contacted source at %d lines, first: %s contacted %s" % (
            len(verdict["odd"]), json.dumps(r["act"]), r["dl"]))
    first = first_bad(rows, verdict)
    for tr in {r["trace"] for r in rows}:
        n = sum(1 for r in rows if r["trace"] == tr and r["ev"] == "step")
        res["judged"] += (first[tr]["i"] + 1) if tr in first else n
    if not first:
        return res
    want = sorted(first)[:40]
    rows2 = trace_rows(ctx, blank_ok, only=want, tag="iso")
    v2 = validate_trace(ctx, rows2)
    again = first_bad(rows2, v2)
    for tr in want:
        row = first[tr]
        if tr not in again or again[tr]["i"] != row["i"]:
            res["flaky"] += 1
            continue
        hist = [r for r in rows2 if r["trace"] == tr and r["ev"] == "step" and r["i"] < row["i"]]
        row2 = dict(again[tr])
        row2["blank_ok"] = blank_ok
        key = classify_line(row2, hist)
        rec = {"kind": "trace", "trace": tr, "step": row["i"], "blank_ok": blank_ok,
               "history": [{k: r[k] for k in ("act", "ok", "dl", "obs")} for r in hist + [again[tr]]]}
        what = "trace %d step %d: the state observed after %s (reply %s, contacted %s) is not a step of FilterListsCore; observed %s" % (
            tr, row["i"], json.dumps({k: v for k, v in row["act"].items() if v not in ("-", [])}, sort_keys=True), row["ok"], row["dl"],
            json.dumps(again[tr]["obs"], sort_keys=True)[:1800])
        if ctx.disagreement(key, rec, what) == "known":
            res["known"] += 1
            res["truncated_by_known"] += sum(1 for r in rows if r["trace"] == tr and r["ev"] == "step" and r["i"] > row["i"])
    return res


# --------------------------------------------------------------------- run
NEED_KINDS = ["add:ok", "add:refused-fail", "add:duplicate", "add:duplicate-other-side", "remove:present", "remove:wrong-side",
              "remove:absent", "seturl:absent", "seturl:wrong-side", "seturl:url-taken", "seturl:name", "seturl:disable",
              "seturl:enable:dl-ok", "seturl:enable:dl-refused-fail", "seturl:url:dl-ok", "seturl:url:dl-refused-fail",
              "seturl:url+disable", "restart:with-lists", "rules", "config", "add:invalid-url", "seturl:invalid-url",
              "seturl:url+name:dl-refused-fail"]


def run(ctx):
    rng = random.Random(ctx.seed)
    # (no separate SANY pass: every module is parsed by the TLC runs below, and a parse error is Inconclusive)
    build(ctx)
    blank_ok = measure_policy(ctx)

    # all TLC runs side by side: the negative control (a process that forgets the ids of its own lists at a
    # restart) and the universes
    unis = [u for u in UNIVERSES if u[0] != ("three" if ctx.quick else "threeq")]
    jobs = [("FilterLists.forget.cfg", dict(workers=1, timeout=300, expect_violation=True, heap="1g"))]
    jobs += [(cfg, dict(workers=3, timeout=600, coverage=(uni == "names"), heap="3g")) for uni, cfg, _, _ in unis]
    with concurrent.futures.ThreadPoolExecutor(max_workers=len(jobs)) as ex:
        futs = [ex.submit(ctx.tlc, "FilterLists", cfg, **kw) for cfg, kw in jobs]
        tlc = {cfg: f.result() for (cfg, _), f in zip(jobs, futs)}
    neg = tlc["FilterLists.forget.cfg"]
    if neg["violated"] != "InvUniqueIdsStrict":
        raise vlib.Inconclusive("FilterLists.forget.cfg no longer violates InvUniqueIdsStrict: the negative control lost its meaning")
    for run_ in ctx.tlc_runs:
        if run_["cfg"] == "FilterLists.forget.cfg":
            run_["violated"] = "InvUniqueIdsStrict (expected: negative control, ids forgotten at a restart)"
    acts = actions_taken(tlc["FilterLists.names.cfg"]["out"])
    for a in ("NAdd", "NRemove", "NSetUrl", "NRules", "NRestart"):
        if acts.get(a, 0) == 0:
            raise vlib.Inconclusive("vacuous: action %s of FilterLists never taken" % a)

    kinds = collections.Counter()
    results, samples, n_edges = {}, [], 0
    for uni, cfg, urls, has_blank in unis:
        r = tlc[cfg]
        edges = [norm_edge(e) for e in r["vectors"]]
        pols = {e["src"]["blank"] for e in edges}
        pol = blank_ok if blank_ok in pols else (sorted(pols)[0] if not has_blank else None)
        if pol is None:
            raise vlib.Inconclusive("universe %s has no component for the measured policy" % uni)
        edges = [e for e in edges if e["src"]["blank"] == pol]
        if not edges:
            raise vlib.Inconclusive("universe %s: zero edges" % uni)
        for e in edges:
            kinds[edge_kind(e)] += 1
        init = min((e["sk"] for e in edges if not e["src"]["used"] and not any(t["p"] for t in e["src"]["tab"].values())
                    and not e["src"]["user"] and e["src"]["fen"]), default=None)
        if init is None:
            raise vlib.Inconclusive("universe %s: initial state not found" % uni)
        g = Graph(ctx, uni, urls, edges, init)
        extra = soon_probes(g, rng, 3 if ctx.quick else 12) if uni in ("core", "three", "threeq") else []
        budget = BUDGET[uni][0 if ctx.quick else 1]
        results[uni] = replay_universe(ctx, g, rng, uni, budget, extra)
        results[uni]["soon_probes"] = len(extra)
        n_edges += len(edges)
        samples.append({"edge_" + uni: {k: edges[len(edges) // 2][k] for k in ("src", "act", "ok", "dl", "dst")}})
        ctx.log("universe %s: %s" % (uni, json.dumps({k: v for k, v in results[uni].items()})))
    for k in NEED_KINDS:
        if kinds[k] == 0:
            raise vlib.Inconclusive("vacuous: no edge of kind %s" % k)

    resb = direction_b(ctx, blank_ok)
    if resb["sample"]:
        samples.append({"trace_line": {k: resb["sample"][k] for k in ("act", "ok", "dl", "obs")}})

    tot = collections.Counter()
    for r in results.values():
        for k, v in r.items():
            tot[k] += v
    if (tot["skipped"] or tot["contact_mismatch"]) and not ctx.violations:
        raise vlib.Inconclusive("tour harness skipped %d tours; at %d steps only the contacted source differs from the specification's" % (
            tot["skipped"], tot["contact_mismatch"]))
    if tot["steps"] + tot["lost"] < tot["planned"] and not ctx.violations:
        raise vlib.Inconclusive("tours walked %d of %d planned steps" % (tot["steps"], tot["planned"]))
    if tot["lost"] > tot["planned"] // 5 and not ctx.violations:
        raise vlib.Inconclusive("%d of %d planned steps lost behind disagreements" % (tot["lost"], tot["planned"]))
    cov = {
        "traces_validated_against_impl": tot["tours"] + resb["traces"],
        "evaluations": tot["steps"] + resb["judged"],
        "distinct_nontrivial": tot["nontrivial"],
        "rule": "one edge per transition of FilterLists.tla (four universes: %s);" % ", ".join(u[0] for u in unis) + " non-trivial = the request changes the abstract state or "
                "downloads a source; trace lines: random histories validated by TLC up to the first rejected line of a trace",
        "blank_body_policy_measured": "accepted" if blank_ok else "refused",
        "edges": n_edges, "edges_selected": tot["selected"], "distinct_edges_walked": tot["distinct_edges_walked"],
        "edge_kinds": dict(kinds), "per_universe": results,
        "steps_walked": tot["steps"], "steps_planned": tot["planned"], "tours": tot["tours"],
        "bad_steps": tot["bad"], "flaky": tot["flaky"] + resb["flaky"], "bad_steps_not_rerun_alike": tot["not_rerun"],
        "steps_lost_after_a_disagreement": tot["lost"],
        "truncated_by_known_finding": tot["truncated_by_known"] + resb["truncated_by_known"],
        "trace_steps": resb["steps"], "trace_steps_judged": resb["judged"], "trace_rejected_lines": resb["rejected"],
        "negative_controls": ["FilterLists.forget.cfg (ids of the table forgotten at a restart) violates InvUniqueIdsStrict"],
        "exhaustive": not ctx.quick and all(BUDGET[u][1] is None or r["selected"] == r["edges"] for u, r in results.items()),
        "samples": samples,
    }
    return ctx.finish("model_checking", cov, assumptions=[
        "TLC; the projection functions of zz_verif_g07_test.go (rule spelling <-> atom, name table, URL <-> source)",
        "every DNSFilter lives in a testing/synctest bubble: virtual clock, synctest.Wait as the barrier for the asynchronous engine rebuild; "
        "the list server is one httptest server on loopback outside of the bubbles; connection errors are played by the transport",
        "restart = WriteDiskConfig -> YAML (the persisted fields only) -> Close -> New -> EnableFilters(false) -> Start over the same data directory; "
        "by default it comes when the clock has passed every id of the table, a few dedicated tours/trace steps restart within the second",
        "scheduled refreshes are off (interval 0): C15 covers them",
        "DNS verdict = DNSFilter.CheckHost with DNSFilter.Settings() and protection on (what dnsforward passes), not a query over a socket",
        "not compared: last_updated, rules_count and file content of disabled lists, *.old files, reply bodies, the reply code of remove_url, "
        "the order of the lists",
    ])


# ------------------------------------------------------------------ replay
def replay(ctx, path):
    rec = json.load(open(path))["record"]
    build(ctx)
    if rec.get("kind") == "tour":
        tour = {"id": 0, "urls": rec["urls"], "steps": rec["steps"]}
        rows, _ = run_tours(ctx, [tour], "replay")
        bad = [r for r in rows if r.get("kind") == "bad"]
        print(json.dumps({"history": [{k: v for k, v in s["act"].items() if v not in ("-", [])} for s in rec["steps"]],
                          "expected": rec["steps"][-1]["exp"],
                          "observed": [{"step": b["step"], "diffs": b["diffs"], "code": b["code"], "state": b["got"]} for b in bad] or "as expected"},
                         indent=1))
        return 1 if bad else 0
    if rec.get("kind") == "trace":
        rows = trace_rows(ctx, rec["blank_ok"], only=[rec["trace"]], tag="replay")
        v = validate_trace(ctx, rows)
        rej = [{"step": rows[n - 1]["i"], "act": rows[n - 1]["act"], "observed": rows[n - 1]["obs"]} for n in sorted(v["bad"])[:1]]
        print(json.dumps({"trace": rec["trace"], "first_rejected_step": rej or "none"}, indent=1))
        return 1 if rej else 0
    raise vlib.Inconclusive("unknown replay record kind %r" % rec.get("kind"))
