PROPERTY = "C01"
ENTRY = {
        "text": "DnsPipeline.tla models handleDNSRequest stage by stage (Before/Initial/FilterBefore/Upstream/FilterAfter/Log) over RuleEngine.tla "
                "(urlfilter DNS precedence: allow engine first, allow+important > important > allow > block, network rule beats hosts line, "
                "$dnstype/$client/$denyallow/$badfilter applicability); TLC checks the statement (declarative StmtBlocked vs. the pipeline: "
                "blocked => local synthetic mode response and nothing upstream; otherwise exactly one exchange and the upstream answer; "
                "protection off blocks nothing; client filtering off skips lists) stepwise and on the verdict table of every configuration; "
                "each configuration (rule sets <= 2 of a 44-rule family x 5 places + precedence ladders; flag stratum: modes x protection "
                "on/off/paused/expired x global/per-client filtering x blocked service active/paused/per-client) is built as a real "
                "filtering.DNSFilter + client.Storage + dnsforward.Server and all 64 requests (8 names x 4 qtypes x 2 clients, mixed case) "
                "go through handleDNSRequest with a recording upstream; a seeded driver over larger configurations (<= 12 rules, names <= 5 labels) "
                "is validated by TraceDnsPipeline.tla.",
        "design_ref": "DESIGN.md section 4 C01",
        "note": "Trusted: TLC; RuleEngine.tla as a transcription of the external urlfilter v0.20.0 (validated by the unchanged-tree replay); "
                "conc()/abs() of zz_verif_c0102_test.go. Handler level with mock upstream/query log, a sample over UDP. "
                "Not compared: TTLs, rule texts, list ids. For qtypes other than A/AAAA any synthetic answer (NODATA, empty NOERROR, mode rcode) is admitted. "
                "Blocked services with filtering off: both outcomes admitted (statement silent). Regex/substring rules, $ctag, $dnsrewrite, "
                "multiple $badfilter rules per engine are outside the family.",
        "technique": "TLA+ spec model-checked by TLC; TLC-generated verdict tables replayed into real servers + TLC trace validation",
    }
