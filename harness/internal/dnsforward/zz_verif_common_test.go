package dnsforward

// Shared helpers of the verification harness (overlaid into the package at
// build time by /verif/tools/vlib.py; never part of the repository).

import (
	"bufio"
	"encoding/json"
	"os"
	"strconv"
	"testing"
)

func zzGetenv(k string) (v string) { return os.Getenv(k) }

// zzSeed returns the VERIF_SEED value.
func zzSeed() (seed int64) {
	seed, err := strconv.ParseInt(os.Getenv("VERIF_SEED"), 10, 64)
	if err != nil {
		return 1
	}

	return seed
}

// zzReadNDJSON calls f for every line of the file named by the environment
// variable env.
func zzReadNDJSON(t testing.TB, env string, f func(line []byte)) {
	p := os.Getenv(env)
	if p == "" {
		t.Skip("no " + env)
	}

	fh, err := os.Open(p)
	if err != nil {
		t.Fatalf("opening %s: %v", p, err)
	}
	defer fh.Close()

	sc := bufio.NewScanner(fh)
	sc.Buffer(make([]byte, 0, 1<<20), 64<<20)
	for sc.Scan() {
		b := sc.Bytes()
		if len(b) == 0 {
			continue
		}

		f(b)
	}
	if err = sc.Err(); err != nil {
		t.Fatalf("reading %s: %v", p, err)
	}
}

// zzWriter writes NDJSON records to the file named by env.
type zzWriter struct {
	fh *os.File
	w  *bufio.Writer
}

func zzNewWriter(t testing.TB, env string) (w *zzWriter) {
	p := os.Getenv(env)
	if p == "" {
		t.Skip("no " + env)
	}

	fh, err := os.Create(p)
	if err != nil {
		t.Fatalf("creating %s: %v", p, err)
	}

	return &zzWriter{fh: fh, w: bufio.NewWriterSize(fh, 1<<20)}
}

func (w *zzWriter) put(v any) {
	b, err := json.Marshal(v)
	if err != nil {
		panic(err)
	}

	_, _ = w.w.Write(b)
	_ = w.w.WriteByte('\n')
}

func (w *zzWriter) close() {
	_ = w.w.Flush()
	_ = w.fh.Close()
}
