SPECIFICATION Spec
CONSTANTS MaxLines = 3
          Shapes <- ShapesFull
          Endings <- EndingsAll
          Policies <- UniformPolicies
INVARIANTS Statement
