SPECIFICATION Spec
CONSTANTS
  MCU <- QMisc
  Names <- MCNames
  Ident <- MCIdent
  IdSets <- MCIdSets
  Flags <- MCFlags
  LeaseAddrs <- MCLeaseAddrs
  LeaseMacs <- MCLeaseMacs
  Configs <- MCConfigs
VIEW view
INVARIANTS IndInv Safety OrigInvs
PROPERTIES OrigSpec Rejected
