--------------------------- MODULE TraceRuleList ---------------------------
(***************************************************************************)
(* Direction B of the parser half of C15.  Each line of trace.ndjson is    *)
(* one run of the real rulelist.Parser on a random text from a universe    *)
(* larger than RuleList.tla's (hundreds of lines, more rule atoms, long    *)
(* and over-long lines, bare CRs, control bytes anywhere), abstracted by   *)
(* the harness's lexer:                                                    *)
(*   t      the text, as tokens                                            *)
(*   ok     whether the parser accepted it                                 *)
(*   rules  the stored bytes, lexed and split at LF                        *)
(*   count  the rule count the parser reported                             *)
(*   fp     parsing the stored bytes again gave the same count, the same   *)
(*          checksum and the same bytes (also when read as a restart does) *)
(* The outcome must be one of RuleListCore!Admissible(t, policy) for one    *)
(* and the same policy on all lines.                                       *)
(***************************************************************************)
EXTENDS RuleListCore, TLC, Json

Trace == ndJsonDeserialize("trace.ndjson")

VARIABLES l, bad,
          pols    \* the parser policies (RuleListCore: is a "#"-line that is not a
                  \* plain comment a rule?) under which EVERY line so far is admissible

LineOk(i, b) ==
    LET r == Trace[i]
        o == IF r.ok THEN Ok(r.rules) ELSE Fail
    IN /\ o \in Admissible(r.t, Uniform(b))
       /\ r.ok => r.count = Count(r.rules) /\ r.fp

Init == l = 1 /\ bad = {} /\ pols = BOOLEAN
\* A line is rejected when no policy that explains all earlier lines explains
\* it as well (one implementation has one policy).
Next == /\ l <= Len(Trace)
        /\ \E keep \in {{b \in pols : LineOk(l, b)}} :
              IF keep = {} THEN bad' = bad \cup {l} /\ pols' = pols
                           ELSE bad' = bad /\ pols' = keep
        /\ l' = l + 1
        /\ (l' = Len(Trace) + 1 => PrintT(<<"@@V", ToJson([n |-> Len(Trace), bad |-> bad', pols |-> pols'])>>))
Spec == Init /\ [][Next]_<<l, bad, pols>>
=============================================================================
