"""G01 -- the front stages of the DNS request pipeline (growth item).

refuse_any, private reverse zones, aaaa_disabled, the Firefox canary, the
healthcheck name, DDR, DHCP host names, DHCP PTR answers, private rDNS, and
their order relative to each other and to blocking.  See notes/G01.md.
"""
import json
import vlib

PKG = "internal/dnsforward"
FILES = ["zz_verif_common_test.go", "zz_verif_g01_test.go"]

# Every clause of DnsFrontCore!V must produce at least one outcome of the
# replayed tables (vacuity).
WHYS = {"any", "deny", "aaaa", "canary", "health", "ddr", "ddr-empty", "lan-outside", "lan-a", "lan-aaaa",
        "lan-blk", "lan-nx", "ptr-lease", "ptr-lease-off", "blk", "rdns-priv", "rdns-off", "fwd",
        "lan-aaaa64", "fwd64-nx", "fwd64-pass", "fwd64-filter", "fwd64-syn", "fwd64-none", "rdns64-priv", "rdns64-off"}
TRIVIAL = {"fwd"}


def classify(rec):
    """Narrow keys of the known findings."""
    cfg, req = rec.get("cfg", {}), rec.get("req", {})
    got = rec.get("got") or rec.get("out") or {}
    # DNS64 was on under an earlier configuration of the same server and is off
    # now, yet a DHCP lease still answers AAAA with a DNS64-mapped address.
    if (cfg.get("dns64") == "off" and req.get("qt") == "AAAA" and got.get("c") == "aaaa" and got.get("fwd") == "none"
            and (str(rec.get("how", "")).startswith("history-dependent") or "out" in rec)):
        return "dns64-prefix-stale-after-disable"
    return None


def strip(o):
    return {"c": o["c"], "fwd": o["fwd"], "v": sorted(o["v"]), "log": o["log"]}


def replay_vectors(ctx, vectors, passes):
    vin, vout = ctx.path("g01_in.ndjson"), ctx.path("g01_out.ndjson")
    vlib.write_ndjson(vin, vectors)
    rc, out = ctx.go_test(PKG, FILES, "^TestZZVerifG01Replay$", env={
        "VERIF_IN": vin, "VERIF_OUT": vout, "VERIF_G01_PASSES": str(passes)})
    rows = vlib.read_ndjson(vout)
    summ = [r for r in rows if r.get("kind") == "summary"]
    if rc != 0 or not summ:
        raise vlib.Inconclusive("G01 replay harness did not complete:\n" + out[-3000:])
    return rows, summ[0]


def trace_validate(ctx):
    tout = ctx.path("g01_trace.ndjson")
    rc, out = ctx.go_test(PKG, FILES, "^TestZZVerifG01Trace$", env={"VERIF_OUT": tout})
    rows = vlib.read_ndjson(tout)
    if rc != 0 or not rows:
        raise vlib.Inconclusive("G01 trace driver did not complete:\n" + out[-3000:])
    r = ctx.tlc("TraceDnsFront", "TraceDnsFront.cfg", workers=1, extra_files=[(tout, "trace.ndjson")], timeout=600)
    if not r["vectors"]:
        raise vlib.Inconclusive("trace spec produced no verdict")
    verdict = r["vectors"][-1]
    if verdict["n"] != len(rows):
        raise vlib.Inconclusive("trace spec consumed %s of %d lines" % (verdict["n"], len(rows)))
    return rows, verdict


def run(ctx):
    # Quick: one run of the quick universe with TLC's coverage on (vacuity of
    # the actions); thorough: the full universe, and the quick one for coverage.
    if ctx.quick:
        gen = cov = ctx.tlc("DnsFront", "DnsFront.quick.cfg", workers=6, timeout=600, coverage=True)
    else:
        gen = ctx.tlc("DnsFront", "DnsFront.thorough.cfg", workers=6, timeout=900)
        cov = ctx.tlc("DnsFront", "DnsFront.quick.cfg", workers=4, timeout=600, coverage=True)
    vectors = gen["vectors"]
    reqsets, cfgs = {}, []
    for v in vectors:
        if v["kind"] == "reqs":
            reqsets[v["set"]] = v
        else:
            cfgs.append(v)
    if len(cfgs) < 100 or not reqsets:
        raise vlib.Inconclusive("too few vectors: %d configurations" % len(cfgs))
    # Vacuity: every action of the model taken (TLC's coverage), every clause
    # of the verdict present in the tables.
    never = [l for l in cov.get("zero_cov", []) if "of module DnsFront:" in l or "of module DnsFront)" in l]
    acts = {}
    import re
    for m in re.finditer(r"^<(\w+) line \d+, col \d+ to line \d+, col \d+ of module DnsFront>: (\d+):(\d+)", cov["out"], re.M):
        acts[m.group(1)] = int(m.group(3))
    for a in ("PickGroup", "ConfigureD", "ConfigureT", "ConfigureN"):
        if acts.get(a, 0) == 0:
            raise vlib.Inconclusive("vacuous: action %s never taken (coverage: %s)" % (a, acts))
    whys, evals, nontrivial = {}, 0, set()
    for v in cfgs:
        for k, outs in enumerate(v["tab"]):
            evals += 1
            for o in outs:
                whys[o["why"]] = whys.get(o["why"], 0) + 1
            ws = {o["why"] for o in outs}
            if ws - TRIVIAL:
                nontrivial.add((json.dumps(v["cfg"], sort_keys=True), v["set"], v["idx"][k]))
    missing = WHYS - set(whys)
    if missing:
        raise vlib.Inconclusive("vacuous: clauses never exercised: %s" % sorted(missing))
    if set(whys) - WHYS:
        raise vlib.Inconclusive("unknown clauses in the tables: %s" % sorted(set(whys) - WHYS))

    ins = list(reqsets.values()) + cfgs
    rows, summ = replay_vectors(ctx, ins, 1 if ctx.quick else 3)
    for r in rows:
        if r.get("kind") == "bad":
            ctx.disagreement(classify(r), r, "outcome %s not admitted by DnsFront %s for %s (%s)" % (
                json.dumps(r["got"]), json.dumps([strip(w) for w in r["want"]]), r["concrete"], r.get("how")))
    flaky = sum(1 for r in rows if r.get("kind") == "flaky")
    skipped = sum(1 for r in rows if r.get("kind") == "skip")
    if skipped:
        raise vlib.Inconclusive("%d configurations could not be applied: %s" % (
            skipped, [r for r in rows if r.get("kind") == "skip"][0].get("err")))
    if summ["n"] != evals * summ["passes"]:
        raise vlib.Inconclusive("replayed %d of %d evaluations" % (summ["n"], evals * summ["passes"]))

    # Direction B.
    trows, verdict = trace_validate(ctx)
    for i in verdict["bad"]:
        rec = trows[i - 1]
        ctx.disagreement(classify(rec), rec, "trace line %d rejected by TraceDnsFront: outcome %s for %s" % (
            i, json.dumps(rec["out"]), rec["concrete"]))
    twhys = verdict.get("whys", [])

    def sample(v, k):
        rq = reqsets[v["set"]]["reqs"][v["idx"][k] - 1]
        return {"cfg": v["cfg"], "req": rq, "admissible": [strip(o) for o in v["tab"][k]]}
    samples = [sample(cfgs[0], 0), sample(cfgs[len(cfgs) // 2], len(cfgs[len(cfgs) // 2]["tab"]) // 2),
               sample(cfgs[-1], -1), {"trace_line": trows[len(trows) // 2]}]
    covd = {
        "traces_validated_against_impl": summ["n"] + len(trows),
        "configurations": len(cfgs), "vectors_generated": evals, "vectors_replayed": summ["n"],
        "evaluations": summ["n"] + len(trows), "distinct_nontrivial": len(nontrivial),
        "rule": "one evaluation = one (configuration, request) of DnsFront.tla's universe replayed into a live, really "
                "reconfigured server and compared with the admissible set; non-trivial = a clause other than plain "
                "forwarding decides it; trace lines are seeded random (configuration, request) pairs from a larger "
                "universe validated by TraceDnsFront.tla",
        "clauses": whys, "actions": acts, "trace_lines": len(trows), "trace_lines_rejected": len(verdict["bad"]),
        "trace_clauses": twhys,
        "flaky": flaky, "servers": summ.get("servers"), "reconfigurations": summ.get("reconfigurations"),
        "via_udp": summ.get("via_udp"), "passes": summ.get("passes"),
        "exhaustive": True, "samples": samples,
    }
    if never:
        covd["tlc_zero_coverage_lines"] = never[:10]
    if flaky > 20:
        raise vlib.Inconclusive("%d evaluations disagreed once and agreed when repeated" % flaky)
    if flaky > 0:
        ctx.notes.append("%d evaluations disagreed once and agreed when repeated" % flaky)
    return ctx.finish("model_checking", covd, assumptions=[
        "TLC; the concretisation / abstraction functions of zz_verif_g01_test.go (abs, zzG01Endpoint, the harness's own reverse-name and private-network classifier in direction B)",
        "requests enter through Server.ServeHTTP (DoH entry point; a part over a real UDP socket); the server is prepared "
        "(Server.Prepare) but encrypted listeners are not bound; upstreams, DHCP lease table and query log are recording doubles",
        "blocking mode default, protection and filtering on, response cache off, DNS64 off, no rewrites, empty access lists"])


def replay(ctx, path):
    rec = json.load(open(path))["record"]
    if "want" not in rec:
        print(json.dumps(rec, indent=1))
        print("trace-line finding: re-run ./check G01 with the same VERIF_SEED to reproduce")
        return 1
    reqs = {"kind": "reqs", "set": "replay", "reqs": [rec["req"]]}
    vec = {"kind": "cfg", "set": "replay", "cfg": rec["cfg"], "idx": [1], "tab": [rec["abstract_want"]],
           "pre": rec.get("history") or []}
    rows, summ = replay_vectors(ctx, [reqs, vec], 1)
    bad = [r for r in rows if r.get("kind") == "bad"]
    print(json.dumps({"expected": rec["want"], "observed": [b["got"] for b in bad] or "admissible"}, indent=1))
    return 1 if bad else 0
