"""C19 -- safe-browsing / parental lookups reveal only 2-byte SHA-256 prefixes;
the cache never changes the verdict.

Half 1   HashPrefix.tla (mc config): invariants + step properties on the
         complete graph over <<db, cache>>, with coverage (vacuity).
A        HashPrefix.tla (gen config) prints the graph's edges; walks covering
         every (state, action) pair reachable under the implementation's own
         choices are performed on the real hashprefix.Checker (mock lookup
         service, synctest clock); TraceHashPrefix.tla judges every observed
         (question, verdict) against all outcomes the rules admit.
B        random histories over a large universe of real names (package level,
         with expiry and evictions) and through DNSFilter.CheckHost (mixed
         case), validated by the same trace spec.
"""
import collections
import json
import os
import random
import re

import vlib

PKG = "internal/filtering/hashprefix"
FPKG = "internal/filtering"
FILES = ["zz_verif_common_test.go", "zz_verif_c19_test.go"]
MAX_WALK = 300


K_TINY = "tiny-cache:evicted-positive-stored-as-negative"
K_ERRREPLY = "error-reply-cached-as-no-hashes"


def classify(rec):
    """Narrow keys of known findings.

    K_TINY: the Checker was configured with a cache smaller than the entries
    of a single answer (CacheSize <= 256 bytes), and the only thing wrong is a
    MISSED block (every outcome the spec admits is "blocked", the code said
    "not blocked", the question itself was in order).  Anything else -- a
    false block, a leak, a wrong verdict with a cache of normal size -- has no
    key."""
    obs, adm = rec.get("observed") or {}, rec.get("admissible") or []
    # K_ERRREPLY: a check said "not blocked" (no error, question in order)
    # without having information about some candidates' prefixes -- no
    # unexpired entry, not asked now -- and every such prefix was last asked in
    # a lookup that was answered by an error reply (SERVFAIL / REFUSED /
    # NOTIMP) and returned a verdict: the error reply was remembered as "no
    # hashes under these prefixes".
    tainted = set(rec.get("tainted") or [])
    n = rec.get("n") or obs.get("n")
    if (tainted and n and obs.get("ok") and not obs.get("e") and obs.get("v") is False
            and (not obs.get("x") or not obs.get("q"))):
        core = {h["p"] for k, h in enumerate(n["h"], 1) if k > max(n["cut"], n["opt"])}
        chain = {h["p"] for h in n["h"]}
        have = set(obs.get("q") or [])
        # (an entry that is usable by the spec's book-keeping but tainted may
        # have been evicted by the code and then replaced by the error reply)
        need = core - (set(rec.get("valid_entries") or []) - tainted) - have
        if need and need <= tainted and have <= chain:
            return K_ERRREPLY
    if (rec.get("kind") == "trace" and 0 < (rec.get("cache_size") or 0) <= 256 and obs.get("ok")
            and obs.get("v") is False and adm and all(o["v"] for o in adm)):
        return K_TINY
    return None


# ------------------------------------------------------------------ the graph
def canon(st):
    return json.dumps({"db": sorted(st["db"]),
                       "c": {p: [v[0], sorted(v[1])] for p, v in sorted(st["c"].items())},
                       "i": {k: sorted(v) for k, v in st["i"].items()}}, sort_keys=True)


class Graph:
    def __init__(self, edges):
        self.ids = {}
        self.states = []
        self.adj = []          # node -> list of (akey, dst, out)
        # TLC's workers print in no particular order: sort, so that a seed
        # determines the walks.
        for e in sorted(edges, key=lambda e: (canon(e["s"]), e["a"], e.get("n", []), e.get("x", ""))):
            u, v = self.node(e["s"]), self.node(e["d"])
            if e["a"] == "check":
                ak = ("c", ".".join(e["n"]))
                out = (tuple(sorted(e["q"])), bool(e["v"]))
            elif e["a"] == "fail":
                ak = ("f", ".".join(e["n"]))
                out = (tuple(sorted(e["q"])), "err")
            elif e["a"] == "errreply":
                ak = ("x", ".".join(e["n"]))
                out = (tuple(sorted(e["q"])), "errreply")
            elif e["a"] == "tick":
                ak, out = ("t",), None
            else:
                ak, out = ("d", e["x"]), None
            self.adj[u].append((ak, v, out))
        for u in range(len(self.adj)):
            self.adj[u].sort(key=lambda x: x[0])
        self.inits = [u for u, s in enumerate(self.states)
                      if all(v[0] == 0 for v in s["c"].values()) and not s["i"]["present"]]

    def node(self, st):
        k = canon(st)
        if k not in self.ids:
            self.ids[k] = len(self.states)
            self.states.append(st)
            self.adj.append([])
        return self.ids[k]


def plan_walks(g, rng, budget=None, apart=(), apart_n=0):
    """Walks (from initial states) covering every (state, action) pair that is
    reachable along the printed edges.  Returns (walks, pairs_total, pairs_planned).
    A walk = dict(start=node, steps=[(akey, out, src, dst)])."""
    # BFS tree from the initial states.
    parent = {u: None for u in g.inits}
    dq = collections.deque(g.inits)
    while dq:
        u = dq.popleft()
        for i, (ak, v, out) in enumerate(g.adj[u]):
            if v not in parent:
                parent[v] = (u, i)
                dq.append(v)
    reach = list(parent)
    # Actions of the kinds in `apart` are not woven into the covering walks
    # (used when the tree under test is known to leave the spec right after
    # them): apart_n of them get a walk of their own that ends with the action
    # and one more check of the same name.
    unc = {u: [i for i in range(len(g.adj[u])) if g.adj[u][i][0][0] not in apart] for u in reach}
    for u in reach:
        rng.shuffle(unc[u])
    total = sum(len(g.adj[u]) for u in reach)
    lone = [(u, i) for u in reach for i in range(len(g.adj[u])) if g.adj[u][i][0][0] in apart]
    rng.shuffle(lone)
    todo = [u for u in reach if unc[u]]
    rng.shuffle(todo)
    walks, planned = [], 0

    def path_to(t):
        p = []
        while parent[t] is not None:
            u, i = parent[t]
            p.append((u, i))
            t = u
        p.reverse()
        return t, p

    def near(u):
        # nearest node with uncovered actions within two steps
        for i, (ak, v, out) in enumerate(g.adj[u]):
            if unc[v]:
                return [(u, i)]
        for i, (ak, v, out) in enumerate(g.adj[u]):
            for j, (ak2, v2, out2) in enumerate(g.adj[v]):
                if unc[v2]:
                    return [(u, i), (v, j)]
        return None

    while todo:
        t = todo.pop()
        if not unc[t]:
            continue
        start, pth = path_to(t)
        steps = []
        for (u, i) in pth:
            ak, v, out = g.adj[u][i]
            if i in unc[u]:
                unc[u].remove(i)
                planned += 1
            steps.append((ak, out, u, v))
        u = t
        while len(steps) < MAX_WALK:
            if unc[u]:
                i = unc[u].pop()
                planned += 1
                ak, v, out = g.adj[u][i]
                steps.append((ak, out, u, v))
                u = v
                continue
            hop = near(u)
            if hop is None:
                break
            for (a, i) in hop:
                ak, v, out = g.adj[a][i]
                steps.append((ak, out, a, v))
                u = v
        if unc[t]:
            todo.append(t)
        walks.append({"start": start, "steps": steps})
        if budget is not None and sum(len(w["steps"]) for w in walks) >= budget:
            break
    for (u, i) in lone[:apart_n]:
        start, pth = path_to(u)
        steps = [(g.adj[a][j][0], g.adj[a][j][2], a, g.adj[a][j][1]) for (a, j) in pth]
        ak, v, out = g.adj[u][i]
        steps.append((ak, out, u, v))
        for (ak2, v2, out2) in g.adj[v]:
            if ak2 == ("c", ak[1]):
                steps.append((ak2, out2, v, v2))
        planned += 1
        walks.append({"start": start, "steps": steps})
    return walks, total, planned


# ------------------------------------------------------------------ direction A
def name_table(universe):
    return {".".join(n["l"]): n for n in universe["names"]}


BLANK_N = {"l": [], "cut": 0, "opt": 0, "h": []}


def line(a, **kw):
    d = {"a": a, "t": 0, "db": [], "add": [], "del": [], "d": 0, "n": BLANK_N, "q": [], "v": False, "ok": True,
         "f": False, "x": False, "e": False}
    d.update(kw)
    return d


def run_walks(ctx, universe, walks_in, tag):
    """walks_in: list of dict(w, db=[ids], steps=[[kind, arg?]...]).  Returns the
    harness's step records grouped by walk and its summary."""
    vin, vout = ctx.path("c19_%s_in.ndjson" % tag), ctx.path("c19_%s_out.ndjson" % tag)
    vlib.write_ndjson(vin, [{"universe": universe}] + walks_in)
    rc, out = ctx.go_test(PKG, FILES, "^TestZZVerifC19Walk$", env={"VERIF_IN": vin, "VERIF_OUT": vout},
                          synctest=True)
    rows = vlib.read_ndjson(vout)
    summ = [r["summary"] for r in rows if "summary" in r]
    if rc != 0 or not summ:
        raise vlib.Inconclusive("C19 walk harness did not complete:\n" + out[-3000:])
    by = collections.defaultdict(list)
    for r in rows:
        if "summary" not in r:
            by[r["w"]].append(r)
    return by, summ[0]


def walk_trace(universe, walks_in, by):
    """The TLC trace of the performed walks + the (walk, step) of every line."""
    names = name_table(universe)
    hid = {d["id"]: {"p": d["p"], "r": d["id"]} for d in universe["doms"]}
    lines, where = [], []
    for w in walks_in:
        recs = by.get(w["w"], [])
        if len(recs) != len(w["steps"]):
            raise vlib.Inconclusive("walk %d: %d steps planned, %d performed" % (w["w"], len(w["steps"]), len(recs)))
        lines.append(line("reset", t=universe["t"], db=[hid[i] for i in w["db"]]))
        where.append((w["w"], -1))
        for i, (st, r) in enumerate(zip(w["steps"], recs)):
            if st[0] == "t":
                lines.append(line("tick", d=1))
            elif st[0] == "d":
                lines.append(line("db", add=[hid[st[1]]] if st[2] else [], **{"del": [] if st[2] else [hid[st[1]]]}))
            else:
                lines.append(line("check", n=names[st[1]], q=r["q"], v=r["v"], ok=r["ok"],
                                  f=bool(r.get("f")), x=bool(r.get("x")), e=bool(r.get("e"))))
            where.append((w["w"], i))
    return lines, where


def validate(ctx, lines, tag, timeout=1500):
    p = ctx.path("c19_%s_trace.ndjson" % tag)
    vlib.write_ndjson(p, lines)
    r = ctx.tlc("TraceHashPrefix", "TraceHashPrefix.cfg", workers=1, extra_files=[(p, "trace.ndjson")],
                timeout=timeout)
    verdicts = [v for v in r["vectors"] if "n" in v and "bad" in v]
    if not verdicts:
        raise vlib.Inconclusive("trace spec produced no verdict (%s)" % tag)
    v = verdicts[-1]
    if v["n"] != len(lines):
        raise vlib.Inconclusive("trace spec consumed %s of %d lines" % (v["n"], len(lines)))
    diag = {d["line"]: d for d in r["vectors"] if "line" in d}
    return sorted(v["bad"]), v["skipped"], diag


def to_walk_in(g, wid, walk):
    """Planned walk -> harness input; db toggles carry the direction (computed
    from the service database, which does not depend on the code under test)."""
    db = set(g.states[walk["start"]]["db"])
    start_db = sorted(db)
    steps = []
    for (ak, out, u, v) in walk["steps"]:
        if ak[0] == "d":
            add = ak[1] not in db
            (db.add if add else db.discard)(ak[1])
            steps.append(["d", ak[1], add])
        elif ak[0] == "t":
            steps.append(["t"])
        else:
            steps.append([ak[0], ak[1]])      # "c" = check, "f" = check while the service fails
    return {"w": wid, "db": start_db, "steps": steps}


def direction_a(ctx, cov, universe0):
    """Plans and performs the walks.  Returns the trace lines and a function
    that digests the verdict of the trace spec for these lines."""
    # Calibration of the planning model (not of the oracle): does this tree
    # remember a negative answer for a prefix whose first entry has expired?
    # And: does it remember an error reply as "no hashes"?  (If so, the walks
    # leave the spec right after an error reply; such steps are then planned
    # apart, at the end of walks of their own.)
    cal = {"w": 0, "db": [], "steps": [["c", "x.com"], ["t"], ["t"], ["c", "x.com"], ["c", "x.com"]]}
    cal2 = {"w": 1, "db": ["x.com"], "steps": [["x", "x.com"], ["c", "x.com"]]}
    by0, _ = run_walks(ctx, universe0, [cal, cal2], "cal")
    neg_again = not by0[0][-1]["q"]
    err_neg = not by0[1][-1]["q"]
    cov["a_impl_remembers_negative_after_expiry"] = neg_again
    cov["a_impl_remembers_error_reply_as_no_hashes"] = err_neg
    cfg = "HashPrefix.gen%s%s.cfg" % ("q" if ctx.quick else "", "fix" if neg_again else "")
    gen = ctx.tlc("HashPrefix", cfg, workers=4, timeout=1500)
    uni = [v["universe"] for v in gen["vectors"] if "universe" in v]
    edges = [v for v in gen["vectors"] if "s" in v]
    if not uni or len(edges) < 1000:
        raise vlib.Inconclusive("too few edges: %d" % len(edges))
    universe = uni[0]
    g = Graph(edges)
    del edges, gen
    rng = random.Random(ctx.seed)
    # quick: a seeded part of the pairs (the walker is the same); thorough: all
    walks, pairs_total, pairs_planned = plan_walks(g, rng, budget=40000 if ctx.quick else None,
                                                   apart=("x",) if err_neg else (),
                                                   apart_n=60 if ctx.quick else 600)
    nsteps = sum(len(w["steps"]) for w in walks)
    ctx.log("graph: %d states, %d (state, action) pairs; %d walks, %d steps cover %d of them"
            % (len(g.states), pairs_total, len(walks), nsteps, pairs_planned))
    # Vacuity of the generated behaviours.
    kinds = collections.Counter()
    for u in range(len(g.adj)):
        for (ak, v, out) in g.adj[u]:
            if ak[0] == "c":
                kinds["blocked" if out[1] else "clean"] += 1
                kinds["asked" if out[0] else "not_asked"] += 1
                if out[1] and not out[0]:
                    kinds["blocked_from_cache"] += 1
                if out[0] and any(v2[0] > 0 for v2 in g.states[u]["c"].values()):
                    kinds["asked_with_warm_cache"] += 1
            else:
                kinds[ak[0]] += 1
                if ak[0] == "x" and any(v2[0] > 0 for v2 in g.states[u]["c"].values()):
                    kinds["error_reply_with_warm_cache"] += 1
                if ak[0] == "f" and any(v2[0] > 0 for v2 in g.states[u]["c"].values()):
                    kinds["failed_with_warm_cache"] += 1
    for k in ("blocked", "clean", "asked", "not_asked", "blocked_from_cache", "asked_with_warm_cache", "t", "d",
              "f", "failed_with_warm_cache", "x", "error_reply_with_warm_cache"):
        if not kinds[k]:
            raise vlib.Inconclusive("vacuous: no edge of kind %s" % k)

    walks_in = [to_walk_in(g, i, w) for i, w in enumerate(walks)]
    by, summ = run_walks(ctx, universe, walks_in, "a")
    lines, where = walk_trace(universe, walks_in, by)

    def digest(bad, skipped, diag):
        # How far the real code followed the predicted choices: the coverage
        # of (state, action) pairs is counted on the real path only.
        agree = deviate = proj_same = proj_diff = failed = errreplies = 0
        covered = set()
        for wi, w in enumerate(walks):
            for i, ((ak, out, u, v), r) in enumerate(zip(w["steps"], by[wi])):
                if ak[0] == "f":
                    if tuple(sorted(r["q"])) != out[0] or not r.get("e") or not r["ok"]:
                        deviate += 1
                        break
                    failed += 1
                elif ak[0] == "x":
                    # predicted: the question of the model; an error unless the
                    # tree remembers error replies (then "not blocked")
                    if (tuple(sorted(r["q"])) != out[0] or not r["ok"]
                            or bool(r.get("e")) == err_neg or (err_neg and r["v"])):
                        deviate += 1
                        break
                    errreplies += 1
                    if err_neg:
                        covered.add((u, ak))
                        break       # the next check is expected to leave the spec
                elif ak[0] == "c":
                    if (tuple(sorted(r["q"])), bool(r["v"])) != out or not r["ok"] or r.get("e"):
                        deviate += 1
                        if deviate <= 3:
                            ctx.notes.append({"left_predicted_choice": {
                                "walk": wi, "step": i, "name": ak[1], "predicted": [list(out[0]), out[1]],
                                "observed": [r["q"], r["v"], r["ok"]], "state": g.states[u]}})
                        break
                    agree += 1
                    want = {p: sorted(x[1]) for p, x in g.states[v]["c"].items()
                            if x[0] > 0 and p in g.states[v]["i"]["held"]}
                    got = {p: sorted(x) for p, x in (r.get("proj") or {}).items()}
                    if want == got:
                        proj_same += 1
                    else:
                        proj_diff += 1
                covered.add((u, ak))
        # Isolation: re-run a rejected walk alone, up to the rejected step.  The
        # rejected lines are grouped by what they look like and a few of each
        # group are re-executed, so that lines matching a known finding cannot
        # hide a different one.
        reproduced = 0

        ntab = name_table(universe)

        def record(w1, obs, d, key):
            return {"kind": "walk", "universe": universe, "walk": w1, "seed": ctx.seed, "observed": obs,
                    "n": ntab.get(key),
                    "admissible": d.get("admissible"), "valid_entries": d.get("valid"),
                    "tainted": d.get("tainted"), "names": summ.get("names")}

        groups = collections.defaultdict(list)
        for ln in bad:
            wid, si = where[ln - 1]
            groups[classify(record(None, by[wid][si], diag.get(ln, {}), walks_in[wid]["steps"][si][1]))].append((wid, si))
        for key, members in sorted(groups.items(), key=lambda kv: str(kv[0])):
            for (wid, si) in members[:2 if key else 5]:
                w1 = dict(walks_in[wid], steps=walks_in[wid]["steps"][:si + 1], w=0)
                by1, _ = run_walks(ctx, universe, [w1], "a_iso")
                lines1, _ = walk_trace(universe, [w1], by1)
                bad1, _, diag1 = validate(ctx, lines1, "a_iso")
                obs = by1[0][-1]
                if bad1 and bad1[-1] == len(lines1):
                    reproduced += 1
                    rec = record(w1, obs, diag1.get(len(lines1), {}), w1["steps"][-1][1])
                    ctx.disagreement(classify(rec), rec,
                                     "Check(%s)%s: question %s verdict %s error=%s ok=%s (%s) not admitted by the spec "
                                     "after %d steps" % (obs.get("host"),
                                                         " while the service fails" if obs.get("f") else "",
                                                         obs["q"], obs["v"], obs.get("e"), obs["ok"],
                                                         obs.get("why", ""), si))
                else:
                    ctx.notes.append("walk %d step %d rejected once, not reproduced in isolation" % (wid, si))
        cov.update({
            "a_states": len(g.states), "a_pairs": pairs_total, "a_pairs_planned": pairs_planned,
            "a_pairs_covered_on_real_path": len(covered),
            "a_walks": len(walks), "a_steps": nsteps, "a_lines_rejected": len(bad), "a_lines_skipped": skipped,
            "a_rejected_reproduced": reproduced,
            "a_error_replies_as_predicted": errreplies, "a_error_replies_served": summ.get("error_replies"),
            "a_failed_lookups_as_predicted": failed, "a_failed_lookups_served": summ.get("failed_lookups"),
            "a_checks_as_predicted": agree, "a_walks_leaving_prediction": deviate,
            "a_cache_projection_equal": proj_same, "a_cache_projection_different": proj_diff,
            "a_edge_kinds": dict(kinds), "a_hashes_tried_for_collisions": summ["hashes_tried"],
            "a_concrete_names": summ["names"], "a_prefix_classes": summ["classes"],
            "a_malformed_strings_served": summ["junk_strings"],
        })
        samples = []
        for k in (1, len(lines) // 2, len(lines) - 1):
            wid, si = where[k]
            samples.append({"trace_line": lines[k], "real": by[wid][si] if si >= 0 else None})
        nontrivial = sum(1 for (u, ak) in covered
                         if ak[0] == "c" and any(x[0] > 0 for x in g.states[u]["c"].values()))
        return {"steps": nsteps, "nontrivial": nontrivial, "samples": samples,
                "exhaustive": len(covered) == pairs_total and not bad}

    return lines, digest


# ------------------------------------------------------------------ direction B
def direction_b(ctx, cov, pkg, test, tag, synctest, vacuous):
    tout = ctx.path("c19_%s.ndjson" % tag)
    rc, out = ctx.go_test(pkg, FILES, test, env={"VERIF_OUT": tout}, synctest=synctest)
    rows = vlib.read_ndjson(tout)
    if rc != 0 or len(rows) < 100:
        raise vlib.Inconclusive("C19 %s driver did not complete:\n%s" % (tag, out[-3000:]))

    def digest(bad, skipped, diag):
        checks = [r for r in rows if r["a"] == "check"]
        stats = {
            "lines": len(rows), "checks": len(checks), "blocked": sum(1 for r in checks if r["v"]),
            "answered_from_cache": sum(1 for r in checks if not r["q"] and any(
                k > max(r["n"]["cut"], r["n"]["opt"]) for k in range(1, len(r["n"]["h"]) + 1))),
            "asked": sum(1 for r in checks if r["q"]), "ticks": sum(1 for r in rows if r["a"] == "tick"),
            "db_changes": sum(1 for r in rows if r["a"] == "db"), "rejected": len(bad), "skipped": skipped,
            "mixed_case": sum(1 for r in checks if r.get("host", "") != r.get("host", "").lower()),
            "labels": sorted({len(r["n"]["l"]) for r in checks}),
            "private_or_unlisted_suffix": sum(1 for r in checks if r["n"]["opt"] > 0),
            "failed_lookups": sum(1 for r in checks if r.get("f") and r.get("e")),
            "service_failing_but_answered_from_cache": sum(1 for r in checks if r.get("f") and not r.get("e")),
            "error_replies": sum(1 for r in checks if r.get("x") and r["q"]),
        }
        for k in ("checks", "blocked", "answered_from_cache", "asked", "failed_lookups", "error_replies"):
            if not stats[k]:
                vacuous.append("vacuous %s trace: no %s" % (tag, k))
        reproduced = 0
        starts = {r["w"]: i for i, r in enumerate(rows) if r["a"] == "reset"}
        sizes = {r["w"]: r.get("size", 0) for r in rows if r["a"] == "reset"}

        def record(w, step, last, d):
            return {"kind": "trace", "test": test, "pkg": pkg, "synctest": synctest, "seed": ctx.seed,
                    "tier": ctx.tier, "walk": w, "steps": step + 1, "cache_size": sizes.get(w, 0), "observed": last,
                    "admissible": d.get("admissible"), "valid_entries": d.get("valid"),
                    "tainted": d.get("tainted")}

        # Rejected lines are grouped by what they look like; a few of each
        # group are re-executed in isolation (a few attempts each: the order
        # in which the code stores the entries of one answer is random), so
        # that lines matching a known finding cannot hide a different one.
        groups = collections.defaultdict(list)
        for ln in bad:
            r = rows[ln - 1]
            step = ln - 1 - starts[r["w"]] - 1
            groups[classify(record(r["w"], step, r, diag.get(ln, {})))].append((r["w"], step))
        for key, members in sorted(groups.items(), key=lambda kv: str(kv[0])):
            for (w, step) in members[:3 if key else 8]:
                done = False
                for attempt in range(3):
                    tout1 = ctx.path("c19_%s_iso.ndjson" % tag)
                    if os.path.exists(tout1):
                        os.remove(tout1)
                    ctx.go_test(pkg, FILES, test, env={"VERIF_OUT": tout1, "VERIF_ONLY_WALK": str(w),
                                                       "VERIF_MAX_STEPS": str(step + 1)}, synctest=synctest)
                    rows1 = vlib.read_ndjson(tout1)
                    if not rows1:
                        break
                    bad1, _, diag1 = validate(ctx, rows1, tag + "_iso")
                    if bad1 and bad1[-1] == len(rows1):
                        last = rows1[-1]
                        rec = record(w, step, last, diag1.get(len(rows1), {}))
                        reproduced += 1
                        ctx.disagreement(classify(rec), rec,
                                         "%s: Check(%s) with CacheSize=%s: question %s verdict %s ok=%s (%s) not admitted "
                                         "by the spec (walk %d step %d)" % (tag, last.get("host"), rec["cache_size"],
                                                                            last["q"], last["v"], last["ok"],
                                                                            last.get("why", ""), w, step))
                        done = True
                        break
                if not done:
                    ctx.notes.append("%s walk %d step %d rejected once, not reproduced in isolation (3 attempts)"
                                     % (tag, w, step))
        stats["rejected_reproduced"] = reproduced
        cov["b_" + tag] = stats
        return {"checks": len(checks), "sample": next((r for r in checks if r["v"] and not r["q"]), checks[0])}

    return rows, digest


def run(ctx):
    # Half 1: the statement's invariants on the complete graph, with coverage.
    mc = ctx.tlc("HashPrefix", "HashPrefix.mcq.cfg" if ctx.quick else "HashPrefix.mc.cfg",
                 workers=4, coverage=True, timeout=1500)
    taken = collections.Counter()
    for m in re.finditer(r"^<(\w+) line \d+, col \d+ to line \d+, col \d+ of module HashPrefix[^>]*>: (\d+):(\d+)$",
                         mc["out"], re.M):
        taken[m.group(1)] += int(m.group(3))
    for act in ("Init", "Check", "LookupFails", "ErrorReply", "Tick", "DbChange"):
        if not taken[act]:
            raise vlib.Inconclusive("vacuous: action %s never taken in %s" % (act, mc["cfg"]))
    cov = {"mc_states": mc["distinct"], "mc_transitions": mc["generated"], "mc_actions_taken": dict(taken)}
    universe0 = [v["universe"] for v in mc["vectors"] if "universe" in v][0]
    del mc

    vacuous = []
    parts = [direction_a(ctx, cov, universe0),
             direction_b(ctx, cov, PKG, "^TestZZVerifC19Trace$", "pkg", True, vacuous),
             direction_b(ctx, cov, FPKG, "^TestZZVerifC19Front$", "front", False, vacuous)]
    # One TLC run judges all three traces (they are concatenated; every walk
    # starts with its own reset line).
    every = [ln for lines, _ in parts for ln in lines]
    bad, skipped, diag = validate(ctx, every, "all", timeout=2400)
    res, off = [], 0
    for lines, digest in parts:
        mine = [b - off for b in bad if off < b <= off + len(lines)]
        res.append(digest(mine, skipped if mine else 0, {k - off: v for k, v in diag.items()}))
        off += len(lines)
    a, b, f = res
    # Binding demonstration: the same judge must reject a corrupted line.  It is
    # made independent of the tree under test: the line is one the judge has
    # ACCEPTED (first check of a walk without any rejected line, name without
    # optional candidates so that q determines v), with its verdict flipped;
    # and it never pre-empts the report of reproduced disagreements.
    keys, wid = [], -1
    for ln in every:
        if ln["a"] == "reset":
            wid += 1
        keys.append(wid)
    bad_walks = {keys[bl - 1] for bl in bad}
    k = next((i for i, ln in enumerate(every)
              if ln["a"] == "check" and not ln["f"] and not ln["x"] and ln["n"]["opt"] == 0 and keys[i] not in bad_walks), None)
    demo = None
    if k is not None:
        start = max(i for i in range(k + 1) if every[i]["a"] == "reset")
        forged = every[start:k] + [dict(every[k], v=not every[k]["v"])]
        fbad, _, _ = validate(ctx, forged, "forged")
        demo = fbad == [len(forged)]
        cov["binding_demo"] = {"corrupted_trace_line_rejected": demo,
                               "line": {x: forged[-1][x] for x in ("a", "q", "v")}, "name": forged[-1]["n"]["l"]}
    if demo is not True and not ctx.violations:
        raise vlib.Inconclusive("the trace spec did not reject a corrupted copy of an accepted line: nothing binds")
    # A trace in which nothing was ever blocked / cached shows nothing -- unless
    # it is the code's misbehaviour that made it so, which is reported first.
    if vacuous and not ctx.violations:
        raise vlib.Inconclusive("; ".join(vacuous))
    cov.update({
        "traces_validated_against_impl": cov["a_walks"] + 2,
        "evaluations": len(every),
        "distinct_nontrivial": a["nontrivial"] + cov["b_pkg"]["answered_from_cache"] + cov["b_front"]["answered_from_cache"],
        "rule": "A: one step per (state, action) pair of HashPrefix.tla's graph (+ connecting steps); non-trivial = "
                "a Check performed while some cache entry is usable.  B: one line per call of the real Check / "
                "CheckHost on random histories; non-trivial = answered without asking the service although the name "
                "has candidates.  Every check line is judged by TraceHashPrefix.tla against all outcomes the rules admit.",
        "exhaustive": bool(a["exhaustive"]),
        "truncated_by_known_finding": skipped if ctx.known_hits else 0,
        "samples": a["samples"] + [{"trace_line_b": b["sample"]}, {"trace_line_front": f["sample"]}],
        "notes": ctx.notes,
    })
    return ctx.finish("model_checking", cov, assumptions=[
        "TLC; conc()/abs() of the two zz_verif_c19_test.go files (SHA-256 of their own, question parser, seeded label "
        "search for prefix collisions)",
        "golang.org/x/net/publicsuffix as the instrument that says what an ICANN / private public suffix is",
        "mock lookup service: honest (all hashes under the requested prefixes, only those) with malformed TXT strings; "
        "virtual time from testing/synctest; package-level names in lower case without trailing dot (the callers' normal "
        "form), mixed case through DNSFilter.CheckHost",
    ])


def replay(ctx, path):
    rec = json.load(open(path))["record"]
    ctx.seed = rec.get("seed", ctx.seed)
    if rec["kind"] == "walk":
        by, _ = run_walks(ctx, rec["universe"], [rec["walk"]], "replay")
        lines, _ = walk_trace(rec["universe"], [rec["walk"]], by)
        last = by[rec["walk"]["w"]][-1]
    else:
        ctx.tier = rec.get("tier", ctx.tier)
        tout = ctx.path("c19_replay.ndjson")
        ctx.go_test(rec["pkg"], FILES, rec["test"], env={"VERIF_OUT": tout, "VERIF_ONLY_WALK": str(rec["walk"]),
                                                        "VERIF_MAX_STEPS": str(rec["steps"])},
                    synctest=rec["synctest"])
        lines = vlib.read_ndjson(tout)
        if not lines:
            raise vlib.Inconclusive("replay produced no trace")
        last = lines[-1]
    bad, _, diag = validate(ctx, lines, "replay")
    rejected = bool(bad) and bad[-1] == len(lines)
    print(json.dumps({"expected_one_of": diag.get(len(lines), {}).get("admissible") if rejected else "admissible",
                      "observed": {k: last.get(k) for k in ("host", "q", "v", "ok", "f", "x", "e", "why", "qn")}}, indent=1))
    return 1 if rejected else 0
