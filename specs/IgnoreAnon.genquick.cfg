CONSTANTS Design = "intended" Lis = {0, 3} Plans = "cover"
SPECIFICATION Spec
INVARIANTS NoIgnoredLogged NoIgnoredCounted AnonStored AnonReported SearchNames SearchClientsIdentifiable OracleConsistent RegistryAsConfigured
