"""Table from which tools/mkmanifest.py generates MANIFEST.json."""

HOOKS = {
    "guard": "verif",
    "enable": "no hook is compiled into /repo: every check builds /repo's current working tree with `go test -overlay <generated>`, which adds the in-package harness files /verif/harness/<pkg>/zz_verif_*_test.go (and, for C05, three non-test shim files zz_verif_c05_shim.go that expose one step of a background worker's own loop body) to the build without touching the repository; the build tag `verif` is reserved and unused",
    "baseline_off_cmd": "cd /repo && GOFLAGS=-mod=mod GOPROXY=off go test -vet=off -count=1 -timeout 25m ./...",
    "source_commits": [],
    "add_only": True,
}

ENGINES = [
    {"name": "tlc", "path": "/verif/specs", "kind_free_text": "explicit TLA+ specifications checked/enumerated by TLC (tools/vlib.py Ctx.tlc)",
     "serves_properties": []},
    {"name": "go-overlay-harness", "path": "/verif/harness", "kind_free_text": "in-package Go test files overlaid into /repo at build time (go test -overlay); replay TLC vectors/behaviours into the real code and record traces for TLC to validate",
     "serves_properties": []},
]

NOTES = ("Model-based verification with explicit TLA+ specifications; see DESIGN.md. "
         "./check <id> <tier> is the single entry point; exit 0/1/2 = held / reproduced violation / inconclusive.")

NOT_APPLICABLE = {}

import glob as _glob, importlib.util as _ilu, os as _os

CHECKS = {}
for _f in sorted(_glob.glob(_os.path.join(_os.path.dirname(_os.path.abspath(__file__)), "reg_c*.py"))):
    _spec = _ilu.spec_from_file_location(_os.path.basename(_f)[:-3], _f)
    _m = _ilu.module_from_spec(_spec)
    _spec.loader.exec_module(_m)
    CHECKS[_m.PROPERTY] = _m.ENTRY

# Only properties listed in checks/INTEGRATED (reviewed and run by the
# integrator on the unchanged tree) are claimed in MANIFEST.json.
_integrated = {l.strip() for l in open(_os.path.join(_os.path.dirname(_os.path.abspath(__file__)), "INTEGRATED")) if l.strip() and not l.startswith("#")}
CHECKS = {k: v for k, v in CHECKS.items() if k in _integrated}
