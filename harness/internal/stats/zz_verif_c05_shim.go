package stats

import "sync/atomic"

// zzVerifUnitBump is added to the unit identifier so that the C05 harness can
// make "the hour change" at will.
var zzVerifUnitBump atomic.Uint32

// ZZVerifInstallClock makes the unit identifier advance when ZZVerifNextHour
// is called.  It must be called before the statistics are started.
func (s *StatsCtx) ZZVerifInstallClock() {
	orig := s.unitIDGen
	s.unitIDGen = func() (id uint32) { return orig() + zzVerifUnitBump.Load() }
}

// ZZVerifNextHour advances the clock by one unit and runs one step of the
// periodic flush worker.
func (s *StatsCtx) ZZVerifNextHour() {
	zzVerifUnitBump.Add(1)
	s.flush()
}
