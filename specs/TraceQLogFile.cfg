SPECIFICATION Spec
