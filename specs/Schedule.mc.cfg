\* Exhaustive model: abstract zone classes on a scaled calendar (a day of 24
\* hours of 12 `minutes', tick = 1 `minute', two sub-ticks per tick), every
\* instant of the +-36 h window, all shapes; all serialisation vectors.
SPECIFICATION Spec
CONSTANTS
  TPD = 288
  TPH = 12
  TPM = 1
  SUB = 2
  WD0 = 4
  Cases <- MCCases
  AllInstants = TRUE
  Emit = "count"
INVARIANTS
  FullWeekCoversAll EmptyCoversNone FullDayExactlyItsDay EmptyDayExactlyNotItsDay
  DayLengthCovered HalfOpenOnWallClock RowsConsistent NonVacuousTable
  VerdictsSound RoundTripIdentity AllOrNothing
