SPECIFICATION Spec
VIEW View
CONSTANTS
  MaxRec = 4
  MemSizes = {2}
  FileModes = {TRUE}
  Palettes = {}
  Kinds = {2, 3}
  RestartResizes = FALSE
  IgnoreModes = {TRUE, FALSE}
  AnonModes = {FALSE}
  MaxFlight = 0
  Faults = TRUE
  AllowWindow = TRUE
  EmitEdges = FALSE
INVARIANTS TypeOK Ordered NothingLost PayloadPreserved SearchAll PagingPartitions WindowPaging NoParameterCrashes LastReplyOK
