//go:build darwin || freebsd || linux || openbsd

package dhcpd

// C14 conformance harness, DHCP lease database writer.  See the comment in
// harness/internal/filtering/zz_verif_c14_test.go for the child-process
// protocol; the driver part (zzC14Run and friends) is the same text in the
// three packages.
//
// Writers:
//
//   - "leases": a real server made by Create on a scratch data directory;
//     every save is a POST /control/dhcp/add_static_lease,
//     .../remove_static_lease or .../reset_leases handler call, which ends in
//     dbStore -> writeDB -> maybe.WriteFile.  The document size is varied by
//     the number of leases the database holds when the server is created.
//   - "leases-migrate": Create on a working directory that holds a leases.db
//     of the old format, which is converted into data/leases.json.

import (
	"bytes"
	"crypto/sha256"
	"encoding/hex"
	"encoding/json"
	"fmt"
	"net"
	"net/http"
	"net/http/httptest"
	"net/netip"
	"os"
	"os/signal"
	"path/filepath"
	"strings"
	"sync"
	"sync/atomic"
	"syscall"
	"testing"
	"time"
	"unsafe"
)

// zzC14Spec is the scenario description passed in ZZC14_SPEC.
type zzC14Spec struct {
	Mode   string `json:"mode"`   // "trace" | "poll" | "crash"
	Writer string `json:"writer"` // "filter"
	Root   string `json:"root"`   // scratch root, exists, empty
	Out    string `json:"out"`    // NDJSON result file
	Sizes  []int  `json:"sizes"`  // requested document size per save
	Seed   int64  `json:"seed"`
	// MaxReads bounds the number of reads of the concurrent reader.
	MaxReads int `json:"maxreads"`
	// Resume: the scratch root is what an earlier (killed) child left behind;
	// set-up must take the destination and everything else as it finds them.
	Resume bool `json:"resume"`
	// Gen distinguishes the documents of successive children on one root.
	Gen int `json:"gen"`
	// Faults, parallel to Sizes: the failure injected into that save ("":
	// none), see zzC14Fault.
	Faults []string `json:"faults"`
	// Serve, parallel to Sizes (filter writer only): how the new list is
	// offered: "" or "length" (HTTP with Content-Length), "chunked" (HTTP,
	// size not announced), "file" (a local source file).
	Serve []string `json:"serve"`
}

// zzC14Writer is one of the real save paths.
type zzC14Writer interface {
	// setup prepares everything and returns the destination path and the
	// size of the document that is there already (-1: none).
	setup(t *testing.T, sp *zzC14Spec) (dst string, init int)
	// save performs the real save of version ver with the requested size.
	save(t *testing.T, ver, size int) (err error)
	// check reports whether data is the complete document of version ver.
	check(ver int, data []byte) (ok bool)
	// intended returns -1 if save number ver is expected to install version
	// ver, and otherwise (a save that is made to fail on purpose) the size
	// the document would have had: the path must then keep what it holds.
	intended(ver int) (size int)
}

// zzC14Mark issues a system call that is visible, in order, in the strace
// log and has no effect.
func zzC14Mark(s string) {
	f, err := os.Open("/zzc14/" + s)
	if err == nil {
		_ = f.Close()
	}
}

func zzC14Sha(b []byte) (s string) {
	h := sha256.Sum256(b)

	return hex.EncodeToString(h[:8])
}

// zzC14Log is the event log of a run.
type zzC14Log struct {
	mu   sync.Mutex
	rows []map[string]any
}

func (l *zzC14Log) add(r map[string]any) {
	l.mu.Lock()
	defer l.mu.Unlock()

	l.rows = append(l.rows, r)
}

func (l *zzC14Log) flush(t *testing.T, p string) {
	l.mu.Lock()
	defer l.mu.Unlock()

	buf := &bytes.Buffer{}
	for _, r := range l.rows {
		b, err := json.Marshal(r)
		if err != nil {
			t.Fatalf("c14: %v", err)
		}

		buf.Write(b)
		buf.WriteByte('\n')
	}

	if err := os.WriteFile(p, buf.Bytes(), 0o644); err != nil {
		t.Fatalf("c14: %v", err)
	}
}

// zzC14Run is the scenario driver shared by the modes.
func zzC14Run(t *testing.T, sp *zzC14Spec, w zzC14Writer) {
	lg := &zzC14Log{}
	zzC14Mark("setup")
	dst, init := w.setup(t, sp)
	lg.add(map[string]any{"ev": "meta", "dst": dst, "init": init, "writer": sp.Writer, "mode": sp.Mode})

	ver := 0
	last := 0 // the version the path holds now; 0: none
	shas := map[string]int{}
	if init >= 0 {
		ver, last = 1, 1
		data, err := os.ReadFile(dst)
		if err != nil || len(data) != init {
			t.Fatalf("c14: initial document: %v (%d bytes, want %d)", err, len(data), init)
		}

		shas[zzC14Sha(data)] = 1
	}

	zzC14Mark(fmt.Sprintf("arm/%d", init))
	lg.add(map[string]any{"ev": "arm", "n": init})

	var stop atomic.Bool
	var wg sync.WaitGroup
	type obs struct {
		sha string
		row map[string]any
	}
	var seen []obs
	if sp.Mode == "poll" {
		wg.Add(1)
		go func() {
			defer wg.Done()

			for id := 1; !stop.Load() && id <= sp.MaxReads; id++ {
				lg.add(map[string]any{"ev": "rbegin", "id": id})
				data, err := os.ReadFile(dst)
				row := map[string]any{"ev": "rend", "id": id, "n": len(data)}
				if err != nil {
					row["enoent"] = os.IsNotExist(err)
					row["err"] = err.Error()
				}

				// The version is resolved after the run, when the digest
				// of every version is known.
				seen = append(seen, obs{sha: zzC14Sha(data), row: row})
				lg.add(row)
				if id%64 == 0 {
					time.Sleep(50 * time.Microsecond)
				}
			}
		}()
	}

	for i, size := range sp.Sizes {
		if sp.Mode == "crash" && i == len(sp.Sizes)-1 {
			zzC14CrashWatcher(dst)
		}

		fault := ""
		if i < len(sp.Faults) {
			fault = sp.Faults[i]
		}

		ver++
		lg.add(map[string]any{"ev": "begin", "id": ver, "want": size})
		// What the harness itself has to write for this save (a source
		// file) is written before the environment turns hostile.
		if p, ok := w.(interface {
			prepare(t *testing.T, ver, size int)
		}); ok {
			p.prepare(t, ver, size)
		}

		undo, faulted := zzC14Fault(t, fault, dst)
		zzC14Mark(fmt.Sprintf("begin/%d", ver))
		err := w.save(t, ver, size)
		zzC14Mark(fmt.Sprintf("end/%d", ver))
		undo()

		row := map[string]any{"ev": "end", "id": ver}
		if err != nil {
			row["err"] = err.Error()
		}

		// is: the version found at the path after the save (0: no file,
		// -1: not a complete version).
		data, rerr := os.ReadFile(dst)
		is := -1
		switch {
		case rerr != nil && os.IsNotExist(rerr):
			is = 0
		case rerr != nil:
			row["readerr"] = rerr.Error()
		case w.check(ver, data):
			is = ver
		default:
			if v, known := shas[zzC14Sha(data)]; known {
				is = v
			}
		}

		row["n"] = len(data)
		row["is"] = is
		row["sha"] = zzC14Sha(data)
		if fault != "" {
			row["fault"] = fault
			row["faulted"] = faulted
		}

		if want := w.intended(ver); want >= 0 {
			row["noop"] = true
			row["decl"] = want
			row["ok"] = is == last
		} else if faulted && is != ver {
			// The save failed under the injected fault: there is no new
			// version, the path must hold what it held.
			row["noop"] = true
			row["decl"] = -1
			row["ok"] = is == last
		} else {
			row["decl"] = len(data)
			row["ok"] = is == ver
		}

		if is == ver {
			shas[zzC14Sha(data)] = ver
			last = ver
		}

		lg.add(row)
	}

	stop.Store(true)
	wg.Wait()
	zzC14Mark("done")

	for _, o := range seen {
		if v, ok := shas[o.sha]; ok && o.row["err"] == nil {
			o.row["ver"] = v
		} else if o.row["enoent"] == true {
			o.row["ver"] = -2
		} else {
			o.row["ver"] = -1
		}
	}

	lg.add(map[string]any{"ev": "done"})
	lg.flush(t, sp.Out)
}

// zzC14CrashWatcher is the "power cord" of the crash mode: as soon as a file
// that did not exist before the last save shows up next to the destination
// (or in TMPDIR) with a non-zero, no longer growing size -- i.e. the writer is
// somewhere between its last write and the end of the save -- the whole
// process is killed with SIGKILL.  Whatever it leaves behind (typically a
// left-over temporary file) is the starting state of the next child.
func zzC14CrashWatcher(dst string) {
	dirs := []string{filepath.Dir(dst)}
	if td := os.TempDir(); td != dirs[0] {
		dirs = append(dirs, td)
	}

	known := map[string]bool{dst: true}
	for _, d := range dirs {
		ents, _ := os.ReadDir(d)
		for _, e := range ents {
			known[filepath.Join(d, e.Name())] = true
		}
	}

	go func() {
		last := map[string]int64{}
		for {
			for _, d := range dirs {
				ents, _ := os.ReadDir(d)
				for _, e := range ents {
					p := filepath.Join(d, e.Name())
					if known[p] || e.IsDir() {
						continue
					}

					fi, err := e.Info()
					if err != nil {
						continue
					}

					if n := fi.Size(); n > 0 && last[p] == n {
						_ = syscall.Kill(syscall.Getpid(), syscall.SIGKILL)
					} else {
						last[p] = n
					}
				}
			}

			time.Sleep(100 * time.Microsecond)
		}
	}()
}

// zzC14SetImmutable sets or clears the immutable attribute of p.
func zzC14SetImmutable(p string, on bool) (err error) {
	const (
		getFlags = 0x80086601 // FS_IOC_GETFLAGS
		setFlags = 0x40086602 // FS_IOC_SETFLAGS
		immFlag  = 0x10       // FS_IMMUTABLE_FL
	)

	f, err := os.Open(p)
	if err != nil {
		return err
	}
	defer func() { _ = f.Close() }()

	var fl int64
	_, _, en := syscall.Syscall(syscall.SYS_IOCTL, f.Fd(), getFlags, uintptr(unsafe.Pointer(&fl)))
	if en != 0 {
		return en
	}

	if on {
		fl |= immFlag
	} else {
		fl &^= immFlag
	}

	_, _, en = syscall.Syscall(syscall.SYS_IOCTL, f.Fd(), setFlags, uintptr(unsafe.Pointer(&fl)))
	if en != 0 {
		return en
	}

	return nil
}

// zzC14Fault makes the environment hostile for the duration of one save and
// returns the function that undoes it.  A failing system call is a point of a
// save like any other: the path must keep the complete previous version (or
// get the complete new one).  Kinds:
//
//	fsize:K  RLIMIT_FSIZE = K bytes with SIGXFSZ ignored: every write beyond
//	         K bytes of any file is cut short / fails with EFBIG ("disk full");
//	nodir    the destination's directory is moved away: creating the
//	         temporary file fails with ENOENT;
//	immdir   the directory is immutable: creating fails with EPERM;
//	immdst   the destination file is immutable: the rename onto it (and any
//	         open for writing) fails with EPERM.
//
// applied is false if the fault cannot be produced here (then the save runs
// undisturbed).
func zzC14Fault(t *testing.T, kind, dst string) (undo func(), applied bool) {
	dir := filepath.Dir(dst)
	switch {
	case kind == "":
		return func() {}, false
	case strings.HasPrefix(kind, "fsize:"):
		var k uint64
		_, _ = fmt.Sscanf(kind, "fsize:%d", &k)
		old := syscall.Rlimit{}
		if err := syscall.Getrlimit(syscall.RLIMIT_FSIZE, &old); err != nil {
			return func() {}, false
		}

		signal.Ignore(syscall.SIGXFSZ)
		if err := syscall.Setrlimit(syscall.RLIMIT_FSIZE, &syscall.Rlimit{Cur: k, Max: old.Max}); err != nil {
			return func() {}, false
		}

		return func() {
			if err := syscall.Setrlimit(syscall.RLIMIT_FSIZE, &old); err != nil {
				t.Fatalf("c14: restoring RLIMIT_FSIZE: %v", err)
			}
		}, true
	case kind == "nodir":
		away := dir + ".zzc14away"
		if err := os.Rename(dir, away); err != nil {
			return func() {}, false
		}

		return func() {
			if err := os.Rename(away, dir); err != nil {
				t.Fatalf("c14: moving the directory back: %v", err)
			}
		}, true
	case kind == "immdir" || kind == "immdst":
		p := dir
		if kind == "immdst" {
			p = dst
		}

		if err := zzC14SetImmutable(p, true); err != nil {
			return func() {}, false
		}

		return func() {
			if err := zzC14SetImmutable(p, false); err != nil {
				t.Fatalf("c14: clearing the immutable attribute of %q: %v", p, err)
			}
		}, true
	default:
		t.Fatalf("c14: unknown fault %q", kind)

		return nil, false
	}
}

func zzC14LoadSpec(t *testing.T) (sp *zzC14Spec) {
	s := os.Getenv("ZZC14_SPEC")
	if s == "" {
		t.Skip("no ZZC14_SPEC")
	}

	sp = &zzC14Spec{}
	if err := json.Unmarshal([]byte(s), sp); err != nil {
		t.Fatalf("c14: spec: %v", err)
	}

	return sp
}

// zzC14SyncPath makes a file prepared by the harness and its directory
// durable, so that "arm" can truthfully declare it the previous version.
func zzC14SyncPath(t *testing.T, p string) {
	for _, q := range []string{p, filepath.Dir(p)} {
		f, err := os.Open(q)
		if err != nil {
			t.Fatalf("c14: %v", err)
		}

		if err = f.Sync(); err != nil {
			t.Fatalf("c14: %v", err)
		}

		_ = f.Close()
	}
}

func zzC14Conf(sp *zzC14Spec) (conf *ServerConfig) {
	return &ServerConfig{
		Enabled:        true,
		ConfigModified: func() {},
		WorkDir:        filepath.Join(sp.Root, "work"),
		DataDir:        filepath.Join(sp.Root, "work", "data"),
		Conf4: V4ServerConf{
			Enabled:    true,
			RangeStart: netip.MustParseAddr("10.0.0.10"),
			RangeEnd:   netip.MustParseAddr("10.0.0.200"),
			GatewayIP:  netip.MustParseAddr("10.0.0.1"),
			SubnetMask: netip.MustParseAddr("255.0.0.0"),
		},
	}
}

// zzC14Host returns a long, unique, valid host name.
func zzC14Host(i int) (h string) {
	l := strings.Repeat("a", 60)

	return fmt.Sprintf("zz%07d.%s.%s.%s", i, l, l, l)
}

func zzC14IP(i int) (ip netip.Addr) {
	i += 1000

	return netip.AddrFrom4([4]byte{10, byte(i >> 16), byte(i >> 8), byte(i)})
}

func zzC14MAC(i int) (mac net.HardwareAddr) {
	return net.HardwareAddr{0x02, 0x00, byte(i >> 24), byte(i >> 16), byte(i >> 8), byte(i)}
}

// zzC14Leases drives the lease database save.
type zzC14Leases struct {
	s      *server
	sp     *zzC14Spec
	count  map[int]int
	marker map[int]string
	added  []*leaseStatic
	next   int
}

func (w *zzC14Leases) setup(t *testing.T, sp *zzC14Spec) (dst string, init int) {
	w.sp = sp
	w.count = map[int]int{}
	w.marker = map[int]string{}
	conf := zzC14Conf(sp)
	if err := os.MkdirAll(conf.DataDir, 0o755); err != nil {
		t.Fatalf("c14: %v", err)
	}

	dst = filepath.Join(conf.DataDir, dataFilename)
	init = -1
	pre := -1
	if len(sp.Sizes) > 0 {
		pre = sp.Sizes[0]
		sp.Sizes = sp.Sizes[1:]
	}

	if sp.Resume {
		// Take the database an earlier child left behind as it is.
		w.next = sp.Gen * 200000
		if fi, serr := os.Stat(dst); serr == nil {
			init = int(fi.Size())
		}
	} else if pre >= 0 {
		dl := &dataLeases{Version: dataVersion, Leases: []*dbLease{}}
		for n := 0; n < pre; n += 300 {
			i := len(dl.Leases)
			dl.Leases = append(dl.Leases, &dbLease{
				IP:       zzC14IP(i),
				Hostname: zzC14Host(i),
				HWAddr:   zzC14MAC(i).String(),
				IsStatic: true,
			})
		}

		w.next = len(dl.Leases)
		buf, err := json.Marshal(dl)
		if err != nil {
			t.Fatalf("c14: %v", err)
		}

		if err = os.WriteFile(dst, buf, 0o644); err != nil {
			t.Fatalf("c14: %v", err)
		}

		zzC14SyncPath(t, dst)
		init = len(buf)
	}

	s, err := Create(conf)
	if err != nil {
		t.Fatalf("c14: dhcpd.Create: %v", err)
	}

	w.s = s
	if got := len(s.srv4.getLeasesRef()); !sp.Resume && got != w.next {
		t.Fatalf("c14: loaded %d leases, want %d", got, w.next)
	}

	return dst, init
}

func (w *zzC14Leases) call(h http.HandlerFunc, l *leaseStatic) (err error) {
	body, _ := json.Marshal(l)
	rec := httptest.NewRecorder()
	req := httptest.NewRequest(http.MethodPost, "/control/dhcp/", bytes.NewReader(body))
	req.Header.Set("Content-Type", "application/json")
	h(rec, req)
	if rec.Code != http.StatusOK {
		return fmt.Errorf("status %d: %s", rec.Code, rec.Body.String())
	}

	return nil
}

// save: size > 0 adds a static lease, size == 0 resets the leases, size < 0
// removes the lease added last (or adds one if there is none).
func (w *zzC14Leases) save(t *testing.T, ver, size int) (err error) {
	cur := len(w.s.srv4.getLeasesRef())
	switch {
	case size == 0:
		w.count[ver] = 0
		w.added = nil

		return w.call(w.s.handleResetLeases, &leaseStatic{})
	case size < 0 && len(w.added) > 0:
		l := w.added[len(w.added)-1]
		w.added = w.added[:len(w.added)-1]
		w.count[ver] = cur - 1

		return w.call(w.s.handleDHCPRemoveStaticLease, l)
	default:
		i := w.next
		w.next++
		l := &leaseStatic{
			HWAddr:   zzC14MAC(i).String(),
			IP:       zzC14IP(i),
			Hostname: fmt.Sprintf("zzc14-g%d-v%d.%s", w.sp.Gen, ver, strings.Repeat("b", 40)),
		}
		w.added = append(w.added, l)
		w.count[ver] = cur + 1
		w.marker[ver] = l.Hostname

		return w.call(w.s.handleDHCPAddStaticLease, l)
	}
}

func (w *zzC14Leases) check(ver int, data []byte) (ok bool) {
	dl := &dataLeases{}
	if err := json.Unmarshal(data, dl); err != nil {
		return false
	}

	if dl.Version != dataVersion || len(dl.Leases) != w.count[ver] {
		return false
	}

	m, has := w.marker[ver]
	if !has {
		return true
	}

	for _, l := range dl.Leases {
		if l.Hostname == m {
			return true
		}
	}

	return false
}

// zzC14Migrate drives the conversion of the old lease database.
type zzC14Migrate struct {
	sp *zzC14Spec
	n  int
}

func (w *zzC14Migrate) setup(t *testing.T, sp *zzC14Spec) (dst string, init int) {
	w.sp = sp
	conf := zzC14Conf(sp)
	if err := os.MkdirAll(conf.DataDir, 0o755); err != nil {
		t.Fatalf("c14: %v", err)
	}

	old := []*leaseJSON{}
	size := 0
	if len(sp.Sizes) > 0 {
		size = sp.Sizes[0]
	}

	for n := 0; n <= size; n += 300 {
		i := len(old)
		old = append(old, &leaseJSON{
			HWAddr:   zzC14MAC(i),
			IP:       zzC14IP(i).AsSlice(),
			Hostname: zzC14Host(i),
			Expiry:   leaseExpireStatic,
		})
	}

	w.n = len(old)
	buf, err := json.Marshal(old)
	if err != nil {
		t.Fatalf("c14: %v", err)
	}

	p := filepath.Join(conf.WorkDir, dbFilename)
	if err = os.WriteFile(p, buf, 0o644); err != nil {
		t.Fatalf("c14: %v", err)
	}

	zzC14SyncPath(t, p)

	return filepath.Join(conf.DataDir, dataFilename), -1
}

func (w *zzC14Migrate) save(t *testing.T, ver, size int) (err error) {
	_, err = Create(zzC14Conf(w.sp))

	return err
}

func (w *zzC14Migrate) check(ver int, data []byte) (ok bool) {
	dl := &dataLeases{}
	if err := json.Unmarshal(data, dl); err != nil {
		return false
	}

	return dl.Version == dataVersion && len(dl.Leases) == w.n
}

func (w *zzC14Leases) intended(ver int) (size int) { return -1 }

func (w *zzC14Migrate) intended(ver int) (size int) { return -1 }

func TestZZVerifC14Child(t *testing.T) {
	sp := zzC14LoadSpec(t)
	switch sp.Writer {
	case "leases":
		zzC14Run(t, sp, &zzC14Leases{})
	case "leases-migrate":
		sp.Sizes = sp.Sizes[:1]
		zzC14Run(t, sp, &zzC14Migrate{})
	default:
		t.Fatalf("c14: unknown writer %q", sp.Writer)
	}
}
