CONSTANT Design = "intended"
SPECIFICATION Spec
INVARIANTS SearchClientsStrict
