--------------------------- MODULE AdGuardHomeCore ---------------------------
(***************************************************************************)
(* G09 -- the server as ONE system: the composition of the per-subsystem   *)
(* specifications over shared state (DESIGN.md section 5).                 *)
(*                                                                         *)
(* This module has no variables.  It defines the system state as a record  *)
(* and every admin API call and the DNS query as operators from a state to *)
(* the SET of admissible (next state, reply) pairs, so that the            *)
(* exhaustive model (AdGuardHome.tla) and the validation of histories      *)
(* recorded from the fully wired server (TraceAdGuardHome.tla) evaluate    *)
(* one text.                                                               *)
(*                                                                         *)
(* What is composed (none of these modules is edited; each is instantiated *)
(* as it stands):                                                          *)
(*   AC  AccessCore       who is served at all (C03)                       *)
(*   CL  ClientsCore      the persistent-client registry, attribution of a *)
(*                        request to a client, effective settings (C04)    *)
(*   RW  RewritesCore     the legacy rewrite table (C06)                   *)
(*   PL  DnsPipelineCore  (EXTENDS RuleEngine) rules, blocking mode,       *)
(*                        upstream, answer filtering (C01/C02)             *)
(*   IA  IgnoreAnonCore   ignore lists, per-client ignore switches,        *)
(*                        anonymisation (C08)                              *)
(* The shared variables of DESIGN section 5 are the fields of the state    *)
(* record S: the registry feeds the pipeline's settings snapshot AND the   *)
(* query log's / statistics' ignore decision AND the client name shown in  *)
(* the log; the access lists gate everything AND colour the log's          *)
(* client_info; the pipeline's outcome feeds the log entry (reason,        *)
(* answer) and the statistics category.                                    *)
(*                                                                         *)
(* State record S                                                          *)
(*   reg     set of client records (ClientsCore shape + ignQ, ignS; vals   *)
(*           = [filt |-> BOOLEAN] the client's own "filtering enabled")    *)
(*   prot    protection on/off          filt   global filtering on/off     *)
(*   gsvc    set of globally blocked services ("yt", "fb")                 *)
(*   rules   set of custom filtering rules (RuleEngine shape, place        *)
(*           "custom")                                                     *)
(*   rw      the legacy rewrite table (sequence, RewritesCore shape)       *)
(*   acc     [allowed, disallowed, hosts] (AccessCore shape)               *)
(*   q       [on, anon, ign]  query-log configuration                      *)
(*   s       [on, ign]        statistics configuration                     *)
(*   log     the query log, oldest first; an entry is what was WRITTEN     *)
(*   st      [total, blocked, dom, bdom, cli] statistics counters;         *)
(*           dom/bdom/cli are functions (name |-> n, client key |-> n)     *)
(*   anonst  anonymisation has been on at some moment since the statistics *)
(*           were last reset (see StatsOK)                                 *)
(* Safe browsing, parental control and safe search are off in every state  *)
(* (they are C19 / G03), there are no rule lists besides the custom rules  *)
(* (G07), no DHCP leases, no runtime client sources, no response cache,    *)
(* blocking mode "default", no schedules.                                  *)
(*                                                                         *)
(* Addresses are numbers 0 .. 2^W - 1 (ClientsCore); their low LowBits     *)
(* bits are what anonymisation removes.  AccessCore and IgnoreAnonCore     *)
(* take bit vectors: AddrRec converts.  ClientIDs are numbers 1..3         *)
(* (0 = none); AccessCore wants strings: CidStr converts.                  *)
(***************************************************************************)
EXTENDS Naturals, Sequences, FiniteSets, TLC

CONSTANTS W, LowBits,              \* ClientsCore / IgnoreAnonCore
          SvcDomains, Svc2Domains  \* DnsPipelineCore (see PCfg)

AC == INSTANCE AccessCore
CL == INSTANCE ClientsCore
RW == INSTANCE RewritesCore
PL == INSTANCE DnsPipelineCore
IA == INSTANCE IgnoreAnonCore

\* ------------------------------------------------------------------ bridges
Pow2(n) == 2 ^ n
BitsOf(n) == [i \in 1..W |-> (n \div Pow2(W - i)) % 2]
RECURSIVE NumOf(_)
NumOf(b) == IF Len(b) = 0 THEN 0 ELSE 2 * NumOf(SubSeq(b, 1, Len(b) - 1)) + b[Len(b)]
AddrRec(n) == [fam |-> "v4", bits |-> BitsOf(n)]
\* IgnoreAnonCore's anonymisation on a numeric address.
AnonNum(n) == NumOf(IA!Anon(AddrRec(n)).bits)

CidStr(m) == CASE m = 0 -> "" [] m = 1 -> "kid" [] m = 2 -> "xid" [] m = 3 -> "zid"
CidId(m)  == IF m = 0 THEN CL!NoId ELSE <<"cid", m, 0>>

SeqToSet(s) == {s[i] : i \in DOMAIN s}

\* A bag as a function with a growing domain.
Bump(f, k) == IF k \in DOMAIN f THEN [f EXCEPT ![k] = @ + 1] ELSE f @@ (k :> 1)
Cnt(f, k)  == IF k \in DOMAIN f THEN f[k] ELSE 0
NoBag      == <<>>      \* the function with the empty domain

\* ------------------------------------------------------------ initial state
\* The configuration the harness boots with (and the one a fresh installation
\* has, as far as this state goes).  An installation's empty blocked-hosts
\* list stands for the default names (AccessCore!EffectiveHosts).
NoStats == [total |-> 0, blocked |-> 0, dom |-> NoBag, bdom |-> NoBag, cli |-> NoBag]
S0 == [reg |-> {}, prot |-> TRUE, filt |-> TRUE, gsvc |-> {}, rules |-> {}, rw |-> <<>>,
       acc |-> [allowed |-> {}, disallowed |-> {}, hosts |-> AC!DefaultHosts],
       q |-> [on |-> TRUE, anon |-> FALSE, ign |-> {}], s |-> [on |-> TRUE, ign |-> {}],
       log |-> <<>>, st |-> NoStats, anonst |-> FALSE]
\* The state after the harness's reset prologue (every family posted with its
\* default value through the API: a POSTED empty blocked-hosts list is empty).
SReset == [S0 EXCEPT !.acc.hosts = {}]

\* -------------------------------------------------------------- attribution
Known(c) == c # CL!NoClient
\* The client a request (or a stored log entry) with ClientID number cid and
\* address a belongs to under registry R: ClientID, exact IP, most specific
\* CIDR (ClientsCore!Resolve; there are no leases).
Who(R, cid, a) == CL!Resolve(R, <<>>, CidId(cid), a)
WhoName(R, cid, a) == LET c == Who(R, cid, a) IN IF Known(c) THEN c.name ELSE 0

\* Effective settings of a request (ClientsCore!Effective): vals.filt and svcs.
Glob(S) == [vals |-> [filt |-> S.filt], svcs |-> S.gsvc, pause |-> FALSE]
Eff(S, q) == CL!Effective(S.reg, <<>>, Glob(S), CidId(q.cid), q.addr)

\* ------------------------------------------------------------------ services
\* (re-stated locally: DnsPipelineCore knows one global and one per-client
\* service; here a blocked-services setting is a SET of services.)
SvcDom(s) == CASE s = "yt" -> <<"youtube", "com">> [] s = "fb" -> <<"facebook", "com">>
\* (the value the configuration files give to SvcDomains and Svc2Domains)
AllSvcDomains == {SvcDom("yt"), SvcDom("fb")}
MatchingSvcs(svcs, name) == {s \in svcs : PL!SubOrEq(name, SvcDom(s))}

\* ----------------------------------------------------------------- upstream
\* The harness's mock upstream answers every A / AAAA question with one
\* sentinel address and every other type with an empty NOERROR.
Sentinel(qt) == IF qt = "A" THEN {"sent4"} ELSE IF qt = "AAAA" THEN {"sent6"} ELSE {}
UpRR(t, a) == [t |-> t, o |-> <<>>, n |-> <<>>, a |-> a, h4 |-> <<>>, h6 |-> <<>>]
UpAnswer(qt) == IF qt = "A" THEN <<UpRR("A", "sent4")>>
                ELSE IF qt = "AAAA" THEN <<UpRR("AAAA", "sent6")>> ELSE <<>>
UpModeOf(qt) == IF qt \in {"A", "AAAA"} THEN "answer" ELSE "nodata"

\* ------------------------------------------------------- the query's outcome
\* An outcome is what the three observers of a query see:
\*   cls     "answer" | "drop" (no reply at all)
\*   rcode   "NOERROR" | "REFUSED" | "NXDOMAIN" | "" (drop)
\*   cname   target of the CNAME record leading the answer, or <<>>
\*   addrs   set of address tokens in the answer
\*   asked   set of [n, t]: the questions put to the upstream
\*   reason  the filtering status the log shows ("" when not served)
\*   svc     the blocked service ("" unless reason = FilteredBlockedService)
\*   served  the request passed the access lists
Out(cls, rcode, cname, addrs, asked, reason, svc, served) ==
    [cls |-> cls, rcode |-> rcode, cname |-> cname, addrs |-> addrs, asked |-> asked,
     reason |-> reason, svc |-> svc, served |-> served]

\* (1) access lists: AccessCore!Outcomes.
AReq(q) == [addr |-> AddrRec(q.addr), form |-> "plain", id |-> CidStr(q.cid), idcase |-> "lower",
            name |-> q.name, spell |-> "lower", qtype |-> q.qt, proto |-> q.proto]
Denied(a) == IF a = "drop" THEN Out("drop", "", <<>>, {}, {}, "", "", FALSE)
             ELSE Out("answer", "REFUSED", <<>>, {}, {}, "", "", FALSE)

\* (3) rules, blocked services, upstream, answer filtering: the pipeline of
\* DnsPipelineCore, fed with the settings the registry yields for THIS request.
\* The attributed client is the pipeline's "persistent client c1"; a request
\* attributed to nobody comes from "c2".  The pipeline's service stage is told
\* whether a service of the EFFECTIVE set (the client's own or the global one)
\* covers the name: SvcDomains is the union of all services' domains.
PCfg(S, q, c, e) ==
    [rules |-> S.rules, mode |-> "default", prot |-> IF S.prot THEN "on" ELSE "off", filt |-> S.filt,
     svc |-> IF MatchingSvcs(e.svcs, q.name) # {} THEN "active" ELSE "none",
     client |-> [known |-> Known(c), useOwn |-> Known(c) /\ c.own,
                 filt |-> IF Known(c) /\ c.own THEN c.vals.filt ELSE FALSE, svc |-> "inherit"],
     aaaaOff |-> FALSE, cache |-> FALSE, cust |-> 1]
PReq(q, c) == [name |-> q.name, qtype |-> q.qt, client |-> IF Known(c) THEN "c1" ELSE "c2", cid |-> ""]

\* C01 leaves open whether a blocked service is blocked for a client whose
\* filtering is off.  AGHTechDoc "Services Filter" is unconditional ("When a
\* user sends a DNS request for a host which is blocked by these settings, he
\* won't receive its IP address"): where the pipeline admits the service block
\* it is the outcome.
Resolved(os) == IF \E o \in os : o.why = "S" THEN {o \in os : o.why = "S"} ELSE os

ReasonOf(why) == CASE why = "N" -> "NotFilteredNotFound" [] why = "A" -> "NotFilteredWhiteList"
                   [] why = "B" -> "FilteredBlackList"  [] why = "R" -> "FilteredBlackList"
                   [] why = "S" -> "FilteredBlockedService"
FromPipe(o, q, e) ==
    Out("answer",
        CASE o.c = "nx" -> "NXDOMAIN" [] o.c = "ref" -> "REFUSED" [] OTHER -> "NOERROR",
        <<>>,
        IF o.c = "up" THEN Sentinel(q.qt) ELSE o.a,
        IF o.calls > 0 THEN {[n |-> q.name, t |-> q.qt]} ELSE {},
        ReasonOf(o.why),
        IF o.why = "S" THEN CHOOSE s \in MatchingSvcs(e.svcs, q.name) : TRUE ELSE "",
        TRUE)
PipeOutcomes(S, q, c, e) ==
    {FromPipe(o, q, e) : o \in Resolved(PL!Verdict(PCfg(S, q, c, e), PReq(q, c), UpAnswer(q.qt)))}

\* (2) legacy rewrites come first (AGHTechDoc "Filtering": rewrite rules, then
\* hosts, then filtering lists) and only for a request whose filtering is
\* enabled; they do not depend on the protection switch (CHANGELOG #1558).
FromRewrite(ro, q) ==
    LET sv == RW!Serve(ro, q.name, q.qt, LAMBDA n : UpModeOf(q.qt)) IN
    Out("answer", sv.rcode, sv.cname,
        sv.ips \cup (IF sv.fromup # <<>> THEN Sentinel(q.qt) ELSE {}),
        {[n |-> x[1], t |-> x[2]] : x \in sv.ask}, "Rewrite", "", TRUE)

\* (c and e are bound by quantifiers over singleton sets: TLC evaluates a bound
\* variable once, a LET definition at every use.)
\* RewritesCore!Outcomes is the specification of C06 proper (no deviations:
\* the six findings of C06 are fixed in the code; while they were open the
\* validation of recorded histories fell back to RewritesCore!Deviations for
\* lines the specification did not explain -- on the final tree no line needs
\* that, and the fallback is gone).
ServedWith(S, q, c, e) ==
    IF e.vals.filt
    THEN UNION {IF ro.r = "pass" THEN PipeOutcomes(S, q, c, e) ELSE {FromRewrite(ro, q)}
                : ro \in RW!Outcomes(S.rw, q.name, q.qt)}
    ELSE PipeOutcomes(S, q, c, e)
ServedOutcomes(S, q) ==
    UNION {ServedWith(S, q, c, e) : c \in {Who(S.reg, q.cid, q.addr)}, e \in {Eff(S, q)}}

QueryOutcomes(S, q) ==
    UNION {IF a = "served" THEN ServedOutcomes(S, q) ELSE {Denied(a)}
           : a \in AC!Outcomes(S.acc, AReq(q))}

\* ----------------------------------------------- what a query leaves behind
\* IgnoreAnonCore decides from ITS view of the registry (a set of
\* [id, flagQ, flagS], the most specific identifier owning a sender): every
\* identifier of every client of the shared registry, translated to its
\* vocabulary.  The pipeline's settings come from ClientsCore's attribution,
\* the ignore decision from IgnoreAnonCore's: AdGuardHome!AttributionsAgree
\* checks that the two modules pick the same client.
IAId(id) == CASE id[1] = "cid" -> [kind |-> "cid", cid |-> CidStr(id[2])]
              [] id[1] = "ip"  -> [kind |-> "ip", addr |-> AddrRec(id[2])]
              [] id[1] = "net" -> [kind |-> "cidr", fam |-> "v4", bits |-> SubSeq(BitsOf(id[2]), 1, id[3])]
IAReg(reg) == UNION {{[id |-> IAId(id), flagQ |-> c.ignQ, flagS |-> c.ignS] : id \in c.ids} : c \in reg}
IACfg(S) ==
    [ignQ |-> S.q.ign, ignS |-> S.s.ign, client |-> [kind |-> "none"], flagQ |-> FALSE, flagS |-> FALSE,
     anon |-> S.q.anon, qlogOn |-> S.q.on, statsOn |-> S.s.on, refuseAny |-> FALSE, extra |-> IAReg(S.reg)]
IAQ(q) == [name |-> q.name, addr |-> AddrRec(q.addr), cid |-> CidStr(q.cid), qt |-> q.qt]

IsBlockedReason(r) == r \in {"FilteredBlackList", "FilteredBlockedService"}

\* The state after query q got outcome o.
CommitWith(S, q, o, c, ic, saddr) ==
    LET logIt == o.served /\ S.q.on /\ IA!ShouldLog(ic, IAQ(q))
        cntIt == o.served /\ S.s.on /\ IA!ShouldCount(ic, IAQ(q))
        entry == [addr |-> saddr, cid |-> q.cid, name |-> q.name, qt |-> q.qt, reason |-> o.reason,
                  rcode |-> o.rcode, cname |-> o.cname, addrs |-> o.addrs, svc |-> o.svc,
                  wname |-> IF Known(c) THEN c.name ELSE 0,
                  proto |-> IF q.proto = "https" THEN "doh" ELSE ""]
        key   == IF q.cid # 0 THEN <<"c", q.cid>> ELSE <<"a", saddr>>
        blk   == IsBlockedReason(o.reason)
    IN [S EXCEPT
          !.log = IF logIt THEN Append(@, entry) ELSE @,
          !.st  = IF ~cntIt THEN @
                  ELSE [total |-> @.total + 1, blocked |-> @.blocked + (IF blk THEN 1 ELSE 0),
                        dom |-> Bump(@.dom, q.name), bdom |-> IF blk THEN Bump(@.bdom, q.name) ELSE @.bdom,
                        cli |-> Bump(@.cli, key)]]
Commit(S, q, o) ==
    CHOOSE s \in {CommitWith(S, q, o, c, ic, NumOf(IA!StoredAddr(ic, IAQ(q)).bits))
                  : c \in {Who(S.reg, q.cid, q.addr)}, ic \in {IACfg(S)}} : TRUE

\* ------------------------------------------------------------- the actions
\* Each yields the SET of admissible [S, out]; out is the outcome record of a
\* query, or "ok" / "err" for an admin call.
R(S, out) == [S |-> S, out |-> out]

ClientRes(S, r) == {R([S EXCEPT !.reg = r.reg], r.out)}

Apply(S, op) ==
    CASE op.k = "query" ->
            {R(Commit(S, op, o), o) : o \in QueryOutcomes(S, op)}
      \* POST /control/clients/add | update | delete  (ClientsCore)
      [] op.k = "client_add"    -> ClientRes(S, CL!AddRes(S.reg, op.c))
      [] op.k = "client_update" -> ClientRes(S, CL!UpdateRes(S.reg, op.name, op.c))
      [] op.k = "client_delete" -> ClientRes(S, CL!RemoveRes(S.reg, op.name))
      \* POST /control/access/set: the three lists as posted
      [] op.k = "access_set" ->
            {R([S EXCEPT !.acc = [allowed |-> op.allowed, disallowed |-> op.disallowed, hosts |-> op.hosts]], "ok")}
      \* POST /control/filtering/set_rules
      [] op.k = "set_rules" -> {R([S EXCEPT !.rules = op.rules], "ok")}
      \* POST /control/rewrite/add | delete  (RewritesCore)
      [] op.k = "rewrite_add"    -> {R([S EXCEPT !.rw = RW!TabAdd(@, op.e)], "ok")}
      [] op.k = "rewrite_delete" -> {R([S EXCEPT !.rw = RW!TabDelete(@, op.e)], "ok")}
      \* PUT /control/blocked_services/update
      [] op.k = "blocked_services" -> {R([S EXCEPT !.gsvc = op.svcs], "ok")}
      \* POST /control/protection (no pause: G04)
      [] op.k = "protection" -> {R([S EXCEPT !.prot = op.on], "ok")}
      \* POST /control/filtering/config
      [] op.k = "filtering" -> {R([S EXCEPT !.filt = op.on], "ok")}
      \* PUT /control/querylog/config/update
      [] op.k = "qlog_config" ->
            {R([S EXCEPT !.q = [on |-> op.enabled, anon |-> op.anon, ign |-> op.ignored],
                         !.anonst = @ \/ op.anon], "ok")}
      \* PUT /control/stats/config/update
      [] op.k = "stats_config" -> {R([S EXCEPT !.s = [on |-> op.enabled, ign |-> op.ignored]], "ok")}
      \* POST /control/querylog_clear
      [] op.k = "qlog_clear" -> {R([S EXCEPT !.log = <<>>], "ok")}
      \* POST /control/stats_reset
      [] op.k = "stats_reset" -> {R([S EXCEPT !.st = NoStats, !.anonst = S.q.anon], "ok")}

\* ------------------------------------------------- GET /control/querylog
\* The view of the log under the CURRENT configuration, newest first.  An
\* item says what must be reported and where the documentation leaves room:
\*   addr   the reported client address: the stored one, anonymised once more
\*          if anonymisation is on now (AGHTechDoc: the response "will
\*          contain modified client IP addresses")
\*   may    the entry may be missing: its name or its client is ignored NOW.
\*          openapi documents the ignore lists as "should not be written to
\*          log" / "should not be counted"; whether entries written earlier
\*          are still shown is not documented (the code hides them).
\*   names  admissible client_info.name: the client the registry attributes
\*          the stored identifiers to now, or the one it did when the entry
\*          was written (the documentation does not say when the name is
\*          looked up; 0 = none)
\*   dis    admissible client_info.disallowed ("whether the client's IP is
\*          blocked"): AccessCore's decision for the stored address under the
\*          current lists; not compared for entries with a ClientID
Item(S, e) ==
    LET rc == Who(S.reg, e.cid, e.addr) IN
    [addr |-> IF S.q.anon THEN AnonNum(e.addr) ELSE e.addr, cid |-> e.cid, name |-> e.name, qt |-> e.qt,
     reason |-> e.reason, rcode |-> e.rcode, cname |-> e.cname, addrs |-> e.addrs, svc |-> e.svc,
     proto |-> e.proto,
     may   |-> IA!IgnoreMatch(S.q.ign, e.name) \/ (Known(rc) /\ rc.ignQ),
     names |-> {IF Known(rc) THEN rc.name ELSE 0, e.wname},
     dis   |-> IF e.cid = 0 THEN {AC!Excluded(S.acc, AddrRec(e.addr), AC!NoId)} ELSE {TRUE, FALSE}]
LogView(S) == [i \in 1..Len(S.log) |-> Item(S, S.log[Len(S.log) + 1 - i])]

\* An observed item o (projection of one element of "data") is the expected
\* item x.
ItemMatches(x, o) ==
    /\ o.addr = x.addr /\ o.cid = x.cid /\ o.n = x.name /\ o.t = x.qt
    /\ o.reason = x.reason /\ o.status = x.rcode /\ o.cname = x.cname
    /\ SeqToSet(o.addrs) = x.addrs      \* as sets: a rewrite entry added twice answers twice
    /\ o.svc = x.svc /\ o.proto = x.proto
    /\ (o.hasinfo => o.who \in x.names /\ o.dis \in x.dis)

\* The observed view is the expected one with, at most, "may" items missing.
\* An optional item can look exactly like the obligatory one next to it (two
\* queries that differ only in the address bits anonymisation removes) while
\* only one of them is shown, so a greedy match is wrong and trying both
\* branches is exponential: J is the set of positions of the observed view
\* that the expected items before i can have been matched up to.
RECURSIVE ViewFrom(_, _, _, _)
ViewFrom(xs, i, os, J) ==
    IF i > Len(xs) THEN (Len(os) + 1) \in J
    ELSE ViewFrom(xs, i + 1, os,
                  {j + 1 : j \in {k \in J : k <= Len(os) /\ ItemMatches(xs[i], os[k])}}
                    \cup (IF xs[i].may THEN J ELSE {}))
ViewOK(xs, i, os, j) == ViewFrom(xs, i, os, {j})
LogOK(S, os) == \E xs \in {LogView(S)} : ViewOK(xs, 1, os, 1)

\* ---------------------------------------------------- GET /control/stats
\* obs = [total, blocked, other, dom, bdom, cli]; dom / bdom are sequences of
\* [k |-> name, c |-> n], cli of [t |-> "a"|"c", v |-> number, c |-> n].
\*  * num_dns_queries / num_blocked_filtering are the counters; safe browsing,
\*    parental and safe search never replace anything here (other = 0).
\*  * top_blocked_domains[n] = blocked counted queries for n.
\*    top_queried_domains[n]: the documentation does not say whether blocked
\*    queries are "queried" (the code lists them only under blocked): both.
\*    A name ignored NOW may be missing from either list.
\*  * top_clients: keyed by ClientID if the request had one, else by address.
\*    AGHTechDoc says statistics entries carry anonymised addresses only
\*    "after AGH restart"; the code anonymises from the moment the switch is
\*    on.  While anonymisation has been on since the last reset, counts are
\*    compared per ANONYMISED address (both readings agree on that).
ObsCnt(seq, k) == IF \E i \in DOMAIN seq : seq[i].k = k
                  THEN seq[CHOOSE i \in DOMAIN seq : seq[i].k = k].c ELSE 0
RECURSIVE SumOver(_, _)
SumOver(f, ks) == IF ks = {} THEN 0 ELSE LET k == CHOOSE x \in ks : TRUE IN f[k] + SumOver(f, ks \ {k})
CliKey(x) == <<x.t, x.v>>
AnonKey(k) == IF k[1] = "a" THEN <<"a", AnonNum(k[2])>> ELSE k
\* A client key of the statistics whose client is marked ignore_statistics NOW
\* may be missing from top_clients (like names ignored now; the CHANGELOG speaks
\* of "excluding client activity from ... statistics", the code filters the
\* list when it is read).
KeyWho(S, k) == IF k[1] = "a" THEN Who(S.reg, 0, k[2]) ELSE CL!Owner(S.reg, CidId(k[2]))
KeyOptional(S, k) == \E c \in {KeyWho(S, k)} : Known(c) /\ c.ignS
\* the keys counted together with k: k itself, or -- merged mode m -- all keys
\* with the same anonymised form
Group(f, k, m) == {x \in DOMAIN f : IF m THEN AnonKey(x) = AnonKey(k) ELSE x = k}
RECURSIVE SumIdx(_, _)
SumIdx(seq, I) == IF I = {} THEN 0 ELSE LET i == CHOOSE x \in I : TRUE IN seq[i].c + SumIdx(seq, I \ {i})
ObsCli(seq, k, m) ==
    SumIdx(seq, {i \in DOMAIN seq : IF m THEN AnonKey(CliKey(seq[i])) = AnonKey(k) ELSE CliKey(seq[i]) = k})

StatsOK(S, obs) ==
    /\ obs.total = S.st.total /\ obs.blocked = S.st.blocked /\ obs.other = 0
    /\ \A n \in DOMAIN S.st.dom \cup {obs.dom[i].k : i \in DOMAIN obs.dom} \cup {obs.bdom[i].k : i \in DOMAIN obs.bdom} :
          LET c == Cnt(S.st.dom, n)
              b == Cnt(S.st.bdom, n)
              ig == IA!IgnoreMatch(S.s.ign, n)
          IN /\ ObsCnt(obs.bdom, n) \in (IF ig THEN {0, b} ELSE {b})
             /\ ObsCnt(obs.dom, n) \in (IF ig THEN {0, c - b, c} ELSE {c - b, c})
    /\ \A k \in DOMAIN S.st.cli \cup {CliKey(obs.cli[i]) : i \in DOMAIN obs.cli} :
          \E g \in {Group(S.st.cli, k, S.anonst)} :
          \E opt \in {{x \in g : KeyOptional(S, x)}} :
              ObsCli(obs.cli, k, S.anonst) \in {SumOver(S.st.cli, (g \ opt) \cup T) : T \in SUBSET opt}

\* ------------------------------------------------------------ the reply
\* An observed reply r = [c, rcode, cname, addrs] and upstream questions
\* asked (sequence of [n, t]) against outcome o.
ReplyOK(o, r, asked) ==
    /\ r.c = o.cls
    /\ (o.cls = "answer" =>
          /\ r.rcode = o.rcode /\ r.cname = o.cname
          /\ SeqToSet(r.addrs) = o.addrs)
    /\ SeqToSet(asked) = o.asked /\ Len(asked) = Cardinality(o.asked)
=============================================================================
