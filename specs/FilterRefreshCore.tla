------------------------- MODULE FilterRefreshCore -------------------------
(***************************************************************************)
(* C15, refresh half: what one refresh of the filter lists does to         *)
(*   - the list's file data/filters/<id>.txt     (file)                    *)
(*   - the rule count shown by the status API    (count)                   *)
(*   - the checksum remembered for the list      (sum)                     *)
(*   - the rules in force in the engines         (eng)                     *)
(* given, per contacted list, how the list server behaves for that one     *)
(* request.  Written from the statement:                                   *)
(*                                                                         *)
(*   a refresh that FAILS (connection error, non-200 status, body cut      *)
(*   short, HTML or binary content, unreadable local file) leaves file,    *)
(*   count and the rules in force exactly as they were; a SUCCESSFUL one   *)
(*   stores the normal form (RuleListCore), and content whose checksum is  *)
(*   unchanged is not rewritten.                                           *)
(*                                                                         *)
(* Pure operators, shared by FilterRefresh.tla (exhaustive state graph,    *)
(* edges replayed into the real DNSFilter) and TraceFilterRefresh.tla      *)
(* (validation of recorded random histories).                              *)
(*                                                                         *)
(* The refresh is one atomic step at the level of the statement (the call  *)
(* is synchronous and holds the refresh lock), but it is COMPOSED here of  *)
(* the phases of the code, so that a phase can be broken in isolation:     *)
(*   1. download every selected list into a pending file; replace the      *)
(*      list's file only if the whole body parsed and its checksum is new  *)
(*   2. copy count/checksum back, for the lists that really changed        *)
(*   3. rebuild the engines from the files, if any list changed            *)
(* st is the state the statement requires and the code reaches (engines    *)
(* rebuilt whenever any list was replaced, also when other lists failed).  *)
(* NEGATIVE CONTROL: After also computes `asis`, the state reached by the  *)
(* code before fix 9116a9d, which returned before the rebuild when every   *)
(* list of one kind had failed.  It is used by FilterRefresh.asis.cfg      *)
(* only, where TLC must find the violation of FailureIsNoOp; no            *)
(* conformance check refers to it.                                         *)
(***************************************************************************)
EXTENDS RuleListCore

CONSTANTS Lists,   \* names of the configured lists
          Block    \* the blocklists among them; the others are allowlists

KindOf(l) == IF l \in Block THEN "block" ELSE "allow"

NoFile        == [ex |-> FALSE, rules |-> <<>>]
FileOf(rules) == [ex |-> TRUE, rules |-> rules]

\* State right after start-up with an empty data directory.  en = which
\* lists are enabled (cfg.enabled is the configuration at that start-up; the
\* admin can disable and enable lists afterwards).
S0(cfg) == [file  |-> [l \in Lists |-> NoFile],
            count |-> [l \in Lists |-> 0],
            sum   |-> [l \in Lists |-> <<>>],
            eng   |-> [l \in Lists |-> {}],
            en    |-> cfg.enabled]

------------------------------------------------------------------------------
(* Server behaviour for one request: a record [k, t, at, arg].             *)
(*   k = "ok"                 200, the complete body t, framed             *)
(*       "unframedCut"        200 without Content-Length / chunking, the   *)
(*                            connection closes after the first `at`       *)
(*                            tokens of t, at a line boundary              *)
(*       "connError"          no connection                                *)
(*       "status"             a status other than 200 (arg), valid body t  *)
(*       "cutBeforeHeaders"   closed before a single header byte           *)
(*       "cutAfterHeaders"    closed after the headers (arg = framing)     *)
(*       "cutMidLine"         closed after `at` tokens of t and a part of  *)
(*                            token at+1 (arg = framing)                   *)
(*       "cutAtLineBoundary"  closed after `at` tokens of t, t[at] = LF,   *)
(*                            while the framing (arg: "cl" = Content-      *)
(*                            Length, "chunked") announces more            *)
(*       "missingLocal"       local path: no such file                     *)
(*       "dirLocal"           local path: is a directory                   *)
(* HTML and binary content are k = "ok" with such a text.                  *)
(***************************************************************************)
FailKinds == {"connError", "status", "cutBeforeHeaders", "cutAfterHeaders",
              "cutMidLine", "cutAtLineBoundary", "missingLocal", "dirLocal"}

WellFormed(b) ==
    /\ b.k \in FailKinds \cup {"ok", "unframedCut"}
    /\ b.k \in {"unframedCut", "cutAtLineBoundary"} => b.at \in 1..Len(b.t) /\ b.t[b.at] = "LF"
    /\ b.k = "cutMidLine" => b.at \in 0..(Len(b.t) - 1) /\ b.t[b.at + 1] \notin {"LF", "CR"}
    \* with Content-Length framing a cut after the whole body is no cut
    /\ b.k = "cutAtLineBoundary" /\ b.arg = "cl" => b.at < Len(b.t)

\* The parser policy of this installation (RuleListCore): cfg.cosm.
Pol(cfg) == Uniform(cfg.cosm)

\* UndetectableCut: a body that ends early at a line boundary without any
\* framing that would reveal it is, on the wire, a shorter valid list.  The
\* statement covers detectable failures only; this is a SUCCESS with the
\* text received.
UndetectableCut(cfg, b) == Admissible(SubSeq(b.t, 1, b.at), Pol(cfg))

\* The admissible parse outcomes of one request.
Outcomes(cfg, b) ==
    IF b.k = "ok" THEN Admissible(b.t, Pol(cfg))
    ELSE IF b.k = "unframedCut" THEN UndetectableCut(cfg, b)
    ELSE {Fail}

MustFail(cfg, b) == Outcomes(cfg, b) = {Fail}

------------------------------------------------------------------------------
\* cfg = [enabled : Lists -> BOOLEAN, src : Lists -> {"http", "file"}, cosm : BOOLEAN]
\* act = [a |-> "refresh", mode |-> "forced" | "sched", kind, due]
\*   forced: the lists of one kind (POST /control/filtering/refresh)
\*   sched : the lists of both kinds that are due (periodic refresh)
Selected(S, act) ==
    {l \in Lists : /\ S.en[l]
                   /\ IF act.mode = "forced" THEN KindOf(l) = act.kind ELSE l \in act.due}

InForce(en, file, l) ==
    IF en[l] /\ file[l].ex
    THEN {file[l].rules[i] : i \in DOMAIN file[l].rules} ELSE {}

\* ch : selected list -> the outcome of its download; newsum its checksum.
AfterWith(cfg, S, sel, ch, newsum) ==
    LET \* phase 1
        chg   == {l \in sel : ch[l].ok /\ newsum[l] # S.sum[l]}
        file1 == [l \in Lists |-> IF l \in chg THEN FileOf(ch[l].rules) ELSE S.file[l]]
        \* phase 2
        cnt2  == [l \in Lists |-> IF l \in chg THEN Count(ch[l].rules) ELSE S.count[l]]
        sum2  == [l \in Lists |-> IF l \in chg THEN newsum[l] ELSE S.sum[l]]
        \* phase 3: rebuild if anything was replaced.  NetErr: every selected
        \* list of one kind failed; the code before fix 9116a9d returned early
        \* in that case although lists of the other kind may have been replaced.
        \* (negative control only)
        NetErr  == \E k \in {"block", "allow"} :
                       LET sk == {l \in sel : KindOf(l) = k} IN
                       sk # {} /\ \A l \in sk : ~ch[l].ok
        built == [l \in Lists |-> InForce(S.en, file1, l)]
        eng3  == IF chg # {} THEN built ELSE S.eng
        engAI == IF chg # {} /\ ~NetErr THEN built ELSE S.eng
    IN [st     |-> [file |-> file1, count |-> cnt2, sum |-> sum2, eng |-> eng3, en |-> S.en],
        asis   |-> [file |-> file1, count |-> cnt2, sum |-> sum2, eng |-> engAI, en |-> S.en],
        rew    |-> chg,                          \* lists whose file was replaced
        failed |-> {l \in sel : ~ch[l].ok}]

\* (Bound variables instead of LETs for what is used repeatedly, see
\* RuleListCore!Parse.)
After(cfg, S, sel, ch) ==
    CHOOSE r \in {AfterWith(cfg, S, sel, ch, ns) : ns \in {[l \in sel |-> Sum(ch[l].rules)]}} : TRUE

\* All admissible results of Refresh (a set because Outcomes is one).  An
\* outcome set is {Fail}, {Ok(r)} or {Ok(r), Fail}: the choice is which of the
\* lists with a soft text reject it.  (Every text is parsed once: TLC does not
\* memoise operator applications nor LET definitions.)
ResultsOf(cfg, S, sel, oc) ==
    LET best == [l \in sel |-> IF \E o \in oc[l] : o.ok THEN CHOOSE o \in oc[l] : o.ok ELSE Fail]
        soft == {l \in sel : Cardinality(oc[l]) > 1}
    IN {After(cfg, S, sel, ch) : ch \in {[l \in sel |-> IF l \in rej THEN Fail ELSE best[l]] : rej \in SUBSET soft}}
Results(cfg, S, act, script) ==
    UNION {ResultsOf(cfg, S, sel, oc) :
              sel \in {Selected(S, act)},
              oc \in {[l \in Selected(S, act) |-> Outcomes(cfg, script[l])]}}

\* Restart over the same data directory: count and checksum are recomputed
\* by parsing the stored file - from the parser's initial mode, the stored
\* form has no title line -, the engines are rebuilt from the files.  The
\* statement ("re-parse yields the same rule count and checksum") demands
\* Restarted(cfg, S) = S; FilterRefresh asserts it on every Restart.
Restarted(cfg, S) ==
    LET P(l)      == Parse(Normal(S.file[l].rules), Pol(cfg))
        loaded(l) == S.en[l] /\ S.file[l].ex /\ P(l).ok
    IN [file  |-> S.file,
        count |-> [l \in Lists |-> IF loaded(l) THEN Count(P(l).rules) ELSE 0],
        sum   |-> [l \in Lists |-> IF loaded(l) THEN Sum(P(l).rules) ELSE <<>>],
        eng   |-> [l \in Lists |-> InForce(S.en, S.file, l)],
        en    |-> S.en]

(* Disable / Enable: set_url with the same URL and the enabled flag        *)
(* changed.  A disabled list is UNLOADED: its rules are not in force, it    *)
(* shows no rule count and nothing is remembered about its content (the     *)
(* statement says nothing about disabled lists; this is the product's       *)
(* notion, and a restart treats a disabled list the same way); its file     *)
(* stays on disk.  Enabling a list refreshes it at once from its own        *)
(* location:                                                                *)
(*   - the download fails: the request is refused, the list stays disabled, *)
(*     nothing changes;                                                     *)
(*   - it succeeds: "a successful refresh stores the list in a normal form  *)
(*     whose re-parse yields the same rule count and checksum" - whatever   *)
(*     file an earlier life of the list left behind, after the request the  *)
(*     stored form is that of the content just served, also when that       *)
(*     content has NO rules; the list is enabled and its rules in force.    *)
(* Whether the file is physically replaced when the served content equals   *)
(* what the stale file holds is not said (nothing is remembered about it):  *)
(* `rewfree` - the replacement is not compared for that list.               *)
Disabled(S, l) ==
    [S EXCEPT !.en[l] = FALSE, !.eng[l] = {}, !.count[l] = 0, !.sum[l] = <<>>]

EnabledWith(cfg, S, l, o) ==
    IF ~o.ok THEN [st |-> S, asis |-> S, rew |-> {}, failed |-> {l}, rewfree |-> {}]
    ELSE LET en1  == [S.en EXCEPT ![l] = TRUE]
             f1   == [S.file EXCEPT ![l] = FileOf(o.rules)]
             st1  == [file  |-> f1,
                      count |-> [S.count EXCEPT ![l] = Count(o.rules)],
                      sum   |-> [S.sum EXCEPT ![l] = Sum(o.rules)],
                      eng   |-> [x \in Lists |-> InForce(en1, f1, x)],
                      en    |-> en1]
             \* KNOWN DEVIATION (classifier / negative control only): the code
             \* compares the checksum of the download with the zero that stands
             \* for "unloaded"; a list without rules also sums to zero, is taken
             \* for unchanged and is not stored: the stale file stays.
             ai   == IF Sum(o.rules) = <<>>
                     THEN [st1 EXCEPT !.file = S.file, !.eng = [S.eng EXCEPT ![l] = {}]]
                     ELSE st1
         IN [st |-> st1, asis |-> ai, rew |-> IF f1[l] = S.file[l] THEN {} ELSE {l},
             failed |-> {}, rewfree |-> {l}]
EnableResults(cfg, S, l, b) == {EnabledWith(cfg, S, l, o) : o \in Outcomes(cfg, b)}

(* set_url with a new location whose download FAILS.  The admin API that   *)
(* points a list at another URL downloads from it at once, with the same    *)
(* code as a refresh; when that download fails (any of the enumerated       *)
(* ways) the request is refused and the list stays what it was: a failed    *)
(* download of the list leaves file, count, rules in force - and the        *)
(* checksum by which "unchanged content" is recognised - exactly as they    *)
(* were, so that the refreshes that follow behave as if nothing happened.   *)
SetURLFailed(cfg, S, l) == S
\* KNOWN DEVIATION (classifier / negative control only): the roll-back of the
\* code restores URL, name, enabled flag, time and rule count but not the
\* checksum it zeroed before downloading; the list is left with the file and
\* count of its last successful refresh and the checksum of an empty list.
SetURLFailedAsIs(S, l) == [S EXCEPT !.sum[l] = <<>>]

------------------------------------------------------------------------------
\* The statement, as predicates on one step  pre --refresh(sel, script)--> post
\* with rew = the set of lists whose file was replaced.

FailureIsNoOp(cfg, pre, sel, script, post, rew) ==
    \A l \in Lists :
        (l \notin sel \/ MustFail(cfg, script[l])) =>
            /\ post.file[l]  = pre.file[l]
            /\ post.count[l] = pre.count[l]
            /\ post.eng[l]   = pre.eng[l]
            /\ post.en[l]    = pre.en[l]
            /\ l \notin rew

UnchangedChecksumNotRewritten(cfg, pre, sel, script, post, rew) ==
    \A l \in sel :
        (\A o \in Outcomes(cfg, script[l]) : o.ok => Sum(o.rules) = pre.sum[l]) =>
            l \notin rew /\ post.file[l] = pre.file[l]

SuccessStoresNormalForm(cfg, pre, sel, script, post, rew) ==
    \A l \in rew :
        /\ l \in sel
        /\ \E o \in Outcomes(cfg, script[l]) :
             /\ o.ok /\ Sum(o.rules) # pre.sum[l]
             /\ post.file[l]  = FileOf(o.rules)
             /\ post.count[l] = Count(o.rules)
             /\ post.eng[l]   = InForce(post.en, post.file, l)
        /\ Clean(post.file[l].rules)
        /\ Parse(Normal(post.file[l].rules), Pol(cfg)) = [ok |-> TRUE, rules |-> post.file[l].rules, why |-> "ok"]

\* What every state at rest looks like when the above holds from S0 on.
Coherent(cfg, S) ==
    \A l \in Lists :
        /\ S.en[l]  => S.count[l] = (IF S.file[l].ex THEN Count(S.file[l].rules) ELSE 0)
        /\ S.en[l]  => S.sum[l] = Sum(S.file[l].rules)
        /\ ~S.en[l] => S.count[l] = 0 /\ S.sum[l] = <<>>
        /\ S.eng[l] = InForce(S.en, S.file, l)
=============================================================================
