----------------------------- MODULE HashPrefix -----------------------------
(***************************************************************************)
(* C19 -- safe-browsing / parental lookups reveal only 2-byte SHA-256      *)
(* prefixes; the cache never changes the verdict.                          *)
(*                                                                         *)
(* The state machine of ONE checker (one cache) talking to one lookup      *)
(* service, over a small finite universe that TLC explores completely:     *)
(*                                                                         *)
(*   Check(n)     a lookup of name n.  Nondeterministic: every observable  *)
(*                outcome (set of prefixes disclosed, verdict) that the    *)
(*                statement admits is a successor (HashPrefixCore.tla).    *)
(*   LookupFails(n) the same lookup while the service answers with an      *)
(*                error: the caller gets the error, the cache is untouched.*)
(*   ErrorReply(n)  the same lookup answered by a reply whose response     *)
(*                code reports an error and that carries no records: no    *)
(*                entry may come of it, the cache is untouched.            *)
(*   Tick         one unit of time passes; entries age and expire.         *)
(*   DbChange(x)  the service learns / forgets one hash: from then on a    *)
(*                fresh lookup and an unexpired cache entry may disagree,  *)
(*                and the statement says the cache entry wins.             *)
(*                                                                         *)
(* Two uses (.cfg files), both over the complete, unbounded-history graph  *)
(* of <<db, cache>> (entry ages are relative, so the graph is finite):     *)
(*   mc   checks the invariants and the step property below on every       *)
(*        reachable state / transition, with TLC's coverage statistics.    *)
(*   gen  prints the transitions as labelled edges [s, a, args, out, d];   *)
(*        here Check takes only the outcome the present implementation is  *)
(*        predicted to choose (ImplOnly, see "implementation model") and   *)
(*        the state carries that model.  The orchestrator computes walks   *)
(*        that cover every (state, action) pair, the harness performs them *)
(*        on the real hashprefix.Checker, and TraceHashPrefix.tla judges   *)
(*        every observed (question, verdict) against ALL outcomes the      *)
(*        rules admit in the state the walk is in.                         *)
(*                                                                         *)
(* `last' (what the last action showed to the outside) is output only and  *)
(* hidden by the VIEW; everything said about it is therefore said as a     *)
(* step property ([][...]_vars), which TLC evaluates on every transition   *)
(* it generates, not only on those leading to new states.                  *)
(*                                                                         *)
(* The universe.  Labels of one letter are variables: the harness finds    *)
(* real label strings (seeded brute force over SHA-256) such that the real *)
(* two-byte prefixes collide in exactly the pattern given in DomTab.  The  *)
(* other labels are literal (real public-suffix-list entries).  P1, P2, P3 *)
(* are thereby bound to the real prefixes of SHA-256("com"), ("github.io") *)
(* and ("io").                                                             *)
(***************************************************************************)
EXTENDS Sequences, Naturals, FiniteSets, TLC, Json

CONSTANTS T,          \* entry life time in ticks
          DbIds,      \* ids (DomTab) of the hashes the service may know
          EmitOn,     \* print edges
          ImplOnly,   \* explore only the choices of the implementation model (gen)
          ImplNegAgain \* implementation model: negative answers are remembered
                      \* again after a prefix's first entry has expired

VARIABLES db,     \* set of hashes the service knows now
          cache,  \* prefix -> [ttl, hs]
          fdb,    \* ghost: prefix -> what a fresh lookup of that prefix returned
                  \*        when it was last asked (kept while the entry lives)
          last,   \* the last action and what it showed to the outside
          impl    \* model of what the PRESENT implementation keeps (planning only)
vars == <<db, cache, fdb, last, impl>>

INSTANCE HashPrefixCore

Prefixes == {"P1", "P2", "P3"}

\* ------------------------------------------------------------------ domains
\* id = the domain spelt with dots; p = its prefix class.  "com" is the hash
\* of a public suffix: never a candidate, but the service may well list it,
\* under the same prefix as x.com / y.com / w.y.com / q.github.io.  F2 is a
\* hash that belongs to no name of the universe ("distinct hashes sharing a
\* prefix with the query").
DomTab == {
    [id |-> "com",         l |-> <<"com">>,                p |-> "P1"],
    [id |-> "x.com",       l |-> <<"x", "com">>,           p |-> "P1"],
    [id |-> "y.com",       l |-> <<"y", "com">>,           p |-> "P1"],
    [id |-> "w.y.com",     l |-> <<"w", "y", "com">>,      p |-> "P1"],
    [id |-> "q.github.io", l |-> <<"q", "github", "io">>,  p |-> "P1"],
    [id |-> "a.x.com",     l |-> <<"a", "x", "com">>,      p |-> "P2"],
    [id |-> "github.io",   l |-> <<"github", "io">>,       p |-> "P2"],
    [id |-> "z.co.uk",     l |-> <<"z", "co", "uk">>,      p |-> "P2"],
    [id |-> "F2",          l |-> <<"F2">>,                 p |-> "P2"],
    [id |-> "io",          l |-> <<"io">>,                 p |-> "P3"],
    [id |-> "b.a.x.com",   l |-> <<"b", "a", "x", "com">>, p |-> "P3"] }

NoHash == [p |-> "none", r |-> "none"]
HOfId(i) == LET d == CHOOSE d \in DomTab : d.id = i IN [p |-> d.p, r |-> d.id]
HOf(l) == IF \E d \in DomTab : d.l = l
          THEN LET d == CHOOSE d \in DomTab : d.l = l IN [p |-> d.p, r |-> d.id]
          ELSE NoHash
Suffix(l, k) == SubSeq(l, Len(l) - k + 1, Len(l))
MkName(l, cut, opt) ==
    [l |-> l, cut |-> cut, opt |-> opt,
     h |-> [k \in 1 .. Min(4, Len(l)) |-> HOf(Suffix(l, k))]]

\* --------------------------------------------------------------------- names
\* 1 .. 8 labels; ICANN suffixes of one (com) and two (co.uk) labels; a
\* private suffix (github.io); a bare public suffix; two names that differ
\* only beyond the fourth label from the right.
Names == {
    MkName(<<"com">>, 1, 0),
    MkName(<<"x", "com">>, 1, 0),
    MkName(<<"y", "com">>, 1, 0),
    MkName(<<"w", "y", "com">>, 1, 0),                  \* both candidates under P1
    MkName(<<"a", "x", "com">>, 1, 0),                  \* P2, P1
    MkName(<<"b", "a", "x", "com">>, 1, 0),             \* P3, P2, P1
    MkName(<<"f", "e", "d", "c", "b", "a", "x", "com">>, 1, 0),   \* same candidates
    MkName(<<"z", "co", "uk">>, 2, 0),                  \* P2 only
    MkName(<<"q", "github", "io">>, 0, 1) }             \* P1, P2 and optionally P3

DbU == {HOfId(i) : i \in DbIds}

\* ------------------------------------------------- implementation model
\* Used ONLY to predict which of the admissible outcomes the present code
\* will show, so that the planned walks really reach the (state, action)
\* pairs they are meant to cover.  It is never the oracle: every observed
\* step is judged against Outcomes, and a wrong prediction merely lowers the
\* measured coverage.
\*
\* `cache' above is the most an implementation may rely on.  The code keeps
\* less: storeInCache writes the empty (negative) entry for an asked prefix
\* only when its key-value store has NO entry for the prefix at all, and an
\* expired entry is never removed from that store -- so once a prefix has
\* had an entry, later negative answers for it are not remembered and the
\* prefix is asked again at every check.  (More questions than necessary,
\* still nothing but prefixes and the same verdicts: admissible.)  The
\* orchestrator finds out with a five-step calibration walk whether the tree
\* under test behaves like this (ImplNegAgain = FALSE) or remembers negative
\* answers every time (TRUE) and picks the .cfg accordingly.
\*   impl.present  prefixes that have some entry, usable or expired, in the
\*                 implementation's store
\*   impl.held     prefixes whose usable entry of `cache' the implementation
\*                 really holds
ImplUsable(p) == p \in impl.held /\ Valid(cache, p)
ImplQ(n) ==
    IF \E k \in RefC(n) : ImplUsable(n.h[k].p) /\ n.h[k] \in cache[n.h[k].p].hs
    THEN {}
    ELSE {n.h[k].p : k \in {j \in RefC(n) : ~ImplUsable(n.h[j].p)}}
ImplStore(Q, rcv) ==
    [present |-> impl.present \cup Q,
     held    |-> (impl.held \ Q) \cup {p \in Q : \/ \E x \in rcv : x.p = p
                                                \/ p \notin impl.present
                                                \/ ImplNegAgain}]
ImplAdmissible ==
    \A n \in Names : Admissible(n, RefC(n), cache, db, ImplQ(n))

\* ------------------------------------------------------------------ actions
EmptyCache == [p \in Prefixes |-> [ttl |-> 0, hs |-> {}]]
NoLast == [a |-> "init", n |-> <<>>, q |-> {}, v |-> FALSE]

Ids(S) == {x.r : x \in S}
St(d, c, i) == [db |-> Ids(d), c |-> [p \in Prefixes |-> <<c[p].ttl, Ids(c[p].hs)>>],
                i |-> [present |-> i.present, held |-> i.held]]
Emit(rec) == IF EmitOn THEN PrintT(<<"@@V", ToJson(rec)>>) ELSE TRUE

\* The universe, printed once for the harness (names, collision pattern).
ASSUME PrintT(<<"@@V", ToJson([universe |-> [names |-> Names, doms |-> DomTab,
                                                      prefixes |-> Prefixes, dbu |-> Ids(DbU), t |-> T]])>>)

Init == /\ db \in SUBSET DbU
        /\ cache = EmptyCache
        /\ fdb = [p \in Prefixes |-> {}]
        /\ last = NoLast
        /\ impl = [present |-> {}, held |-> {}]

Check(n) ==
    \E o \in {[q |-> oc.q, v |-> oc.v] : oc \in Outcomes(n, cache, db)} :
         /\ ImplOnly => o.q = ImplQ(n) /\ o.v = Hit(n, RefC(n), cache, db, o.q)
         /\ cache' = Store(cache, o.q, Received(db, o.q), T)
         \* the ghost is kept by the DEFINITION of a fresh lookup, not by Store
         /\ fdb' = [p \in Prefixes |-> IF p \in o.q THEN Fresh(db, p) ELSE fdb[p]]
         /\ last' = [a |-> "check", n |-> n.l, q |-> o.q, v |-> o.v]
         /\ impl' = IF ImplOnly THEN ImplStore(o.q, Received(db, o.q)) ELSE impl
         /\ UNCHANGED db
         \* The edges are used to PLAN the walks; what the real code shows at
         \* each step is judged against all of Outcomes by TraceHashPrefix.tla.
         /\ Emit([s |-> St(db, cache, impl), a |-> "check", n |-> n.l, q |-> o.q, v |-> o.v,
                  d |-> St(db', cache', impl')])

\* The lookup of n fails: the service answers the question with an error.
\* The caller gets the error; db, cache (and the ghost) stay as they were.
\* (When the check asks nothing the failure cannot show: that is Check(n) with
\* q = {}, not a separate action.)  In the gen graph the question is the one
\* the implementation model asks.
LookupFails(n) ==
    \E q \in FailQuestions(n) :
         /\ ImplOnly => q = ImplQ(n)
         /\ last' = [a |-> "fail", n |-> n.l, q |-> q, v |-> FALSE]
         /\ UNCHANGED <<db, cache, fdb, impl>>
         /\ Emit([s |-> St(db, cache, impl), a |-> "fail", n |-> n.l, q |-> q,
                  d |-> St(db', cache', impl')])

\* The lookup of n is answered by an error reply (response code SERVFAIL,
\* REFUSED, NOTIMP; no records).  Whatever the caller is told (error, or a
\* verdict without the asked prefixes), db, cache and the ghost stay as they
\* were: an error reply is not an answer about the database.
ErrorReply(n) ==
    \E q \in FailQuestions(n) :
         /\ ImplOnly => q = ImplQ(n)
         /\ last' = [a |-> "errreply", n |-> n.l, q |-> q, v |-> FALSE]
         /\ UNCHANGED <<db, cache, fdb, impl>>
         /\ Emit([s |-> St(db, cache, impl), a |-> "errreply", n |-> n.l, q |-> q,
                  d |-> St(db', cache', impl')])

Tick ==
    /\ cache' = Age(cache, 1)
    /\ fdb' = [p \in Prefixes |-> IF cache'[p].ttl = 0 THEN {} ELSE fdb[p]]
    /\ last' = [NoLast EXCEPT !.a = "tick"]
    /\ impl' = [impl EXCEPT !.held = {p \in @ : cache'[p].ttl > 0}]
    /\ UNCHANGED db
    /\ Emit([s |-> St(db, cache, impl), a |-> "tick", d |-> St(db', cache', impl')])

DbChange(x) ==
    /\ db' = IF x \in db THEN db \ {x} ELSE db \cup {x}
    /\ last' = [NoLast EXCEPT !.a = "db"]
    /\ UNCHANGED <<cache, fdb, impl>>
    /\ Emit([s |-> St(db, cache, impl), a |-> "db", x |-> x.r, d |-> St(db', cache', impl')])

Next == \/ \E n \in Names : Check(n) \/ LookupFails(n) \/ ErrorReply(n)
        \/ Tick
        \/ \E x \in DbU : DbChange(x)
Spec == Init /\ [][Next]_vars

GraphView == <<db, cache, fdb, impl>>

\* ----------------------------------------------------------------- invariants
TypeOK ==
    /\ db \subseteq DbU
    /\ \A p \in Prefixes : /\ cache[p].ttl \in 0 .. T
                           /\ cache[p].hs \subseteq DbU
                           /\ \A x \in cache[p].hs : x.p = p      \* keyed by its own prefix
                           /\ (cache[p].ttl = 0 => cache[p].hs = {})

\* Cache transparency, state form: every usable entry is exactly what a fresh
\* lookup of its prefix returned when it was fetched (positive and negative
\* entries alike; nothing filed under a foreign prefix).
CacheTransparent ==
    \A p \in Prefixes : Valid(cache, p) => cache[p].hs = fdb[p]

\* The rules are satisfiable in every state, and the choice the present
\* implementation is expected to make is one of the admissible ones.
RefAdmissible ==
    \A n \in Names : Admissible(n, RefC(n), cache, db, RefQ(n, cache))

\* ------------------------------------------------------------ step properties
NameOf(l) == CHOOSE n \in Names : n.l = l

\* Privacy.  The only thing a question carries besides the service suffix is
\* a set of prefix values (by typing: q is a set of prefix ids, there is no
\* place for anything else), and each of them is the prefix of the hash of
\* the name or of a parent within its last four labels that is not an ICANN
\* public suffix.  Stated from the labels, not from Core/Opt.
QuestionOnlyPrefixes(l, q) ==
    LET n == NameOf(l)
        allowed == {k \in 1 .. Len(l) : k <= 4 /\ k > n.cut}
    IN  /\ q \subseteq Prefixes
        /\ q \subseteq {HOf(Suffix(l, k)).p : k \in allowed}

\* Verdict and cache transparency, step form, in terms of the ghost: blocked
\* exactly when some candidate's full hash is returned by the service now
\* (prefixes just asked) or was returned when the unexpired entry of its
\* prefix was fetched; "not blocked" additionally needs one of the two for
\* every candidate.  (Unprimed = before the check.)
VerdictOK(l, q, v) ==
    LET n == NameOf(l) IN
    \E C \in CandSets(n) :
        LET inf(k) == IF n.h[k].p \in q THEN Fresh(db, n.h[k].p) ELSE fdb[n.h[k].p]
            has(k) == n.h[k].p \in q \/ Valid(cache, n.h[k].p)
        IN  /\ v = (\E k \in C : has(k) /\ n.h[k] \in inf(k))
            /\ v \/ \A k \in C : has(k)

\* While nothing has changed at the service since the entries were fetched,
\* the verdict is that of a lookup that ignores the cache altogether.
FreshVerdicts(n) == {\E k \in C : n.h[k] \in db : C \in CandSets(n)}
SameAsFresh(l, v) ==
    (\A p \in Prefixes : Valid(cache, p) => fdb[p] = Fresh(db, p)) => v \in FreshVerdicts(NameOf(l))

\* The hash of the public suffix itself never blocks anything, although some
\* databases of the universe list it (under P1): a blocked name has a
\* candidate of its own in the database.
SuffixHashNeverBlocks(l, v) ==
    v => \E k \in 1 .. Min(4, Len(l)) : k > NameOf(l).cut /\ HOf(Suffix(l, k)) \in DbU

\* A failed lookup / an error reply discloses nothing but candidate prefixes either, and leaves
\* the cache as it was -- so every later answer from the cache is still what
\* a fresh lookup returned when the entry was fetched (CacheTransparent).
FailStepOK ==
    last'.a \in {"fail", "errreply"} =>
        /\ last'.q # {}
        /\ QuestionOnlyPrefixes(last'.n, last'.q)
        /\ cache' = cache /\ fdb' = fdb /\ db' = db

CheckStepOK ==
    last'.a = "check" =>
        /\ QuestionOnlyPrefixes(last'.n, last'.q)
        /\ VerdictOK(last'.n, last'.q, last'.v)
        /\ SameAsFresh(last'.n, last'.v)
        /\ SuffixHashNeverBlocks(last'.n, last'.v)
StepProps == [][CheckStepOK /\ FailStepOK]_vars
=============================================================================
