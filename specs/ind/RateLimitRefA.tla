--------------------------- MODULE RateLimitRefA ---------------------------
(***************************************************************************)
(* G12 correspondence, direction  RateLimit!Spec => RateLimitInd!Spec,     *)
(* root = the ORIGINAL RateLimit.tla with the constants of                 *)
(* RateLimit.mc.cfg (explored modulo time translation through its VIEW),   *)
(* variables mapped identically.  TLC also checks that the inductive       *)
(* invariant and the derived safety hold in every reachable state of the   *)
(* original, and the step properties in their action-invariant form.       *)
(***************************************************************************)
EXTENDS RateLimit

Ind == INSTANCE RateLimitInd

ASSUME Ind!ConstOK

IndSpec   == Ind!Spec
IndIndInv == Ind!IndInv
IndSafety == Ind!Safety
IndStepProps == [][Ind!StepProps]_vars
=============================================================================
