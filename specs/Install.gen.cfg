SPECIFICATION Spec
CONSTANT DoEmit = TRUE
INVARIANTS TypeOK Consistent CredentialsRequired RedirectedBefore ReadOnly FailedChangesNothing OnlyConfigureInstalls ClosedAfterInstall OnlyWipeReopens RetryPossible RestartKeeps
