PROPERTY = "C15"
ENTRY = {
        "text": "Two TLA+ specifications written from the statement. RuleList.tla (parser): list texts are token sequences (rule atoms, white space, "
                "comment/title starters, #-lines that are not plain comments (##, #@#, #?#, #$#, #%#), HTML, control bytes, VT/FF, long lines incl. rule lines of exactly 4095/4096/4097/~5K/~40K/65535/65536 bytes, LF/CRLF/bare CR endings; "
                "the parser's mode before/after the title line is explicit state and the treatment of such #-lines a policy that must not depend on it); "
                "TLC enumerates every text of up to 3 lines over 18 line shapes and up to 4 lines over 10 shapes, checks NormalFormIsFixedPoint / NormalIsClean / the enumerated failures on the spec, and every text is replayed into the real "
                "rulelist.Parser (admissible outcome, stored bytes = conc(Normal), count, and re-parse of the stored bytes gives the same count, checksum and bytes). "
                "FilterRefresh.tla (refresh state machine: per list file/count/checksum/rules in force; forced block|allow refresh, scheduled refresh of any due set, restart; "
                "per request one of ok(text), undetectable unframed cut, connection error, non-200, cut before/after headers, mid-line, at a line boundary with Content-Length or chunked framing, "
                "HTML, binary, missing/directory local file): FailureIsNoOp, UnchangedChecksumNotRewritten, SuccessStoresNormalForm, RestartChangesNothing (the stored file is re-parsed: same count, same checksum) asserted on every transition; "
                "a third universe serves lists with rule lines of 4095..65535 bytes between short rules through the real download-and-store path; every transition is emitted as an edge and edge-covering tours are walked on real DNSFilters against a scripted httptest list server, comparing after every step the file "
                "bytes, whether the file was replaced (inode), rules_count from the real status handler, whether the remembered checksum changed, and the rules in force via CheckHost. Random larger texts and random histories over "
                "four lists are recorded and validated by TraceRuleList.tla / TraceFilterRefresh.tla.",
        "design_ref": "DESIGN.md section 4 C15",
        "note": "Trusted: TLC; conc()/lex() of zz_verif_c15_test.go; loopback httptest server with hijacked connections as the wire; scheduled refresh driven by calling "
                "periodicallyRefreshFilters with LastUpdated back-dated (no timer loop). Not compared: last_updated / file mtime, list title, error wording. "
                "Statement-silent cases are sets of admissible outcomes (control byte inside a comment, HTML-looking line after real rules, line > 64 KiB). "
                "A cut at a line boundary without framing is a success with the shorter text (named UndetectableCut). "
                "The parser policy for #-lines that are not plain comments is measured on a title-less text and then demanded everywhere. "
                "A refused set_url (download from the new location fails) is an action of its own: nothing, the remembered checksum included, may change. "
                "Disable / enable of a list (set_url, same URL) are actions too: a disabled list is unloaded, enabling refreshes it and must store what was served, also a list without rules. "
                "Open known finding ruleless-list-into-unloaded-filter-not-stored (fix proposed); failed-set-url-forgets-checksum is fixed in /repo 008f1fe. Negative controls that must fail in TLC: FilterRefresh.seturlasis.cfg,  FilterRefresh.asis.cfg (pre-fix early return before the engine rebuild; fixed in /repo 9116a9d) and RuleList.modes.cfg (mode-dependent policy).",
        "technique": "TLA+ specs enumerated by TLC; exhaustive vector replay + edge-covering tours on the real code; TLC trace validation of recorded runs",
    }
