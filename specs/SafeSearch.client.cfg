SPECIFICATION Spec
CONSTANTS
  TTL = 1
  WithClient = TRUE
  MCQtypes = {"A", "TXT"}
INVARIANTS TypeOK OnlyListedEnabled ListedEnabledAlways ClientPrecedence MemoryCurrent
