--------------------------- MODULE ScheduleHolder ---------------------------
(***************************************************************************)
(* C18 -- the schedule IN EFFECT under a history of updates.               *)
(*                                                                         *)
(* Schedule.tla judges single (schedule, instant) pairs and single         *)
(* documents.  This module is about the long-lived object that holds the   *)
(* schedule the DNS path consults (the global blocked-services schedule,   *)
(* replaced through PUT /control/blocked_services/update):                 *)
(*                                                                         *)
(*     Install(doc)  a document the statement accepts: afterwards the      *)
(*                   schedule in effect is exactly the document;           *)
(*     Reject(doc)   a document with a range that is negative, inverted,   *)
(*                   past 24:00 / longer than 24h or not whole minutes:    *)
(*                   answered with an error, and the schedule in effect    *)
(*                   is exactly the last accepted one -- what is read back *)
(*                   (GET) and what Contains answers at the probe instants.*)
(*                                                                         *)
(* Both are ScheduleCore!DecodeOutcomes (all or nothing).  The rejected    *)
(* documents put the bad day at every weekday position, with valid days    *)
(* before and after it, with absent days before or after it, in either     *)
(* zone -- a decoder that validates day by day and writes as it goes       *)
(* shows up as a half-applied schedule.                                    *)
(*                                                                         *)
(* There are TWO such objects (the global holder of one server and a       *)
(* second, unrelated holder: another server, a client's settings).  Each   *)
(* can be updated through the API (Put), be given no schedule at all       *)
(* (PutNull: "schedule": null means the empty schedule of the default      *)
(* zone), or be restarted from a configuration document that is decoded,   *)
(* as YAML or as JSON, ON TOP OF the default configuration whose schedule   *)
(* is the empty one (Load).  The configuration document may also carry NO *)
(* schedule at all -- `schedule: null`, `schedule: ~`, `schedule:` left    *)
(* blank, the key absent, or the whole blocked-services section blank      *)
(* (LoadNone): a schedule that is not there has no range on any day, so    *)
(* the holder then has the empty schedule in effect, exactly as after      *)
(* PutNull: the pause holds at no instant and the services stay blocked.   *)
(* Holders are independent: a request to one                               *)
(* never changes what the other has in effect, and the empty schedule      *)
(* holds at no instant and has no day when written out -- whatever other   *)
(* schedules exist or existed.                                             *)
(*                                                                         *)
(* TLC explores every (state, request) pair and emits each as a labelled   *)
(* edge; the orchestrator turns the edges into one edge-covering walk that *)
(* the Go harness drives through the real HTTP handlers of                 *)
(* internal/filtering, comparing reply, GET and Contains after EVERY step. *)
(***************************************************************************)
EXTENDS Integers, Sequences, FiniteSets, TLC, Json

MS == INSTANCE ScheduleCore WITH TPD <- 86400000, TPM <- 60000, SUB <- 1000000, WD0 <- 4
RS == INSTANCE ScheduleCore WITH TPD <- 86400, TPM <- 60, SUB <- 1000000000, WD0 <- 4
SX == INSTANCE SequencesExt

Holders == {"g", "c"}          \* the global holder and a second, unrelated one
OtherH(h) == IF h = "g" THEN "c" ELSE "g"

VARIABLES live,   \* live[h]: the schedule in effect in holder h: [tz |-> zone name, w |-> week in ms]
          last,   \* history: last[h] = the last document accepted by holder h (or the boot value)
          op      \* the last request: [h |-> holder, act |-> ..., out |-> "boot" | "ok" | "rejected"]
vars == <<live, last, op>>

Weekdays == 0 .. 6
R4(a, b, an, bn) == [s |-> a, e |-> b, sn |-> an, en |-> bn]
HourMs == 3600000
Absent == R4(0, 0, 0, 0)
A == R4(9 * HourMs, 17 * HourMs + 30 * 60000, 0, 0)      \* 09:00-17:30
B == R4(22 * HourMs, 24 * HourMs, 0, 0)                  \* 22:00-24:00
F == R4(0, 24 * HourMs, 0, 0)                            \* full day

\* The two zones have constant offsets, so their tables are one line each
\* (real IANA names: the Go side loads them from the tz database).
Zones == {"UTC", "Etc/GMT-3"}
ZoneTable(z) == [base |-> IF z = "Etc/GMT-3" THEN 10800 ELSE 0, trans |-> <<>>]

\* ---------------------------------------------------------------- documents
ValidWeeks == {
    [x \in Weekdays |-> A],
    [x \in Weekdays |-> IF x % 2 = 0 THEN B ELSE F],
    [x \in Weekdays |-> IF x % 3 = 0 THEN Absent ELSE IF x % 3 = 1 THEN A ELSE B],
    [x \in Weekdays |-> IF x = 0 THEN F ELSE Absent],
    [x \in Weekdays |-> Absent] }
ValidDocs == {[tz |-> z, w |-> w] : z \in Zones, w \in ValidWeeks}

\* One representative per ground of rejection.
BadRanges == {R4(-60000, HourMs, 0, 0),             \* negative
              R4(2 * HourMs, HourMs, 0, 0),         \* inverted
              R4(0, 25 * HourMs, 0, 0),             \* longer than 24h
              R4(23 * HourMs, 25 * HourMs, 0, 0),   \* two hours, but past 24:00
              R4(HourMs, HourMs + 30000, 0, 0),     \* not whole minutes
              R4(HourMs, 2 * HourMs, 0, 500000)}    \* ... by half a millisecond
\* The other days around a bad day at position p.
Around == {"valid", "absent-after", "absent-before", "mixed"}
Other(k, p, x) ==
    CASE k = "valid"         -> IF x % 2 = 0 THEN F ELSE A
      [] k = "absent-after"  -> IF x < p THEN B ELSE Absent
      [] k = "absent-before" -> IF x < p THEN Absent ELSE A
      [] k = "mixed"         -> IF x % 2 = 0 THEN Absent ELSE F
BadDocs == {[tz |-> z, w |-> [x \in Weekdays |-> IF x = p THEN r ELSE Other(k, p, x)]] :
               z \in Zones, p \in Weekdays, r \in BadRanges, k \in Around}

Docs == ValidDocs \cup BadDocs

\* What a freshly started server holds, and what "schedule": null means: no
\* range on any day, the server's own zone.
Boot == [tz |-> "Local", w |-> [x \in Weekdays |-> Absent]]
Empty == Boot

\* The interplay of the two holders is explored over a smaller universe of
\* documents; the full universe above is put to holder g while holder c is
\* still in its boot state.
SmallWeeks == {[x \in Weekdays |-> IF x % 2 = 0 THEN B ELSE F],
               [x \in Weekdays |-> IF x % 3 = 0 THEN Absent ELSE IF x % 3 = 1 THEN A ELSE B],
               [x \in Weekdays |-> IF x = 0 THEN F ELSE Absent]}
SmallValid == {[tz |-> z, w |-> w] : z \in Zones, w \in SmallWeeks}
SmallBad   == {[tz |-> "UTC", w |-> [x \in Weekdays |-> IF x = 3 THEN r ELSE Other("valid", 3, x)]] :
                  r \in {R4(-60000, HourMs, 0, 0), R4(2 * HourMs, HourMs, 0, 0),
                         R4(23 * HourMs, 25 * HourMs, 0, 0), R4(HourMs, HourMs + 30000, 0, 0)}}
SmallDocs  == SmallValid \cup SmallBad
HolderStates == {Boot} \cup ValidDocs

\* ------------------------------------------------------------------- probes
\* Contains is read at 35 instants of one reference week (2024-01-07, a
\* Sunday, 00:30 UTC onwards): five times of day on each day; 23:30 UTC is
\* already the next day in Etc/GMT-3.
Base == 1704585600
ProbeSecs == {Base + d * 86400 + h * 3600 + 1800 : d \in Weekdays, h \in {0, 6, 12, 18, 23}}
SecWeek(w) == [x \in Weekdays |-> [s |-> w[x].s \div 1000, e |-> w[x].e \div 1000]]
InEffectAt(h, sec) == RS!Contains(SecWeek(h.w), ZoneTable(h.tz), [s |-> sec, n |-> 0])
Eff(h) == LET q == SX!SetToSeq(ProbeSecs) IN
          [i \in DOMAIN q |-> <<q[i], IF InEffectAt(h, q[i]) THEN 1 ELSE 0>>]

\* ---------------------------------------------------------------- behaviour
WeekSeq(w) == [i \in 1 .. 7 |-> <<w[i - 1].s, w[i - 1].e, w[i - 1].sn, w[i - 1].en>>]
DocJ(h) == [tz |-> h.tz, w |-> WeekSeq(h.w)]
LiveJ(l) == [g |-> DocJ(l["g"]), c |-> DocJ(l["c"])]

\* The verdict table of every state a holder can be in is printed once.
ASSUME \A d \in HolderStates :
          PrintT(<<"@@V", ToJson([k |-> "state", doc |-> DocJ(d), eff |-> Eff(d)])>>)

Init == /\ live = [h \in Holders |-> Boot]
        /\ last = [h \in Holders |-> Boot]
        /\ op = [h |-> "g", act |-> "boot", out |-> "boot"]

\* The same pair of holder states is reached with several values of the
\* history variables; its outgoing edges are printed from one or two of them
\* only (the orchestrator removes duplicates and checks that none is missing).
Canon == \/ op.act = "boot"
         \/ op.act = "put" /\ op.out = "ok"
Emit(h, act, doc, o) ==
    Canon => PrintT(<<"@@V", ToJson([k |-> "edge", h |-> h, act |-> act, form |-> "", src |-> LiveJ(live), doc |-> DocJ(doc),
                            out |-> o, dst |-> LiveJ(live')])>>)

\* A document offered to holder h, through the update API (act = "put") or as
\* the configuration it is restarted from, decoded as YAML or JSON on top of
\* the default (empty) schedule (act = "yaml" / "json").  All or nothing in
\* either case; the default does not show through, and is not changed.
Offer(h, act, doc) ==
    \E o \in MS!DecodeOutcomes(live[h], doc) :
        /\ live' = [live EXCEPT ![h] = o.val]
        /\ last' = [last EXCEPT ![h] = IF o.ok THEN doc ELSE last[h]]
        /\ op' = [h |-> h, act |-> act, out |-> IF o.ok THEN "ok" ELSE "rejected"]
        /\ Emit(h, act, doc, op'.out)

\* The whole universe of rejected documents, to holder g alone.
PutFull == live["c"] = Boot /\ \E doc \in Docs : Offer("g", "put", doc)

\* The small universe, to either holder, in every combination of states.
PutSmall == \E h \in Holders, doc \in SmallDocs : Offer(h, "put", doc)
Load     == \E h \in Holders, f \in {"yaml", "json"}, doc \in SmallDocs : Offer(h, f, doc)

\* A configuration document without a schedule, in each of its spellings.
NoneForms == {"null", "tilde", "blank", "absent", "section-blank"}
LoadNone == \E h \in Holders, f \in NoneForms :
              /\ live' = [live EXCEPT ![h] = Empty]
              /\ last' = [last EXCEPT ![h] = Empty]
              /\ op' = [h |-> h, act |-> "yamlnone", out |-> "ok"]
              /\ Canon => PrintT(<<"@@V", ToJson([k |-> "edge", h |-> h, act |-> "yamlnone", form |-> f,
                                                  src |-> LiveJ(live), doc |-> DocJ(Empty), out |-> "ok",
                                                  dst |-> LiveJ(live')])>>)

\* "schedule": null -- the holder has the empty schedule afterwards.
PutNull == \E h \in Holders :
              /\ live' = [live EXCEPT ![h] = Empty]
              /\ last' = [last EXCEPT ![h] = Empty]
              /\ op' = [h |-> h, act |-> "null", out |-> "ok"]
              /\ Emit(h, "null", Empty, "ok")

Next == PutFull \/ PutSmall \/ Load \/ PutNull \/ LoadNone
Spec == Init /\ [][Next]_vars

\* -------------------------------------------- properties of the statement
\* After any history each holder has its last accepted document in effect...
InEffectIsLastAccepted == live = last
\* ... in particular right after a rejected request (GET and Contains).
RejectedChangesNothing ==
    op.out = "rejected" => live[op.h] = last[op.h] /\ Eff(live[op.h]) = Eff(last[op.h])
\* What is in effect is always a schedule the statement accepts.
InEffectWellFormed == \A h \in Holders : \A x \in Weekdays : MS!WellFormed(live[h].w[x])
\* An empty schedule holds at no instant and has no day when written out.
EmptyCoversNothing ==
    \A h \in Holders : (\A x \in Weekdays : MS!IsEmptyDay(live[h].w[x])) =>
        \A i \in DOMAIN Eff(live[h]) : Eff(live[h])[i][2] = 0
\* Holders are independent: a request to one leaves the other exactly as it
\* was (action property).
Independence == [][live'[OtherH(op'.h)] = live[OtherH(op'.h)]]_vars
\* The universe is as intended: every bad document must be rejected, every
\* valid one accepted (no undecided verdicts are used here).
UniverseDecided ==
    /\ \A d \in ValidDocs \cup SmallValid : MS!WeekVerdicts(d.w) = {"accept"}
    /\ \A d \in BadDocs \cup SmallBad : MS!WeekVerdicts(d.w) = {"reject"}
    /\ SmallValid \subseteq ValidDocs
=============================================================================
