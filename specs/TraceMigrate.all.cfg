SPECIFICATION AllSpec
CONSTANTS
  Pairs = FALSE
INVARIANTS NoPanic SuccessStampsCurrent UnconcernedKeysPreserved PathIndependent Idempotent ValidUpgrades
