SPECIFICATION TSpec
CONSTANTS
    Deep = TRUE
    Bug = "none"
    DoEmit = FALSE
