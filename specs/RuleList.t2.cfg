SPECIFICATION Spec
CONSTANTS MaxLines = 4
          Shapes <- ShapesCore
INVARIANTS NormalFormIsFixedPoint NormalIsClean RulesAreInputLines HTMLFirstFails BinaryFails Deterministic
