SPECIFICATION Spec
CONSTANTS BlockLists = {"b1"}
          AllowLists = {"a1"}
          AsIsC = FALSE
          CosmC = FALSE
          Configs <- ConfLong
          ForcedBeh <- BehLong
          SchedBeh <- BehLongSched
          FileBeh <- BehLongFile
          SetURLBeh <- BehNone
          Toggle = FALSE
          SetURLAsIs = FALSE
INVARIANTS InvCoherent
