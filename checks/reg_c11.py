PROPERTY = "C11"
ENTRY = {
        "text": "The route set is extracted from the source at every run (tools/c11_routes, go/ast: every mux.Handle/HandleFunc call and every call through the "
                "aghhttp.RegisterFunc callback, with declared method and wrapper chain, for linux/windows/darwin/freebsd/openbsd; bindings of the callback are checked "
                "to be home.httpRegister). Routes.tla interprets the extracted chains (Serve) and TLC checks the statement's requirement (NoUnauthenticatedHandler/OnlyPublic, "
                "MutatingNeedsMethodAndJSON, PublicReachable, AuthServed) over every state (firstRun, users, sessions, clock) x route x request shape "
                "(4 methods x 3 content types x body x 4 cookie classes x 3 basic classes x 4 path spellings; ~9e5 states). Every enumerated vector is replayed with httptest into "
                "the real mux of a really booted configured server (real wiring, real handlers) and of a first-run server taken through installation (probe handlers through the real httpRegister); "
                "the pattern census of the real mux must equal the extracted set; seeded random traffic incl. real login/logout/expired sessions is validated by TraceRoutes.tla.",
        "design_ref": "DESIGN.md section 4 C11",
        "note": "Trusted: TLC, the syntactic extractor (a wrapper it cannot interpret or a callback bound to anything but a known registrar makes the check inconclusive), "
                "the response classifier of the harness (cross-checked against probe handlers). In-process httptest, no sockets; HTTPS redirect and GL-Inet mode off; "
                "Windows-only registrations are model-checked but not replayed. A route whose extracted chain lets a handler run unauthenticated is reported only after the real mux confirmed it.",
        "technique": "TLA+ spec instantiated from go/ast-extracted routes, checked by TLC; exhaustive vector replay into the real mux + TLC trace validation",
    }
