SPECIFICATION Spec
CONSTANTS
  U <- USrcQ
  W = 4
VIEW view
INVARIANTS TypeOK WinnerIsHighest DhcpOffSilent RegistryConsistent BuiltOnlyWithUpstreams CustCurrent
PROPERTIES OnlyOwnSource Separation ListSyncs CommonInvalidates
