SPECIFICATION Spec
CONSTANT DoEmit = FALSE
INVARIANTS TypeOK NoUnauthenticatedHandler OnlyPublic MutatingNeedsMethodAndJSON PublicReachable AuthServed
