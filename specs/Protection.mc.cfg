\* Exhaustive exploration (modulo time translation, see View); the same run
\* emits the labelled edges walked by the Go harness (direction A).
CONSTANTS
    MaxD = 3
    MaxTick = 4
    Kinds = {"rule", "svc", "sb", "par", "ss", "cname", "rw", "clean"}
    AsBuilt = {}
SPECIFICATION Spec
VIEW View
INVARIANTS TypeOK EffectFollowsCalls DeadlineIsTheOneAsked ReadsAreConsistent QueriesFollowCalls
PROPERTIES HousekeepingIsInvisible OnlyCallsMoveTheMode RejectedChangesNothing
