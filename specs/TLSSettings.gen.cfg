SPECIFICATION Spec
CONSTANT DoEmit = TRUE
INVARIANTS TypeOK DiskAgrees RestartPreserves EnabledHasPair AlwaysServesDNS ServingMatches DisabledNotServing ReadOnly RejectedChangesNothing AppliedOnlyIfValid SameVerdict DisableKeepsMaterial
