---------------------------- MODULE ScheduleCore ----------------------------
(***************************************************************************)
(* C18 -- the pause schedule of blocked services follows the local         *)
(* wall-clock time of its time zone.                                       *)
(*                                                                         *)
(* This module is the statement of the property as integer arithmetic.  It *)
(* is written from the STATEMENT ("wall-clock time of day, on its weekday  *)
(* in the schedule's time zone, lies in that day's [start, end) range"),   *)
(* not from schedule.go, and it is shared verbatim by                      *)
(*   Schedule.tla       the exhaustive model over abstract zone classes,   *)
(*   ScheduleHost.tla   vector generation over the host's real tz tables,  *)
(*   TraceSchedule.tla  validation of traces recorded from the real code.  *)
(*                                                                         *)
(* Time.  TLC integers are 32 bit, so an instant is a pair                 *)
(*     [s |-> tick number, n |-> sub-tick in 0 .. SUB-1]                   *)
(* compared lexicographically.  The unit is a parameter:                   *)
(*     real time        tick = 1 s,  TPD = 86400, TPM = 60,    SUB = 10^9  *)
(*     exhaustive model scaled calendar: a day of 24 hours of 12 `minutes', *)
(*                      tick = 1 `minute': TPD = 288, TPM = 1,  SUB = 2     *)
(*     serialised form  tick = 1 ms, TPD = 86400000, TPM = 60000           *)
(* Nothing below depends on which one is chosen.                           *)
(*                                                                         *)
(* Time zone.  A zone is [base |-> offset, trans |-> <<[at, off], ...>>]:  *)
(* `base` is the UTC offset (in ticks, east positive) before the first     *)
(* listed transition and each transition says "from tick `at` on the       *)
(* offset is `off`".  This is exactly the information a tz database holds. *)
(***************************************************************************)
EXTENDS Integers, Sequences, FiniteSets

CONSTANTS TPD,   \* ticks per civil day of 24 hours
          TPM,   \* ticks per minute
          SUB,   \* sub-ticks per tick
          WD0    \* weekday (0 = Sunday .. 6 = Saturday) of wall day number 0

Weekdays == 0 .. 6

\* ------------------------------------------------------------------ zones
\* Offset in effect at tick s: that of the last transition at or before s.
Off(z, s) ==
    LET past == {i \in DOMAIN z.trans : z.trans[i].at <= s} IN
    IF past = {} THEN z.base
    ELSE z.trans[CHOOSE i \in past : \A j \in past : j <= i].off

\* Every offset the zone ever uses (within the table).
Offsets(z) == {z.base} \cup {z.trans[i].off : i \in DOMAIN z.trans}

\* What a clock on the wall of that zone shows at tick s, as one number:
\* local tick count since local day 0, 00:00.
WallTick(z, s) == s + Off(z, s)

\* ... split into the civil day number, its weekday, and the time of day.
WallDay(z, s)  == WallTick(z, s) \div TPD
Weekday(z, s)  == (WallDay(z, s) + WD0) % 7
TodTick(z, s)  == WallTick(z, s) % TPD

\* The complete wall-clock reading of an instant t = [s, n]: the offset in
\* effect, the civil day, its weekday, and the time of day with its sub-tick
\* part.  (One record, so that a table row and the verdict below are derived
\* from the same reading.)
WallClock(z, t) ==
    LET o == Off(z, t.s) wt == t.s + o IN
    [off |-> o, day |-> wt \div TPD, wd |-> ((wt \div TPD) + WD0) % 7, tod |-> <<wt % TPD, t.n>>]

\* ------------------------------------------------------------ containment
LexLeq(a, b)  == a[1] < b[1] \/ (a[1] = b[1] /\ a[2] <= b[2])
LexLess(a, b) == a[1] < b[1] \/ (a[1] = b[1] /\ a[2] < b[2])

\* A day range is [s |-> start, e |-> end] in ticks from 00:00 wall clock;
\* it holds the times of day in [start, end).  A serialised range may carry
\* sub-tick parts [sn |-> .., en |-> ..] in 0 .. SUB-1 (absent = 0): the bound
\* is then s + sn/SUB ticks, written in "floor" form also when negative
\* (-0.5 tick = [s |-> -1, sn |-> SUB/2]).
SN(r) == IF "sn" \in DOMAIN r THEN r.sn ELSE 0
EN(r) == IF "en" \in DOMAIN r THEN r.en ELSE 0
Start(r) == <<r.s, SN(r)>>
End(r)   == <<r.e, EN(r)>>
InRange(r, tod) == LexLeq(Start(r), tod) /\ LexLess(tod, End(r))

\* A weekly schedule is a function Weekdays -> day range, attached to a zone.
\* THE PROPERTY: in effect at an instant exactly when the instant's
\* wall-clock time of day, on its wall-clock weekday, lies in that weekday's
\* range.
InEffect(w, wc)   == InRange(w[wc.wd], wc.tod)
Contains(w, z, t) == InEffect(w, WallClock(z, t))

FullDay  == [s |-> 0, e |-> TPD]
EmptyDay == [s |-> 0, e |-> 0]

\* -------------------------------------------------------------- validation
\* "ranges that are negative, inverted, longer than 24h or not whole minutes
\*  are rejected"
\*
\* A day range is a range of wall-clock times of day OF ONE LOCAL DAY ("that
\* day's [start, end) range"; "a full-day range covers every instant of that
\* local day"): its bounds are times of day, 00:00 <= bound <= 24:00, counted
\* from local midnight.  "Longer than 24h" is therefore read from local
\* midnight: a range that is not negative is too long exactly when it reaches
\* past 24:00 -- 23:00-25:00 is rejected although it spans two hours, because
\* 25:00 is not a time of that day.  (PastDay subsumes end - start > 24h for
\* start >= 0; TooLong is kept as the literal reading.)
Negative(r) == r.s < 0 \/ r.e < 0                      \* floor form: bound < 0 iff its tick part < 0
Inverted(r) == LexLess(End(r), Start(r))
TooLong(r)  == LexLess(<<r.s + TPD, SN(r)>>, End(r))    \* end - start > 24 h
PastDay(r)  == LexLess(<<TPD, 0>>, End(r)) \/ LexLess(<<TPD, 0>>, Start(r))   \* a bound after 24:00
Ragged(r)   == r.s % TPM # 0 \/ r.e % TPM # 0 \/ SN(r) # 0 \/ EN(r) # 0
MustReject(r) == Negative(r) \/ Inverted(r) \/ TooLong(r) \/ PastDay(r) \/ Ragged(r)

\* What certainly is a schedule range: the empty range of an unset day and a
\* non-empty whole-minute range inside one day.
IsEmptyDay(r) == Start(r) = <<0, 0>> /\ End(r) = <<0, 0>>
WellFormed(r) ==
    \/ IsEmptyDay(r)
    \/ 0 <= r.s /\ LexLess(Start(r), End(r)) /\ LexLeq(End(r), <<TPD, 0>>) /\ ~Ragged(r)

\* The statement is really silent about one kind of range only: start = end
\* at a whole minute other than 00:00 (e.g. 05:00-05:00, 24:00-24:00).  It is
\* not inverted and holds no time of day -- "an empty range covers none" --
\* but it is not the empty range of an unset day either.  Both verdicts are
\* admissible there (if accepted it must survive the round trips unchanged).
RangeVerdicts(r) ==
    IF MustReject(r) THEN {"reject"}
    ELSE IF WellFormed(r) THEN {"accept"}
    ELSE {"accept", "reject"}

\* A serialised schedule is rejected if one of its days must be, accepted if
\* all of them are well formed.
WeekVerdicts(w) ==
    IF \E d \in Weekdays : RangeVerdicts(w[d]) = {"reject"} THEN {"reject"}
    ELSE IF \A d \in Weekdays : RangeVerdicts(w[d]) = {"accept"} THEN {"accept"}
    ELSE {"accept", "reject"}

\* ------------------------------------------------- the schedule in effect
\* Decoding a serialised schedule `doc` (a record with the week in doc.w) into
\* a holder that currently holds `prev` is ALL OR NOTHING: either the document
\* is accepted and the holder then holds exactly the document, or it is
\* rejected and the holder holds exactly what it held before -- a rejected
\* schedule does not take effect, not even in part.  (A set, because the
\* verdict may be undecided.)
DecodeOutcomes(prev, doc) ==
    LET v == WeekVerdicts(doc.w) IN
    (IF "accept" \in v THEN {[ok |-> TRUE,  val |-> doc]}  ELSE {}) \cup
    (IF "reject" \in v THEN {[ok |-> FALSE, val |-> prev]} ELSE {})

\* ------------------------------------------------- helpers for enumeration
\* Every tick within [lo, hi] at which the wall clock of z shows day D, time
\* of day x (x = TPD means 24:00, i.e. 00:00 of D + 1).  An instant s with
\* that reading satisfies s = D*TPD + x - Off(z, s), and Off(z, s) is one of
\* finitely many offsets: so this is a complete search, and it returns both
\* occurrences of a repeated wall-clock time and none for a skipped one.
TicksAtWall(z, lo, hi, D, x) ==
    {s \in {D * TPD + x - o : o \in Offsets(z)} :
        lo <= s /\ s <= hi /\ WallTick(z, s) = D * TPD + x}
=============================================================================
