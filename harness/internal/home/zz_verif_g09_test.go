package home

// G09 conformance harness: the fully wired server against specs/AdGuardHome.tla.
//
// The system is booted the way run() does it (real initContextClients,
// setupDNSFilteringConf, registerControlHandlers, initDNS, startDNSServer; the
// boot sequence is a copy of the C05 harness's, without DHCP and safe
// browsing).  Every step of a history is one ABSTRACT operation in the
// vocabulary of the specification (the JSON form of the TLA+ value): this file
// only concretises it (conc), drives the real admin API through the real mux or
// sends the DNS query over a real UDP / TCP socket from the sender's loopback
// address (DoH with a ClientID through the mux's /dns-query handler), and
// projects what came back (abs): the reply, the questions the mock upstream
// saw, GET /control/querylog and GET /control/stats.  It never decides whether
// an observation is right: the recorded lines are judged by TLC
// (specs/TraceAdGuardHome.tla).

import (
	"bytes"
	"context"
	"encoding/json"
	"fmt"
	"io"
	"math/rand"
	"net"
	"net/http"
	"net/http/httptest"
	"net/netip"
	"os"
	"path/filepath"
	"runtime"
	"sort"
	"strconv"
	"strings"
	"sync"
	"testing"
	"time"

	"github.com/AdguardTeam/AdGuardHome/internal/dhcpd"
	"github.com/AdguardTeam/AdGuardHome/internal/filtering"
	"github.com/AdguardTeam/golibs/logutil/slogutil"
	"github.com/AdguardTeam/golibs/timeutil"
	"github.com/miekg/dns"
)

// ------------------------------------------------------------------- boot

// zzG09Sys is the booted system.
type zzG09Sys struct {
	dnsAddr  string
	upstream *dns.Server
	upAddr   string
	dir      string
	stopped  bool

	upMu    sync.Mutex
	upAsked []zzG09Asked

	// restricted says that the access lists posted last are not all empty:
	// only then is silence over UDP something to expect, and only then is it
	// waited for briefly (a hint for HOW LONG to wait, never a verdict).
	restricted bool
}

// zzG09Asked is one question seen by the mock upstream.
type zzG09Asked struct {
	N []string `json:"n"`
	T string   `json:"t"`
}

const (
	zzG09Sent4 = "203.0.113.77"
	zzG09Sent6 = "2001:db8::77"
)

func zzG09FreePort(t testing.TB) (port uint16) {
	for i := 0; i < 50; i++ {
		c, err := net.ListenPacket("udp", "127.0.0.1:0")
		if err != nil {
			t.Fatalf("picking port: %v", err)
		}

		p := c.LocalAddr().(*net.UDPAddr).Port
		_ = c.Close()

		l, err := net.Listen("tcp", fmt.Sprintf("127.0.0.1:%d", p))
		if err != nil {
			continue
		}

		_ = l.Close()

		return uint16(p)
	}

	t.Fatal("no free port")

	return 0
}

// zzG09Boot boots the system in dir with the default configuration of the
// specification's initial state: protection and filtering on, no rule lists, no
// custom rules, no rewrites, no blocked services, empty access lists, query
// log and statistics enabled with empty ignore lists, no anonymisation, no
// persistent clients, no runtime client sources, no response cache.
func zzG09Boot(t testing.TB, dir string, memSize uint) (sys *zzG09Sys) {
	sys = &zzG09Sys{dir: dir}
	ctx := context.Background()
	l := slogutil.NewDiscardLogger()

	upPort := zzG09FreePort(t)
	sys.upAddr = fmt.Sprintf("127.0.0.1:%d", upPort)
	pc, err := net.ListenPacket("udp", sys.upAddr)
	if err != nil {
		t.Fatalf("upstream listen: %v", err)
	}

	sys.upstream = &dns.Server{PacketConn: pc, Handler: dns.HandlerFunc(func(w dns.ResponseWriter, r *dns.Msg) {
		m := (&dns.Msg{}).SetReply(r)
		if len(r.Question) == 1 {
			q := r.Question[0]
			sys.upMu.Lock()
			sys.upAsked = append(sys.upAsked, zzG09Asked{N: zzG09AbsName(q.Name), T: dns.TypeToString[q.Qtype]})
			sys.upMu.Unlock()
			switch q.Qtype {
			case dns.TypeA:
				m.Answer = append(m.Answer, &dns.A{
					Hdr: dns.RR_Header{Name: q.Name, Rrtype: dns.TypeA, Class: dns.ClassINET, Ttl: 60},
					A:   net.ParseIP(zzG09Sent4).To4(),
				})
			case dns.TypeAAAA:
				m.Answer = append(m.Answer, &dns.AAAA{
					Hdr:  dns.RR_Header{Name: q.Name, Rrtype: dns.TypeAAAA, Class: dns.ClassINET, Ttl: 60},
					AAAA: net.ParseIP(zzG09Sent6),
				})
			}
		}

		_ = w.WriteMsg(m)
	})}
	go func() { _ = sys.upstream.ActivateAndServe() }()

	globalContext = homeContext{}
	globalContext.workDir = dir
	globalContext.confFilePath = filepath.Join(dir, "AdGuardHome.yaml")
	globalContext.mux = http.NewServeMux()
	globalContext.firstRun = false
	webHandlersRegistered = false

	dnsPort := zzG09FreePort(t)
	config.DNS.BindHosts = []netip.Addr{netip.MustParseAddr("127.0.0.1")}
	config.DNS.Port = dnsPort
	config.DNS.UpstreamDNS = []string{sys.upAddr}
	config.DNS.BootstrapDNS = []string{sys.upAddr}
	config.DNS.FallbackDNS = nil
	config.DNS.Ratelimit = 0
	config.DNS.CacheSize = 0
	config.DNS.UsePrivateRDNS = false
	config.DNS.HostsFileEnabled = false
	config.DNS.AnonymizeClientIP = false
	config.DNS.UpstreamTimeout = timeutil.Duration(5 * time.Second)
	config.Clients.Sources = &clientSourcesConfig{}
	config.Clients.Persistent = nil
	config.QueryLog.Enabled = true
	config.QueryLog.FileEnabled = true
	config.QueryLog.MemSize = memSize
	config.QueryLog.Interval = timeutil.Duration(24 * time.Hour)
	config.QueryLog.Ignored = []string{}
	config.Stats.Enabled = true
	config.Stats.Interval = timeutil.Duration(24 * time.Hour)
	config.Stats.Ignored = []string{}
	config.Users = nil
	config.Filters = nil
	config.WhitelistFilters = nil
	config.UserRules = nil
	config.Filtering.SafeFSPatterns = []string{filepath.Join(dir, "*.txt")}
	config.Filtering.FiltersUpdateIntervalHours = 24
	config.Filtering.Rewrites = nil
	config.Filtering.ProtectionEnabled = true
	config.Filtering.FilteringEnabled = true
	config.Filtering.SafeBrowsingEnabled = false
	config.Filtering.ParentalEnabled = false
	// Unencrypted DNS-over-HTTPS through the admin mux is a documented setting
	// (tls.allow_unencrypted_doh): it is how a request with a ClientID reaches
	// the server here without certificates.
	config.TLS = tlsConfigSettings{AllowUnencryptedDoH: true}
	config.DHCP = &dhcpd.ServerConfig{Enabled: false}

	filtering.InitModule()

	sigHdlr := newSignalHandler(make(chan os.Signal, 1), func(ctx context.Context) {})
	if err = initContextClients(ctx, l, sigHdlr); err != nil {
		t.Fatalf("initContextClients: %v", err)
	}

	tlsMgr, err := newTLSManager(ctx, &tlsManagerConfig{
		logger:         l,
		configModified: onConfigModified,
		tlsSettings:    config.TLS,
		servePlainDNS:  config.DNS.ServePlainDNS,
	})
	if err != nil {
		t.Fatalf("newTLSManager: %v", err)
	}

	globalContext.tls = tlsMgr

	if err = setupDNSFilteringConf(ctx, l, config.Filtering, tlsMgr); err != nil {
		t.Fatalf("setupDNSFilteringConf: %v", err)
	}

	if err = os.MkdirAll(globalContext.getDataDir(), 0o755); err != nil {
		t.Fatalf("mkdir: %v", err)
	}

	globalContext.auth, err = initUsers()
	if err != nil {
		t.Fatalf("initUsers: %v", err)
	}

	globalContext.web = &webAPI{conf: &webConfig{}, logger: l, baseLogger: l, tlsManager: tlsMgr}
	registerControlHandlers(globalContext.web)

	statsDir, querylogDir, err := checkStatsAndQuerylogDirs(&globalContext, config)
	if err != nil {
		t.Fatalf("dirs: %v", err)
	}

	if err = initDNS(l, tlsMgr, statsDir, querylogDir); err != nil {
		t.Fatalf("initDNS: %v", err)
	}

	if err = startDNSServer(); err != nil {
		t.Fatalf("startDNSServer: %v", err)
	}

	sys.dnsAddr = fmt.Sprintf("127.0.0.1:%d", dnsPort)

	return sys
}

func (sys *zzG09Sys) shutdown() {
	if sys.stopped {
		return
	}

	sys.stopped = true
	// Let background configuration writes finish before tearing down.
	time.Sleep(200 * time.Millisecond)
	_ = stopDNSServer()
	closeDNSServer()
	if globalContext.auth != nil {
		globalContext.auth.Close()
	}

	_ = sys.upstream.Shutdown()
}

func (sys *zzG09Sys) takeAsked() (a []zzG09Asked) {
	sys.upMu.Lock()
	defer sys.upMu.Unlock()

	a, sys.upAsked = sys.upAsked, nil
	if a == nil {
		a = []zzG09Asked{}
	}

	return a
}

// zzG09API performs one admin API call through the real mux.
func zzG09API(method, path string, body any) (code int, resp []byte) {
	var rd io.Reader
	if body != nil {
		b, _ := json.Marshal(body)
		rd = bytes.NewReader(b)
	}

	r := httptest.NewRequest(method, path, rd)
	if body != nil {
		r.Header.Set("Content-Type", "application/json")
	}

	w := httptest.NewRecorder()
	// A real HTTP server recovers a panicking handler and drops the connection;
	// here the handler runs on the caller's goroutine.
	defer func() {
		if p := recover(); p != nil {
			code, resp = 599, []byte(fmt.Sprintf("panic in handler: %v\n%s", p, zzG09Stack()))
		}
	}()
	globalContext.mux.ServeHTTP(w, r)

	return w.Code, w.Body.Bytes()
}

func zzG09Stack() (s string) {
	buf := make([]byte, 1<<13)

	return string(buf[:runtime.Stack(buf, false)])
}

// ---------------------------------------------------- conc: abstract -> real

// Addresses are numbers of W = 4 bits: the three high bits select the second
// octet (8..15), the low bit is the part of the address that anonymisation
// removes (the real low 16 bits hold 0 or 1): n -> 127.(8 + n/2).0.(n%2).
const zzG09W = 4

func zzG09ConcAddr(n int) (s string) { return fmt.Sprintf("127.%d.0.%d", 8+(n>>1), n&1) }

// zzG09AbsAddr is the inverse; -1 for anything else.
func zzG09AbsAddr(s string) (n int) {
	ip := net.ParseIP(strings.TrimSpace(s)).To4()
	if ip == nil || ip[0] != 127 || ip[1] < 8 || ip[1] > 15 || ip[2] != 0 || ip[3] > 1 {
		return -1
	}

	return int(ip[1]-8)<<1 | int(ip[3])
}

// A prefix <<"net", b, l>> of the W-bit space (l <= 3: it never cuts through
// the anonymised bit): 127.(8 + b/2).0.0/(13 + l).
func zzG09ConcNet(b, l int) (s string) { return fmt.Sprintf("127.%d.0.0/%d", 8+(b>>1), 13+l) }

var zzG09CidNames = []string{"", "kid", "xid", "zid"}

// zzG09AbsCid maps a ClientID string to its number (0 = none, -1 = unknown).
func zzG09AbsCid(s string) (n int) {
	s = strings.ToLower(s)
	for i, x := range zzG09CidNames {
		if x == s {
			return i
		}
	}

	return -1
}

var zzG09ClientNames = []string{"", "alpha", "beta", "gamma"}

func zzG09AbsClientName(s string) (n int) {
	for i, x := range zzG09ClientNames {
		if x == s {
			return i
		}
	}

	return -1
}

var zzG09Services = map[string]string{"yt": "youtube", "fb": "facebook"}

func zzG09AbsService(s string) (tok string) {
	for k, v := range zzG09Services {
		if v == s {
			return k
		}
	}

	if s == "" {
		return ""
	}

	return "?" + s
}

// Address tokens of answers.
var zzG09Tokens = map[string]string{
	"sent4": zzG09Sent4, "sent6": zzG09Sent6, "null4": "0.0.0.0", "null6": "::",
	"i1": "192.0.2.1", "i2": "192.0.2.2", "i3": "192.0.2.3", "i6": "2001:db8::1",
}

func zzG09AbsToken(s string) (tok string) {
	ip, err := netip.ParseAddr(s)
	if err != nil {
		return "?" + s
	}

	for k, v := range zzG09Tokens {
		if netip.MustParseAddr(v) == ip {
			return k
		}
	}

	return "?" + s
}

func zzG09ConcName(n []string) (s string) { return strings.Join(n, ".") }

func zzG09AbsName(s string) (n []string) {
	s = strings.ToLower(strings.TrimSuffix(s, "."))
	if s == "" {
		return []string{}
	}

	return strings.Split(s, ".")
}

// zzG09Spell varies the spelling of a name (letter case, trailing dot): no
// clause of the statement depends on it.
func zzG09Spell(rng *rand.Rand, s string) (out string) {
	if rng == nil {
		return s
	}

	switch rng.Intn(4) {
	case 0:
		return s
	case 1:
		return strings.ToUpper(s)
	default:
		b := []byte(s)
		for i := range b {
			if rng.Intn(2) == 0 && b[i] >= 'a' && b[i] <= 'z' {
				b[i] -= 'a' - 'A'
			}
		}

		return string(b)
	}
}

type zzG09M = map[string]any

func zzG09Ints(v any) (out []int) {
	for _, x := range v.([]any) {
		out = append(out, int(x.(float64)))
	}

	return out
}

func zzG09Strs(v any) (out []string) {
	out = []string{}
	for _, x := range v.([]any) {
		out = append(out, x.(string))
	}

	return out
}

func zzG09BitsNum(bits []int, w int) (n int) {
	for _, b := range bits {
		n = n<<1 | b
	}

	return n << (w - len(bits))
}

// zzG09ConcID renders an identifier <<kind, n, l>> of ClientsCore.
func zzG09ConcID(id []any) (s string) {
	k, n, l := id[0].(string), int(id[1].(float64)), int(id[2].(float64))
	switch k {
	case "ip":
		return zzG09ConcAddr(n)
	case "net":
		return zzG09ConcNet(n, l)
	case "cid":
		return zzG09CidNames[n]
	default:
		panic("bad id kind " + k)
	}
}

// zzG09ConcClient renders a client record as the clients API's JSON.
func zzG09ConcClient(rng *rand.Rand, c zzG09M) (j zzG09M) {
	ids := []string{}
	for _, id := range c["ids"].([]any) {
		ids = append(ids, zzG09ConcID(id.([]any)))
	}

	if rng != nil {
		rng.Shuffle(len(ids), func(i, k int) { ids[i], ids[k] = ids[k], ids[i] })
	}

	svcs := []string{}
	for _, s := range zzG09Strs(c["svcs"]) {
		svcs = append(svcs, zzG09Services[s])
	}

	own := c["own"].(bool)
	filt := c["vals"].(zzG09M)["filt"].(bool)

	return zzG09M{
		"name": zzG09ClientNames[int(c["name"].(float64))], "ids": ids,
		"use_global_settings": !own, "filtering_enabled": filt,
		"parental_enabled": false, "safebrowsing_enabled": false,
		"safe_search":                 zzG09M{"enabled": false},
		"use_global_blocked_services": !c["bs"].(bool), "blocked_services": svcs,
		"tags": []string{}, "upstreams": []string{},
		"ignore_querylog": c["ignQ"].(bool), "ignore_statistics": c["ignS"].(bool),
	}
}

// zzG09ConcAccEntry renders an access-list entry of AccessCore.
func zzG09ConcAccEntry(e zzG09M) (s string) {
	switch e["k"].(string) {
	case "ip":
		return zzG09ConcAddr(zzG09BitsNum(zzG09Ints(e["bits"]), zzG09W))
	case "cidr":
		bits := zzG09Ints(e["bits"])

		return zzG09ConcNet(zzG09BitsNum(bits, zzG09W), len(bits))
	case "id":
		return e["id"].(string)
	default:
		panic("bad access entry")
	}
}

// zzG09ConcPat renders a name pattern [k, n] (access blocked hosts, ignore
// lists) in the rule syntax.
func zzG09ConcPat(p zzG09M) (s string) {
	n := zzG09ConcName(zzG09Strs(p["n"]))
	switch p["k"].(string) {
	case "exact", "plain":
		return n
	case "domain":
		return "||" + n + "^"
	case "wild":
		return "*." + n
	default:
		panic("bad pattern kind")
	}
}

// zzG09ConcRule renders a rule record of RuleEngine.
func zzG09ConcRule(r zzG09M) (s string) {
	tgt := zzG09ConcName(zzG09Strs(r["tgt"].(zzG09M)["n"]))
	switch r["pat"].(string) {
	case "domain":
		s = "||" + tgt + "^"
	case "exact":
		s = "|" + tgt + "|"
	case "wild":
		s = "||*." + tgt + "^"
	}

	if r["kind"].(string) == "allow" {
		s = "@@" + s
	}

	var mods []string
	if r["imp"].(bool) {
		mods = append(mods, "important")
	}

	switch r["dt"].(string) {
	case "only":
		mods = append(mods, "dnstype="+r["dtype"].(string))
	case "except":
		mods = append(mods, "dnstype=~"+r["dtype"].(string))
	}

	if len(mods) > 0 {
		s += "$" + strings.Join(mods, ",")
	}

	return s
}

// zzG09ConcRewrite renders a rewrite entry of RewritesCore.
func zzG09ConcRewrite(e zzG09M) (j zzG09M) {
	dom := zzG09ConcName(zzG09Strs(e["n"]))
	if e["w"].(bool) {
		dom = "*." + dom
	}

	var ans string
	switch k := e["k"].(string); k {
	case "ip4", "ip6":
		ans = zzG09Tokens[e["ip"].(string)]
	case "cname":
		ans = zzG09ConcName(zzG09Strs(e["t"]))
	default:
		ans = k
	}

	return zzG09M{"domain": dom, "answer": ans}
}

// ------------------------------------------------------------- observations

// zzG09Reply is the projected reply to a DNS query.
type zzG09Reply struct {
	C     string   `json:"c"` // "answer", "drop", "error"
	Rcode string   `json:"rcode"`
	Cname []string `json:"cname"`
	Addrs []string `json:"addrs"`
	Raw   string   `json:"raw,omitempty"`
}

func zzG09AbsMsgAnswer(rrs []dns.RR) (cname []string, addrs []string, other string) {
	cname, addrs = []string{}, []string{}
	for _, rr := range rrs {
		switch v := rr.(type) {
		case *dns.A:
			addrs = append(addrs, zzG09AbsToken(v.A.String()))
		case *dns.AAAA:
			addrs = append(addrs, zzG09AbsToken(v.AAAA.String()))
		case *dns.CNAME:
			if len(cname) > 0 {
				other += "second CNAME;"
			}

			cname = zzG09AbsName(v.Target)
		default:
			other += rr.String() + ";"
		}
	}

	sort.Strings(addrs)

	return cname, addrs, other
}

func zzG09AbsReply(q, r *dns.Msg) (rep zzG09Reply) {
	if r.Id != q.Id || !r.Response || len(r.Question) != 1 ||
		!strings.EqualFold(r.Question[0].Name, q.Question[0].Name) || r.Question[0].Qtype != q.Question[0].Qtype {
		return zzG09Reply{C: "error", Cname: []string{}, Addrs: []string{}, Raw: "header/question mismatch: " + r.String()}
	}

	rep = zzG09Reply{C: "answer", Rcode: dns.RcodeToString[r.Rcode]}
	var other string
	rep.Cname, rep.Addrs, other = zzG09AbsMsgAnswer(r.Answer)
	if other != "" {
		rep.C, rep.Raw = "error", "unexpected records: "+other
	}

	return rep
}

// zzG09Query sends one query the way the abstract sender says.  dropWait is how
// long silence over UDP is waited for before it counts as "no reply".
func (sys *zzG09Sys) query(rng *rand.Rand, op zzG09M, dropWait time.Duration) (rep zzG09Reply) {
	addr := zzG09ConcAddr(int(op["addr"].(float64)))
	cid := zzG09CidNames[int(op["cid"].(float64))]
	name := dns.Fqdn(zzG09Spell(rng, zzG09ConcName(zzG09Strs(op["name"]))))
	qt := dns.StringToType[op["qt"].(string)]
	m := (&dns.Msg{}).SetQuestion(name, qt)
	m.Id = dns.Id()
	bad := func(err error) zzG09Reply {
		return zzG09Reply{C: "error", Cname: []string{}, Addrs: []string{}, Raw: err.Error()}
	}

	switch proto := op["proto"].(string); proto {
	case "https":
		b, err := m.Pack()
		if err != nil {
			return bad(err)
		}

		path := "/dns-query"
		if cid != "" {
			path += "/" + zzG09Spell(rng, cid)
		}

		r := httptest.NewRequest(http.MethodPost, path, bytes.NewReader(b))
		r.RemoteAddr = addr + ":34567"
		r.Header.Set("Content-Type", "application/dns-message")
		r.Header.Set("Accept", "application/dns-message")
		w := httptest.NewRecorder()
		func() {
			defer func() {
				if p := recover(); p != nil {
					w = httptest.NewRecorder()
					w.WriteHeader(599)
					_, _ = fmt.Fprintf(w, "panic in handler: %v\n%s", p, zzG09Stack())
				}
			}()
			globalContext.mux.ServeHTTP(w, r)
		}()
		if w.Code != http.StatusOK {
			return bad(fmt.Errorf("doh status %d: %s", w.Code, strings.TrimSpace(w.Body.String())))
		}

		resp := &dns.Msg{}
		if err = resp.Unpack(w.Body.Bytes()); err != nil {
			return bad(fmt.Errorf("doh unpack: %w", err))
		}

		return zzG09AbsReply(m, resp)
	case "udp", "tcp":
		c := &dns.Client{Net: proto, Timeout: 4 * time.Second}
		var laddr net.Addr
		if proto == "udp" {
			laddr = &net.UDPAddr{IP: net.ParseIP(addr)}
		} else {
			laddr = &net.TCPAddr{IP: net.ParseIP(addr)}
		}

		c.Dialer = &net.Dialer{LocalAddr: laddr, Timeout: 2 * time.Second}
		conn, err := c.Dial(sys.dnsAddr)
		if err != nil {
			return bad(fmt.Errorf("dial from %s: %w", addr, err))
		}
		defer conn.Close()

		d := 4 * time.Second
		if proto == "udp" && sys.restricted {
			d = dropWait
		}

		_ = conn.SetDeadline(time.Now().Add(d))
		c.Timeout = d
		resp, _, err := c.ExchangeWithConn(m, conn)
		if err != nil {
			if ne, ok := err.(net.Error); ok && ne.Timeout() || err == io.EOF {
				return zzG09Reply{C: "drop", Cname: []string{}, Addrs: []string{}}
			}

			return bad(err)
		}

		return zzG09AbsReply(m, resp)
	default:
		return bad(fmt.Errorf("bad proto %q", proto))
	}
}

// zzG09LogItem is one projected item of GET /control/querylog.
type zzG09LogItem struct {
	Addr    int      `json:"addr"`
	Cid     int      `json:"cid"`
	N       []string `json:"n"`
	T       string   `json:"t"`
	Reason  string   `json:"reason"`
	Status  string   `json:"status"`
	Cname   []string `json:"cname"`
	Addrs   []string `json:"addrs"`
	HasInfo bool     `json:"hasinfo"`
	Who     int      `json:"who"`
	Dis     bool     `json:"dis"`
	Svc     string   `json:"svc"`
	Proto   string   `json:"proto"`
}

func zzG09ReadLog() (items []zzG09LogItem, err error) {
	code, body := zzG09API(http.MethodGet, "/control/querylog?limit=500", nil)
	if code != http.StatusOK {
		return nil, fmt.Errorf("querylog: status %d: %s", code, body)
	}

	var resp struct {
		Data []struct {
			Answer []struct {
				Type  string `json:"type"`
				Value any    `json:"value"`
			} `json:"answer"`
			Client     string `json:"client"`
			ClientID   string `json:"client_id"`
			ClientInfo *struct {
				Name       string `json:"name"`
				Disallowed bool   `json:"disallowed"`
			} `json:"client_info"`
			ClientProto string `json:"client_proto"`
			Question    struct {
				Name string `json:"name"`
				Type string `json:"type"`
			} `json:"question"`
			Reason      string `json:"reason"`
			ServiceName string `json:"service_name"`
			Status      string `json:"status"`
		} `json:"data"`
	}
	if err = json.Unmarshal(body, &resp); err != nil {
		return nil, fmt.Errorf("querylog: %w: %s", err, body)
	}

	items = []zzG09LogItem{}
	for _, d := range resp.Data {
		it := zzG09LogItem{
			Addr: zzG09AbsAddr(d.Client), Cid: zzG09AbsCid(d.ClientID), N: zzG09AbsName(d.Question.Name),
			T: d.Question.Type, Reason: d.Reason, Status: d.Status, Cname: []string{}, Addrs: []string{},
			Svc: zzG09AbsService(d.ServiceName), Proto: d.ClientProto,
		}
		if d.ClientInfo != nil {
			it.HasInfo, it.Who, it.Dis = true, zzG09AbsClientName(d.ClientInfo.Name), d.ClientInfo.Disallowed
		}

		for _, a := range d.Answer {
			v, _ := a.Value.(string)
			switch a.Type {
			case "A", "AAAA":
				it.Addrs = append(it.Addrs, zzG09AbsToken(v))
			case "CNAME":
				it.Cname = zzG09AbsName(v)
			default:
				it.Addrs = append(it.Addrs, "?"+a.Type)
			}
		}

		sort.Strings(it.Addrs)
		items = append(items, it)
	}

	return items, nil
}

// zzG09Stats is the projection of GET /control/stats.
type zzG09Count struct {
	K []string `json:"k"`
	C int      `json:"c"`
}

// zzG09CliCount is one top_clients entry: T = "a" (address number V, -1 if it
// is not an address of the universe) or "c" (ClientID number V).
type zzG09CliCount struct {
	T string `json:"t"`
	V int    `json:"v"`
	C int    `json:"c"`
}

type zzG09Stats struct {
	Total   int             `json:"total"`
	Blocked int             `json:"blocked"`
	Other   int             `json:"other"`
	Dom     []zzG09Count    `json:"dom"`
	BDom    []zzG09Count    `json:"bdom"`
	Cli     []zzG09CliCount `json:"cli"`
}

func zzG09ReadStats() (st *zzG09Stats, err error) {
	code, body := zzG09API(http.MethodGet, "/control/stats", nil)
	if code != http.StatusOK {
		return nil, fmt.Errorf("stats: status %d: %s", code, body)
	}

	var resp struct {
		Total   int              `json:"num_dns_queries"`
		Blocked int              `json:"num_blocked_filtering"`
		SB      int              `json:"num_replaced_safebrowsing"`
		SS      int              `json:"num_replaced_safesearch"`
		Par     int              `json:"num_replaced_parental"`
		Dom     []map[string]int `json:"top_queried_domains"`
		BDom    []map[string]int `json:"top_blocked_domains"`
		Cli     []map[string]int `json:"top_clients"`
	}
	if err = json.Unmarshal(body, &resp); err != nil {
		return nil, fmt.Errorf("stats: %w: %s", err, body)
	}

	st = &zzG09Stats{Total: resp.Total, Blocked: resp.Blocked, Other: resp.SB + resp.SS + resp.Par,
		Dom: []zzG09Count{}, BDom: []zzG09Count{}, Cli: []zzG09CliCount{}}
	conv := func(in []map[string]int) (out []zzG09Count) {
		out = []zzG09Count{}
		for _, m := range in {
			for k, c := range m {
				out = append(out, zzG09Count{K: zzG09AbsName(k), C: c})
			}
		}

		sort.Slice(out, func(i, j int) bool { return strings.Join(out[i].K, ".") < strings.Join(out[j].K, ".") })

		return out
	}
	st.Dom, st.BDom = conv(resp.Dom), conv(resp.BDom)
	for _, m := range resp.Cli {
		for k, c := range m {
			if _, err = netip.ParseAddr(k); err == nil {
				st.Cli = append(st.Cli, zzG09CliCount{T: "a", V: zzG09AbsAddr(k), C: c})
			} else {
				st.Cli = append(st.Cli, zzG09CliCount{T: "c", V: zzG09AbsCid(k), C: c})
			}
		}
	}

	sort.Slice(st.Cli, func(i, j int) bool {
		a, b := st.Cli[i], st.Cli[j]

		return a.T < b.T || a.T == b.T && a.V < b.V
	})

	return st, nil
}

// zzG09Obs is everything observed after one step.
type zzG09Obs struct {
	Code  string       `json:"code"` // admin operations: "ok" / "err"
	Reply *zzG09Reply  `json:"reply"`
	Asked []zzG09Asked `json:"asked"`
	// The log view as a delta against the previous observation: Head followed
	// by the last Tail items of the previous view.
	Head  []zzG09LogItem `json:"head"`
	Tail  int            `json:"tail"`
	Stats *zzG09Stats    `json:"stats"`
	Err   string         `json:"err"`
	Ms    int64          `json:"ms"`

	log []zzG09LogItem
}

// zzG09WaitRules waits until the filtering engines contain the marker rule
// that was posted together with the new custom rules (the handler rebuilds the
// engines in the background).  It only observes: nothing is rebuilt on its
// behalf.  A rebuild that does not arrive within the bound is not reported
// here: the queries that follow show it.
func zzG09WaitRules(marker string, bound time.Duration) (ok bool) {
	deadline := time.Now().Add(bound)
	for {
		code, body := zzG09API(http.MethodGet, "/control/filtering/check_host?name="+marker, nil)
		if code == http.StatusOK && bytes.Contains(body, []byte("FilteredBlackList")) {
			return true
		}

		if time.Now().After(deadline) {
			return false
		}

		time.Sleep(2 * time.Millisecond)
	}
}

var zzG09Marker int

// zzG09Quiesce waits for a flush of the query log's memory buffer that the
// last query may have started (systems booted with a small buffer).
func zzG09Quiesce() {
	if q, ok := globalContext.queryLog.(interface {
		ZZVerifG09Quiesce(bound time.Duration) (ok bool)
	}); ok {
		q.ZZVerifG09Quiesce(3 * time.Second)
	}
}

// zzG09Exec executes one abstract operation and observes.
func (sys *zzG09Sys) exec(rng *rand.Rand, op zzG09M, dropWait, ruleWait time.Duration) (obs *zzG09Obs) {
	obs = &zzG09Obs{Code: "ok"}
	t0 := time.Now()
	sys.takeAsked()
	post, put := http.MethodPost, http.MethodPut
	code := http.StatusOK
	var body []byte
	switch k := op["k"].(string); k {
	case "query":
		rep := sys.query(rng, op, dropWait)
		obs.Reply = &rep
	case "client_add":
		code, body = zzG09API(post, "/control/clients/add", zzG09ConcClient(rng, op["c"].(zzG09M)))
	case "client_update":
		code, body = zzG09API(post, "/control/clients/update", zzG09M{
			"name": zzG09ClientNames[int(op["name"].(float64))], "data": zzG09ConcClient(rng, op["c"].(zzG09M))})
	case "client_delete":
		code, body = zzG09API(post, "/control/clients/delete", zzG09M{"name": zzG09ClientNames[int(op["name"].(float64))]})
	case "access_set":
		lst := func(v any, f func(zzG09M) string) (out []string) {
			out = []string{}
			for _, e := range v.([]any) {
				out = append(out, f(e.(zzG09M)))
			}

			return out
		}
		sys.restricted = len(op["allowed"].([]any))+len(op["disallowed"].([]any))+len(op["hosts"].([]any)) > 0
		code, body = zzG09API(post, "/control/access/set", zzG09M{
			"allowed_clients":    lst(op["allowed"], zzG09ConcAccEntry),
			"disallowed_clients": lst(op["disallowed"], zzG09ConcAccEntry),
			"blocked_hosts":      lst(op["hosts"], zzG09ConcPat)})
	case "set_rules":
		rules := []string{}
		for _, r := range op["rules"].([]any) {
			rules = append(rules, zzG09ConcRule(r.(zzG09M)))
		}

		if rng != nil {
			rng.Shuffle(len(rules), func(i, k int) { rules[i], rules[k] = rules[k], rules[i] })
		}

		zzG09Marker++
		marker := fmt.Sprintf("marker-%d.g09.invalid", zzG09Marker)
		rules = append(rules, "||"+marker+"^")
		code, body = zzG09API(post, "/control/filtering/set_rules", zzG09M{"rules": rules})
		if code == http.StatusOK {
			zzG09WaitRules(marker, ruleWait)
		}
	case "rewrite_add":
		code, body = zzG09API(post, "/control/rewrite/add", zzG09ConcRewrite(op["e"].(zzG09M)))
	case "rewrite_delete":
		code, body = zzG09API(post, "/control/rewrite/delete", zzG09ConcRewrite(op["e"].(zzG09M)))
	case "blocked_services":
		ids := []string{}
		for _, s := range zzG09Strs(op["svcs"]) {
			ids = append(ids, zzG09Services[s])
		}

		code, body = zzG09API(put, "/control/blocked_services/update", zzG09M{"ids": ids, "schedule": zzG09M{"time_zone": "UTC"}})
	case "protection":
		code, body = zzG09API(post, "/control/protection", zzG09M{"enabled": op["on"].(bool)})
	case "filtering":
		code, body = zzG09API(post, "/control/filtering/config", zzG09M{"enabled": op["on"].(bool), "interval": 24})
	case "qlog_config":
		ign := []string{}
		for _, p := range op["ignored"].([]any) {
			ign = append(ign, zzG09ConcPat(p.(zzG09M)))
		}

		code, body = zzG09API(put, "/control/querylog/config/update", zzG09M{
			"enabled": op["enabled"].(bool), "anonymize_client_ip": op["anon"].(bool), "interval": 86400000, "ignored": ign})
	case "stats_config":
		ign := []string{}
		for _, p := range op["ignored"].([]any) {
			ign = append(ign, zzG09ConcPat(p.(zzG09M)))
		}

		code, body = zzG09API(put, "/control/stats/config/update", zzG09M{
			"enabled": op["enabled"].(bool), "interval": 86400000, "ignored": ign})
	case "qlog_clear":
		code, body = zzG09API(post, "/control/querylog_clear", zzG09M{})
	case "stats_reset":
		code, body = zzG09API(post, "/control/stats_reset", zzG09M{})
	default:
		obs.Err = "unknown operation " + k
	}

	if code != http.StatusOK {
		obs.Code = "err"
		if code != http.StatusBadRequest && code != http.StatusUnprocessableEntity {
			obs.Err = fmt.Sprintf("status %d: %s", code, strings.TrimSpace(string(body)))
		}
	}

	var err error
	obs.Asked = sys.takeAsked()
	zzG09Quiesce()
	if obs.log, err = zzG09ReadLog(); err != nil {
		obs.Err += " " + err.Error()
		obs.log = []zzG09LogItem{}
	}

	if obs.Reply == nil {
		obs.Reply = &zzG09Reply{Cname: []string{}, Addrs: []string{}}
	}

	obs.Err = strings.TrimSpace(obs.Err)

	if obs.Stats, err = zzG09ReadStats(); err != nil {
		obs.Err += " " + err.Error()
		obs.Stats = &zzG09Stats{Dom: []zzG09Count{}, BDom: []zzG09Count{}, Cli: []zzG09CliCount{}}
	}

	obs.Ms = time.Since(t0).Milliseconds()

	return obs
}

// ------------------------------------------------------------ histories

// zzG09Line is one line of the recorded trace.
type zzG09Line struct {
	H   int             `json:"h"`
	I   int             `json:"i"`
	Op  json.RawMessage `json:"op"`
	Obs *zzG09Obs       `json:"obs"`
}

// zzG09Recorder turns observations into trace lines (log view as a delta).
type zzG09Recorder struct {
	fh   *os.File
	prev []zzG09LogItem
	n    int
}

// zzG09NewRecorder opens the trace file named by VERIF_OUT.  Every line is
// written through at once: if the server brings the process down, the trace
// shows how far the history got.
func zzG09NewRecorder(t testing.TB) (r *zzG09Recorder) {
	p := os.Getenv("VERIF_OUT")
	if p == "" {
		t.Skip("no VERIF_OUT")
	}

	fh, err := os.Create(p)
	if err != nil {
		t.Fatalf("creating %s: %v", p, err)
	}

	return &zzG09Recorder{fh: fh}
}

func (r *zzG09Recorder) close() { _ = r.fh.Close() }

func zzG09SameItem(a, b *zzG09LogItem) (ok bool) {
	x, _ := json.Marshal(a)
	y, _ := json.Marshal(b)

	return bytes.Equal(x, y)
}

func (r *zzG09Recorder) put(h, i int, op json.RawMessage, obs *zzG09Obs) {
	v, p := obs.log, r.prev
	k := 0
	for k < len(v) && k < len(p) && zzG09SameItem(&v[len(v)-1-k], &p[len(p)-1-k]) {
		k++
	}

	obs.Head, obs.Tail = v[:len(v)-k], k
	r.prev = v
	b, err := json.Marshal(&zzG09Line{H: h, I: i, Op: op, Obs: obs})
	if err != nil {
		panic(err)
	}

	_, _ = r.fh.Write(append(b, '\n'))
	r.n++
}

// zzG09Reset posts the default value of every family through the API,
// whatever the current state is (it lists the clients and the rewrites that
// exist and deletes them), clears the log and resets the statistics.
func (sys *zzG09Sys) reset(ruleWait time.Duration) (obs *zzG09Obs) {
	obs = &zzG09Obs{Code: "ok", Asked: []zzG09Asked{}, Reply: &zzG09Reply{Cname: []string{}, Addrs: []string{}}}
	t0 := time.Now()
	post, put := http.MethodPost, http.MethodPut
	note := func(what string, code int, body []byte) {
		if code != http.StatusOK {
			obs.Err += fmt.Sprintf("%s: status %d: %s; ", what, code, strings.TrimSpace(string(body)))
		}
	}

	code, body := zzG09API(http.MethodGet, "/control/clients", nil)
	note("clients", code, body)
	var cl struct {
		Clients []struct {
			Name string `json:"name"`
		} `json:"clients"`
	}
	_ = json.Unmarshal(body, &cl)
	for _, c := range cl.Clients {
		code, body = zzG09API(post, "/control/clients/delete", zzG09M{"name": c.Name})
		note("clients/delete", code, body)
	}

	code, body = zzG09API(post, "/control/access/set", zzG09M{
		"allowed_clients": []string{}, "disallowed_clients": []string{}, "blocked_hosts": []string{}})
	note("access/set", code, body)
	sys.restricted = false

	zzG09Marker++
	marker := fmt.Sprintf("marker-%d.g09.invalid", zzG09Marker)
	code, body = zzG09API(post, "/control/filtering/set_rules", zzG09M{"rules": []string{"||" + marker + "^"}})
	note("set_rules", code, body)
	zzG09WaitRules(marker, ruleWait)

	code, body = zzG09API(http.MethodGet, "/control/rewrite/list", nil)
	note("rewrite/list", code, body)
	var rws []zzG09M
	_ = json.Unmarshal(body, &rws)
	for _, e := range rws {
		code, body = zzG09API(post, "/control/rewrite/delete", e)
		note("rewrite/delete", code, body)
	}

	code, body = zzG09API(put, "/control/blocked_services/update", zzG09M{"ids": []string{}, "schedule": zzG09M{"time_zone": "UTC"}})
	note("blocked_services", code, body)
	code, body = zzG09API(post, "/control/protection", zzG09M{"enabled": true})
	note("protection", code, body)
	code, body = zzG09API(post, "/control/filtering/config", zzG09M{"enabled": true, "interval": 24})
	note("filtering/config", code, body)
	code, body = zzG09API(put, "/control/querylog/config/update", zzG09M{
		"enabled": true, "anonymize_client_ip": false, "interval": 86400000, "ignored": []string{}})
	note("querylog/config", code, body)
	code, body = zzG09API(put, "/control/stats/config/update", zzG09M{"enabled": true, "interval": 86400000, "ignored": []string{}})
	note("stats/config", code, body)
	code, body = zzG09API(post, "/control/querylog_clear", zzG09M{})
	note("querylog_clear", code, body)
	code, body = zzG09API(post, "/control/stats_reset", zzG09M{})
	note("stats_reset", code, body)

	var err error
	sys.takeAsked()
	if obs.log, err = zzG09ReadLog(); err != nil {
		obs.Err += err.Error()
		obs.log = []zzG09LogItem{}
	}

	if obs.Stats, err = zzG09ReadStats(); err != nil {
		obs.Err += err.Error()
		obs.Stats = &zzG09Stats{Dom: []zzG09Count{}, BDom: []zzG09Count{}, Cli: []zzG09CliCount{}}
	}

	obs.Err = strings.TrimSpace(obs.Err)
	obs.Ms = time.Since(t0).Milliseconds()

	return obs
}

func zzG09EnvInt(k string, def int) (v int) {
	v, err := strconv.Atoi(os.Getenv(k))
	if err != nil {
		return def
	}

	return v
}

// zzG09StepRng is the source of the concretisation choices of one step
// (letter case, order of unordered lists): a function of the seed and of the
// step's position only, so that a history replays identically.
func zzG09StepRng(h, i int) (rng *rand.Rand) {
	return rand.New(rand.NewSource(zzSeed()*1000003 + int64(h)*7919 + int64(i)))
}

var zzG09ResetOp = json.RawMessage(`{"k":"reset"}`)

// TestZZVerifG09Run executes the histories of VERIF_IN (one line per history:
// {"h": number, "fresh": bool, "ops": [abstract operations]}) on ONE booted
// system, in order, and records one trace line per step in VERIF_OUT.  A
// history that is not "fresh" starts with the reset prologue; a fresh one (only
// meaningful as the first of the file) starts from the boot state.
func TestZZVerifG09Run(t *testing.T) {
	rec := zzG09NewRecorder(t)
	defer rec.close()

	type hist struct {
		H     int               `json:"h"`
		Fresh bool              `json:"fresh"`
		Ops   []json.RawMessage `json:"ops"`
	}

	var hists []*hist
	zzReadNDJSON(t, "VERIF_IN", func(line []byte) {
		h := &hist{}
		if err := json.Unmarshal(line, h); err != nil {
			t.Fatalf("bad history line: %v", err)
		}

		hists = append(hists, h)
	})

	dropWait := time.Duration(zzG09EnvInt("VERIF_G09_DROPWAIT", 250)) * time.Millisecond
	ruleWait := time.Duration(zzG09EnvInt("VERIF_G09_RULEWAIT", 3000)) * time.Millisecond
	dir := os.Getenv("VERIF_DIR")
	if dir == "" {
		dir = t.TempDir()
	}

	sys := zzG09Boot(t, dir, uint(zzG09EnvInt("VERIF_G09_MEMSIZE", 1000)))
	defer sys.shutdown()

	for _, h := range hists {
		if !h.Fresh {
			rec.put(h.H, 0, zzG09ResetOp, sys.reset(ruleWait))
		}

		for i, raw := range h.Ops {
			var op zzG09M
			if err := json.Unmarshal(raw, &op); err != nil {
				t.Fatalf("history %d op %d: %v", h.H, i, err)
			}

			rec.put(h.H, i+1, raw, sys.exec(zzG09StepRng(h.H, i+1), op, dropWait, ruleWait))
		}
	}
}

// ------------------------------------------------- direction B: random driver

// zzG09Gen draws abstract operations from a universe larger than the one TLC
// enumerates: more addresses (incl. the anonymised forms of others), three
// ClientIDs, sub- and look-alike names, TXT questions, wildcard / exception /
// IPv6 / CNAME rewrites, $important and $dnstype rules, CIDR and ClientID
// access entries, allow-list mode, ||domain^ and *.wildcard ignore patterns,
// three clients with random identifiers and switches.
type zzG09Gen struct {
	rng      *rand.Rand
	sinceClr int
}

var (
	zzG09GenAddrs = []int{2, 3, 4, 5, 8, 9, 12}
	zzG09GenNames = [][]string{
		{"fwd", "example"}, {"ads", "example"}, {"sub", "ads", "example"}, {"xads", "example"},
		{"www", "youtube", "com"}, {"m", "youtube", "com"}, {"www", "facebook", "com"},
		{"rw", "example"}, {"a", "rw", "example"}, {"b", "a", "rw", "example"},
		{"deny", "example"}, {"sub", "deny", "example"}, {"other", "test"},
	}
	zzG09RuleTargets = [][]string{
		{"ads", "example"}, {"sub", "ads", "example"}, {"youtube", "com"}, {"rw", "example"}, {"fwd", "example"}, {"example"},
	}
	zzG09RwNames    = [][]string{{"rw", "example"}, {"a", "rw", "example"}, {"ads", "example"}}
	zzG09CnameTgt   = []string{"tgt", "example"} // no rule, table or list ever names it
	zzG09IgnTargets = [][]string{{"ads", "example"}, {"rw", "example"}, {"youtube", "com"}, {"example"}, {"fwd", "example"}}
	zzG09DenyNames  = [][]string{{"deny", "example"}, {"sub", "deny", "example"}, {"ads", "example"}}
)

func zzG09Bits(n, width int) (b []int) {
	b = make([]int, width)
	for i := 0; i < width; i++ {
		b[i] = (n >> (zzG09W - 1 - i)) & 1
	}

	return b
}

func (g *zzG09Gen) pick(n int) int { return g.rng.Intn(n) }
func (g *zzG09Gen) coin(p float64) bool { return g.rng.Float64() < p }

func (g *zzG09Gen) subset(all []string, p float64) (out []string) {
	out = []string{}
	for _, x := range all {
		if g.coin(p) {
			out = append(out, x)
		}
	}

	return out
}

func (g *zzG09Gen) client() (c zzG09M) {
	ids := [][]any{}
	seen := map[string]bool{}
	for n := 1 + g.pick(2); len(ids) < n; {
		var id []any
		switch g.pick(4) {
		case 0, 1:
			id = []any{"ip", zzG09GenAddrs[g.pick(len(zzG09GenAddrs))], 0}
		case 2:
			l := 2 + g.pick(2)
			a := zzG09GenAddrs[g.pick(len(zzG09GenAddrs))]
			id = []any{"net", a &^ (1<<(zzG09W-l) - 1), l}
		default:
			id = []any{"cid", 1 + g.pick(3), 0}
		}

		k := fmt.Sprint(id)
		if !seen[k] {
			seen[k] = true
			ids = append(ids, id)
		}
	}

	return zzG09M{
		"name": 1 + g.pick(3), "ids": ids, "own": g.coin(0.5), "bs": g.coin(0.4),
		"vals": zzG09M{"filt": g.coin(0.5)}, "svcs": g.subset([]string{"yt", "fb"}, 0.5), "pause": false,
		"ignQ": g.coin(0.25), "ignS": g.coin(0.25),
	}
}

func (g *zzG09Gen) rule() (r zzG09M) {
	kind := "block"
	if g.coin(0.35) {
		kind = "allow"
	}

	dt, dtype := "none", ""
	if g.coin(0.25) {
		dt, dtype = []string{"only", "except"}[g.pick(2)], []string{"A", "AAAA"}[g.pick(2)]
	}

	return zzG09M{
		"place": "custom", "kind": kind, "pat": []string{"domain", "domain", "exact", "wild"}[g.pick(4)],
		"tgt": zzG09M{"isip": false, "n": zzG09RuleTargets[g.pick(len(zzG09RuleTargets)-1)]},
		"imp": g.coin(0.2), "dt": dt, "dtype": dtype, "cl": "none", "clv": "", "da": []string{}, "ip": "", "bad": false,
	}
}

func (g *zzG09Gen) rewrite() (e zzG09M) {
	e = zzG09M{"w": g.coin(0.3), "n": zzG09RwNames[g.pick(len(zzG09RwNames))], "k": "ip4", "ip": "", "t": []string{}}
	switch g.pick(8) {
	case 0, 1, 2:
		e["ip"] = []string{"i1", "i2", "i3"}[g.pick(3)]
	case 3:
		e["k"], e["ip"] = "ip6", "i6"
	case 4, 5:
		e["k"], e["t"] = "cname", zzG09CnameTgt
	case 6:
		e["k"] = "A"
	default:
		e["k"] = "AAAA"
	}

	return e
}

func (g *zzG09Gen) accEntry() (e zzG09M) {
	switch g.pick(4) {
	case 0, 1:
		return zzG09M{"k": "ip", "fam": "v4", "bits": zzG09Bits(zzG09GenAddrs[g.pick(len(zzG09GenAddrs))], zzG09W), "id": "", "sp": "lower"}
	case 2:
		return zzG09M{"k": "cidr", "fam": "v4", "bits": zzG09Bits(zzG09GenAddrs[g.pick(len(zzG09GenAddrs))], 2+g.pick(2)), "id": "", "sp": "lower"}
	default:
		return zzG09M{"k": "id", "fam": "", "bits": []int{}, "id": zzG09CidNames[1+g.pick(3)], "sp": "lower"}
	}
}

func (g *zzG09Gen) accList(max int) (out []zzG09M) {
	out = []zzG09M{}
	seen := map[string]bool{}
	for n := g.pick(max + 1); len(out) < n; {
		e := g.accEntry()
		if k := fmt.Sprint(e); !seen[k] {
			seen[k] = true
			out = append(out, e)
		}
	}

	return out
}

func (g *zzG09Gen) pats(kinds []string, targets [][]string, max int, withQt bool) (out []zzG09M) {
	out = []zzG09M{}
	seen := map[string]bool{}
	for n := g.pick(max + 1); len(out) < n; {
		p := zzG09M{"k": kinds[g.pick(len(kinds))], "n": targets[g.pick(len(targets))]}
		if withQt {
			p["qt"] = ""
		}

		if k := fmt.Sprint(p); !seen[k] {
			seen[k] = true
			out = append(out, p)
		}
	}

	return out
}

// next draws the next operation.
func (g *zzG09Gen) next() (op zzG09M) {
	if g.sinceClr >= 28 {
		g.sinceClr = 0

		return zzG09M{"k": "qlog_clear"}
	}

	if g.coin(0.55) {
		g.sinceClr++
		q := zzG09M{"k": "query", "addr": zzG09GenAddrs[g.pick(len(zzG09GenAddrs))], "cid": 0,
			"proto": []string{"udp", "udp", "tcp"}[g.pick(3)],
			"name":  zzG09GenNames[g.pick(len(zzG09GenNames))], "qt": "A"}
		if g.coin(0.3) {
			q["proto"] = "https"
			if g.coin(0.8) {
				q["cid"] = 1 + g.pick(3)
			}
		}

		switch g.pick(10) {
		case 0, 1, 2:
			q["qt"] = "AAAA"
		case 3:
			q["qt"] = "TXT"
		}

		return q
	}

	switch g.pick(20) {
	case 0, 1, 2:
		return zzG09M{"k": "client_add", "c": g.client()}
	case 3, 4:
		return zzG09M{"k": "client_update", "name": 1 + g.pick(3), "c": g.client()}
	case 5:
		return zzG09M{"k": "client_delete", "name": 1 + g.pick(3)}
	case 6, 7:
		op = zzG09M{"k": "access_set", "allowed": []zzG09M{}, "disallowed": g.accList(2),
			"hosts": g.pats([]string{"exact", "domain", "wild"}, zzG09DenyNames, 2, true)}
		if g.coin(0.25) {
			op["allowed"], op["disallowed"] = g.accList(3), []zzG09M{}
		}

		return op
	case 8, 9, 10:
		rules := []zzG09M{}
		seen := map[string]bool{}
		for n := g.pick(4); len(rules) < n; {
			r := g.rule()
			if k := fmt.Sprint(r); !seen[k] {
				seen[k] = true
				rules = append(rules, r)
			}
		}

		return zzG09M{"k": "set_rules", "rules": rules}
	case 11, 12:
		return zzG09M{"k": "rewrite_add", "e": g.rewrite()}
	case 13:
		return zzG09M{"k": "rewrite_delete", "e": g.rewrite()}
	case 14:
		return zzG09M{"k": "blocked_services", "svcs": g.subset([]string{"yt", "fb"}, 0.5)}
	case 15:
		return zzG09M{"k": "protection", "on": g.coin(0.6)}
	case 16:
		return zzG09M{"k": "filtering", "on": g.coin(0.6)}
	case 17:
		return zzG09M{"k": "qlog_config", "enabled": g.coin(0.8), "anon": g.coin(0.4),
			"ignored": g.pats([]string{"plain", "domain", "wild"}, zzG09IgnTargets, 2, false)}
	case 18:
		return zzG09M{"k": "stats_config", "enabled": g.coin(0.8),
			"ignored": g.pats([]string{"plain", "domain", "wild"}, zzG09IgnTargets, 2, false)}
	default:
		if g.coin(0.5) {
			g.sinceClr = 0

			return zzG09M{"k": "qlog_clear"}
		}

		return zzG09M{"k": "stats_reset"}
	}
}

// TestZZVerifG09Random is the direction-B driver: VERIF_G09_HISTS random
// histories of VERIF_G09_STEPS operations each on one booted system.  The
// first history starts from the boot state, the others from the reset
// prologue.  Histories are numbered from VERIF_G09_FIRSTH.
func TestZZVerifG09Random(t *testing.T) {
	rec := zzG09NewRecorder(t)
	defer rec.close()

	dropWait := time.Duration(zzG09EnvInt("VERIF_G09_DROPWAIT", 250)) * time.Millisecond
	ruleWait := time.Duration(zzG09EnvInt("VERIF_G09_RULEWAIT", 3000)) * time.Millisecond
	nh, steps, first := zzG09EnvInt("VERIF_G09_HISTS", 4), zzG09EnvInt("VERIF_G09_STEPS", 100), zzG09EnvInt("VERIF_G09_FIRSTH", 1)
	dir := os.Getenv("VERIF_DIR")
	if dir == "" {
		dir = t.TempDir()
	}

	sys := zzG09Boot(t, dir, uint(zzG09EnvInt("VERIF_G09_MEMSIZE", 1000)))
	defer sys.shutdown()

	for h := first; h < first+nh; h++ {
		g := &zzG09Gen{rng: rand.New(rand.NewSource(zzSeed()*7907 + int64(h)))}
		if h != first {
			rec.put(h, 0, zzG09ResetOp, sys.reset(ruleWait))
		}

		for i := 1; i <= steps; i++ {
			op := g.next()
			raw, err := json.Marshal(op)
			if err != nil {
				t.Fatalf("marshal: %v", err)
			}

			// Through JSON, so that exec sees exactly what a replay will see.
			var op2 zzG09M
			_ = json.Unmarshal(raw, &op2)
			rec.put(h, i, raw, sys.exec(zzG09StepRng(h, i), op2, dropWait, ruleWait))
		}
	}
}

// TestZZVerifG09Spike is a development probe.
func TestZZVerifG09Spike(t *testing.T) {
	if os.Getenv("VERIF_G09_SPIKE") == "" {
		t.Skip("no VERIF_G09_SPIKE")
	}

	sys := zzG09Boot(t, t.TempDir(), 1000)
	defer sys.shutdown()

	run := func(js string) {
		var op zzG09M
		if err := json.Unmarshal([]byte(js), &op); err != nil {
			t.Fatalf("%s: %v", js, err)
		}

		obs := sys.exec(nil, op, 300*time.Millisecond, 3*time.Second)
		obs.Head = obs.log
		b, _ := json.Marshal(obs)
		fmt.Printf("OP %s\n  -> %s\n", js, b)
	}

	for _, js := range strings.Split(os.Getenv("VERIF_G09_SPIKE"), "\n") {
		js = strings.TrimSpace(js)
		if js != "" {
			run(js)
		}
	}
}
