SPECIFICATION Spec
