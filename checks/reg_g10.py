PROPERTY = "G10"
ENTRY = {
        "text": "Settings persistence of the admin API (Persist.tla): every settings change the API accepts (2xx) is in effect at once, is what the corresponding GET reports, "
                "is written to AdGuardHome.yaml, and is in effect and reported again after a clean restart; a refused change (4xx/5xx) changes neither the running settings nor "
                "the file; after a crash every change answered 2xx is there and a change cut off in mid-request is there completely or not at all. 30 settings components over "
                "dns_config (16 fields), filtering/config, set_rules, filter list add/remove/set_url, safebrowsing, parental, safesearch (settings + deprecated enable/disable), "
                "rewrites, blocked services (update + deprecated set), access lists, persistent clients, querylog and statistics configuration, language and theme; which requests "
                "must be accepted / refused / may be either is transcribed from openapi.yaml, openapi/CHANGELOG.md and AGHTechDoc.md. TLC checks write-through, GET = running, "
                "refused => unchanged, restart => running' = file, crash atomicity over all histories of a bounded universe and emits one vector per (state, label); five seeded "
                "faults of the specification are each caught. The Go harness runs the real server (run() in a child process of the test binary), sends requests over TCP to the real "
                "web server, reads 'reported' from the GET endpoints, 'file' from the YAML parsed independently, 'running' from DNS answers and what mock upstreams see; restart = "
                "SIGTERM + new process, crash = SIGKILL at a boundary or in mid-request. Tours cover the vectors; seeded random longer histories are validated by TracePersist.tla.",
        "design_ref": "DESIGN.md section 5; notes/G10.md",
        "note": "Trusted: TLC; the abstraction tables of the harness (abstract value <-> request body / GET body / YAML keys) and its effect table (which DNS behaviour shows which "
                "setting, when it is observable). DHCP settings and static leases, TLS (G08), users, install are not covered. One finding is open (known_findings/G10.jsonl).",
        "technique": "TLA+ state machine with nondeterministic outcome sets checked by TLC; (state, label) tours on a real server process + TLC trace validation of random histories",
    }
