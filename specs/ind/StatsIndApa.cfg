CONSTANTS
  Limits = {2, 3, 4}
  MaxLim = 4
  NCats = 2
  MaxTick = 5
  DayLen = 2
  DailyAbove = 1
INIT Init
NEXT Next
