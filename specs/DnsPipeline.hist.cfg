SPECIFICATION SpecHist
CONSTANT AllModes = FALSE
INVARIANTS HistInstalled HistVerdict HistStatements HistRepeat NeverForwardedWhileBlocked
PROPERTY UpstreamOnlyWithoutResponse
