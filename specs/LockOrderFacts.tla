--------------------------- MODULE LockOrderFacts ---------------------------
(* Placeholder so that LockOrder.tla parses stand-alone.  At run time the   *)
(* orchestrator (checks/c05.py) overwrites this module in TLC's scratch     *)
(* directory with the pairs extracted from /repo's current working tree.    *)
NThreads == 2
Paths == {<< <<"A", "r">>, <<"A", "r">> >>, << <<"A", "w">> >>}
=============================================================================
