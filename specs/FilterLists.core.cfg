SPECIFICATION SpecNamed
CONSTANTS Urls = {"u1", "u2"}
          Names = {"n1"}
          Sides = {"b", "a"}
          Served = {"cA", "cB", "fail"}
          UserSets = {{}}
          Switch = FALSE
          Bad = FALSE
          Aimless = TRUE
          MaxId = 3
          BlankPolicies = {FALSE}
          Forget = FALSE
INVARIANTS InvUniqueIds
