PROPERTY = "C13"
ENTRY = {
        "text": "Migrate.tla abstracts a YAML document to a shape (key -> type + symbolic value) and transcribes the 29 upgrade steps as operators "
                "from a shape to a set of admissible outcomes (deterministic on well-typed input; error / as-absent / zero-value where a step meets null or a wrong type; never a panic). "
                "The valid documents are the abstraction of the repository's own golden inputs (one per schema version). TLC enumerates every (version, single-key deviation) "
                "[pairs in thorough], checks the statement's invariants on the spec (stamps current, unconcerned keys preserved, idempotent, path-independent under any mixture of partial runs) "
                "and emits the admissible outcome set per document; the harness renders the document, runs the real Migrator.Migrate one-shot and split at k, recovers panics, "
                "and matches the result against the admissible shapes; seeded multi-deviation documents are evaluated by TraceMigrate.tla and replayed the same way; "
                "upgraded golden documents are loaded into home.configuration.",
        "design_ref": "DESIGN.md section 4 C13",
        "note": "Trusted: TLC, abs()/conc()/symbolic-value evaluation of zz_verif_c13_test.go. Not modelled: value-level behaviour inside one step "
                "(QUIC port defaulting), client lists longer than three elements. Loader acceptance (real home.parseConfig) is a harness check on the golden documents and on every valid document of the record-list families (2-3 clients of different shapes in every order, filters in every order, users/rewrites/allow-list records), not decided by the spec.",
        "technique": "TLA+ spec enumerated by TLC; exhaustive vector replay into real code (one-shot and split runs) + TLC-evaluated random documents",
    }
