---------------------------- MODULE TraceRoutes ----------------------------
(***************************************************************************)
(* Direction B for C11: validation of traffic recorded from the real,      *)
(* fully booted server (arena R of the harness) against Routes.tla.        *)
(*                                                                         *)
(* The trace is a history: sessions are created by the real login call     *)
(* ("login"), are created already expired ("expire"), are ended by the     *)
(* real logout handler, and the account set is switched ("users").  The    *)
(* trace names tokens (k1, k2, ...) and does NOT say whether a cookie is   *)
(* valid: this module keeps Routes' own session table and decides.  For    *)
(* every request line the harness logs what the real mux dispatched to     *)
(* (matched), facts about the concrete path, and the set of response       *)
(* classes the observed response may belong to (poss).  A line is accepted *)
(* iff                                                                     *)
(*   - poss meets Routes!Run for the extracted chain of the matched        *)
(*     pattern (mechanism), and                                            *)
(*   - the requirement itself holds on the observation: a response that    *)
(*     can only be the handler's, for a non-public path, while a user      *)
(*     exists, was authenticated (Routes!P_NoUnauth).                      *)
(* Everything is Routes.tla's own text; only the driving is new.           *)
(***************************************************************************)
EXTENDS Routes, SequencesExt

Trace == ndJsonDeserialize("trace.ndjson")

VARIABLES l, bad

tvars == <<firstRun, users, sessions, store, hist, clock, last, focus, l, bad>>

Set(s) == {s[i] : i \in DOMAIN s}

Without(t) == [x \in DOMAIN sessions \ {t} |-> sessions[x]]
With(t, e) == [x \in DOMAIN sessions \cup {t} |-> IF x = t THEN e ELSE sessions[x]]

Q(ln) == [method |-> ln.method, ctype |-> ln.ctype, body |-> ln.body, cookie |-> ln.cookie,
          basic |-> ln.basic, spelling |-> "canonical"]

E(ln) == [disp |-> "route", norm |-> FALSE, pat |-> ln.matched, root |-> ln.root, loginPage |-> ln.loginPage,
          asset |-> ln.asset, installPfx |-> ln.installPfx, assetsPfx |-> ln.assetsPfx]

\* Admissible classes for a request line.
Expected(ln) ==
    IF ~ln.clean THEN {"mux301"}
    ELSE IF ln.matched = "" THEN {"mux404"}
    ELSE UNION {Run(r, E(ln), Q(ln), 1) : r \in RoutesAt(ln.matched)}

MechOK(ln) == Set(ln.poss) \cap Expected(ln) # {}
\* The requirement, evaluated on the observation itself.
NeedOK(ln) == ln.clean /\ ln.matched # "" /\ Set(ln.poss) = {Handler} /\ users # {} /\ ~Public(E(ln))
                 => Authenticated(Q(ln))
ReqOK(ln) == MechOK(ln) /\ NeedOK(ln)

\* The real logout handler ends the session it is shown.  (While the harness
\* has switched to the installation without accounts -- a second Auth object --
\* the session table of the installation with the account is out of reach.)
LogsOut(ln) == /\ ln.clean /\ ln.matched = "/control/logout" /\ Set(ln.poss) = {Handler}
               /\ ln.cookie \in DOMAIN sessions /\ users # {}

TInit == /\ firstRun = FALSE /\ users = {Admin} /\ sessions = <<>> /\ store = <<>> /\ hist = <<>> /\ clock = 0
         /\ last = None /\ focus = None
         /\ l = 1 /\ bad = {}

Step == /\ l <= Len(Trace)
        /\ LET ln == Trace[l] IN
           /\ CASE ln.ev = "login"  -> sessions' = With(ln.tok, clock + 1) /\ users' = users
                [] ln.ev = "expire" -> sessions' = With(ln.tok, clock) /\ users' = users
                [] ln.ev = "users"  -> users' = (IF ln.has THEN {Admin} ELSE {}) /\ sessions' = sessions
                \* Close + InitAuth over the same sessions.db: what has expired is
                \* purged, nothing else changes (Routes!Restart).
                [] ln.ev = "restart" -> /\ users' = users
                                        /\ sessions' = Drop(sessions, {t \in DOMAIN sessions : sessions[t] <= clock})
                [] OTHER -> /\ users' = users
                            /\ sessions' = IF LogsOut(ln) \/ (users # {} /\ CookieClass(ln.cookie) = "expired")
                                           THEN Without(ln.cookie) ELSE sessions
           /\ bad' = IF ln.ev = "req" /\ ~ReqOK(ln)
                     THEN bad \cup {[i |-> l, exp |-> Expected(ln), cookie |-> CookieClass(ln.cookie),
                                    hasUser |-> users # {},
                                    why |-> IF ~NeedOK(ln) THEN "NoUnauthenticatedHandler fails on the observed response"
                                            ELSE "response class not admitted for the extracted chain"]}
                     ELSE bad
        /\ l' = l + 1
        /\ store' = sessions'
        /\ UNCHANGED <<firstRun, hist, clock, last, focus>>
        /\ (l' = Len(Trace) + 1 =>
              PrintT(<<"@@V", ToJson([n |-> Len(Trace), bad |-> bad'])>>))

TSpec == TInit /\ [][Step]_tvars
=============================================================================
