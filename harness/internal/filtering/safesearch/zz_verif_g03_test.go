//go:build goexperiment.synctest

package safesearch

// G03 conformance harness, package level.
//
// The real objects: the global *Default behind a real filtering.DNSFilter
// (filtering.New), driven through the DNSFilter's own HTTP handlers
// (PUT /control/safesearch/settings, GET .../status, POST .../enable|disable);
// a real client.Storage whose persistent client carries its own *Default
// exactly when its own safe search is enabled (the way package home builds
// it); questions go through DNSFilter.Settings + ApplyAdditionalFiltering +
// CheckHost, as dnsforward's clientRequestFilteringSettings does.  Time is
// virtual (testing/synctest).
//
// Direction A: TestZZVerifG03Table replays the decision vectors of
// SafeSearch.tla/TableSpec, TestZZVerifG03Walk walks the labelled edges of
// SafeSearch.tla/Spec, comparing the reply and the projected state (status,
// client record, what the engines still remember) after every step.
// Direction B: TestZZVerifG03Trace records seeded random histories over all
// services and all rule hosts for TraceSafeSearch.tla.
//
// Unexported identifiers are used only to build objects (NewDefault is
// exported anyway), to read the rule host names as INPUTS for the random
// driver (safeSearchRules) and to read what an engine remembers
// (getCachedResult) for the abstraction function.

import (
	"bytes"
	"context"
	"encoding/json"
	"errors"
	"fmt"
	"math/rand"
	"net/http"
	"net/http/httptest"
	"net/netip"
	"sort"
	"strings"
	"testing"
	"testing/synctest"
	"time"

	"github.com/AdguardTeam/AdGuardHome/internal/client"
	"github.com/AdguardTeam/AdGuardHome/internal/filtering"
	"github.com/AdguardTeam/AdGuardHome/internal/schedule"
	"github.com/AdguardTeam/golibs/logutil/slogutil"
	"github.com/AdguardTeam/golibs/timeutil"
	"github.com/miekg/dns"
)

// ------------------------------------------------------------- vocabulary

// zzG03Conf is the abstract settings object: master switch + enabled services.
type zzG03Conf struct {
	En bool     `json:"en"`
	Sv []string `json:"sv"`
}

type zzG03Client struct {
	Known bool      `json:"known"`
	Own   bool      `json:"own"`
	Conf  zzG03Conf `json:"conf"`
}

type zzG03Verdict struct {
	K string `json:"k"`
	V string `json:"v"`
}

type zzG03Mem struct {
	N   string `json:"n"`
	Q   string `json:"q"`
	Age int    `json:"age"`
}

type zzG03State struct {
	G  zzG03Conf   `json:"g"`
	Cl zzG03Client `json:"cl"`
	Gc []zzG03Mem  `json:"gc"`
	Cc []zzG03Mem  `json:"cc"`
}

type zzG03Name struct {
	Q  string `json:"q"`
	LC string `json:"lc"`
}

var zzG03AllSvcs = []string{"bing", "duckduckgo", "ecosia", "google", "pixabay", "yandex", "youtube"}

var zzG03Qtypes = map[string]uint16{
	"A": dns.TypeA, "AAAA": dns.TypeAAAA, "HTTPS": dns.TypeHTTPS, "TXT": dns.TypeTXT,
	"CNAME": dns.TypeCNAME, "MX": dns.TypeMX, "ANY": dns.TypeANY, "SVCB": dns.TypeSVCB,
	"NS": dns.TypeNS, "PTR": dns.TypePTR, "SRV": dns.TypeSRV,
}

func zzG03Field(c *filtering.SafeSearchConfig, svc string) (p *bool) {
	switch svc {
	case "bing":
		return &c.Bing
	case "duckduckgo":
		return &c.DuckDuckGo
	case "ecosia":
		return &c.Ecosia
	case "google":
		return &c.Google
	case "pixabay":
		return &c.Pixabay
	case "yandex":
		return &c.Yandex
	case "youtube":
		return &c.YouTube
	default:
		panic("zzG03: service unknown to the harness: " + svc)
	}
}

// zzG03Conc renders an abstract settings object; services outside the
// universe get the switches of others.
func zzG03Conc(c zzG03Conf, universe []string, others map[string]bool) (fc filtering.SafeSearchConfig) {
	fc.Enabled = c.En
	for _, s := range zzG03AllSvcs {
		*zzG03Field(&fc, s) = others[s]
	}
	for _, s := range universe {
		*zzG03Field(&fc, s) = false
	}
	for _, s := range c.Sv {
		*zzG03Field(&fc, s) = true
	}

	return fc
}

// zzG03Abs is the abstraction of a concrete settings object (all services).
func zzG03Abs(fc filtering.SafeSearchConfig) (c zzG03Conf) {
	c.En = fc.Enabled
	c.Sv = []string{}
	for _, s := range zzG03AllSvcs {
		if *zzG03Field(&fc, s) {
			c.Sv = append(c.Sv, s)
		}
	}

	return c
}

func zzG03Restrict(c zzG03Conf, universe []string) (r zzG03Conf) {
	r.En = c.En
	r.Sv = []string{}
	for _, s := range c.Sv {
		for _, u := range universe {
			if s == u {
				r.Sv = append(r.Sv, s)
			}
		}
	}
	sort.Strings(r.Sv)

	return r
}

func zzG03SameConf(a, b zzG03Conf) (ok bool) {
	if a.En != b.En || len(a.Sv) != len(b.Sv) {
		return false
	}

	x, y := append([]string{}, a.Sv...), append([]string{}, b.Sv...)
	sort.Strings(x)
	sort.Strings(y)
	for i := range x {
		if x[i] != y[i] {
			return false
		}
	}

	return true
}

// zzG03AbsResult is the abstraction of a filtering result.
func zzG03AbsResult(res filtering.Result, err error) (v zzG03Verdict) {
	switch {
	case err != nil:
		return zzG03Verdict{K: "err", V: err.Error()}
	case !res.IsFiltered && res.Reason == filtering.NotFilteredNotFound && res.CanonName == "" && len(res.Rules) == 0 && len(res.IPList) == 0:
		return zzG03Verdict{K: "pass"}
	case res.IsFiltered && res.Reason == filtering.FilteredSafeSearch:
		switch {
		case res.CanonName != "" && len(res.Rules) == 0 && len(res.IPList) == 0:
			return zzG03Verdict{K: "cname", V: res.CanonName}
		case res.CanonName == "" && len(res.Rules) == 1 && res.Rules[0].IP.IsValid() && len(res.IPList) == 0:
			return zzG03Verdict{K: "ip", V: res.Rules[0].IP.String()}
		case res.CanonName == "" && len(res.Rules) == 0 && len(res.IPList) == 0:
			return zzG03Verdict{K: "nodata"}
		}
	}

	return zzG03Verdict{K: "other", V: fmt.Sprintf("filtered=%v reason=%s canon=%q rules=%d iplist=%d", res.IsFiltered, res.Reason, res.CanonName, len(res.Rules), len(res.IPList))}
}

func zzG03Admissible(got zzG03Verdict, want []zzG03Verdict) (ok bool) {
	for _, w := range want {
		if w.K == got.K && (w.V == got.V || w.K == "pass" || w.K == "nodata") {
			return true
		}
	}

	return false
}

// ------------------------------------------------------------- the system

const (
	zzG03KidIP   = "192.0.2.5"
	zzG03TVIP    = "192.0.2.6"
	zzG03OtherIP = "192.0.2.77"
)

var zzG03ClientIPs = map[string]string{"kid": zzG03KidIP, "client": zzG03KidIP, "tv": zzG03TVIP, "other": zzG03OtherIP}

// zzG03Sys is one running "server": global engine, DNSFilter, client storage.
type zzG03Sys struct {
	ttl      time.Duration
	glob     *Default
	flt      *filtering.DNSFilter
	st       *client.Storage
	handlers map[string]http.HandlerFunc
	boots    int
}

// zzG03Persistent builds a persistent client the way package home does
// (clientObject.toPersistent / clientsContainer.jsonToClient): the client's
// own engine exists exactly when its own safe search is enabled.
func zzG03Persistent(name string, own bool, conf filtering.SafeSearchConfig, filt bool, ttl time.Duration) (p *client.Persistent, err error) {
	p = &client.Persistent{
		Name:             name,
		UID:              client.MustNewUID(),
		UseOwnSettings:   own,
		FilteringEnabled: filt,
		SafeSearchConf:   conf,
	}
	if err = p.SetIDs([]string{zzG03ClientIPs[name]}); err != nil {
		return nil, err
	}

	if conf.Enabled {
		var ss *Default
		ss, err = NewDefault(context.Background(), &DefaultConfig{
			Logger:         slogutil.NewDiscardLogger(),
			ServicesConfig: conf,
			ClientName:     name,
			CacheSize:      1 << 20,
			CacheTTL:       ttl,
		})
		if err != nil {
			return nil, err
		}

		p.SafeSearch = ss
	}

	return p, nil
}

type zzG03ClientConc struct {
	name string
	own  bool
	filt bool
	conf filtering.SafeSearchConfig
}

// zzG03Boot starts a server from a "configuration file": global settings and
// persistent clients.
func zzG03Boot(ttl time.Duration, g filtering.SafeSearchConfig, filt bool, clients []zzG03ClientConc) (s *zzG03Sys, err error) {
	ctx := context.Background()
	s = &zzG03Sys{ttl: ttl, handlers: map[string]http.HandlerFunc{}}
	s.glob, err = NewDefault(ctx, &DefaultConfig{
		Logger:         slogutil.NewDiscardLogger(),
		ServicesConfig: g,
		CacheSize:      1 << 20,
		CacheTTL:       ttl,
	})
	if err != nil {
		return nil, fmt.Errorf("global engine: %w", err)
	}

	var initial []*client.Persistent
	for _, c := range clients {
		var p *client.Persistent
		p, err = zzG03Persistent(c.name, c.own, c.conf, c.filt, ttl)
		if err != nil {
			return nil, fmt.Errorf("client %s: %w", c.name, err)
		}

		initial = append(initial, p)
	}

	s.st, err = client.NewStorage(ctx, &client.StorageConfig{
		Logger: slogutil.NewDiscardLogger(), Clock: timeutil.SystemClock{}, DHCP: client.EmptyDHCP{},
		InitialClients: initial,
	})
	if err != nil {
		return nil, fmt.Errorf("client storage: %w", err)
	}

	s.flt, err = filtering.New(&filtering.Config{
		SafeSearch:           s.glob,
		SafeSearchConf:       g,
		SafeSearchCacheSize:  1 << 20,
		ProtectionEnabled:    true,
		FilteringEnabled:     filt,
		BlockingMode:         filtering.BlockingModeDefault,
		BlockedServices:      &filtering.BlockedServices{Schedule: schedule.EmptyWeekly()},
		ApplyClientFiltering: s.st.ApplyClientFiltering,
		ConfigModified:       func() {},
		HTTPRegister: func(_, path string, h http.HandlerFunc) {
			s.handlers[path] = h
		},
	}, nil)
	if err != nil {
		return nil, fmt.Errorf("filtering.New: %w", err)
	}

	s.flt.SetEnabled(filt)
	s.flt.RegisterFilteringHandlers()

	return s, nil
}

func (s *zzG03Sys) close() { s.flt.Close() }

func (s *zzG03Sys) call(method, path string, body any) (code int, out []byte) {
	var rd *bytes.Reader
	if body != nil {
		b, _ := json.Marshal(body)
		rd = bytes.NewReader(b)
	} else {
		rd = bytes.NewReader(nil)
	}

	r := httptest.NewRequest(method, path, rd)
	r.Header.Set("Content-Type", "application/json")
	w := httptest.NewRecorder()
	h := s.handlers[path]
	if h == nil {
		return 0, []byte("no handler for " + path)
	}

	h(w, r)

	return w.Code, w.Body.Bytes()
}

func (s *zzG03Sys) put(c filtering.SafeSearchConfig) (reply string) {
	code, out := s.call(http.MethodPut, "/control/safesearch/settings", c)
	if code != http.StatusOK {
		return fmt.Sprintf("http %d: %s", code, strings.TrimSpace(string(out)))
	}

	return "ok"
}

func (s *zzG03Sys) legacy(enable bool) (reply string) {
	path := "/control/safesearch/disable"
	if enable {
		path = "/control/safesearch/enable"
	}

	code, out := s.call(http.MethodPost, path, nil)
	if code != http.StatusOK {
		return fmt.Sprintf("http %d: %s", code, strings.TrimSpace(string(out)))
	}

	return "ok"
}

func (s *zzG03Sys) status() (c filtering.SafeSearchConfig, err error) {
	code, out := s.call(http.MethodGet, "/control/safesearch/status", nil)
	if code != http.StatusOK {
		return c, fmt.Errorf("status: http %d: %s", code, out)
	}

	err = json.Unmarshal(out, &c)

	return c, err
}

// persisted is what the configuration file would hold now.
func (s *zzG03Sys) persisted() (g filtering.SafeSearchConfig, filt bool, clients []zzG03ClientConc) {
	disk := filtering.Config{}
	s.flt.WriteDiskConfig(&disk)
	s.st.RangeByName(func(c *client.Persistent) (cont bool) {
		clients = append(clients, zzG03ClientConc{name: c.Name, own: c.UseOwnSettings, filt: c.FilteringEnabled, conf: c.SafeSearchConf})

		return true
	})

	return disk.SafeSearchConf, disk.FilteringEnabled, clients
}

func (s *zzG03Sys) restart() (n *zzG03Sys, err error) {
	g, filt, clients := s.persisted()
	s.close()
	n, err = zzG03Boot(s.ttl, g, filt, clients)
	if n != nil {
		n.boots = s.boots + 1
	}

	return n, err
}

func (s *zzG03Sys) clientSet(c zzG03ClientConc) (reply string) {
	p, err := zzG03Persistent(c.name, c.own, c.conf, c.filt, s.ttl)
	if err != nil {
		return "err: " + err.Error()
	}

	ctx := context.Background()
	if _, ok := s.st.FindByName(c.name); ok {
		err = s.st.Update(ctx, c.name, p)
	} else {
		err = s.st.Add(ctx, p)
	}
	if err != nil {
		return "err: " + err.Error()
	}

	return "ok"
}

func (s *zzG03Sys) clientDel(name string) (reply string) {
	if !s.st.RemoveByName(context.Background(), name) {
		return "err: not found"
	}

	return "ok"
}

func (s *zzG03Sys) clientRec(name string) (c zzG03Client) {
	p, ok := s.st.FindByName(name)
	if !ok {
		return zzG03Client{Conf: zzG03Conf{Sv: []string{}}}
	}

	return zzG03Client{Known: true, Own: p.UseOwnSettings, Conf: zzG03Abs(p.SafeSearchConf)}
}

// query asks one question the way dnsforward does.
func (s *zzG03Sys) query(who string, prot bool, name, qt string) (v zzG03Verdict) {
	setts := s.flt.Settings()
	setts.ProtectionEnabled = prot
	s.flt.ApplyAdditionalFiltering(netip.MustParseAddr(zzG03ClientIPs[who]), "", setts)

	return zzG03AbsResult(s.flt.CheckHost(name, zzG03Qtypes[qt], setts))
}

// live lists which of keys the engine still remembers.
func zzG03Live(ss *Default, keys []zzG03Mem) (live []zzG03Mem) {
	live = []zzG03Mem{}
	if ss == nil {
		return live
	}

	for _, k := range keys {
		if _, ok := ss.getCachedResult(context.Background(), k.N, zzG03Qtypes[k.Q]); ok {
			live = append(live, zzG03Mem{N: k.N, Q: k.Q})
		}
	}

	return live
}

func (s *zzG03Sys) clientEngine(name string) (ss *Default) {
	p, ok := s.st.FindByName(name)
	if !ok || p.SafeSearch == nil {
		return nil
	}

	ss, _ = p.SafeSearch.(*Default)

	return ss
}

// zzG03Outside returns the keys that are not in bound.
func zzG03Outside(keys []zzG03Mem, bound []zzG03Mem) (out []zzG03Mem) {
	for _, k := range keys {
		found := false
		for _, b := range bound {
			if b.N == k.N && b.Q == k.Q {
				found = true

				break
			}
		}

		if !found {
			out = append(out, k)
		}
	}

	return out
}

func zzG03Subset(live []zzG03Mem, bound []zzG03Mem) (extra []zzG03Mem) {
	for _, l := range live {
		found := false
		for _, b := range bound {
			if b.N == l.N && b.Q == l.Q {
				found = true

				break
			}
		}

		if !found {
			extra = append(extra, l)
		}
	}

	return extra
}

// ------------------------------------------------------------ direction A: table

type zzG03TabVec struct {
	T  string                    `json:"t"`
	C  zzG03Conf                 `json:"c"`
	Q  string                    `json:"q"`
	LC string                    `json:"lc"`
	O  map[string][]zzG03Verdict `json:"o"`
}

func zzG03Tier() (thorough bool) {
	return strings.EqualFold(strings.TrimSpace(zzGetenv("VERIF_TIER")), "thorough")
}

// TestZZVerifG03Table replays every decision vector (settings, name -> per
// query type the admissible verdicts) three ways: on an engine freshly built
// from the settings, through ONE long-lived DNSFilter whose settings are
// really PUT between groups (seeded order), asked twice (the second answer
// may come from the engine's memory).
func TestZZVerifG03Table(t *testing.T) {
	w := zzNewWriter(t, "VERIF_OUT")
	defer w.close()

	rng := rand.New(rand.NewSource(zzSeed()))
	groups := map[string][]*zzG03TabVec{}
	var keys []string
	zzReadNDJSON(t, "VERIF_IN", func(line []byte) {
		v := &zzG03TabVec{}
		if err := json.Unmarshal(line, v); err != nil {
			t.Fatalf("bad vector: %v", err)
		}

		sort.Strings(v.C.Sv)
		k := fmt.Sprintf("%v|%s", v.C.En, strings.Join(v.C.Sv, ","))
		if _, ok := groups[k]; !ok {
			keys = append(keys, k)
		}

		groups[k] = append(groups[k], v)
	})

	n, evals, bad, flaky, puts := 0, 0, 0, 0, 0
	synctest.Run(func() {
		ttl := 30 * time.Minute
		live, err := zzG03Boot(ttl, filtering.SafeSearchConfig{}, true, nil)
		if err != nil {
			t.Fatalf("boot: %v", err)
		}

		var qts []string
		passes := 1
		if zzG03Tier() {
			passes = 2
		}

		for pass := 0; pass < passes; pass++ {
			rng.Shuffle(len(keys), func(i, j int) { keys[i], keys[j] = keys[j], keys[i] })
			for _, k := range keys {
				vs := groups[k]
				fc := zzG03Conc(vs[0].C, zzG03AllSvcs, nil)
				if r := live.put(fc); r != "ok" {
					t.Fatalf("PUT settings: %s", r)
				}

				puts++
				fresh, ferr := NewDefault(context.Background(), &DefaultConfig{
					Logger: slogutil.NewDiscardLogger(), ServicesConfig: fc, CacheSize: 1 << 20, CacheTTL: ttl,
				})
				if ferr != nil {
					t.Fatalf("NewDefault: %v", ferr)
				}

				rng.Shuffle(len(vs), func(i, j int) { vs[i], vs[j] = vs[j], vs[i] })
				for _, v := range vs {
					n++
					if qts == nil {
						for qt := range v.O {
							qts = append(qts, qt)
						}
						sort.Strings(qts)
					}

					for _, qt := range qts {
						want := v.O[qt]
						type probe struct {
							how string
							got zzG03Verdict
						}
						probes := []probe{
							{"fresh engine built from the settings", zzG03AbsResult(fresh.CheckHost(context.Background(), v.Q, zzG03Qtypes[qt]))},
							{"live server after PUT settings", live.query("other", true, v.Q, qt)},
							{"live server, asked again", live.query("other", true, v.Q, qt)},
						}
						evals += len(probes)
						for _, p := range probes {
							if zzG03Admissible(p.got, want) {
								continue
							}

							// Reproduce alone: a server booted with the settings,
							// asked this one question.
							alone, aerr := zzG03Boot(ttl, fc, true, nil)
							if aerr != nil {
								t.Fatalf("boot: %v", aerr)
							}

							got2 := alone.query("other", true, v.Q, qt)
							alone.close()
							if !zzG03Admissible(got2, want) {
								bad++
								w.put(map[string]any{"kind": "bad", "leg": "table", "c": v.C, "q": v.Q, "lc": v.LC, "qt": qt, "want": want, "got": got2,
									"how": "alone on a server started with these settings"})
							} else if p.how != "fresh engine built from the settings" && !zzG03Admissible(live.query("other", true, v.Q, qt), want) {
								bad++
								w.put(map[string]any{"kind": "bad", "leg": "table", "c": v.C, "q": v.Q, "lc": v.LC, "qt": qt, "want": want, "got": p.got,
									"how": fmt.Sprintf("history-dependent: %s (after %d settings changes); admissible alone", p.how, puts)})
							} else {
								flaky++
								w.put(map[string]any{"kind": "flaky", "leg": "table", "c": v.C, "q": v.Q, "qt": qt, "got": p.got, "how": p.how})
							}

							break
						}
					}
				}
			}
		}

		live.close()
	})

	w.put(map[string]any{"kind": "summary", "leg": "table", "n": n, "evaluations": evals, "bad": bad, "flaky": flaky, "puts": puts})
}

// ------------------------------------------------------------- direction A: walk

type zzG03Args struct {
	C    *zzG03Conf   `json:"c"`
	Cl   *zzG03Client `json:"cl"`
	Who  string       `json:"who"`
	Prot bool         `json:"prot"`
	Q    string       `json:"q"`
	LC   string       `json:"lc"`
	Qt   string       `json:"qt"`
}

type zzG03Step struct {
	T string          `json:"t"`
	A string          `json:"a"`
	X zzG03Args       `json:"x"`
	D zzG03State      `json:"d"`
	O json.RawMessage `json:"o"`
	// I is the index of the edge in the check's edge list.
	I int `json:"i"`
}

type zzG03Header struct {
	T      string      `json:"t"`
	Cfg    string      `json:"cfg"`
	TTL    int         `json:"ttl"`
	Names  []zzG03Name `json:"names"`
	Qtypes []string    `json:"qtypes"`
	Svcs   []string    `json:"svcs"`
	Init   zzG03State  `json:"init"`
}

// zzG03Walker carries one walk: the real system, the concrete choices made for
// what the abstract state leaves open, and the history since the last
// synchronisation point.
type zzG03Walker struct {
	hdr    *zzG03Header
	rng    *rand.Rand
	sys    *zzG03Sys
	keys   []zzG03Mem
	othG   map[string]bool
	othC   map[string]bool
	filtG  bool
	filtC  bool
	sync   zzG03State
	hist   []*zzG03Step
	nLive  int
	nEqual int
	nCmp   int
	noMem  bool
}

func (k *zzG03Walker) randOthers() (m map[string]bool) {
	// Mostly off: the engines of the large services take long to build.
	m = map[string]bool{}
	mode := k.rng.Intn(40)
	for _, s := range zzG03AllSvcs {
		switch mode {
		case 0:
			m[s] = true
		case 1:
			m[s] = k.rng.Intn(2) == 0
		default:
			m[s] = false
		}
	}

	return m
}

func (k *zzG03Walker) clientConc(c zzG03Client) (cc []zzG03ClientConc) {
	if !c.Known {
		return nil
	}

	return []zzG03ClientConc{{name: "kid", own: c.Own, filt: k.filtC, conf: zzG03Conc(c.Conf, k.hdr.Svcs, k.othC)}}
}

// zzG03EstablishError says that the specification's state could not be
// established on a fresh server: a question the specification remembers as
// rewritten is not rewritten when asked.
type zzG03EstablishError struct{ what string }

func (e *zzG03EstablishError) Error() (msg string) { return e.what }

// bootAt starts a fresh server in the specification state st: its
// configuration file says st.G / st.Cl, and what st says the engines may
// remember is really established, with the right ages, by asking the
// remembered questions and letting the clock tick (oldest first).  Entries can
// be remembered while the master switch is off only after the deprecated
// disable call, so the server is started enabled and disabled afterwards.
func (k *zzG03Walker) bootAt(st zzG03State) (err error) {
	if k.sys != nil {
		k.sys.close()
	}

	k.othG, k.othC = k.randOthers(), k.randOthers()
	k.filtG, k.filtC = k.rng.Intn(4) != 0, k.rng.Intn(2) == 0
	g := st.G
	if len(st.Gc) > 0 {
		g.En = true
	}

	k.sys, err = zzG03Boot(time.Duration(k.hdr.TTL)*time.Second, zzG03Conc(g, k.hdr.Svcs, k.othG), k.filtG, k.clientConc(st.Cl))
	if err != nil {
		return err
	}

	spell := map[string]string{}
	for _, n := range k.hdr.Names {
		spell[n.LC] = n.Q
	}

	for age := k.hdr.TTL - 1; age >= 0; age-- {
		for _, m := range st.Gc {
			if m.Age == age {
				if v := k.sys.query("other", true, spell[m.N], m.Q); v.K == "pass" {
					return &zzG03EstablishError{fmt.Sprintf("on a server started with %+v: %s %s from a stranger is not rewritten, the specification says it is", st.G, spell[m.N], m.Q)}
				}
			}
		}

		for _, m := range st.Cc {
			if m.Age == age {
				if v := k.sys.query("client", true, spell[m.N], m.Q); v.K == "pass" {
					return &zzG03EstablishError{fmt.Sprintf("on a server started with %+v and client %+v: %s %s from the client is not rewritten, the specification says it is", st.G, st.Cl, spell[m.N], m.Q)}
				}
			}
		}

		if age > 0 {
			time.Sleep(time.Second)
		}
	}

	if g.En != st.G.En {
		if r := k.sys.legacy(false); r != "ok" {
			return fmt.Errorf("establishing: disable: %s", r)
		}
	}

	k.sync = st
	k.hist = nil
	k.noMem = false

	return nil
}

// bootNear is the fallback when st cannot be established: the settings of st
// without what it remembers; the memory comparison is suspended until the next
// restart.
func (k *zzG03Walker) bootNear(st zzG03State) (err error) {
	st.Gc, st.Cc = nil, nil
	err = k.bootAt(st)
	k.noMem = true

	return err
}

// do performs one step on the real system and returns the reply.
func (k *zzG03Walker) do(s *zzG03Step) (reply zzG03Verdict, err error) {
	switch s.A {
	case "put":
		k.othG = k.randOthers()

		return zzG03Verdict{K: k.sys.put(zzG03Conc(*s.X.C, k.hdr.Svcs, k.othG))}, nil
	case "enable", "disable":
		return zzG03Verdict{K: k.sys.legacy(s.A == "enable")}, nil
	case "restart":
		k.sys, err = k.sys.restart()

		return zzG03Verdict{K: "ok"}, err
	case "clset":
		k.othC = k.randOthers()
		k.filtC = k.rng.Intn(2) == 0

		return zzG03Verdict{K: k.sys.clientSet(k.clientConc(*s.X.Cl)[0])}, nil
	case "cldel":
		return zzG03Verdict{K: k.sys.clientDel("kid")}, nil
	case "tick":
		time.Sleep(time.Second)

		return zzG03Verdict{K: "ok"}, nil
	case "query":
		return k.sys.query(s.X.Who, s.X.Prot, s.X.Q, s.X.Qt), nil
	default:
		return reply, fmt.Errorf("unknown action %q", s.A)
	}
}

// compare checks reply and projected state against the step's expectations.
func (k *zzG03Walker) compare(s *zzG03Step, reply zzG03Verdict) (what string) {
	if s.A == "query" {
		var want []zzG03Verdict
		_ = json.Unmarshal(s.O, &want)
		if !zzG03Admissible(reply, want) {
			return fmt.Sprintf("verdict %s:%s, the specification admits %s", reply.K, reply.V, string(s.O))
		}
	} else if reply.K != "ok" {
		return "operation refused: " + reply.K
	}

	fc, err := k.sys.status()
	if err != nil {
		return err.Error()
	}

	all := zzG03Abs(fc)
	if got := zzG03Restrict(all, k.hdr.Svcs); !zzG03SameConf(got, s.D.G) {
		return fmt.Sprintf("status reports %+v, the specification says %+v", got, s.D.G)
	}

	// The services outside the universe come back as they were put.
	if s.A == "put" || s.A == "restart" {
		for _, svc := range zzG03AllSvcs {
			inU := false
			for _, u := range k.hdr.Svcs {
				inU = inU || u == svc
			}

			if !inU && *zzG03Field(&fc, svc) != k.othG[svc] {
				return fmt.Sprintf("status reports %s=%v, put was %v", svc, *zzG03Field(&fc, svc), k.othG[svc])
			}
		}
	}

	cl := k.sys.clientRec("kid")
	cl.Conf = zzG03Restrict(cl.Conf, k.hdr.Svcs)
	if cl.Known != s.D.Cl.Known || cl.Own != s.D.Cl.Own || (cl.Known && !zzG03SameConf(cl.Conf, s.D.Cl.Conf)) {
		return fmt.Sprintf("client record %+v, the specification says %+v", cl, s.D.Cl)
	}

	if k.noMem {
		return ""
	}

	// Every key the specification does not allow to be remembered is probed
	// after every step; the allowed ones (for the vacuity statistics: does the
	// engine remember anything at all) every eighth step.
	gl, cll := zzG03Live(k.sys.glob, zzG03Outside(k.keys, s.D.Gc)), zzG03Live(k.sys.clientEngine("kid"), zzG03Outside(k.keys, s.D.Cc))
	if len(gl) > 0 {
		return fmt.Sprintf("the global engine still remembers %v, the specification bounds its memory by %v", gl, s.D.Gc)
	}

	if len(cll) > 0 {
		return fmt.Sprintf("the client's engine still remembers %v, the specification bounds its memory by %v", cll, s.D.Cc)
	}

	k.nCmp++
	if k.nCmp%8 == 0 {
		in := len(zzG03Live(k.sys.glob, s.D.Gc)) + len(zzG03Live(k.sys.clientEngine("kid"), s.D.Cc))
		k.nLive += in
		if in == len(s.D.Gc)+len(s.D.Cc) {
			k.nEqual++
		}
	}

	return ""
}

func zzG03Describe(s *zzG03Step) (d string) {
	switch s.A {
	case "put":
		return fmt.Sprintf("PUT settings %+v", *s.X.C)
	case "clset":
		return fmt.Sprintf("client kid := %+v", *s.X.Cl)
	case "query":
		return fmt.Sprintf("query %s %s from %s prot=%v", s.X.Q, s.X.Qt, s.X.Who, s.X.Prot)
	default:
		return s.A
	}
}

// TestZZVerifG03Walk walks the planned tour of SafeSearch.tla's state graph on
// one real system: after EVERY step the reply and the projected state are
// compared with the specification.  A disagreement is reproduced on a fresh
// system (started in the last synchronisation state, the steps since then
// replayed) before it is reported; the walk then continues from a fresh system
// started in the specification's state.
func TestZZVerifG03Walk(t *testing.T) {
	w := zzNewWriter(t, "VERIF_OUT")
	defer w.close()

	var hdr *zzG03Header
	var steps []*zzG03Step
	zzReadNDJSON(t, "VERIF_IN", func(line []byte) {
		if hdr == nil {
			hdr = &zzG03Header{}
			if err := json.Unmarshal(line, hdr); err != nil || hdr.T != "h" {
				t.Fatalf("bad header: %v", err)
			}

			return
		}

		s := &zzG03Step{}
		if err := json.Unmarshal(line, s); err != nil {
			t.Fatalf("bad step: %v", err)
		}

		steps = append(steps, s)
	})

	nSteps, bad, flaky, resyncs := 0, 0, 0, 0
	byAct := map[string]int{}
	var k *zzG03Walker
	synctest.Run(func() {
		k = &zzG03Walker{hdr: hdr, rng: rand.New(rand.NewSource(zzSeed()))}
		for _, n := range hdr.Names {
			for _, q := range hdr.Qtypes {
				k.keys = append(k.keys, zzG03Mem{N: n.LC, Q: q})
			}
		}

		if err := k.bootAt(hdr.Init); err != nil {
			var est *zzG03EstablishError
			if !errors.As(err, &est) {
				t.Fatalf("boot: %v", err)
			}

			bad++
			w.put(map[string]any{"kind": "bad", "leg": "walk", "cfg": hdr.Cfg, "step": 0, "edge": -1, "boot": hdr.Init, "history": []string{"start the server in this state"},
				"steps": []*zzG03Step{}, "what": est.Error(), "got": zzG03Verdict{K: "pass"}, "want": "rewritten", "dst": hdr.Init, "names": hdr.Names, "svcs": hdr.Svcs, "ttl": hdr.TTL})
			if err = k.bootNear(hdr.Init); err != nil {
				t.Fatalf("boot: %v", err)
			}
		}

		for _, s := range steps {
			nSteps++
			byAct[s.A]++
			reply, err := k.do(s)
			if err != nil {
				t.Fatalf("step %d (%s): %v", nSteps, s.A, err)
			}

			k.hist = append(k.hist, s)
			what := k.compare(s, reply)
			if what == "" {
				if s.A == "restart" {
					// A restart is a synchronisation point: the state is the
					// persisted one, the engines are new.
					k.sync, k.hist, k.noMem = s.D, nil, false
				}

				continue
			}

			// Reproduce in isolation.
			hist, sync := k.hist, k.sync
			r := &zzG03Walker{hdr: hdr, rng: rand.New(rand.NewSource(zzSeed() + int64(nSteps))), keys: k.keys}
			what2 := ""
			var est *zzG03EstablishError
			if err = r.bootAt(sync); errors.As(err, &est) {
				// Cannot happen for a state this walk was in; do not report
				// what cannot be reproduced.
				hist = nil
			} else if err != nil {
				t.Fatalf("boot: %v", err)
			}

			for i, h := range hist {
				var rep zzG03Verdict
				rep, err = r.do(h)
				if err != nil {
					t.Fatalf("replaying: %v", err)
				}

				if c := r.compare(h, rep); c != "" {
					if i == len(hist)-1 {
						what2 = c
					}

					break
				}
			}
			if r.sys != nil {
				r.sys.close()
			}

			descr := make([]string, len(hist))
			for i, h := range hist {
				descr[i] = zzG03Describe(h)
			}

			rec := map[string]any{"leg": "walk", "cfg": hdr.Cfg, "step": nSteps, "edge": s.I, "boot": sync, "history": descr,
				"steps": hist, "what": what, "got": reply, "want": s.O, "dst": s.D, "names": hdr.Names, "svcs": hdr.Svcs, "ttl": hdr.TTL}
			if what2 != "" {
				bad++
				rec["kind"] = "bad"
				rec["what"] = what2
			} else {
				flaky++
				rec["kind"] = "flaky"
			}
			w.put(rec)

			// Continue from the specification's state.
			resyncs++
			if err = k.bootAt(s.D); errors.As(err, &est) {
				// Establishing the state is itself a fresh, minimal history
				// that disagrees with the specification.
				bad++
				w.put(map[string]any{"kind": "bad", "leg": "walk", "cfg": hdr.Cfg, "step": nSteps, "edge": s.I, "boot": s.D, "history": []string{"start the server in this state"},
					"steps": []*zzG03Step{}, "what": est.Error(), "got": zzG03Verdict{K: "pass"}, "want": s.O, "dst": s.D, "names": hdr.Names, "svcs": hdr.Svcs, "ttl": hdr.TTL})
				err = k.bootNear(s.D)
			}
			if err != nil {
				t.Fatalf("boot: %v", err)
			}
		}

		k.sys.close()
	})

	w.put(map[string]any{"kind": "summary", "leg": "walk", "cfg": hdr.Cfg, "steps": nSteps, "bad": bad, "flaky": flaky, "resyncs": resyncs,
		"by_action": byAct, "live_entries_seen": k.nLive, "steps_memory_equal": k.nEqual, "memory_samples": k.nCmp / 8})
}

// ---------------------------------------------------------------- direction B

// zzG03Hosts reads the covered host names from the embedded rule texts, as
// INPUTS for the random driver.
func zzG03Hosts() (hosts []string) {
	for _, text := range safeSearchRules {
		for _, line := range strings.Split(text, "\n") {
			line = strings.TrimSpace(line)
			if !strings.HasPrefix(line, "|") {
				continue
			}

			if i := strings.IndexByte(line, '^'); i > 1 {
				hosts = append(hosts, line[1:i])
			}
		}
	}
	sort.Strings(hosts)

	return hosts
}

func zzG03MixCase(s string, rng *rand.Rand) (m string) {
	b := []byte(s)
	for i, c := range b {
		if c >= 'a' && c <= 'z' && rng.Intn(2) == 0 {
			b[i] = c - 'a' + 'A'
		}
	}

	return string(b)
}

// zzG03Lower is the harness's own ASCII lower-casing.
func zzG03Lower(s string) (l string) {
	b := []byte(s)
	for i, c := range b {
		if c >= 'A' && c <= 'Z' {
			b[i] = c - 'A' + 'a'
		}
	}

	return string(b)
}

func zzG03RandName(hosts []string, rng *rand.Rand) (n string) {
	h := hosts[rng.Intn(len(hosts))]
	labels := strings.Split(h, ".")
	switch rng.Intn(14) {
	case 0, 1, 2, 3, 4:
		return h
	case 5, 6:
		return zzG03MixCase(h, rng)
	case 7:
		return strings.ToUpper(h)
	case 8:
		return []string{"x.", "a.b.", "www.", "m."}[rng.Intn(4)] + h
	case 9:
		if len(labels) > 2 {
			return strings.Join(labels[1:], ".")
		}

		return "zz." + h
	case 10:
		return h + []string{".example.org", "x", ".com", ".local"}[rng.Intn(4)]
	case 11:
		return []string{"x", "www-", "w"}[rng.Intn(3)] + h
	case 12:
		return []string{"strict.bing.com", "forcesafesearch.google.com", "safe.duckduckgo.com", "restrictmoderate.youtube.com",
			"safesearch.pixabay.com", "strict-safe-search.ecosia.org", "example.org", "localhost"}[rng.Intn(8)]
	default:
		return strings.Replace(h, ".", "-", 1)
	}
}

func zzG03RandConf(rng *rand.Rand) (c zzG03Conf) {
	c.En = rng.Intn(4) != 0
	c.Sv = []string{}
	mode := rng.Intn(4)
	for _, s := range zzG03AllSvcs {
		if mode == 0 || (mode >= 2 && rng.Intn(2) == 0) {
			c.Sv = append(c.Sv, s)
		}
	}

	return c
}

// TestZZVerifG03Trace is direction B: seeded random histories over all seven
// services, every rule host and its look-alikes, two persistent clients and a
// stranger; one NDJSON line per step in the vocabulary of TraceSafeSearch.tla.
func TestZZVerifG03Trace(t *testing.T) {
	w := zzNewWriter(t, "VERIF_OUT")
	defer w.close()

	rng := rand.New(rand.NewSource(zzSeed()))
	nSteps := 6000
	if zzG03Tier() {
		nSteps = 60000
	}

	const ttlTicks = 3
	hosts := zzG03Hosts()
	if len(hosts) < 20 {
		t.Fatalf("only %d rule hosts found", len(hosts))
	}

	qts := []string{"A", "A", "A", "AAAA", "AAAA", "HTTPS", "TXT", "CNAME", "MX", "ANY", "SVCB", "NS"}
	names := []string{"kid", "tv"}

	synctest.Run(func() {
		sys, err := zzG03Boot(ttlTicks*time.Second, filtering.SafeSearchConfig{}, true, nil)
		if err != nil {
			t.Fatalf("boot: %v", err)
		}

		// recent are the keys asked lately: the candidates for what the
		// engines may still remember.
		var recent []zzG03Mem
		hot := make([]string, 0, 8)
		for i := 0; i < nSteps; i++ {
			line := map[string]any{"act": "", "c": zzG03Conf{Sv: []string{}}, "cn": "", "cr": zzG03Client{Conf: zzG03Conf{Sv: []string{}}},
				"who": "other", "prot": true, "q": "", "lc": "", "qt": "A", "out": zzG03Verdict{K: "ok"}}
			if len(hot) == 0 || i%300 == 0 {
				// A working set of names, so that questions repeat within TTL.
				hot = hot[:0]
				for j := 0; j < 8; j++ {
					hot = append(hot, zzG03RandName(hosts, rng))
				}
			}

			switch p := rng.Intn(100); {
			case p < 66:
				who := []string{"kid", "tv", "other"}[rng.Intn(3)]
				prot := rng.Intn(8) != 0
				q := hot[rng.Intn(len(hot))]
				if rng.Intn(5) == 0 {
					q = zzG03RandName(hosts, rng)
				}

				qt := qts[rng.Intn(len(qts))]
				line["act"], line["who"], line["prot"], line["q"], line["lc"], line["qt"] = "query", who, prot, q, zzG03Lower(q), qt
				line["out"] = sys.query(who, prot, q, qt)
				key := zzG03Mem{N: zzG03Lower(q), Q: qt}
				dup := false
				for _, r := range recent {
					dup = dup || r == key
				}

				if !dup {
					recent = append(recent, key)
					if len(recent) > 64 {
						recent = recent[1:]
					}
				}
			case p < 76:
				line["act"] = "tick"
				time.Sleep(time.Second)
			case p < 83:
				c := zzG03RandConf(rng)
				line["act"], line["c"] = "put", c
				line["out"] = zzG03Verdict{K: sys.put(zzG03Conc(c, zzG03AllSvcs, nil))}
			case p < 87:
				en := rng.Intn(2) == 0
				line["act"] = map[bool]string{true: "enable", false: "disable"}[en]
				line["out"] = zzG03Verdict{K: sys.legacy(en)}
			case p < 89:
				line["act"] = "restart"
				sys, err = sys.restart()
				if err != nil {
					t.Fatalf("restart: %v", err)
				}
			case p < 97:
				cn := names[rng.Intn(2)]
				cr := zzG03Client{Known: true, Own: rng.Intn(3) != 0, Conf: zzG03RandConf(rng)}
				line["act"], line["cn"], line["cr"] = "clset", cn, cr
				line["out"] = zzG03Verdict{K: sys.clientSet(zzG03ClientConc{name: cn, own: cr.Own, filt: rng.Intn(2) == 0, conf: zzG03Conc(cr.Conf, zzG03AllSvcs, nil)})}
			default:
				cn := names[rng.Intn(2)]
				if _, ok := sys.st.FindByName(cn); !ok {
					line["act"] = "tick"
					time.Sleep(time.Second)

					break
				}

				line["act"], line["cn"] = "cldel", cn
				line["out"] = zzG03Verdict{K: sys.clientDel(cn)}
			}

			fc, serr := sys.status()
			if serr != nil {
				t.Fatalf("status: %v", serr)
			}

			line["pg"] = zzG03Abs(fc)
			line["pcl"] = map[string]zzG03Client{"kid": sys.clientRec("kid"), "tv": sys.clientRec("tv")}
			line["glive"] = zzG03Live(sys.glob, recent)
			line["clive"] = map[string][]zzG03Mem{"kid": zzG03Live(sys.clientEngine("kid"), recent), "tv": zzG03Live(sys.clientEngine("tv"), recent)}
			w.put(line)
		}

		sys.close()
	})
}
