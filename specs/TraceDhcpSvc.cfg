SPECIFICATION Spec
