\* Order-independence of the specification on all one- and two-entry tables of
\* the big universe (both orderings of every table).
CONSTANTS U = "big" MaxLen = 2 EmitFrom = 99 Shard = 0 Perms = TRUE Families = 0 Mode = "gen"
INIT Init
NEXT Next
INVARIANTS PermutationInvariant
