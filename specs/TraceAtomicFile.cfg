SPECIFICATION Spec
CONSTANTS
  Dst = "DST"
POSTCONDITION Post
CHECK_DEADLOCK FALSE
