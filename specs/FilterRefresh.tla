--------------------------- MODULE FilterRefresh ---------------------------
(***************************************************************************)
(* C15, refresh half, exhaustive state graph.                              *)
(*                                                                         *)
(* A DNSFilter with the lists BlockLists \cup AllowLists is started on an  *)
(* empty data directory in one of Configs and then refreshed/restarted     *)
(* forever: forced refresh of one kind, scheduled refresh of any non-empty *)
(* set of due lists, restart.  Per contacted list the server plays one of  *)
(* ForcedBeh / SchedBeh (the scheduled product is taken over a smaller set *)
(* of behaviours, one per class, to keep the number of edges replayable).  *)
(* Because the graph is closed under these actions, "all fault sequences"  *)
(* over the universe are covered without a length bound.                   *)
(*                                                                         *)
(* TLC checks the statement's properties on every transition (through the  *)
(* history variable `last`) and emits every transition as an edge          *)
(*   [cfg, src, act, script, dst, rew]                                     *)
(* which the Go harness walks on the real DNSFilter (edge-covering tours), *)
(* comparing after EVERY step: bytes of the list files (via the lexer),    *)
(* whether the file was replaced (inode), rules_count of the status API,   *)
(* and the rules in force (CheckHost on one probe name per rule and list). *)
(***************************************************************************)
EXTENDS TLC, Json, FiniteSets, Sequences, Naturals

CONSTANTS BlockLists, AllowLists,
          AsIsC,        \* FALSE: the statement = the code; TRUE: negative control, follow the
                        \* pre-fix early return (must violate FailureIsNoOp)
          CosmC,        \* the parser policy: "#"-lines that are not plain comments are rules
          Configs,      \* set of [enabled, src, cosm]
          ForcedBeh,    \* behaviours of an http list in a forced refresh
          SchedBeh,     \* ... in a scheduled refresh
          FileBeh,      \* behaviours of a local-path list
          SetURLBeh,    \* failing behaviours of the new location in a refused set_url ({}: no such action)
          Toggle,       \* TRUE: the admin may disable and enable lists (set_url, same URL)
          SetURLAsIs    \* FALSE; TRUE: negative control, the roll-back forgets the checksum (must violate InvCoherent)

Lists == BlockLists \cup AllowLists

INSTANCE FilterRefreshCore WITH Lists <- Lists, Block <- BlockLists

VARIABLES phase,   \* "boot" | "run"
          cfg, S
vars == <<phase, cfg, S>>

------------------------------------------------------------------------------
\* Texts.
T0   == <<>>
TC   == <<"HASH", "LF", "LF", "SP", "BANG", "LF">>                 \* no rules at all
T1   == <<"TITLE", "LF", "R1", "LF">>
T1b  == <<"HASH", "LF", "SP", "R1", "SP", "CR", "LF", "LF">>       \* same rules as T1, other bytes
T1c  == <<"R1">>                                                   \* ... no final newline
T2   == <<"R2", "LF">>
T12  == <<"R1", "LF", "R2", "LF">>
T21  == <<"R2", "CR", "LF", "BANG", "LF", "R1">>
T11  == <<"R1", "LF", "R1", "LF">>
TH   == <<"HTML", "LF", "R1", "LF">>                               \* HTML page
TH2  == <<"HASH", "LF", "LF", "SP", "HTML", "LF", "R2", "LF">>     \* ... after comments and blanks
TB   == <<"R2", "BIN", "LF">>                                      \* binary from the first byte
TB2  == <<"R1", "LF", "R2", "LF", "R1", "BIN", "R2", "LF", "R2", "LF">>   \* ... after two good rules
TCUT == <<"R2", "LF", "HASH", "LF", "R1", "LF">>                   \* the body that gets cut
\* A title line, then a "#"-line that is not a plain comment, then a rule:
\* parsed in the mode after the title; its stored form is re-read without one.
TT   == <<"TITLE", "LF", "COSM", "LF", "R1", "LF">>
TT2  == <<"COSM", "LF", "R2", "LF", "TITLE", "LF", "COSM", "LF">>      \* ... on both sides of the title

B(k, t, at, arg) == [k |-> k, t |-> t, at |-> at, arg |-> arg]
OkB(t) == B("ok", t, 0, "")

OkTexts == {T0, TC, T1, T1b, T1c, T2, T12, T21, T11, TCUT, TH, TH2, TB, TB2, TT, TT2}

BehFull ==
    {OkB(t) : t \in OkTexts}
    \cup {B("unframedCut", TCUT, 2, ""), B("unframedCut", TCUT, 4, "")}
    \cup {B("connError", <<>>, 0, ""), B("cutBeforeHeaders", <<>>, 0, "")}
    \cup {B("status", T2, 0, c) : c \in {"404", "503", "206"}}
    \cup {B("cutAfterHeaders", TCUT, 0, f) : f \in {"cl", "chunked"}}
    \cup {B("cutMidLine", TCUT, 0, "cl"), B("cutMidLine", TCUT, 2, "chunked"), B("cutMidLine", TCUT, 4, "cl")}
    \cup {B("cutAtLineBoundary", TCUT, 2, "cl"), B("cutAtLineBoundary", TCUT, 4, "cl"),
          B("cutAtLineBoundary", TCUT, 2, "chunked"), B("cutAtLineBoundary", TCUT, 6, "chunked")}

BehSched ==
    {OkB(t) : t \in {TC, T1, T1b, T2, T12, TH2, TB2, TT}}
    \cup {B("connError", <<>>, 0, ""), B("status", T2, 0, "404"),
          B("cutMidLine", TCUT, 4, "cl"), B("cutAtLineBoundary", TCUT, 4, "cl"),
          B("cutAtLineBoundary", TCUT, 6, "chunked")}

BehFile ==
    {OkB(t) : t \in {T0, T1, T1b, T2, T21, TH2, TB2, TT}}
    \cup {B("missingLocal", <<>>, 0, ""), B("dirLocal", <<>>, 0, "")}

\* The new location of a refused set_url.
BehSetURL == {B("status", T2, 0, "500"), B("cutBeforeHeaders", <<>>, 0, ""), B("connError", <<>>, 0, ""),
              OkB(TH), B("cutMidLine", TCUT, 4, "cl")}
BehNone   == {}

\* The admin universe: refused set_url, disable, enable - with a rule-less list.
BehAdmin      == {OkB(T1), OkB(T2), OkB(TC), B("connError", <<>>, 0, "")}
BehAdminSched == {OkB(T1), OkB(TC), B("connError", <<>>, 0, "")}

\* A tiny set for the three-list configuration.
BehTiny == {OkB(T1), OkB(T2), B("connError", <<>>, 0, ""), B("cutMidLine", TCUT, 4, "cl")}

\* Line length through the real download-and-store path: rule lines of
\* 4095 .. 65535 bytes with short lines before and after them.
TLa == <<"R1", "LF", "L4095", "LF", "R2", "LF">>
TLb == <<"R2", "LF", "L4096", "LF">>
TLc == <<"R1", "LF", "R2", "CR", "LF", "L4097", "LF", "R1", "LF">>
TLd == <<"R1", "LF", "L5K", "LF", "R2", "LF", "L40K", "LF", "R2">>
TLe == <<"HASH", "LF", "R2", "LF", "L65535", "LF", "R1", "LF">>
LongTexts == {TLa, TLb, TLc, TLd, TLe}
BehLong ==
    {OkB(t) : t \in LongTexts \cup {T1}}
    \cup {B("connError", <<>>, 0, ""), B("cutMidLine", TLd, 6, "cl"), B("cutAtLineBoundary", TLe, 4, "chunked")}
BehLongSched == {OkB(TLa), OkB(TLd), OkB(TLe), OkB(T1), B("cutMidLine", TLd, 6, "cl")}
BehLongFile  == {OkB(t) : t \in LongTexts} \cup {B("missingLocal", <<>>, 0, "")}

\* Configurations.
AllOn     == [l \in Lists |-> TRUE]
AllHTTP   == [l \in Lists |-> "http"]
ConfHTTP  == {[enabled |-> AllOn, src |-> AllHTTP, cosm |-> CosmC]}
ConfMixed == ConfHTTP
    \cup {[enabled |-> AllOn, src |-> [AllHTTP EXCEPT ![l] = "file"], cosm |-> CosmC] : l \in Lists}
    \cup {[enabled |-> [AllOn EXCEPT ![l] = FALSE], src |-> AllHTTP, cosm |-> CosmC] : l \in Lists}

ConfLong == ConfHTTP
    \cup {[enabled |-> AllOn, src |-> [AllHTTP EXCEPT ![l] = "file"], cosm |-> CosmC] : l \in BlockLists}

AllBeh == BehSetURL \cup BehFull \cup BehSched \cup BehFile \cup BehTiny \cup BehLong \cup BehLongSched \cup BehLongFile
ASSUME \A b \in AllBeh : WellFormed(b)
\* In this universe every behaviour has exactly one outcome, so that every
\* emitted edge has exactly one destination (the soft parser cases are
\* covered by RuleList.tla and by trace validation).
ASSUME \A b \in AllBeh, c \in BOOLEAN :
           Cardinality(Outcomes([cosm |-> c], b)) = 1

------------------------------------------------------------------------------
Behs(l, mode) ==
    IF cfg.src[l] = "file" THEN FileBeh
    ELSE IF mode = "forced" THEN ForcedBeh ELSE SchedBeh

Emit(c, src, act, script, dst, rew, failed) ==
    PrintT(<<"@@V", ToJson([cfg |-> c, src |-> src, act |-> act, script |-> script,
                            dst |-> dst, rew |-> rew, failed |-> failed])>>)

Init == /\ phase = "boot"
        /\ cfg = [enabled |-> [l \in Lists |-> TRUE], src |-> [l \in Lists |-> "http"], cosm |-> CosmC]
        /\ S = S0(cfg)

Boot == /\ phase = "boot"
        /\ \E c \in Configs :
             /\ cfg' = c
             /\ S' = S0(c)
             /\ phase' = "run"
             /\ Emit(c, S0(c), [a |-> "boot"], <<>>, S0(c), {}, {})

\* The statement, asserted on EVERY generated transition (an invariant over a
\* history variable would multiply the state space by the number of scripts).
StepProps(sel, script, post, rew) ==
    /\ Assert(FailureIsNoOp(cfg, S, sel, script, post, rew), "FailureIsNoOp")
    /\ Assert(UnchangedChecksumNotRewritten(cfg, S, sel, script, post, rew), "UnchangedChecksumNotRewritten")
    /\ Assert(SuccessStoresNormalForm(cfg, S, sel, script, post, rew) \/ AsIsC, "SuccessStoresNormalForm")

Refresh(act) ==
    /\ phase = "run"
    /\ LET sel == Selected(S, act) IN
       \E script \in {s \in [sel -> UNION {Behs(l, act.mode) : l \in sel}] :
                          \A l \in sel : s[l] \in Behs(l, act.mode)} :
       \E r \in Results(cfg, S, act, script) :
           /\ S' = (IF AsIsC THEN r.asis ELSE r.st)
           /\ Emit(cfg, S, act, script, S', r.rew, r.failed)
           /\ StepProps(sel, script, S', r.rew)   \* after Emit: a violating edge is the last one emitted
    /\ UNCHANGED <<phase, cfg>>

Forced == \E k \in {"block", "allow"} :
              Refresh([a |-> "refresh", mode |-> "forced", kind |-> k, due |-> {}])
Sched  == \E due \in (SUBSET Lists) \ {{}} :
              Refresh([a |-> "refresh", mode |-> "sched", kind |-> "both", due |-> due])

Restart == /\ phase = "run"
           /\ S' = Restarted(cfg, S)
           \* A restart re-parses the stored files: nothing may change (this is
           \* where NormalFormIsFixedPoint matters to the running system).
           /\ Assert(AsIsC \/ S' = S, "RestartChangesNothing")
           /\ Emit(cfg, S, [a |-> "restart"], <<>>, S', {}, {})
           /\ UNCHANGED <<phase, cfg>>

\* A set_url of an enabled http list to a location whose download fails.
\* asis: the state today's roll-back is known to leave instead (see the Core).
SetURLFail ==
    /\ phase = "run"
    /\ \E l \in Lists, b \in SetURLBeh :
         /\ S.en[l] /\ cfg.src[l] = "http"
         /\ Assert(MustFail(cfg, b), "set_url behaviour must be a failure")
         /\ S' = (IF SetURLAsIs THEN SetURLFailedAsIs(S, l) ELSE SetURLFailed(cfg, S, l))
         /\ PrintT(<<"@@V", ToJson([cfg |-> cfg, src |-> S, act |-> [a |-> "seturl", list |-> l],
                                    script |-> [x \in {l} |-> b], dst |-> S', rew |-> {}, failed |-> {l},
                                    asis |-> SetURLFailedAsIs(S, l)])>>)
         /\ Assert(SetURLAsIs \/ S' = S, "FailedSetURLChangesNothing")
    /\ UNCHANGED <<phase, cfg>>

\* Disable / Enable through set_url with the same URL (see the Core).
EmitT(act, script, r) ==
    PrintT(<<"@@V", ToJson([cfg |-> cfg, src |-> S, act |-> act, script |-> script, dst |-> r.st,
                            rew |-> r.rew, failed |-> r.failed, asis |-> r.asis, rewfree |-> r.rewfree])>>)

Disable ==
    /\ Toggle /\ phase = "run"
    /\ \E l \in Lists :
         /\ S.en[l]
         /\ S' = Disabled(S, l)
         /\ EmitT([a |-> "disable", list |-> l], <<>>,
                  [st |-> S', asis |-> S', rew |-> {}, failed |-> {}, rewfree |-> {}])
    /\ UNCHANGED <<phase, cfg>>

Enable ==
    /\ Toggle /\ phase = "run"
    /\ \E l \in Lists :
         /\ ~S.en[l]
         /\ \E b \in Behs(l, "forced") : \E r \in EnableResults(cfg, S, l, b) :
              /\ S' = r.st
              /\ EmitT([a |-> "enable", list |-> l], [x \in {l} |-> b], r)
              \* a refused request changes nothing; an accepted one stores the
              \* normal form of what was served and puts it in force
              /\ Assert(r.failed # {} => S' = S, "RefusedEnableChangesNothing")
              /\ Assert(r.failed = {} =>
                          \E o \in Outcomes(cfg, b) :
                              /\ o.ok /\ S'.file[l] = FileOf(o.rules) /\ S'.count[l] = Count(o.rules)
                              /\ Parse(Normal(S'.file[l].rules), Pol(cfg)).rules = o.rules,
                        "EnableStoresNormalForm")
    /\ UNCHANGED <<phase, cfg>>

Next == Boot \/ Forced \/ Sched \/ Restart \/ SetURLFail \/ Disable \/ Enable
Spec == Init /\ [][Next]_vars

------------------------------------------------------------------------------
\* What every state at rest looks like.
InvCoherent == phase = "run" => Coherent(cfg, S)
=============================================================================
