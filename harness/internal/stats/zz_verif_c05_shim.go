package stats

import (
	"sync/atomic"

	"go.etcd.io/bbolt"
)

// zzVerifUnitBump is added to the unit identifier so that the C05 harness can
// make "the hour change" at will.
var zzVerifUnitBump atomic.Uint32

// ZZVerifInstallClock makes the unit identifier advance when ZZVerifNextHour
// is called.  It must be called before the statistics are started.
func (s *StatsCtx) ZZVerifInstallClock() {
	orig := s.unitIDGen
	s.unitIDGen = func() (id uint32) { return orig() + zzVerifUnitBump.Load() }
}

// ZZVerifNextHour advances the clock by one unit and runs one step of the
// periodic flush worker.
func (s *StatsCtx) ZZVerifNextHour() {
	zzVerifUnitBump.Add(1)
	s.flush()
}

// ZZVerifDamageUnit is an environment fault, not an action of the server: it
// makes the stored unit of the previous hour undecodable, as a crash or a
// disk error in the middle of a write would.  The server's documented
// reaction is to log the unit and go on without it.
func (s *StatsCtx) ZZVerifDamageUnit() {
	db := s.db.Load()
	if db == nil {
		return
	}

	id := s.unitIDGen()
	_ = db.Update(func(tx *bbolt.Tx) (err error) {
		bkt, err := tx.CreateBucketIfNotExists(idToUnitName(id - 1))
		if err != nil {
			return err
		}

		return bkt.Put([]byte{0}, []byte("this is not a gob-encoded unit"))
	})
}
