SPECIFICATION Spec
CONSTANTS
  U <- UNet
  W = 4
VIEW view
INVARIANTS TypeOK UniqueOwner Precedence OwnSettingsOnlyWhenOptedOut ResolvesToOwnerOrNone
PROPERTY RejectedLeavesUnchanged
