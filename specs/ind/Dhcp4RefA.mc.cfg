SPECIFICATION Spec
CONSTANTS
  Macs = {"m1", "m2", "m3"}
  Pool = {1, 2}
  Outs = {3}
  GW = 0
  Far = 4
  ReqHosts = {"", "h1", "g2", "bad"}
  BadHosts = {"bad"}
  StaticHosts = {"", "h1"}
  MaxStatic = 2
  LeaseT = 3
INVARIANTS
  OneHolderPerAddress KeyedByAddress OneLeasePerClient DynamicInsidePool
  ReservedClientGetsReservation OfferWhenFree DiskEqualsMemoryEachOnce
  RestartRestoresSameTable HostsUnique RemBounded NoReuseBeforeAnnouncedExpiry RemoveKeepsHeldDynamic BoundedStatics
  SameOutcomes IndIndInv IndSafety SameInvs
