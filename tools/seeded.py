#!/usr/bin/env python3
"""Confirm a seeded change and run checks against it, in a scratch worktree.

  seeded.py confirm <worktree> <dir-with-patch.diff+demo_test.go> <pkg> [-race]
  seeded.py check   <worktree> <patch.diff> <Cxx> [tier]
"""
import os, subprocess, sys, shutil, json, time
ENV = dict(os.environ, GOFLAGS="-mod=mod", GOPROXY="off")
ENV.pop("GOSUMDB", None)

def sh(cmd, cwd, timeout=1800, env=None):
    p = subprocess.run(cmd, cwd=cwd, shell=isinstance(cmd, str), capture_output=True, text=True, timeout=timeout, env=env or ENV)
    return p.returncode, p.stdout + p.stderr

def reset(wt):
    sh("git checkout -- . && git clean -fdq", wt)

def confirm(wt, d, pkg, race=False):
    reset(wt)
    demo = os.path.join(d, "demo_test.go")
    dst = os.path.join(wt, pkg, "zz_seeded_demo_test.go")
    res = {}
    raceflag = "-race " if race else ""
    shutil.copy(demo, dst)
    rc, out = sh("go test -vet=off -count=1 %s-run 'TestSeededDemo' -timeout 120s ./%s" % (raceflag, pkg), wt)
    res["demo_clean_pass"] = (rc == 0 and "no tests to run" not in out)
    if not res["demo_clean_pass"]:
        res["demo_clean_out"] = out[-1500:]
    os.remove(dst)
    rc, out = sh("git apply %s" % os.path.join(d, "patch.diff"), wt)
    res["patch_applies"] = rc == 0
    if rc != 0:
        res["apply_out"] = out
        return res
    rc, out = sh("go build ./...", wt)
    res["builds"] = rc == 0
    touched = sh("git diff --name-only", wt)[1].split()
    pkgs = sorted({os.path.dirname(f) for f in touched if f.endswith(".go")})
    rc, out = sh("go test -vet=off -count=1 -timeout 20m " + " ".join("./" + p for p in pkgs), wt)
    if rc != 0:
        rc, out = sh("go test -vet=off -count=1 -timeout 20m " + " ".join("./" + p for p in pkgs), wt)  # one retry for known flaky tests
    res["existing_tests_pass"] = rc == 0
    if rc != 0:
        res["existing_out"] = out[-1500:]
    shutil.copy(demo, dst)
    rc, out = sh("go test -vet=off -count=1 %s-run 'TestSeededDemo' -timeout 120s ./%s" % (raceflag, pkg), wt)
    res["demo_mutant_fails"] = rc != 0
    os.remove(dst)
    reset(wt)
    res["touched"] = touched
    return res

def check(wt, patch, prop, tier="quick"):
    reset(wt)
    rc, out = sh("git apply %s" % patch, wt)
    if rc != 0:
        return {"error": "patch does not apply: " + out}
    t = time.time()
    env = dict(os.environ, VERIF_REPO=wt)
    rc, out = sh(["./check", prop, tier], "/verif", timeout=3600, env=env)
    reset(wt)
    lines = [l for l in out.splitlines() if l.startswith(("VIOLATION", "INCONCLUSIVE", "KNOWN-FINDING"))]
    return {"property": prop, "tier": tier, "exit": rc, "wall_s": round(time.time() - t, 1), "lines": [l[:400] for l in lines[:6]]}

if __name__ == "__main__":
    if sys.argv[1] == "confirm":
        print(json.dumps(confirm(sys.argv[2], sys.argv[3], sys.argv[4], "-race" in sys.argv), indent=1))
    else:
        print(json.dumps(check(sys.argv[2], sys.argv[3], sys.argv[4], sys.argv[5] if len(sys.argv) > 5 else "quick"), indent=1))
