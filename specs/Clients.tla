------------------------------ MODULE Clients ------------------------------
(***************************************************************************)
(* C04 -- requests map to one persistent client by fixed precedence; the   *)
(* registry stays consistent.                                              *)
(*                                                                         *)
(* State machine over the abstract registry of ClientsCore.tla:            *)
(*                                                                         *)
(*   clients   the registry: a set of client records                       *)
(*   leases    the DHCP lease table (address -> mac identifier or NoId)    *)
(*   last      the reply of the last operation (history variable, hidden   *)
(*             by the VIEW; only RejectedLeavesUnchanged reads it)         *)
(*                                                                         *)
(* One action per API call of client.Storage: Add, Update, Remove          *)
(* (RemoveByName), LoadConfig (NewStorage with the clients of a            *)
(* configuration file); LeaseChange is the environment (the DHCP server).  *)
(* The                                                                     *)
(* read-only calls Find / FindByName / RangeByName / ApplyClientFiltering  *)
(* do not change the state; their answers in every reachable state are     *)
(* what Observe prints and what the Go harness compares after every step.  *)
(*                                                                         *)
(* TLC explores ALL histories over a finite universe U (chosen by the cfg  *)
(* file).  In every distinct state Observe prints one record: the state's  *)
(* key, the lookup tables, and every labelled outgoing edge                *)
(* <<op, a, b, idmask, flags, reply, key of the successor>>.  Edges are    *)
(* computed with the same AddRes / UpdateRes / RemoveRes operators the     *)
(* actions use; checks/c04.py verifies that the number of printed edges    *)
(* equals the number of transitions TLC generated.  The orchestrator walks *)
(* edge-covering tours through the real client.Storage.  (In the quick     *)
(* tier only a seeded fraction of the states print their edges, see        *)
(* Sampled; every state is still explored, checked and its table printed.) *)
(***************************************************************************)
EXTENDS ClientsCore, Sequences, FiniteSetsExt, Functions, TLC, Json

\* (ClientsCore is EXTENDed, not INSTANCEd with a substitution: TLC's coverage
\* pre-pass is exponential in the nesting depth of substituted operators.)
CONSTANTS U,          \* the universe record, see the definitions at the end; U.w = W
          SampleMod,  \* Observe prints the outgoing edges of the states whose key
          SampleSeed  \* hashes to 0 modulo SampleMod (1 = of every state)

ASSUME U.w = W

VARIABLES clients, leases, last
vars == <<clients, leases, last>>
view == <<clients, leases>>

RangeOf(s) == {s[i] : i \in DOMAIN s}
Idx(s, x) == CHOOSE i \in DOMAIN s : s[i] = x

Names      == RangeOf(U.names)
Ident      == RangeOf(U.ids)
LeaseAddrs == RangeOf(U.leaseaddrs)

\* Non-empty identifier sets of at most U.maxids elements (built by
\* comprehension; never by filtering SUBSET Ident).
IdSets == {{a} : a \in Ident}
            \cup (IF U.maxids >= 2 THEN {{a, b} : a, b \in Ident} ELSE {})
            \cup (IF U.maxids >= 3 THEN {{a, b, c} : a, b, c \in Ident} ELSE {})

\* In the exhaustive model a client's own values are the token "own" and the
\* global ones "global": Effective then says whose values apply.
\* (Pause windows of blocked-services schedules are the business of
\* ClientSettings.tla and of the traces; here no request falls into one.)
Mk(n, ids, f) == [name |-> n, ids |-> ids, own |-> f[1], bs |-> f[2], vals |-> "own", svcs |-> "own",
                  pause |-> FALSE]
Global == [vals |-> "global", svcs |-> "global", pause |-> FALSE]

\* --------------------------------------------------------------- behaviour
Init == /\ clients = {}
        /\ leases = [a \in LeaseAddrs |-> NoId]
        /\ last = [op |-> "init", out |-> "ok"]

Add == \E n \in Names, ids \in IdSets : \E f \in U.flags[n] :
         LET r == AddRes(clients, Mk(n, ids, f)) IN
         /\ clients' = r.reg
         /\ last' = [op |-> "add", out |-> r.out]
         /\ UNCHANGED leases

Update == \E o \in Names, n \in Names, ids \in IdSets : \E f \in U.flags[n] :
            LET r == UpdateRes(clients, o, Mk(n, ids, f)) IN
            /\ clients' = r.reg
            /\ last' = [op |-> "upd", out |-> r.out]
            /\ UNCHANGED leases

\* Start-up from a configuration file (client.NewStorage with InitialClients,
\* what home's clients.Init does with the clients of AdGuardHome.yaml): the
\* second entry point into the registry.  Two clients per file here; a file
\* with one client is an Add.
LoadConfig == /\ clients = {}
              /\ \E n1 \in Names, n2 \in Names, i1 \in IdSets, i2 \in IdSets :
                 \E f1 \in U.flags[n1], f2 \in U.flags[n2] :
                   LET r == LoadRes(<<Mk(n1, i1, f1), Mk(n2, i2, f2)>>) IN
                   /\ clients' = r.reg
                   /\ last' = [op |-> "load", out |-> r.out]
                   /\ UNCHANGED leases

Remove == \E n \in Names :
            LET r == RemoveRes(clients, n) IN
            /\ clients' = r.reg
            /\ last' = [op |-> "rem", out |-> r.out]
            /\ UNCHANGED leases

\* The DHCP server hands the address to a (different) machine, or the lease ends.
LeaseChange == \E a \in LeaseAddrs, m \in U.leasemacs \cup {NoId} :
                 /\ m # leases[a]
                 /\ leases' = [leases EXCEPT ![a] = m]
                 /\ last' = [op |-> "lease", out |-> "ok"]
                 /\ UNCHANGED clients

\* ---------------------------------------------------------------- emission
\* Compact integer encodings (decoded by checks/c04.py and the Go harness).
\* (The index tables are constant-level definitions: TLC evaluates them once.)
NameNo == [n \in Names |-> Idx(U.names, n)]
IdBit  == [id \in Ident |-> Pow2(Idx(U.ids, id) - 1)]
NameIdx(n) == IF n = "" THEN 0 ELSE NameNo[n]
Mask(ids)  == MapThenSumSet(LAMBDA id : IdBit[id], ids)
FlIdx(c)   == (IF c.own THEN 2 ELSE 0) + (IF c.bs THEN 1 ELSE 0)
FlOf(f)    == (IF f[1] THEN 2 ELSE 0) + (IF f[2] THEN 1 ELSE 0)
OutIdx(o)  == IF o = "ok" THEN 0 ELSE 1

\* key: per name (in U.names order) 0 = absent, else 4*idmask + flags; then per
\* lease address the number of the leased mac (0 = no lease).
Key(R, L) ==
    [i \in 1..Len(U.names) |->
        LET c == ByName(R, U.names[i]) IN IF c = NoClient THEN 0 ELSE 4 * Mask(c.ids) + FlIdx(c)]
    \o [i \in 1..Len(U.leaseaddrs) |-> L[U.leaseaddrs[i]][2]]

EdgesAdd(R, L) == UNION {
    {LET r == AddRes(R, Mk(n, ids, f)) IN
       <<1, NameIdx(n), 0, Mask(ids), FlOf(f), OutIdx(r.out), Key(r.reg, L)>> : ids \in IdSets, f \in U.flags[n]}
    : n \in Names}

EdgesUpd(R, L) == UNION {
    {LET r == UpdateRes(R, o, Mk(n, ids, f)) IN
       <<2, NameIdx(o), NameIdx(n), Mask(ids), FlOf(f), OutIdx(r.out), Key(r.reg, L)>> : ids \in IdSets, f \in U.flags[n]}
    : o \in Names, n \in Names}

\* <<5, n1, n2, mask1 + 2^|ids| * mask2, flags1 + 4 * flags2, reply, dst>>
EdgesLoad(R, L) ==
    IF R # {} THEN {} ELSE UNION {
      {LET r == LoadRes(<<Mk(n1, i1, f1), Mk(n2, i2, f2)>>) IN
         <<5, NameIdx(n1), NameIdx(n2), Mask(i1) + Pow2(Len(U.ids)) * Mask(i2), FlOf(f1) + 4 * FlOf(f2),
           OutIdx(r.out), Key(r.reg, L)>> : i1 \in IdSets, i2 \in IdSets, f1 \in U.flags[n1], f2 \in U.flags[n2]}
      : n1 \in Names, n2 \in Names}

EdgesRem(R, L) ==
    {LET r == RemoveRes(R, n) IN <<3, NameIdx(n), 0, 0, 0, OutIdx(r.out), Key(r.reg, L)>> : n \in Names}

EdgesLease(R, L) == UNION {
    {<<4, Idx(U.leaseaddrs, a), m[2], 0, 0, 0, Key(R, [L EXCEPT ![a] = m])>> :
        m \in (U.leasemacs \cup {NoId}) \ {L[a]}}
    : a \in LeaseAddrs}

\* The quick tier replays the edges of a seeded fraction of the states (the
\* lookup tables of ALL states are printed and all states are model-checked).
\* States with an empty registry are always sampled (LoadConfig starts there).
Sampled(k) == \/ (FoldFunction(+, SampleSeed, [i \in DOMAIN k |-> k[i] * (2 * i + 5)])) % SampleMod = 0
              \/ \A i \in 1..Len(U.names) : k[i] = 0

EffCode(e) == 4 * NameIdx(e.who) + (IF e.vals = "own" THEN 2 ELSE 0) + (IF e.svcs = "own" THEN 1 ELSE 0)

StateRecord(R, L) ==
    [k  |-> Key(R, L),
     \* Find(id) for every identifier of the universe: admissible owners (0 = none)
     fi |-> [i \in 1..Len(U.ids) |-> {NameIdx(c.name) : c \in FindSet(R, L, U.ids[i])}],
     \* Find(address) for every lookup address
     fa |-> [i \in 1..Len(U.addrs) |-> NameIdx(ByAddr(R, L, U.addrs[i]).name)],
     \* ApplyClientFiltering(cid, address): 4*who + 2*[own values] + [own services]
     ap |-> [i \in 1..Len(U.cids) |-> [j \in 1..Len(U.addrs) |->
                EffCode(Effective(R, L, Global, U.cids[i], U.addrs[j]))]],
     \* where the zone-less identifier decides for a zoned address (ZoneFallback): per
     \* identifier / lookup address 0, or 1 + the answer WITHOUT that rule (for Apply:
     \* 1 + the code); lets the harness compare these cells apart
     zi |-> [i \in 1..Len(U.ids) |->
                IF Kind(U.ids[i]) = "ip" /\ ZoneFallback(R, U.ids[i][2])
                THEN 1 + NameIdx(ByAddrZoneStrict(R, L, U.ids[i][2]).name) ELSE 0],
     za |-> [j \in 1..Len(U.addrs) |->
                IF ZoneFallback(R, U.addrs[j]) THEN 1 + NameIdx(ByAddrZoneStrict(R, L, U.addrs[j]).name) ELSE 0],
     zp |-> [i \in 1..Len(U.cids) |-> [j \in 1..Len(U.addrs) |->
                IF ZoneFallback(R, U.addrs[j])
                THEN 1 + EffCode(EffectiveZoneStrict(R, L, Global, U.cids[i], U.addrs[j])) ELSE 0]],
     \* Find(8-byte mac of the universe written with colons), IPv6 reading (0 for other ids)
     fx |-> [i \in 1..Len(U.ids) |->
                IF Kind(U.ids[i]) = "mac" THEN NameIdx(FindMacTextV6(R, U.ids[i]).name) ELSE 0],
     \* FindLoose(ClientID, address without its zone): admissible clients
     lo |-> [i \in 1..Len(U.cids) |-> [j \in 1..Len(U.addrs) |->
                {NameIdx(c.name) : c \in LooseSet(R, L, U.cids[i], Bits(U.addrs[j]))}]],
     e  |-> IF Sampled(Key(R, L))
            THEN EdgesAdd(R, L) \cup EdgesUpd(R, L) \cup EdgesRem(R, L) \cup EdgesLease(R, L) \cup EdgesLoad(R, L)
            ELSE {},
     s  |-> Sampled(Key(R, L))]

Observe == /\ U.emit
           /\ PrintT(<<"@@S", ToJson(StateRecord(clients, leases))>>)
           /\ ((clients = {} /\ \A a \in LeaseAddrs : leases[a] = NoId) =>
                 PrintT(<<"@@U", ToJson([names |-> U.names, ids |-> U.ids, addrs |-> U.addrs, cids |-> U.cids,
                                         leaseaddrs |-> U.leaseaddrs, w |-> U.w, maxids |-> U.maxids,
                                         zoned |-> U.zoned, leasemacs |-> U.leasemacs])>>))
           /\ UNCHANGED vars

Next == Add \/ Update \/ Remove \/ LeaseChange \/ LoadConfig \/ Observe
Spec == Init /\ [][Next]_vars

\* ------------------------------------------------ properties of the statement
TypeOK ==
    /\ \A c \in clients : c.name \in Names /\ c.ids \in IdSets /\ c.own \in BOOLEAN /\ c.bs \in BOOLEAN
    /\ \A a \in LeaseAddrs : leases[a] \in U.leasemacs \cup {NoId}

\* No two clients share a name or an identifier -- in every reachable state.
UniqueOwner ==
    /\ Consistent(clients)
    /\ \A id \in Ident : Cardinality(Owners(clients, id)) <= 1
    /\ \A n \in Names : Cardinality({c \in clients : c.name = n}) <= 1

\* "An operation that would make two clients share a name or an identifier is
\* rejected and leaves the registry unchanged."
RejectedLeavesUnchanged == [][last'.out = "err" => clients' = clients]_vars

Lookups == {<<cid, a>> : cid \in RangeOf(U.cids), a \in RangeOf(U.addrs)}

\* "Each request is attributed to at most one persistent client, chosen by
\* precedence ClientID, then exact IP, then the most specific containing CIDR,
\* then the MAC of the DHCP lease for the source address."  Stated here
\* declaratively, independently of the IF-chain in ClientsCore!Resolve.
Precedence ==
    \A q \in Lookups :
      LET cid == q[1]  a == q[2]
          r   == Resolve(clients, leases, cid, a)
          byCid == cid # NoId /\ cid \in IdsOf(clients)
          exact == IF <<"ip", a, 0>> \in IdsOf(clients) THEN <<"ip", a, 0>> ELSE <<"ip", Bits(a), 0>>
          byIP  == exact \in IdsOf(clients)
          nets  == {p \in IdsOf(clients) : Kind(p) = "net" /\ Contains(p, a)}
          mac   == LeaseOf(leases, a)
      IN
      /\ r = NoClient \/ r \in clients
      /\ byCid => cid \in r.ids
      /\ ~byCid /\ byIP => exact \in r.ids
      /\ ~byCid /\ ~byIP /\ nets # {} =>
            \E p \in nets : p \in r.ids /\ \A p2 \in nets : p2[3] <= p[3]
      /\ ~byCid /\ ~byIP /\ nets = {} /\ mac # NoId /\ mac \in IdsOf(clients) => mac \in r.ids
      /\ ~byCid /\ ~byIP /\ nets = {} /\ (mac = NoId \/ mac \notin IdsOf(clients)) => r = NoClient

\* "... that client's own ... settings are applied exactly when it opts out of
\* the global ones."
OwnSettingsOnlyWhenOptedOut ==
    \A q \in Lookups :
      LET e == Effective(clients, leases, Global, q[1], q[2])
          c == ByName(clients, e.who)
      IN /\ (e.vals = "own") <=> (e.who # "" /\ c.own)
         /\ (e.svcs = "own") <=> (e.who # "" /\ c.bs)
         /\ e.vals \in {"own", "global"} /\ e.svcs \in {"own", "global"}

\* "... every identifier resolves to the client that currently owns it, or to none."
ResolvesToOwnerOrNone ==
    \A id \in Ident : \A r \in FindSet(clients, leases, id) :
      \/ r = NoClient /\ (Kind(id) \in {"cid", "mac"} => id \notin IdsOf(clients))
      \/ r \in clients /\ (Kind(id) \in {"cid", "mac", "net"} => id \in r.ids)
                       /\ (Kind(id) = "ip" /\ id \in IdsOf(clients) => id \in r.ids)

\* The query log / statistics attribute a request to the client the filtering
\* attributes it to; the only licence is the zone the address has lost.
LooseFollowsPrecedence ==
    \A q \in Lookups :
      LET cid == q[1]  n == Bits(q[2])
          S == LooseSet(clients, leases, cid, n)
          twins == {c \in clients : \E id \in c.ids : Kind(id) = "ip" /\ Bits(id[2]) = n /\ Zone(id[2]) # 0}
      IN /\ S # {} /\ \A x \in S : x = NoClient \/ x \in clients
         /\ (twins = {} \/ <<"ip", n, 0>> \in IdsOf(clients) \/ (cid # NoId /\ cid \in IdsOf(clients)))
               => S = {Resolve(clients, leases, cid, n)}
         /\ Resolve(clients, leases, cid, n) \in S \/ S \subseteq twins

\* ---------------------------------------------------------------- universes
(***************************************************************************)
(* Addresses are 4-bit numbers (the Go harness embeds them as the top four *)
(* bits of the host part under a real /24 or /120).                        *)
(*   0xxx = <<"net",0,1>>  >  01xx = <<"net",4,2>>  >  010x = <<"net",4,3>>  *)
(*   00xx = <<"net",0,2>>  (same length as 01xx, disjoint from it)         *)
(* cid 9 / mac 9 are never owned by anybody (unknown ClientID / machine).  *)
(***************************************************************************)
F(own, bs) == <<own, bs>>
AllFlags == {F(FALSE, FALSE), F(FALSE, TRUE), F(TRUE, FALSE), F(TRUE, TRUE)}

\* Addresses, nested prefixes and prefix ties.
UNet == [
    w |-> 4, emit |-> TRUE, zoned |-> FALSE, maxids |-> 2,
    names |-> <<"n1", "n2", "n3">>,
    ids   |-> << <<"ip", 5, 0>>, <<"ip", 2, 0>>, <<"net", 0, 1>>, <<"net", 4, 2>>, <<"net", 4, 3>>, <<"net", 0, 2>> >>,
    flags |-> [n1 |-> {F(TRUE, TRUE)}, n2 |-> {F(TRUE, FALSE)}, n3 |-> {F(FALSE, FALSE)}],
    leaseaddrs |-> <<>>, leasemacs |-> {},
    addrs |-> <<5, 2, 4, 6, 1, 12>>,
    cids  |-> << NoId, <<"cid", 9, 0>> >> ]

\* Identifiers of every kind side by side (the DHCP fallback is in USet).
UKinds == [
    w |-> 4, emit |-> TRUE, zoned |-> FALSE, maxids |-> 2,
    names |-> <<"n1", "n2", "n3">>,
    ids   |-> << <<"cid", 1, 0>>, <<"cid", 2, 0>>, <<"ip", 5, 0>>, <<"net", 4, 2>>, <<"mac", 1, 0>>, <<"mac", 2, 0>> >>,
    flags |-> [n1 |-> {F(FALSE, TRUE)}, n2 |-> {F(TRUE, TRUE)}, n3 |-> {F(FALSE, FALSE)}],
    leaseaddrs |-> <<>>, leasemacs |-> {},
    addrs |-> <<5, 6, 12>>,
    cids  |-> << NoId, <<"cid", 1, 0>>, <<"cid", 2, 0>>, <<"cid", 9, 0>>,
                 <<"cidmac", 1, 0>>, <<"cidmacu", 2, 0>>, <<"cidip", 5, 0>> >> ]

\* Every combination of the two opt-out switches; DHCP leases for an address
\* that can also be an exact IP / lie in a prefix (5) and for one that cannot (12).
\* (mac 1 is unowned in many states: a lease to a machine nobody registered.)
USet == [
    w |-> 4, emit |-> TRUE, zoned |-> FALSE, maxids |-> 2,
    names |-> <<"n1", "n2">>,
    ids   |-> << <<"cid", 1, 0>>, <<"ip", 5, 0>>, <<"net", 4, 2>>, <<"mac", 1, 0>> >>,
    flags |-> [n1 |-> AllFlags, n2 |-> AllFlags],
    leaseaddrs |-> <<5, 12>>, leasemacs |-> {<<"mac", 1, 0>>},
    addrs |-> <<5, 6, 12>>,
    cids  |-> << NoId, <<"cid", 1, 0>>, <<"cid", 9, 0>>, <<"cidmac", 1, 0>>, <<"cidip", 5, 0>> >> ]

\* IPv6 zones (link-local addresses): 0101 without a zone (5), in zone 1 (21)
\* and in zone 2 (37) are three different exact-IP identifiers, all inside the
\* prefixes 01xx and 010x.  Lookups: each of them, 0101 in zone 3 (53: nobody's
\* exact address), and zoned addresses inside / outside the prefixes.
UZone == [
    w |-> 4, emit |-> TRUE, zoned |-> TRUE, maxids |-> 2,
    names |-> <<"n1", "n2", "n3">>,
    ids   |-> << <<"ip", 5, 0>>, <<"ip", 21, 0>>, <<"ip", 37, 0>>, <<"net", 4, 2>>, <<"net", 4, 3>> >>,
    flags |-> [n1 |-> {F(TRUE, FALSE)}, n2 |-> {F(FALSE, TRUE)}, n3 |-> {F(FALSE, FALSE)}],
    leaseaddrs |-> <<>>, leasemacs |-> {},
    addrs |-> <<5, 21, 37, 53, 22, 28>>,
    cids  |-> << NoId >> ]

\* The whole address space as one prefix (<<"net", 0, 0>>: the harness writes
\* it 0.0.0.0/0 or ::/0) next to a narrower one, a mac, and DHCP leases that
\* carry a registered mac, or a link-layer address of a length no registered
\* mac can have (<<"macx", 7, 0>>).
UMisc == [
    w |-> 4, emit |-> TRUE, zoned |-> FALSE, maxids |-> 2,
    names |-> <<"n1", "n2">>,
    ids   |-> << <<"ip", 5, 0>>, <<"net", 0, 0>>, <<"net", 4, 2>>, <<"mac", 1, 0>> >>,
    flags |-> [n1 |-> {F(TRUE, FALSE)}, n2 |-> {F(FALSE, TRUE)}],
    leaseaddrs |-> <<5, 12>>, leasemacs |-> {<<"mac", 1, 0>>, <<"macx", 7, 0>>},
    addrs |-> <<5, 6, 12>>,
    cids  |-> << NoId >> ]

\* Small universe for the coverage (vacuity) run: three identifiers per client.
UCov == [
    w |-> 4, emit |-> FALSE, zoned |-> FALSE, maxids |-> 3,
    names |-> <<"n1", "n2">>,
    ids   |-> << <<"cid", 1, 0>>, <<"ip", 5, 0>>, <<"net", 4, 2>>, <<"net", 4, 3>>, <<"mac", 1, 0>> >>,
    flags |-> [n1 |-> {F(TRUE, FALSE)}, n2 |-> {F(FALSE, TRUE)}],
    leaseaddrs |-> <<5>>, leasemacs |-> {<<"mac", 1, 0>>},
    addrs |-> <<5, 4, 6, 12>>,
    cids  |-> << NoId, <<"cid", 1, 0>> >> ]
=============================================================================
