---------------------------- MODULE QLogFileAlg ----------------------------
(***************************************************************************)
(* C20, algorithm level -- the byte arithmetic of internal/querylog/       *)
(* qlogfile.go, transcribed statement by statement (line numbers refer to  *)
(* that file at commit 64027df), so that TLC can check that it REFINES the  *)
(* abstract reader                                                         *)
(* QLogFile.tla wherever buffers and probe windows fall.                   *)
(*                                                                         *)
(* A file is given by the byte offsets of its newline characters           *)
(* (`ends`, strictly increasing; line i occupies LineStart(i)..ends[i]-1   *)
(* and is terminated by the '\n' at ends[i]) and the timestamps of its     *)
(* lines (`tss`).  Every line ends in '\n' -- that is how                  *)
(* querylogfile.go writes them.  Size == ends[n] + 1.                      *)
(*                                                                         *)
(* State of a qLogFile (qlogfile.go:41-59):                                *)
(*   position     q.position  -- offset of the '\n' that terminates the    *)
(*                               next line to return; 0 = nothing left     *)
(*   bufferStart  q.bufferStart                                            *)
(*   bufNil       q.buffer == nil                                          *)
(* q.buffer itself is not state: the file does not change, so the buffer   *)
(* holds bytes bufferStart .. bufferStart+BufSize-1 of the file.           *)
(*                                                                         *)
(* seekTS is a loop; each iteration (one readProbeLine + the decisions     *)
(* after it) is one step `Probe`, with the loop's locals as variables      *)
(* (sStart, sEnd, sProbe, sLast, sDepth; sTarget is the argument).  While  *)
(* the loop runs (pc = "probe") nothing visible to the abstract level      *)
(* changes -- those steps are stuttering steps of QLogFile.                *)
(*                                                                         *)
(* Constants: MaxEntry = maxEntrySize (16384), BufSize = bufferSize        *)
(* (100 * MaxEntry), DepthLimit = 100.  For the exhaustive check they are  *)
(* scaled down (4 / 12); for trace validation they have the real values.   *)
(***************************************************************************)
EXTENDS Integers, Sequences, FiniteSets, TLC

CONSTANTS MaxEntry, BufSize, DepthLimit,
          EmptyGuard        \* TRUE: the code as it is (seekTS:130-135); FALSE: the
                            \* code before commit ecfd163, kept as a negative control

VARIABLES
    ends, tss,                          \* the file (never changes after Open)
    position, bufferStart, bufNil,      \* the qLogFile
    pc,                                 \* "idle" | "probe" (inside the loop of seekTS)
    sTarget, sStart, sEnd, sProbe, sLast, sDepth,   \* locals of seekTS
    seeked,                             \* has any seek succeeded (for the refinement mapping)
    out                                 \* reply of the last completed call

fileVars   == <<ends, tss>>
searchVars == <<sTarget, sStart, sEnd, sProbe, sLast, sDepth>>
avars == <<ends, tss, position, bufferStart, bufNil, pc, sTarget, sStart, sEnd, sProbe, sLast,
           sDepth, seeked, out>>

\* ----------------------------------------------------------- file geometry
NLines == Len(ends)
Size == IF NLines = 0 THEN 0 ELSE ends[NLines] + 1
LineStart(i) == IF i = 1 THEN 0 ELSE ends[i - 1] + 1

\* NLBelow(p): number of newline characters at offsets < p (bisection; `ends`
\* has 10^4 elements in trace mode).  NLBelowDef is what it means.
NLBelowDef(p) == Cardinality({i \in 1..NLines : ends[i] < p})
RECURSIVE NLBisect(_, _, _)
NLBisect(p, lo, hi) ==      \* ends[lo] < p (or lo = 0), ends[hi] >= p (or hi = NLines + 1)
    IF hi - lo <= 1 THEN lo
    ELSE LET mid == (lo + hi) \div 2
         IN IF ends[mid] < p THEN NLBisect(p, mid, hi) ELSE NLBisect(p, lo, mid)
NLBelow(p) == NLBisect(p, 0, NLines + 1)

\* "for i := from - 1; i >= lo; i-- { if buf[i] == '\n' ..." -- the offset of
\* the last newline in lo..from-1, or -1.
LastNLIn(lo, from) ==
    LET k == NLBelow(from) IN IF k >= 1 /\ ends[k] >= lo THEN ends[k] ELSE -1
\* "for i := from; i < hi; i++ { if buf[i] == '\n' ..." -- the offset of the
\* first newline in from..hi-1, or -1.
FirstNLIn(from, hi) ==
    LET k == NLBelow(from) IN IF k < NLines /\ ends[k + 1] < hi THEN ends[k + 1] ELSE -1

\* The byte range a..b-1 is exactly line i (0 if it is not exactly a line).
WholeLine(a, b) ==
    LET k == NLBelow(b) + 1 IN
    IF k <= NLines /\ ends[k] = b /\ LineStart(k) = a THEN k ELSE 0

Min(a, b) == IF a < b THEN a ELSE b

\* ---------------------------------------------------- readNextLine:280-304
\* Result of readNextLine(position) together with the buffer start it leaves:
\* [bs, lineIdx, line] where line is the index of the returned line, or 0 if
\* the returned string is not exactly one stored line (a fragment).
\* (parameterised by the buffer state so that AlignmentClasses below can walk
\* a whole backward read as a function of the file alone)
ReadNextLineIn(pos, bn, b0) ==
    LET rel0   == pos - b0
        reinit == bn \/ (rel0 < MaxEntry /\ b0 # 0)                             \* :282
        bs     == IF reinit THEN (IF pos > BufSize THEN pos - BufSize ELSE 0)   \* initBuffer:309-312
                  ELSE b0
        \* the buffer holds bytes bs .. Min(bs + BufSize, Size) - 1
        nl     == LastNLIn(bs, pos)                                             \* :293-298
        lineIdx == IF nl = -1 THEN bs ELSE nl + 1                               \* :292, :301
    IN [bs |-> bs, lineIdx |-> lineIdx, line |-> WholeLine(lineIdx, pos)]
ReadNextLine(pos) == ReadNextLineIn(pos, bufNil, bufferStart)

\* ---------------------------------------------------- readProbeLine:332-378
\* [ioerr, lineIdx, lineEnd (exclusive end of the returned string),
\*  lineEndIdx (what seekTS continues from)]
ReadProbeLine(p) ==
    LET seekPos == IF p > MaxEntry THEN p - MaxEntry ELSE 0                     \* :335-341
        winEnd  == Min(seekPos + 2 * MaxEntry, Size)                            \* :350-351 (bufferLen)
        nl      == LastNLIn(seekPos, p)                                         \* :358-364
        lineIdx == IF nl = -1 THEN seekPos ELSE nl + 1                          \* :377
        nr      == FirstNLIn(p, winEnd)                                         \* :368-374
        lineEnd == IF nr = -1 THEN winEnd ELSE nr                               \* :366, :370
        lineEndIdx == IF nr = -1 THEN winEnd ELSE nr + 1                        \* :367, :371
    IN [ioerr |-> (winEnd - seekPos <= 0),      \* Read at or past EOF returns io.EOF (:352)
        lineIdx |-> lineIdx, lineEnd |-> lineEnd, lineEndIdx |-> lineEndIdx]

\* readQLogTimestamp:425-445 on the bytes a..b-1.  A whole line yields its
\* timestamp -- WHEREVER the "T" property sits in the record and however the
\* time is spelled (QLogFile!Layouts: after a client address of any length,
\* after long properties, last; UTC or a numeric zone, with or without
\* nanoseconds): the function searches the whole string.  A fragment yields 0
\* ("couldn't find timestamp") -- see the note on fragments at the end.
TimestampOf(a, b) == LET k == WholeLine(a, b) IN IF k = 0 THEN 0 ELSE tss[k]

\* ------------------------------------------------------------------ replies
Reply(op, arg, res, line) == [op |-> op, arg |-> arg, res |-> res, line |-> line]
NoReply == Reply("none", 0, "ok", 0)

\* ------------------------------------------------------------------ actions
\* The file (ends, tss) is a parameter of a behaviour: no action mentions
\* ends' or tss'; the enclosing module (QLogFileAlgMC, TraceQLogFileAlg) says
\* how it is chosen and keeps it fixed.
\* SeekStart:217-237
SeekStart ==
    /\ pc = "idle"
    /\ bufNil' = TRUE                                                           \* :222
    /\ position' = IF Size - 1 < 0 THEN 0 ELSE Size - 1                         \* :231-234
    /\ seeked' = TRUE
    /\ out' = Reply("start", 0, "ok", 0)
    /\ UNCHANGED <<bufferStart, pc, searchVars>>

\* ReadNext:243-265
ReadNext ==
    /\ pc = "idle" /\ seeked
    /\ IF position = 0                                                          \* :247
         THEN /\ out' = Reply("read", 0, "eof", 0)
              /\ UNCHANGED <<position, bufferStart, bufNil>>
         ELSE \E r \in {ReadNextLine(position)} :     \* (a LET, evaluated once: see Probe)
              /\ bufferStart' = r.bs
              /\ bufNil' = FALSE
              /\ position' = IF r.lineIdx = 0 THEN 0 ELSE r.lineIdx - 1         \* :257-263
              /\ out' = IF r.line = 0 THEN Reply("read", 0, "fragment", 0)
                        ELSE Reply("read", 0, "ok", r.line)
    /\ UNCHANGED <<pc, searchVars, seeked>>

\* seekTS:107-147, up to the first iteration of the loop.  A file of 0 bytes
\* has nothing to probe: the guard at :130-135 returns errTSTooEarly (depth 0,
\* position untouched, buffer already dropped) -- the class that lets
\* qLogReader go on to the older file (QLogFileProps!EmptyAsTooEarlyComposes).
\* Without the guard (EmptyGuard = FALSE, the code before ecfd163) the loop
\* is entered and its first Read fails: see the io-error branch of Probe.
SeekTSBegin(t) ==
    /\ pc = "idle"
    /\ bufNil' = TRUE                                                           \* :116
    /\ sTarget' = t
    /\ sDepth' = 0
    /\ IF EmptyGuard /\ Size = 0                                                \* :130-135
         THEN /\ pc' = "idle"
              /\ out' = Reply("seek", t, "tooEarly", 0)
              /\ UNCHANGED <<position, bufferStart, seeked, sStart, sEnd, sProbe, sLast>>
         ELSE /\ sStart' = 0 /\ sEnd' = Size /\ sProbe' = Size \div 2           \* :127-137
              /\ sLast' = -1                                                    \* :145
              /\ pc' = "probe"
              /\ UNCHANGED <<position, bufferStart, seeked, out>>

\* How a seek returns: with an error (position untouched) ...
SeekFails(e) ==
    /\ pc' = "idle"
    /\ UNCHANGED seeked          \* only a seek that succeeds positions the reader
    /\ out' = Reply("seek", sTarget, e, 0)
    /\ UNCHANGED <<position, searchVars>>
\* ... or with the position set (:207).
SeekLands(p) ==
    /\ pc' = "idle"
    /\ seeked' = TRUE
    /\ position' = p
    /\ out' = Reply("seek", sTarget, "ok", 0)
    /\ UNCHANGED searchVars

\* One iteration of the loop seekTS:149-205.
Probe ==
    /\ pc = "probe"
    /\ UNCHANGED <<bufferStart, bufNil>>
    \* "LET r == .. ts == .. IN", written as quantification over singletons: TLC
    \* re-evaluates a LET definition at every use inside an action, and r is
    \* used a dozen times (measured: 3x faster trace validation).
    /\ \E r \in {ReadProbeLine(sProbe)} :                                        \* :151
       \E ts \in {TimestampOf(r.lineIdx, r.lineEnd)} :                          \* :166
       \* :152-154.  readProbeLine's Read returns io.EOF only on a file of 0
       \* bytes, which the guard in SeekTSBegin keeps out of the loop; reachable
       \* only with EmptyGuard = FALSE, where seekTS passes the io.EOF on -- an
       \* error that is none of the three classes (finding C20:empty-file-seek-
       \* eof, fixed by ecfd163; QLogFileAlgMC.noguard.cfg must violate Refines).
       IF r.ioerr THEN SeekFails("ioerr")
       \* validateQLogLineIdx:73-89
       ELSE IF r.lineIdx = sLast /\ r.lineIdx = 0 THEN SeekFails("tooEarly")
       ELSE IF r.lineIdx = sLast THEN SeekFails("notFound")
       ELSE IF r.lineIdx = Size THEN SeekFails("tooLate")
       ELSE IF ts = 0 THEN SeekFails("nots")                                    \* :167-174
       ELSE IF ts = sTarget THEN SeekLands(r.lineEnd)                           \* :176-179, :207
       ELSE LET start2 == IF ts > sTarget THEN sStart ELSE r.lineEndIdx         \* :182-192
                end2   == IF ts > sTarget THEN r.lineIdx ELSE sEnd
            IN IF sDepth + 1 >= DepthLimit                                      \* :195-204
               THEN /\ pc' = "idle" /\ UNCHANGED seeked                        \* returns the
                    /\ out' = Reply("seek", sTarget, "notFound", 0)            \* incremented depth
                    /\ sDepth' = sDepth + 1
                    /\ UNCHANGED <<position, sTarget, sStart, sEnd, sProbe, sLast>>
               ELSE /\ sStart' = start2 /\ sEnd' = end2
                    /\ sProbe' = start2 + (end2 - start2) \div 2                \* :193
                    /\ sLast' = r.lineIdx                                       \* :163
                    /\ sDepth' = sDepth + 1
                    /\ UNCHANGED <<pc, sTarget, position, seeked, out>>

\* The targets that matter for a file whose line i has timestamp tss[i].
Targets == IF NLines = 0 THEN {1} ELSE (tss[1] - 1)..(tss[NLines] + 1)

Next == SeekStart \/ ReadNext \/ (\E t \in Targets : SeekTSBegin(t)) \/ Probe

\* State right after newQLogFile (qlogfile.go:62-69): everything zero.
Opened == /\ position = 0 /\ bufferStart = 0 /\ bufNil = TRUE
          /\ pc = "idle" /\ seeked = FALSE /\ out = NoReply
          /\ sTarget = 0 /\ sStart = 0 /\ sEnd = 0 /\ sProbe = 0 /\ sLast = -1 /\ sDepth = 0

\* ------------------------------------------------------ alignment classes
(***************************************************************************)
(* "... wherever internal read buffers fall": the ways in which a buffer   *)
(* start or a probe-window edge can lie relative to the line being         *)
(* extracted, in scale-free terms (every component is defined through      *)
(* MaxEntry / BufSize, so a class of the scaled universe names a class of  *)
(* real files).  QLogFileAlgMC emits, per scaled file, the classes its     *)
(* reads and probes fall into; the union over the exhaustive universe is   *)
(* the list the orchestrator must realise with real-size files (it solves  *)
(* for the padding) and find again, class by class, in the positions the   *)
(* real code logged.                                                       *)
(*                                                                         *)
(* Class of one ReadNext at position pos with buffer state (bn, b0):       *)
(*   kind  "nil" buffer absent (first read after a seek) | "reinit" | "keep"*)
(*   trig  reinit only: how far pos was from the old buffer start:         *)
(*         "0" on it, "1", "more"                                          *)
(*   ol    reinit only: where the line STARTS relative to the old buffer   *)
(*         start -- "<-1", "-1" (its first byte is the one byte that the   *)
(*         old buffer lacks), "0" (it starts with the buffer, the newline  *)
(*         before it is just outside), "1" (that newline is the buffer's   *)
(*         first byte), ">1".  This is the component that tells whether    *)
(*         the old buffer would still have held the line: the re-init rule *)
(*         is exactly at its limit for a line of MaxEntry-1 bytes that     *)
(*         ends MaxEntry-2 ("-1") or MaxEntry-1 ("0") bytes into the old   *)
(*         buffer.                                                         *)
(*   rel   keep only: pos - bufferStart is "=" MaxEntry (the least that    *)
(*         avoids a re-init) or ">"                                        *)
(*   len   returned line: "max" = MaxEntry-1, "sub" = MaxEntry-2, "small"  *)
(*   lf    where the newline BEFORE the line lies in the buffer: index     *)
(*         "0", "1", "2+"; with the buffer at the file start: "bof" (the   *)
(*         line is the first of the file) or "in"                          *)
(*   on    what the buffer's first byte is: "zero" (file start), "lf", the *)
(*         "last" byte of a line, the "first" byte, or "inside" one        *)
(***************************************************************************)
IsLF(o) == o >= 0 /\ NLBelow(o + 1) > NLBelow(o)
LenClass(l) == IF l = MaxEntry - 1 THEN "max" ELSE IF l = MaxEntry - 2 THEN "sub" ELSE "small"
OffClass(d) == IF d = 0 THEN "0" ELSE IF d = 1 THEN "1" ELSE "2+"
OlClass(d) == IF d < -1 THEN "<-1" ELSE IF d = -1 THEN "-1" ELSE IF d = 0 THEN "0" ELSE IF d = 1 THEN "1" ELSE ">1"
OnClass(b) == IF b = 0 THEN "zero" ELSE IF IsLF(b) THEN "lf" ELSE IF IsLF(b + 1) THEN "last"
              ELSE IF IsLF(b - 1) THEN "first" ELSE "inside"

ReadClass(pos, bn, b0) ==
    LET r    == ReadNextLineIn(pos, bn, b0)
        kind == IF bn THEN "nil" ELSE IF pos - b0 < MaxEntry /\ b0 # 0 THEN "reinit" ELSE "keep"
        t0   == pos - b0
    IN [kind |-> kind,
        trig |-> IF kind # "reinit" THEN "-"
                 ELSE IF t0 = 0 THEN "0" ELSE IF t0 = 1 THEN "1" ELSE "more",
        ol   |-> IF kind # "reinit" THEN "-" ELSE OlClass(r.lineIdx - b0),
        rel  |-> IF kind # "keep" \/ r.bs = 0 THEN "-" ELSE IF pos - r.bs = MaxEntry THEN "=" ELSE ">",
        len  |-> LenClass(pos - r.lineIdx),
        lf   |-> IF r.bs = 0 THEN (IF r.lineIdx = 0 THEN "bof" ELSE "in") ELSE OffClass(r.lineIdx - 1 - r.bs),
        on   |-> OnClass(r.bs)]

\* The classes of the reads from position pos down to the file start.
RECURSIVE ReadWalk(_, _, _)
ReadWalk(pos, bn, b0) ==
    IF pos = 0 THEN {}
    ELSE LET r == ReadNextLineIn(pos, bn, b0)
         IN {ReadClass(pos, bn, b0)} \cup ReadWalk(IF r.lineIdx = 0 THEN 0 ELSE r.lineIdx - 1, FALSE, r.bs)

\* Backward reads begin at the last newline (SeekStart) or at the newline of
\* any line (after seekTS), always with the buffer absent.
ReadClasses == UNION {ReadWalk(ends[i], TRUE, 0) : i \in 1..NLines}

(***************************************************************************)
(* Class of one readProbeLine(p):                                          *)
(*   z     the window starts at the file start                             *)
(*   clip  the window is cut short by the end of the file                  *)
(*   len   the probe line ("eof" for the empty string found at p = Size)   *)
(*   dl    distance of the newline before the line from the window's first *)
(*         byte: "0", "1", "2+", or "bof" (no newline: first line)         *)
(*   dr    distance of the line's own newline from the window's last byte  *)
(***************************************************************************)
ProbeClass(p) ==
    LET r       == ReadProbeLine(p)
        seekPos == IF p > MaxEntry THEN p - MaxEntry ELSE 0
        winEnd  == Min(seekPos + 2 * MaxEntry, Size)
    IN [z    |-> seekPos = 0,
        clip |-> winEnd < seekPos + 2 * MaxEntry,
        len  |-> IF r.lineIdx = Size THEN "eof" ELSE LenClass(r.lineEnd - r.lineIdx),
        dl   |-> IF r.lineIdx = 0 THEN "bof" ELSE OffClass(r.lineIdx - 1 - seekPos),
        dr   |-> IF r.lineIdx = Size THEN "-" ELSE OffClass(winEnd - 1 - r.lineEnd)]

\* The probes of seekTS(t), by the same decisions as Probe (the premise of
\* the statement holds in the enumerated universe, so every probe line is a
\* whole line; the walk stops where Probe returns).
RECURSIVE ProbeWalk(_, _, _, _, _, _)
ProbeWalk(t, start, end, p, last, depth) ==
    LET r  == ReadProbeLine(p)
        ts == TimestampOf(r.lineIdx, r.lineEnd)
    IN {ProbeClass(p)} \cup
       (IF r.ioerr \/ r.lineIdx = last \/ r.lineIdx = Size \/ ts = 0 \/ ts = t \/ depth + 1 >= DepthLimit
          THEN {}
          ELSE LET s2 == IF ts > t THEN start ELSE r.lineEndIdx
                   e2 == IF ts > t THEN r.lineIdx ELSE end
               IN ProbeWalk(t, s2, e2, s2 + (e2 - s2) \div 2, r.lineIdx, depth + 1))

ProbeClasses == IF Size = 0 THEN {} ELSE UNION {ProbeWalk(t, 0, Size, Size \div 2, -1, 0) : t \in Targets}

\* ------------------------------------------------- refinement of QLogFile
(***************************************************************************)
(* Abstract cursor: the number of lines whose terminating newline is at or *)
(* before `position` -- for a position that sits on the newline of line c  *)
(* that is c, and for position 0 it is 0.  PositionOnLine says the         *)
(* position never is anywhere else.                                        *)
(***************************************************************************)
AbsLines == [i \in 1..NLines |-> [ts |-> tss[i], len |-> ends[i] - LineStart(i)]]
AbsCur   == IF ~seeked THEN -1 ELSE NLBelow(position + 1)

Abs == INSTANCE QLogFile WITH files <- <<AbsLines>>, level <- "file", cur <- AbsCur, out <- out

\* The statement's premise: every line is shorter than the entry limit, and
\* no line is empty (a log line contains at least its timestamp).
LinesWithinLimit == \A i \in 1..NLines : ends[i] - LineStart(i) \in 1..(MaxEntry - 1)

\* ------------------------------------------------------------- invariants
PositionOnLine == position = 0 \/ \E i \in 1..NLines : ends[i] = position
\* While reading, the line about to be returned lies inside the buffer.
BufferCovers ==
    pc = "idle" /\ ~bufNil =>
        /\ bufferStart <= position /\ position - bufferStart <= BufSize
        /\ (bufferStart # 0 => position = 0 \/ position - bufferStart >= 0)
\* The search interval is well-formed and brackets the target.
SearchInterval ==
    pc = "probe" =>
        /\ 0 <= sStart /\ sStart <= sEnd /\ sEnd <= Size
        /\ sStart <= sProbe /\ sProbe <= sEnd
        /\ (sStart = 0 \/ \E i \in 1..NLines : ends[i] + 1 = sStart /\ tss[i] < sTarget)
        /\ (sEnd = Size \/ \E i \in 1..NLines : LineStart(i) = sEnd /\ tss[i] > sTarget)
\* "without ever looping": each Probe step either returns or increases
\* sDepth, and sDepth stays below a bound logarithmic in the file size, far
\* from the DepthLimit guard -- so that guard never produces a spurious
\* notFound.  DepthBound is set per configuration.
Log2Ceil(n) == CHOOSE k \in 0..31 : 2^k >= n /\ (k = 0 \/ 2^(k - 1) < n)
DepthBounded == pc = "probe" => sDepth <= Log2Ceil(Size + 1) + 1
\* (depends on the file only: evaluated once per file, before the first seek)
NLBelowAgrees == ~seeked /\ pc = "idle" => \A p \in 0..(Size + 1) : NLBelow(p) = NLBelowDef(p)
NeverFragment == out.res \notin {"fragment", "nots"}

(***************************************************************************)
(* Note on fragments.  If a line were as long as MaxEntry or longer, the   *)
(* backward scans above could run out of buffer and return a string that   *)
(* starts in the middle of a line.  The statement excludes such files.     *)
(* This module still gives those cases a definite meaning (the reply       *)
(* "fragment", the timestamp 0) so that the negative configuration         *)
(* QLogFileAlg.neg.cfg -- lines of length MaxEntry allowed -- produces a   *)
(* refinement violation: a check that the refinement check can fail.       *)
(***************************************************************************)
=============================================================================
