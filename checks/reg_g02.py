PROPERTY = "G02"
ENTRY = {
        "text": "DnsRewriteCore.tla states what $dnsrewrite rules (all documented forms, combination, exception rules, $important/$dnstype/$client/$denyallow), "
                "the system hosts file (A/AAAA/PTR, hosts_file_enabled) and their precedence among legacy rewrites and ordinary rules answer, as a decision procedure "
                "Outcomes(cfg, request) (set of admissible outcomes; nondeterministic only where the documentation is silent) and the client/upstream view Serve. "
                "DnsRewrite.tla enumerates four families of configurations (rule combinations <= 3 of 55, modifier pairs of 224, precedence product, hosts files <= 3 lines of 16) "
                "and a reconfiguration machine; TLC checks the clauses of the statement as invariants. Every configuration is replayed into the real filtering.DNSFilter on live, "
                "reconfigured filters, a sample through the real dnsforward.Server over UDP with a recording mock upstream; random larger configurations are validated by TraceDnsRewrite.tla.",
        "design_ref": "DESIGN.md section 5 item 2; notes/G02.md",
        "note": "Trusted: TLC, conc()/abs() of the harness, RuleEngine.tla and RewritesCore.tla (reused, not edited). "
                "Open finding G02:exception-after-exception-becomes-rewrite.",
        "technique": "TLA+ spec enumerated and model-checked by TLC (invariants); exhaustive vector replay into real code + TLC trace validation",
    }
