SPECIFICATION Spec
CONSTANT DoEmit = FALSE
INVARIANTS TypeOK DiskAgrees RestartPreserves EnabledHasPair AlwaysServesDNS ServingMatches DisabledNotServing ReadOnly RejectedChangesNothing AppliedOnlyIfValid SameVerdict DisableKeepsMaterial
