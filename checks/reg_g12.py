PROPERTY = "G12"
ENTRY = {
        "text": "Unbounded safety of three small specifications by inductive invariants (additional evidence on the design level; the deciding checks of C04, C10, C12 "
                "stay TLC + conformance). specs/ind/ClientsInd.tla, Dhcp4Ind.tla, RateLimitInd.tla re-state the actions of Clients.tla, Dhcp4.tla, RateLimit.tla with type "
                "annotations over unbounded constants (Dhcp4Ind / RateLimitInd are generated from the text of the originals and checked to be current on every run). For each: "
                "an inductive invariant IndInv; Apalache 0.58.0 discharges Init => IndInv, IndInv /\\ Next => IndInv' (arbitrary IndInv states, --length=1), IndInv => Safety "
                "and the action invariants, plus a negative control (a one-line mutation for which a counterexample to inductiveness must be found); TLC checks the "
                "correspondence with the original module over the original's own universes (Orig!Spec => Ind!Spec and back, equal state counts; for Dhcp4 also equality of "
                "every outcome set in every reachable state of Dhcp4.mc.cfg); thorough adds the TLAPS proofs ClientsProof.tla (228 obligations), Dhcp4Proof.tla (536), "
                "RateLimitProof.tla (166) -- arbitrary, also infinite, constant sets --, larger Apalache bounds and bounded checks from Init. Proved: registry -- no two clients "
                "share a name or an identifier, identifiers / names / leased MACs resolve to their unique owner or to none, a rejected operation changes nothing; DHCPv4 -- one "
                "lease per address and per client, dynamic leases inside the pool, never the gateway, host names unique, disk = memory, a reservation is never offered or "
                "acknowledged to another client and only administrative steps change the reservations; login throttling -- nobody is rejected before N failures since the last "
                "success, the (N+1)-th failure of an instant is never evaluated, and the five step properties, for any set of peer addresses and an unbounded clock. The "
                "statistics module (C09) is NOT covered: its candidate invariant is kept (thorough re-checks it on the reachable states) but its inductive step is beyond "
                "Apalache (bag folds); RateLimit was taken instead.",
        "design_ref": "DESIGN.md section 5 (last paragraph); notes/G12.md",
        "note": "Trusted: Apalache + Z3 (bounded: sets of at most Gen(n) arbitrary elements), TLC, TLAPS back ends (zenon, Isabelle, Z3), and for universes TLC does not enumerate "
                "the argument that the Ind module is the same transition relation (textual identity for Dhcp4 / Stats). Nothing here exercises /repo. Not proved: address "
                "precedence and settings (Clients), statistics conservation (Stats, C09), liveness.",
        "technique": "inductive invariants over unbounded constants: Apalache (symbolic, length-1 from arbitrary invariant states) + TLAPS proofs; TLC refinement checks tie the typed re-statements to the modules TLC and the harnesses use",
        "level": "model_checking",
    }
