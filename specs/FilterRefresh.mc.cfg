SPECIFICATION Spec
CONSTANTS BlockLists = {"b1"}
          AllowLists = {"a1"}
          AsIsC = FALSE
          CosmC = FALSE
          Configs <- ConfMixed
          ForcedBeh <- BehFull
          SchedBeh <- BehSched
          FileBeh <- BehFile
          SetURLBeh <- BehNone
          Toggle = FALSE
          SetURLAsIs = FALSE
INVARIANTS InvCoherent
