SPECIFICATION Spec
CONSTANTS
  TTL = 3
  WithClient = FALSE
  MCQtypes = {"A", "AAAA", "TXT"}
INVARIANTS TypeOK OnlyListedEnabled ListedEnabledAlways ClientPrecedence MemoryCurrent
