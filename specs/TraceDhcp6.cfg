SPECIFICATION Spec
