package dnsforward

// G11 conformance harness: upstream configuration (POST /control/dns_config,
// GET /control/dns_info), upstream selection for a question, fallback use,
// and private reverse lookups.
//
// A rig is one real Server (NewServer + Prepare + Start, plain DNS over UDP/TCP
// on a loopback address of its own) surrounded by four recording mock
// upstreams that listen on real UDP+TCP sockets.  Configuration changes go
// through the real handleSetConfig, questions travel over real UDP sockets
// whose source address decides the client's locality (dns.private_networks is
// set so that a part of 127/8 is "outside").

import (
	"bytes"
	"encoding/json"
	"fmt"
	"math/rand"
	"net"
	"net/http"
	"net/http/httptest"
	"net/netip"
	"os"
	"sort"
	"strings"
	"sync"
	"testing"
	"testing/fstest"
	"time"

	"github.com/AdguardTeam/AdGuardHome/internal/aghnet"
	"github.com/AdguardTeam/AdGuardHome/internal/aghtest"
	"github.com/AdguardTeam/AdGuardHome/internal/filtering"
	"github.com/AdguardTeam/golibs/logutil/slogutil"
	"github.com/AdguardTeam/golibs/netutil"
	"github.com/miekg/dns"
)

// ------------------------------------------------------------------ doubles

// zzG11Rcv is one question a mock upstream received.
type zzG11Rcv struct {
	id   uint16
	name string
	qt   uint16
	net  string
}

// zzG11Mock is a recording upstream DNS server on a real UDP and a real TCP
// socket (same port).  While it is "down" it still records what it receives
// but fails the exchange at once: over UDP it answers with a message without a
// question section (the plain upstream then retries over TCP), over TCP it
// closes the connection without answering.
type zzG11Mock struct {
	idx  int
	addr netip.AddrPort
	udp  *dns.Server
	tcp  *dns.Server

	mu   sync.Mutex
	down bool
	log  []zzG11Rcv
}

func (m *zzG11Mock) setDown(down bool) {
	m.mu.Lock()
	defer m.mu.Unlock()

	m.down = down
}

func (m *zzG11Mock) take() (log []zzG11Rcv) {
	m.mu.Lock()
	defer m.mu.Unlock()

	log, m.log = m.log, nil

	return log
}

// zzG11MockA is the address mock number idx answers A questions with.
func zzG11MockA(idx int) (ip net.IP) { return net.IP{10, 9, 0, byte(idx)} }

// zzG11MockPTR is the name mock number idx answers PTR questions with.
func zzG11MockPTR(idx int) (name string) { return fmt.Sprintf("mock-u%d.zz.", idx) }

func (m *zzG11Mock) ServeDNS(w dns.ResponseWriter, req *dns.Msg) {
	network := "udp"
	if _, ok := w.RemoteAddr().(*net.TCPAddr); ok {
		network = "tcp"
	}

	m.mu.Lock()
	down := m.down
	if len(req.Question) == 1 {
		q := req.Question[0]
		m.log = append(m.log, zzG11Rcv{id: req.Id, name: q.Name, qt: q.Qtype, net: network})
	}
	m.mu.Unlock()

	if down {
		if network == "tcp" {
			_ = w.Close()

			return
		}

		bad := &dns.Msg{}
		bad.Id = req.Id
		bad.Response = true
		_ = w.WriteMsg(bad)

		return
	}

	resp := (&dns.Msg{}).SetReply(req)
	resp.RecursionAvailable = true
	if len(req.Question) == 1 {
		q := req.Question[0]
		hdr := dns.RR_Header{Name: q.Name, Rrtype: q.Qtype, Class: dns.ClassINET, Ttl: 60}
		switch {
		case q.Name == "test.":
			// The name test_upstream_dns asks for: a working upstream knows
			// nothing about it.
		case q.Qtype == dns.TypeA:
			resp.Answer = append(resp.Answer, &dns.A{Hdr: hdr, A: zzG11MockA(m.idx)})
		case q.Qtype == dns.TypePTR:
			resp.Answer = append(resp.Answer, &dns.PTR{Hdr: hdr, Ptr: zzG11MockPTR(m.idx)})
		}
	}

	_ = w.WriteMsg(resp)
}

func (m *zzG11Mock) close() {
	if m.udp != nil {
		_ = m.udp.Shutdown()
	}
	if m.tcp != nil {
		_ = m.tcp.Shutdown()
	}
}

// zzG11NewMock starts a mock on ip, on a port that is free for UDP and TCP.
func zzG11NewMock(ip netip.Addr, idx int) (m *zzG11Mock, err error) {
	for attempt := 0; attempt < 50; attempt++ {
		var pc net.PacketConn
		pc, err = net.ListenPacket("udp", netip.AddrPortFrom(ip, 0).String())
		if err != nil {
			return nil, fmt.Errorf("mock udp: %w", err)
		}

		ap := pc.LocalAddr().(*net.UDPAddr).AddrPort()
		var l net.Listener
		l, err = net.Listen("tcp", ap.String())
		if err != nil {
			_ = pc.Close()

			continue
		}

		m = &zzG11Mock{idx: idx, addr: ap}
		udpStarted, tcpStarted := make(chan struct{}), make(chan struct{})
		m.udp = &dns.Server{PacketConn: pc, Handler: m, NotifyStartedFunc: func() { close(udpStarted) }}
		m.tcp = &dns.Server{Listener: l, Handler: m, NotifyStartedFunc: func() { close(tcpStarted) }}
		go func() { _ = m.udp.ActivateAndServe() }()
		go func() { _ = m.tcp.ActivateAndServe() }()
		<-udpStarted
		<-tcpStarted

		return m, nil
	}

	return nil, fmt.Errorf("mock: no port free for udp and tcp: %w", err)
}

// zzG11DHCP is the lease table: one lease, DHCP switched on.
type zzG11DHCP struct {
	host string
	ip   netip.Addr
}

func (d *zzG11DHCP) HostByIP(ip netip.Addr) (host string) {
	if ip == d.ip {
		return d.host
	}

	return ""
}

func (d *zzG11DHCP) IPByHost(host string) (ip netip.Addr) {
	if host == d.host {
		return d.ip
	}

	return netip.Addr{}
}

func (d *zzG11DHCP) Enabled() (ok bool) { return true }

// zzG11SysRes is the list of the operating system's resolvers.
type zzG11SysRes struct {
	mu    sync.Mutex
	addrs []netip.AddrPort
}

func (r *zzG11SysRes) Addrs() (addrs []netip.AddrPort) {
	r.mu.Lock()
	defer r.mu.Unlock()

	return append([]netip.AddrPort{}, r.addrs...)
}

// ---------------------------------------------------------------------- rig

const (
	zzG11Mocks      = 4
	zzG11LocalDom   = "lan"
	zzG11LeaseHost  = "leasebox"
	zzG11HostsHost  = "hostsbox"
	zzG11UpsTimeout = 4 * time.Second
)

var (
	// zzG11PrivNets is dns.private_networks of every rig: the usual private
	// ranges and the lower half of the loopback network.  127.200.0.0/16 is
	// therefore a network of outside clients that can still reach the rig.
	zzG11PrivNets = []netip.Prefix{
		netip.MustParsePrefix("10.0.0.0/8"),
		netip.MustParsePrefix("192.168.0.0/16"),
		netip.MustParsePrefix("127.0.0.0/9"),
	}

	zzG11LeaseIP  = netip.MustParseAddr("192.168.11.5")
	zzG11HostsIP  = netip.MustParseAddr("192.168.11.9")
	zzG11UnkIP    = netip.MustParseAddr("192.168.11.77")
	zzG11PublicIP = netip.MustParseAddr("8.8.4.4")
	zzG11LocalCli = netip.MustParseAddr("127.0.7.1")
	zzG11ExtCli   = netip.MustParseAddr("127.200.0.1")
)

type zzG11Rig struct {
	ip    netip.Addr
	port  uint16
	srv   *Server
	flt   *filtering.DNSFilter
	mocks [zzG11Mocks + 1]*zzG11Mock // 1-based
	sys   *zzG11SysRes
	mode  UpstreamMode
	nid   uint16
	saved int
}

// zzG11FreePort finds a port on ip that is free for UDP and TCP right now.
func zzG11FreePort(ip netip.Addr, rng *rand.Rand) (port uint16, err error) {
	for attempt := 0; attempt < 200; attempt++ {
		port = uint16(12000 + rng.Intn(18000))
		ap := netip.AddrPortFrom(ip, port).String()
		var pc net.PacketConn
		if pc, err = net.ListenPacket("udp", ap); err != nil {
			continue
		}

		var l net.Listener
		l, err = net.Listen("tcp", ap)
		_ = pc.Close()
		if err != nil {
			continue
		}

		_ = l.Close()

		return port, nil
	}

	return 0, fmt.Errorf("no free port on %s: %w", ip, err)
}

// zzG11NewRig starts the mocks of a rig on the loopback address ip and
// chooses the port of its server.
func zzG11NewRig(ip netip.Addr, rng *rand.Rand, mode UpstreamMode) (r *zzG11Rig, err error) {
	r = &zzG11Rig{ip: ip, sys: &zzG11SysRes{}, mode: mode, nid: uint16(rng.Intn(30000))}
	defer func() {
		if err != nil {
			r.close()
		}
	}()

	for i := 1; i <= zzG11Mocks; i++ {
		if r.mocks[i], err = zzG11NewMock(ip, i); err != nil {
			return r, err
		}
	}

	if r.port, err = zzG11FreePort(ip, rng); err != nil {
		return r, err
	}

	return r, nil
}

// start builds and starts the server of the rig the way the product does:
// from a configuration (initUp is its upstream_dns), not through the API.
func (r *zzG11Rig) start(initUp []string) (err error) {
	ip, mode := r.ip, r.mode

	hosts := fmt.Sprintf("%s %s\n", zzG11HostsIP, zzG11HostsHost)
	fsys := fstest.MapFS{"etc/hosts": &fstest.MapFile{Data: []byte(hosts)}}
	w := &aghtest.FSWatcher{
		OnStart:  func() (_ error) { return nil },
		OnEvents: func() (e <-chan struct{}) { return nil },
		OnAdd:    func(_ string) (_ error) { return nil },
		OnClose:  func() (_ error) { return nil },
	}
	hc, err := aghnet.NewHostsContainer(fsys, w, "etc/hosts")
	if err != nil {
		return fmt.Errorf("hosts container: %w", err)
	}

	fc := &filtering.Config{
		BlockingMode:         filtering.BlockingModeDefault,
		BlockedServices:      emptyFilteringBlockedServices(),
		ApplyClientFiltering: applyEmptyClientFiltering,
		BlockedResponseTTL:   10,
		ProtectionEnabled:    true,
		FilteringEnabled:     true,
		EtcHosts:             hc,
	}
	if r.flt, err = filtering.New(fc, nil); err != nil {
		return fmt.Errorf("filtering.New: %w", err)
	}

	r.flt.SetEnabled(true)

	r.srv, err = NewServer(DNSCreateParams{
		DHCPServer:  &zzG11DHCP{host: zzG11LeaseHost, ip: zzG11LeaseIP},
		DNSFilter:   r.flt,
		PrivateNets: netutil.SliceSubnetSet(zzG11PrivNets),
		Logger:      slogutil.NewDiscardLogger(),
		LocalDomain: zzG11LocalDom,
	})
	if err != nil {
		return fmt.Errorf("NewServer: %w", err)
	}

	r.srv.sysResolvers = r.sys

	sip := net.IP(ip.AsSlice())
	err = r.srv.Prepare(&ServerConfig{
		UDPListenAddrs: []*net.UDPAddr{{IP: sip, Port: int(r.port)}},
		TCPListenAddrs: []*net.TCPAddr{{IP: sip, Port: int(r.port)}},
		TLSConf:        &TLSConfig{},
		Config: Config{
			UpstreamDNS:      initUp,
			BootstrapDNS:     []string{"192.0.2.53"},
			UpstreamMode:     mode,
			EDNSClientSubnet: &EDNSClientSubnet{},
			ClientsContainer: EmptyClientsContainer{},
		},
		UpstreamTimeout: zzG11UpsTimeout,
		ConfigModified:  func() { r.saved++ },
		ServePlainDNS:   true,
	})
	if err != nil {
		return fmt.Errorf("Prepare: %w", err)
	}

	if err = r.srv.Start(); err != nil {
		return fmt.Errorf("Start: %w", err)
	}

	return nil
}

func (r *zzG11Rig) close() {
	if r.srv != nil {
		_ = r.srv.Stop()
		r.srv.Close()
	}
	if r.flt != nil {
		r.flt.Close()
	}
	for _, m := range r.mocks {
		if m != nil {
			m.close()
		}
	}
}

// self is the rig's own plain-DNS address.
func (r *zzG11Rig) self() (ap netip.AddrPort) { return netip.AddrPortFrom(r.ip, r.port) }

// setConfig posts body to the real dns_config handler.
func (r *zzG11Rig) setConfig(body map[string]any) (code int, text string) {
	b, err := json.Marshal(body)
	if err != nil {
		panic(err)
	}

	req := httptest.NewRequest(http.MethodPost, "http://agh.test/control/dns_config", bytes.NewReader(b))
	w := httptest.NewRecorder()
	r.srv.handleSetConfig(w, req)

	return w.Code, strings.TrimSpace(w.Body.String())
}

// testUpstreams posts body to the real test_upstream_dns handler.
func (r *zzG11Rig) testUpstreams(body map[string]any) (code int, res map[string]string, text string) {
	b, err := json.Marshal(body)
	if err != nil {
		panic(err)
	}

	req := httptest.NewRequest(http.MethodPost, "http://agh.test/control/test_upstream_dns", bytes.NewReader(b))
	w := httptest.NewRecorder()
	r.srv.handleTestUpstreamDNS(w, req)
	text = strings.TrimSpace(w.Body.String())
	res = map[string]string{}
	if w.Code == http.StatusOK {
		if err = json.Unmarshal(w.Body.Bytes(), &res); err != nil {
			return w.Code, nil, text
		}
	}

	return w.Code, res, text
}

// zzG11Info is the part of GET /control/dns_info the property talks about.
type zzG11Info struct {
	Up   []string `json:"upstream_dns"`
	Boot []string `json:"bootstrap_dns"`
	Fb   []string `json:"fallback_dns"`
	Ptr  []string `json:"local_ptr_upstreams"`
	Use  bool     `json:"use_private_ptr_resolvers"`
	Def  []string `json:"default_local_ptr_upstreams"`
}

func (r *zzG11Rig) info() (info *zzG11Info, err error) {
	req := httptest.NewRequest(http.MethodGet, "http://agh.test/control/dns_info", nil)
	w := httptest.NewRecorder()
	r.srv.handleGetConfig(w, req)
	if w.Code != http.StatusOK {
		return nil, fmt.Errorf("dns_info: status %d", w.Code)
	}

	info = &zzG11Info{}
	if err = json.Unmarshal(w.Body.Bytes(), info); err != nil {
		return nil, fmt.Errorf("dns_info: %w", err)
	}

	return info, nil
}

// diskDiff compares what the server hands out for writing the configuration
// file (WriteDiskConfig, LocalPTRResolvers, AddrProcConfig: what package home
// puts into AdGuardHome.yaml) with what dns_info reports: a rejected request
// must not reach the file either.
func (r *zzG11Rig) diskDiff(info *zzG11Info) (diff string) {
	dc := &Config{}
	r.srv.WriteDiskConfig(dc)
	var ds []string
	for _, f := range []struct {
		name      string
		disk, inf []string
	}{
		{"upstream_dns", dc.UpstreamDNS, info.Up},
		{"bootstrap_dns", dc.BootstrapDNS, info.Boot},
		{"fallback_dns", dc.FallbackDNS, info.Fb},
		{"local_ptr_upstreams", r.srv.LocalPTRResolvers(), info.Ptr},
	} {
		if !zzG11SameLines(f.disk, f.inf) {
			ds = append(ds, fmt.Sprintf("%s to be written to the configuration file is %q, dns_info reports %q", f.name, f.disk, f.inf))
		}
	}

	if use := r.srv.AddrProcConfig().UsePrivateRDNS; use != info.Use {
		ds = append(ds, fmt.Sprintf("use_private_ptr_resolvers to be written is %v, dns_info reports %v", use, info.Use))
	}

	return strings.Join(ds, "; ")
}

// zzG11Obs is what one question produced.
type zzG11Obs struct {
	// Rcv lists the mocks (1-based, sorted) that received the question.
	Rcv []int `json:"rcv"`
	// Class is "up" (the answer of a mock: By), "local" (an answer with data
	// that no mock gave), "empty" (NOERROR without data), "nx", "fail"
	// (SERVFAIL), "other:<rcode>", or "err:<text>" (no response).
	Class string `json:"class"`
	By    int    `json:"by"`
	Data  string `json:"data"`
}

// ask sends one question from cli over UDP and returns the observation.
func (r *zzG11Rig) ask(fqdn string, qt uint16, cli netip.Addr) (obs zzG11Obs) {
	for _, m := range r.mocks[1:] {
		m.take()
	}

	r.nid++
	if r.nid == 0 {
		r.nid = 1
	}

	req := &dns.Msg{}
	req.SetQuestion(fqdn, qt)
	req.Id = r.nid

	c := &dns.Client{Net: "udp", Timeout: 20 * time.Second, Dialer: &net.Dialer{
		LocalAddr: &net.UDPAddr{IP: cli.AsSlice()},
	}}
	res, _, err := c.Exchange(req, r.self().String())

	for i, m := range r.mocks[1:] {
		for _, rc := range m.take() {
			if rc.id == req.Id && strings.EqualFold(rc.name, fqdn) && rc.qt == qt {
				obs.Rcv = append(obs.Rcv, i+1)

				break
			}
		}
	}
	if obs.Rcv == nil {
		obs.Rcv = []int{}
	}

	if err != nil {
		obs.Class = "err:" + err.Error()

		return obs
	}

	var data []string
	for _, rr := range res.Answer {
		switch v := rr.(type) {
		case *dns.A:
			data = append(data, v.A.String())
			for i := 1; i <= zzG11Mocks; i++ {
				if v.A.Equal(zzG11MockA(i)) {
					obs.By = i
				}
			}
		case *dns.PTR:
			data = append(data, v.Ptr)
			for i := 1; i <= zzG11Mocks; i++ {
				if v.Ptr == zzG11MockPTR(i) {
					obs.By = i
				}
			}
		default:
			data = append(data, dns.TypeToString[rr.Header().Rrtype])
		}
	}

	sort.Strings(data)
	obs.Data = strings.Join(data, ",")
	switch {
	case res.Rcode == dns.RcodeSuccess && obs.By != 0:
		obs.Class = "up"
	case res.Rcode == dns.RcodeSuccess && len(data) > 0:
		obs.Class = "local"
	case res.Rcode == dns.RcodeSuccess:
		obs.Class = "empty"
	case res.Rcode == dns.RcodeNameError:
		obs.Class = "nx"
	case res.Rcode == dns.RcodeServerFailure:
		obs.Class = "fail"
	default:
		obs.Class = "other:" + dns.RcodeToString[res.Rcode]
	}

	return obs
}

// up renders the address of mock i: "udp" = bare address, "tcp" = tcp://.
func (r *zzG11Rig) up(i int, scheme string) (s string) {
	if scheme == "tcp" {
		return "tcp://" + r.mocks[i].addr.String()
	}

	return r.mocks[i].addr.String()
}

func zzG11Arpa(ip netip.Addr) (fqdn string) {
	s, err := netutil.IPToReversedAddr(ip.AsSlice())
	if err != nil {
		panic(err)
	}

	return dns.Fqdn(s)
}


// --------------------------------------------------------------- vocabulary

// The JSON shapes below are the ones TLC prints (specs/Upstreams.tla).

type zzG11Pat struct {
	D []string `json:"d"`
	W bool     `json:"w"`
}

type zzG11Sec struct {
	P zzG11Pat `json:"p"`
	V []string `json:"v"`
}

type zzG11List struct {
	Gen  []string   `json:"gen"`
	Secs []zzG11Sec `json:"secs"`
	Self bool       `json:"self"`
	Bad  string     `json:"bad"`
}

type zzG11Cfg struct {
	Up   zzG11List `json:"up"`
	Fb   zzG11List `json:"fb"`
	Boot string    `json:"boot"`
	Ptr  zzG11List `json:"ptr"`
	Use  bool      `json:"use"`
}

type zzG11Req struct {
	Has  []string  `json:"has"`
	Up   zzG11List `json:"up"`
	Fb   zzG11List `json:"fb"`
	Boot string    `json:"boot"`
	Ptr  zzG11List `json:"ptr"`
	Use  bool      `json:"use"`
}

func (r *zzG11Req) has(f string) (ok bool) {
	for _, h := range r.Has {
		if h == f {
			return true
		}
	}

	return false
}

type zzG11Res struct {
	Code int      `json:"code"`
	Cfg  zzG11Cfg `json:"cfg"`
}

type zzG11Q struct {
	K string   `json:"k"`
	N []string `json:"n"`
	C string   `json:"c"`
}

type zzG11Alt struct {
	Cls  string   `json:"cls"`
	By   []string `json:"by"`
	May  []string `json:"may"`
	Must []string `json:"must"`
}

// zzG11Step is one step of a tour: "set" (Req, Res = the admissible
// results), "down" (U stops / resumes responding), "ask" (Loc, Q, Alts = the
// admissible outcomes).
type zzG11Step struct {
	A    string     `json:"a"`
	Req  *zzG11Req  `json:"req,omitempty"`
	Res  []zzG11Res `json:"res,omitempty"`
	Out  *zzG11Test `json:"out,omitempty"`
	U    string     `json:"u,omitempty"`
	On   bool       `json:"on,omitempty"`
	Loc  string     `json:"loc,omitempty"`
	Q    *zzG11Q    `json:"q,omitempty"`
	Alts []zzG11Alt `json:"alts,omitempty"`
}

// zzG11Test is the specification's outcome of POST /control/test_upstream_dns:
// the upstreams reported "OK", the ones reported with an error, and the lists
// whose invalid line is reported with an error.
type zzG11Test struct {
	OK    []string `json:"ok"`
	NotOK []string `json:"notok"`
	Parse []string `json:"parse"`
}

type zzG11Tour struct {
	ID    int         `json:"id"`
	Uni   string      `json:"uni"`
	Sys   []string    `json:"sys"`
	Steps []zzG11Step `json:"steps"`
}

func zzG11UpIdx(u string) (i int) {
	_, _ = fmt.Sscanf(u, "u%d", &i)

	return i
}

func zzG11Has(set []string, u string) (ok bool) {
	for _, x := range set {
		if x == u {
			return true
		}
	}

	return false
}

// ------------------------------------------------------------ concretisation

// zzG11Conc renders abstract values for one rig.  A rendering depends on the
// seed, the field and the abstract value only, so that the same abstract list
// is the same text every time it is sent within a tour (what dns_info must
// report is then a function of the specification's configuration).
type zzG11Conc struct {
	rig    *zzG11Rig
	seed   int64
	scheme [zzG11Mocks + 1]string
	// plain switches the decorations (comments, empty lines, letter case,
	// merged and split section lines) off.
	plain bool
	// lastBad is the invalid line of the list rendered last.
	lastBad string
}

func zzG11NewConc(r *zzG11Rig, seed int64) (c *zzG11Conc) {
	c = &zzG11Conc{rig: r, seed: seed}
	rng := rand.New(rand.NewSource(seed))
	for i := 1; i <= zzG11Mocks; i++ {
		c.scheme[i] = []string{"udp", "tcp"}[rng.Intn(2)]
	}

	return c
}

func (c *zzG11Conc) addr(u string) (s string) { return c.rig.up(zzG11UpIdx(u), c.scheme[zzG11UpIdx(u)]) }

func zzG11Hash(s string) (h int64) {
	var x uint64 = 1469598103934665603
	for i := 0; i < len(s); i++ {
		x ^= uint64(s[i])
		x *= 1099511628211
	}

	return int64(x >> 1)
}

func zzG11Case(rng *rand.Rand, s string) (out string) {
	b := []byte(s)
	for i, ch := range b {
		if ch >= 'a' && ch <= 'z' && rng.Intn(3) == 0 {
			b[i] = ch - 'a' + 'A'
		}
	}

	return string(b)
}

func zzG11Dom(d []string) (s string) {
	parts := make([]string, len(d))
	for i, l := range d {
		parts[len(d)-1-i] = l
	}

	return strings.Join(parts, ".")
}

func (c *zzG11Conc) pat(rng *rand.Rand, p zzG11Pat) (s string) {
	s = zzG11Dom(p.D)
	if !c.plain {
		s = zzG11Case(rng, s)
	}
	if p.W {
		s = "*." + s
	}

	return s
}

// badLine renders the one invalid line of a list.
func (c *zzG11Conc) badLine(rng *rand.Rand, field, kind string) (line string) {
	u := c.rig.up(1+rng.Intn(zzG11Mocks), "udp")
	pick := func(ss ...string) string { return ss[rng.Intn(len(ss))] }
	switch kind {
	case "scheme":
		return pick("foo://127.0.0.1", "[/example.org/]foo://192.0.2.1", "htps://192.0.2.1/dns-query")
	case "port":
		return pick("127.0.0.1:99999", "tcp://127.0.0.1:70000", "[/example.org/]192.0.2.1:65536")
	case "nosection":
		return pick("[/example.org]"+u, "[/example.org/"+u)
	case "noupstream":
		return pick("[/example.org/]", "[/example.org/example.net/]")
	case "domain":
		// RFC 3696 (#4884): no empty label, at most 63 octets per label, a
		// top-level label that is not all-numeric.
		return pick("[/example..org/]"+u, "[/"+strings.Repeat("x", 64)+".org/]"+u, "[/example.123/]"+u)
	case "notarpa":
		return pick("[/example.org/]"+u, "[/lan/]"+u)
	case "publicarpa":
		return pick("[/8.in-addr.arpa/]"+u, "[/4.4.8.8.in-addr.arpa/]"+u)
	default:
		panic("unknown bad kind " + kind + " in " + field)
	}
}

// zzG11Key is a canonical text of an abstract list.
func zzG11Key(l *zzG11List) (key string) {
	gen := append([]string{}, l.Gen...)
	sort.Strings(gen)
	var secs []string
	for _, s := range l.Secs {
		v := append([]string{}, s.V...)
		sort.Strings(v)
		secs = append(secs, fmt.Sprintf("%s/%v=%s", strings.Join(s.P.D, "."), s.P.W, strings.Join(v, ",")))
	}
	sort.Strings(secs)

	return fmt.Sprintf("%s|%s|%v|%s", strings.Join(gen, ","), strings.Join(secs, ";"), l.Self, l.Bad)
}

// list renders an abstract upstream list for field ("up", "fb", "ptr").
func (c *zzG11Conc) list(field string, l *zzG11List) (lines []string) {
	rng := rand.New(rand.NewSource(c.seed ^ zzG11Hash(field+zzG11Key(l))))
	lines = []string{}
	for _, u := range l.Gen {
		lines = append(lines, c.addr(u))
	}

	used := make([]bool, len(l.Secs))
	for i, s := range l.Secs {
		if used[i] {
			continue
		}

		doms := c.pat(rng, s.P)
		if !c.plain {
			// Several patterns with the same upstreams may share a line.
			for j := i + 1; j < len(l.Secs); j++ {
				if !used[j] && strings.Join(l.Secs[j].V, " ") == strings.Join(s.V, " ") && rng.Intn(2) == 0 {
					used[j] = true
					doms += "/" + c.pat(rng, l.Secs[j].P)
				}
			}
		}

		switch {
		case len(s.V) == 0:
			lines = append(lines, "[/"+doms+"/]#")
		case c.plain || rng.Intn(2) == 0:
			var as []string
			for _, u := range s.V {
				as = append(as, c.addr(u))
			}
			lines = append(lines, "[/"+doms+"/]"+strings.Join(as, " "))
		default:
			for _, u := range s.V {
				lines = append(lines, "[/"+doms+"/]"+c.addr(u))
			}
		}
	}

	if l.Self {
		lines = append(lines, c.rig.self().String())
	}

	if l.Bad != "ok" {
		c.lastBad = c.badLine(rng, field, l.Bad)
		lines = append(lines, c.lastBad)
	}

	if !c.plain {
		rng.Shuffle(len(lines), func(i, j int) { lines[i], lines[j] = lines[j], lines[i] })
		if len(lines) > 0 {
			// "# comment" and empty lines are skipped.
			for n := rng.Intn(3); n > 0; n-- {
				deco := []string{"# zz comment", "#", "", "#[/example.net/]192.0.2.9", "# 192.0.2.7"}[rng.Intn(5)]
				at := rng.Intn(len(lines) + 1)
				lines = append(lines[:at], append([]string{deco}, lines[at:]...)...)
			}
		}
	}

	return lines
}

var zzG11BootLines = map[string][]string{
	"b1":       {"192.0.2.53"},
	"b2":       {"tls://192.0.2.54", "192.0.2.55:5353"},
	"empty":    {},
	"comment":  {"192.0.2.53", "# zz comment"},
	"blank":    {"192.0.2.53", ""},
	"hostname": {"tls://dns.example.net", "192.0.2.53"},
	"scheme":   {"foo://192.0.2.53"},
	"section":  {"[/example.org/]192.0.2.53", "192.0.2.53"},
}

func (c *zzG11Conc) boot(tok string) (lines []string) {
	if tok == "default" {
		return append([]string{}, defaultBootstrap...)
	}

	lines, ok := zzG11BootLines[tok]
	if !ok {
		panic("unknown bootstrap token " + tok)
	}

	return lines
}

func (c *zzG11Conc) body(req *zzG11Req) (body map[string]any) {
	body = map[string]any{}
	if req.has("up") {
		body["upstream_dns"] = c.list("up", &req.Up)
	}
	if req.has("fb") {
		body["fallback_dns"] = c.list("fb", &req.Fb)
	}
	if req.has("boot") {
		body["bootstrap_dns"] = c.boot(req.Boot)
	}
	if req.has("ptr") {
		body["local_ptr_upstreams"] = c.list("ptr", &req.Ptr)
	}
	if req.has("use") {
		body["use_private_ptr_resolvers"] = req.Use
	}

	return body
}

func (c *zzG11Conc) name(q *zzG11Q, n int) (fqdn string, qt uint16) {
	fqdn = zzG11Dom(q.N) + "."
	if !c.plain {
		fqdn = zzG11Case(rand.New(rand.NewSource(c.seed+int64(n))), fqdn)
	}

	qt = dns.TypeA
	if q.K == "ptr" {
		qt = dns.TypePTR
	}

	return fqdn, qt
}

func zzG11SameLines(a, b []string) (ok bool) {
	if len(a) != len(b) {
		return false
	}
	for i := range a {
		if a[i] != b[i] {
			return false
		}
	}

	return true
}

// infoDiff compares what dns_info reports with the rendering of the
// specification's configuration.
func (c *zzG11Conc) infoDiff(info *zzG11Info, cfg *zzG11Cfg, sys []string) (diff string) {
	var ds []string
	chk := func(what string, got, want []string) {
		if !zzG11SameLines(got, want) {
			ds = append(ds, fmt.Sprintf("%s reported %q, configuration in effect has %q", what, got, want))
		}
	}
	chk("upstream_dns", info.Up, c.list("up", &cfg.Up))
	chk("fallback_dns", info.Fb, c.list("fb", &cfg.Fb))
	chk("bootstrap_dns", info.Boot, c.boot(cfg.Boot))
	chk("local_ptr_upstreams", info.Ptr, c.list("ptr", &cfg.Ptr))
	if info.Use != cfg.Use {
		ds = append(ds, fmt.Sprintf("use_private_ptr_resolvers reported %v, in effect %v", info.Use, cfg.Use))
	}

	var def []string
	for _, u := range sys {
		def = append(def, c.rig.mocks[zzG11UpIdx(u)].addr.String())
	}
	got := append([]string{}, info.Def...)
	sort.Strings(got)
	sort.Strings(def)
	chk("default_local_ptr_upstreams", got, def)

	return strings.Join(ds, "; ")
}

// conforms is Conforms of UpstreamsCore.tla.
func zzG11Conforms(o *zzG11Obs, a *zzG11Alt) (ok bool) {
	if o.Class != a.Cls {
		return false
	}

	rcv := map[string]bool{}
	for _, i := range o.Rcv {
		u := fmt.Sprintf("u%d", i)
		rcv[u] = true
		if !zzG11Has(a.May, u) {
			return false
		}
	}
	for _, u := range a.Must {
		if !rcv[u] {
			return false
		}
	}
	if a.Cls == "up" {
		by := fmt.Sprintf("u%d", o.By)

		return zzG11Has(a.By, by) && rcv[by]
	}

	return true
}

// -------------------------------------------------------------------- replay

// zzG11Bad is a disagreement between the real server and the specification.
type zzG11Bad struct {
	Kind     string     `json:"kind"`
	Tour     int        `json:"tour"`
	Uni      string     `json:"uni"`
	Step     int        `json:"step"`
	What     string     `json:"what"`
	Act      *zzG11Step `json:"act"`
	Got      any        `json:"got"`
	Concrete []string   `json:"concrete"`
	Replay   *zzG11Tour `json:"replay,omitempty"`
}

// zzG11Run walks one tour on a fresh rig.  only < 0: every step is compared;
// otherwise the "ask" steps other than number only are skipped (the isolated
// re-run of a disagreement).  It returns the first disagreement, if any.
func zzG11Run(tour *zzG11Tour, ip netip.Addr, seed int64, only int, plain bool) (bad *zzG11Bad, stats map[string]int, err error) {
	stats = map[string]int{}
	rng := rand.New(rand.NewSource(seed*1000003 + int64(tour.ID)))
	mode := []UpstreamMode{UpstreamModeLoadBalance, UpstreamModeLoadBalance, UpstreamModeParallel}[rng.Intn(3)]

	rig, err := zzG11NewRig(ip, rng, mode)
	if err != nil {
		return nil, stats, err
	}
	defer rig.close()

	conc := zzG11NewConc(rig, seed*7919+int64(tour.ID))
	conc.plain = plain

	for _, u := range tour.Sys {
		rig.sys.addrs = append(rig.sys.addrs, rig.mocks[zzG11UpIdx(u)].addr)
	}
	if rng.Intn(2) == 0 {
		// The operating system lists AdGuard Home itself as well.
		rig.sys.addrs = append(rig.sys.addrs, rig.self())
	}

	// Bring the rig to Cfg0 of the specification the way the product starts:
	// from its configuration, not through the API.
	cfg0 := &zzG11Cfg{Up: zzG11List{Gen: []string{"u1"}, Bad: "ok"}, Fb: zzG11List{Bad: "ok"}, Boot: "b1", Ptr: zzG11List{Bad: "ok"}}
	if err = rig.start(conc.list("up", &cfg0.Up)); err != nil {
		return nil, stats, err
	}

	var concrete []string
	mk := func(i int, what string, got any) *zzG11Bad {
		return &zzG11Bad{Kind: "bad", Tour: tour.ID, Uni: tour.Uni, Step: i, What: what, Act: &tour.Steps[i], Got: got,
			Concrete: append([]string{fmt.Sprintf("mode=%s sys=%v self=%s", mode, rig.sys.addrs, rig.self())}, concrete...)}
	}

	cur := cfg0
	for i := range tour.Steps {
		st := &tour.Steps[i]
		switch st.A {
		case "set":
			body := conc.body(st.Req)
			savedBefore := rig.saved
			code, text := rig.setConfig(body)
			stats["set"]++
			bj, _ := json.Marshal(body)
			concrete = append(concrete, fmt.Sprintf("POST dns_config %s -> %d %s", bj, code, text))

			var res *zzG11Res
			var codes []int
			for j := range st.Res {
				codes = append(codes, st.Res[j].Code)
				if st.Res[j].Code == code {
					res = &st.Res[j]
				}
			}
			if res == nil {
				return mk(i, fmt.Sprintf("dns_config answered %d (%s), admissible %v; server running: %v", code, text, codes, rig.srv.IsRunning()),
					map[string]any{"code": code, "text": text, "running": rig.srv.IsRunning()}), stats, nil
			}

			if code == http.StatusOK {
				stats["accepted"]++
			}

			info, ierr := rig.info()
			if ierr != nil {
				return nil, stats, ierr
			}

			d := conc.infoDiff(info, &res.Cfg, tour.Sys)
			if d == "" {
				d = rig.diskDiff(info)
			}
			if d == "" && code != http.StatusOK && rig.saved != savedBefore {
				d = "a rejected request made the server save its configuration"
			}
			if d != "" {
				return mk(i, fmt.Sprintf("after dns_config -> %d: %s", code, d), map[string]any{"code": code, "info": info}), stats, nil
			}

			if !rig.srv.IsRunning() {
				return mk(i, fmt.Sprintf("after dns_config -> %d the DNS server is not running", code), map[string]any{"code": code, "running": false}), stats, nil
			}

			cur = &res.Cfg
		case "test":
			if only >= 0 && i != only {
				continue
			}

			body := map[string]any{"bootstrap_dns": []string{"192.0.2.53"}}
			badLines := map[string]string{}
			for _, f := range []struct {
				name, key string
				l         *zzG11List
			}{{"up", "upstream_dns", &st.Req.Up}, {"fb", "fallback_dns", &st.Req.Fb}, {"ptr", "private_upstream", &st.Req.Ptr}} {
				body[f.key] = conc.list(f.name, f.l)
				if f.l.Bad != "ok" {
					badLines[f.name] = conc.lastBad
				}
			}

			code, res, text := rig.testUpstreams(body)
			stats["test"]++
			bj, _ := json.Marshal(body)
			concrete = append(concrete, fmt.Sprintf("POST test_upstream_dns %s -> %d %s", bj, code, text))
			var ds []string
			if code != http.StatusOK {
				ds = append(ds, fmt.Sprintf("status %d", code))
			}
			for _, u := range st.Out.OK {
				if v, ok := res[conc.addr(u)]; !ok || v != "OK" {
					ds = append(ds, fmt.Sprintf("%s (%s, responding) reported as %q", u, conc.addr(u), v))
				}
			}
			for _, u := range st.Out.NotOK {
				if v, ok := res[conc.addr(u)]; !ok || v == "OK" {
					ds = append(ds, fmt.Sprintf("%s (%s, not responding) reported as %q", u, conc.addr(u), v))
				}
			}
			for _, f := range st.Out.Parse {
				if v, ok := res[badLines[f]]; !ok || v == "OK" {
					ds = append(ds, fmt.Sprintf("the invalid line %q reported as %q", badLines[f], v))
				}
			}

			info, ierr := rig.info()
			if ierr != nil {
				return nil, stats, ierr
			}
			if d := conc.infoDiff(info, cur, tour.Sys); d != "" {
				ds = append(ds, "the test changed the configuration: "+d)
			}
			if len(ds) > 0 {
				return mk(i, "test_upstream_dns: "+strings.Join(ds, "; "), map[string]any{"code": code, "res": res}), stats, nil
			}
		case "down":
			rig.mocks[zzG11UpIdx(st.U)].setDown(st.On)
			concrete = append(concrete, fmt.Sprintf("%s down=%v", st.U, st.On))
		case "ask":
			if only >= 0 && i != only {
				continue
			}

			fqdn, qt := conc.name(st.Q, i)
			cli := zzG11LocalCli
			if st.Loc != "local" {
				cli = zzG11ExtCli
			}

			obs := rig.ask(fqdn, qt, cli)
			stats["ask"]++
			ok := false
			for j := range st.Alts {
				if zzG11Conforms(&obs, &st.Alts[j]) {
					ok = true

					break
				}
			}

			if !ok {
				concrete = append(concrete, fmt.Sprintf("%s %s from %s -> %+v", fqdn, dns.TypeToString[qt], cli, obs))
				aj, _ := json.Marshal(st.Alts)
				cj, _ := json.Marshal(cur)

				return mk(i, fmt.Sprintf("%s %s from a %s client: received by %v, %s by %d (%s); admissible %s; configuration %s",
					fqdn, dns.TypeToString[qt], st.Loc, obs.Rcv, obs.Class, obs.By, obs.Data, aj, cj), obs), stats, nil
			}
		default:
			return nil, stats, fmt.Errorf("unknown step %q", st.A)
		}
	}

	return nil, stats, nil
}

// zzG11SameBad tells whether the isolated re-run showed the same disagreement.
func zzG11SameBad(a, b *zzG11Bad) (ok bool) {
	if b == nil || a.Step != b.Step {
		return false
	}

	ga, _ := json.Marshal(a.Got)
	gb, _ := json.Marshal(b.Got)
	if a.Act.A == "ask" {
		var oa, ob zzG11Obs
		_ = json.Unmarshal(ga, &oa)
		_ = json.Unmarshal(gb, &ob)

		return oa.Class == ob.Class
	}

	return true
}

func zzG11Net() (octet byte) { return byte(11 + os.Getpid()%100) }

func TestZZVerifG11Replay(t *testing.T) {
	var tours []*zzG11Tour
	zzReadNDJSON(t, "VERIF_IN", func(line []byte) {
		tour := &zzG11Tour{}
		if err := json.Unmarshal(line, tour); err != nil {
			t.Fatalf("tour: %v", err)
		}
		tours = append(tours, tour)
	})

	w := zzNewWriter(t, "VERIF_OUT")
	defer w.close()

	workers := 16
	if v := os.Getenv("VERIF_G11_WORKERS"); v != "" {
		_, _ = fmt.Sscanf(v, "%d", &workers)
	}
	plain := os.Getenv("VERIF_G11_PLAIN") != ""

	seed := zzSeed()
	var mu sync.Mutex
	total := map[string]int{}
	ch := make(chan *zzG11Tour)
	wg := &sync.WaitGroup{}
	t0 := time.Now()
	for k := 0; k < workers; k++ {
		wg.Add(1)
		go func(k int) {
			defer wg.Done()

			ip := netip.AddrFrom4([4]byte{127, 0, zzG11Net(), byte(1 + k)})
			for tour := range ch {
				var bad *zzG11Bad
				var stats map[string]int
				var err error
				for attempt := 0; attempt < 3; attempt++ {
					bad, stats, err = zzG11Run(tour, ip, seed, -1, plain)
					if err == nil {
						break
					}
				}

				mu.Lock()
				for key, n := range stats {
					total[key] += n
				}
				total["tours"]++
				switch {
				case err != nil:
					total["errors"]++
					w.put(map[string]any{"kind": "error", "tour": tour.ID, "err": err.Error()})
				case bad != nil:
					total["cut"] += len(tour.Steps) - bad.Step - 1
				}
				mu.Unlock()

				if bad == nil {
					continue
				}

				// Reproduce in isolation: a fresh rig, the configuration
				// history only, and the offending step.
				again, _, err2 := zzG11Run(tour, ip, seed, bad.Step, plain)
				mu.Lock()
				if err2 == nil && zzG11SameBad(bad, again) {
					cut := *tour
					cut.Steps = tour.Steps[:bad.Step+1]
					bad.Replay = &cut
					w.put(bad)
				} else {
					bad.Kind = "flaky"
					w.put(bad)
				}
				mu.Unlock()
			}
		}(k)
	}

	for _, tour := range tours {
		ch <- tour
	}
	close(ch)
	wg.Wait()

	total["ms"] = int(time.Since(t0).Milliseconds())
	w.put(map[string]any{"kind": "summary", "stats": total})
}

// ------------------------------------------------------------ trace driver

// zzG11Gen generates the random universe of one recorded history: a domain
// tree with more labels than the exhaustive universes, lists with several
// sections, every kind of invalid line, every request shape.
type zzG11Gen struct {
	rng *rand.Rand
}

var (
	zzG11Tlds   = []string{"com", "net", "org"}
	zzG11Second = []string{"example", "corp", "a-b"}
	zzG11Third  = []string{"www", "mail", "x1"}
	zzG11Fourth = []string{"a", "b"}
	zzG11Ups    = []string{"u1", "u2", "u3", "u4"}
	zzG11RevPri = [][]string{{"arpa", "in-addr", "10"}, {"arpa", "in-addr", "192", "168"}, {"arpa", "in-addr", "192", "168", "11"}, {"arpa", "in-addr", "10", "20"}}
)

func (g *zzG11Gen) pick(ss []string) (s string) { return ss[g.rng.Intn(len(ss))] }

// dom returns a random domain of the tree with depth 1..max (TLD first).
func (g *zzG11Gen) dom(max int) (d []string) {
	depth := 1 + g.rng.Intn(max)
	for i, level := range [][]string{zzG11Tlds, zzG11Second, zzG11Third, zzG11Fourth} {
		if i >= depth {
			break
		}

		d = append(d, g.pick(level))
	}

	return d
}

func (g *zzG11Gen) subset(min int) (set []string) {
	for {
		set = []string{}
		for _, u := range zzG11Ups {
			if g.rng.Intn(3) == 0 {
				set = append(set, u)
			}
		}

		if len(set) >= min {
			return set
		}
	}
}

// secs returns up to n sections over distinct domains (never "d" and "*.d"
// for the same d: the documentation does not say which is more specific).
func (g *zzG11Gen) secs(n int, doms func() []string) (secs []zzG11Sec) {
	secs = []zzG11Sec{}
	seen := map[string]bool{}
	for k := g.rng.Intn(n + 1); k > 0; k-- {
		d := doms()
		key := strings.Join(d, ".")
		if seen[key] {
			continue
		}

		seen[key] = true
		s := zzG11Sec{P: zzG11Pat{D: d, W: g.rng.Intn(3) == 0}, V: []string{}}
		if g.rng.Intn(4) != 0 {
			s.V = g.subset(1)
		}

		secs = append(secs, s)
	}

	sort.Slice(secs, func(i, j int) bool { return strings.Join(secs[i].P.D, ".") < strings.Join(secs[j].P.D, ".") })

	return secs
}

func (g *zzG11Gen) bad(kinds []string, p int) (kind string) {
	if g.rng.Intn(p) == 0 {
		return g.pick(kinds)
	}

	return "ok"
}

func (g *zzG11Gen) upList() (l zzG11List) {
	return zzG11List{Gen: g.subset(1), Secs: g.secs(5, func() []string { return g.dom(3) }),
		Bad: g.bad([]string{"scheme", "port", "nosection", "noupstream", "domain"}, 6)}
}

func (g *zzG11Gen) fbList() (l zzG11List) {
	if g.rng.Intn(3) == 0 {
		return zzG11List{Gen: []string{}, Secs: []zzG11Sec{}, Bad: "ok"}
	}

	return zzG11List{Gen: g.subset(1), Secs: g.secs(2, func() []string { return g.dom(3) }),
		Bad: g.bad([]string{"scheme", "port", "nosection", "noupstream", "domain"}, 8)}
}

func (g *zzG11Gen) ptrList() (l zzG11List) {
	switch g.rng.Intn(6) {
	case 0:
		return zzG11List{Gen: []string{}, Secs: []zzG11Sec{}, Bad: "ok"}
	case 1:
		return zzG11List{Gen: []string{}, Secs: []zzG11Sec{}, Self: true, Bad: "ok"}
	}

	l = zzG11List{Gen: g.subset(1), Self: g.rng.Intn(4) == 0,
		Secs: g.secs(2, func() []string { return zzG11RevPri[g.rng.Intn(len(zzG11RevPri))] }),
		Bad:  g.bad([]string{"scheme", "port", "nosection", "notarpa", "publicarpa"}, 8)}
	for i := range l.Secs {
		l.Secs[i].P.W = false
		if len(l.Secs[i].V) == 0 {
			l.Secs[i].V = g.subset(1)
		}
	}

	return l
}

func (g *zzG11Gen) req() (r *zzG11Req) {
	none := zzG11List{Gen: []string{}, Secs: []zzG11Sec{}, Bad: "ok"}
	r = &zzG11Req{Has: []string{}, Up: none, Fb: none, Boot: "-", Ptr: none}
	var fields []string
	switch g.rng.Intn(4) {
	case 0:
		fields = []string{"up", "fb", "boot", "ptr", "use"}
	case 1:
		fields = []string{g.pick([]string{"up", "fb", "boot", "ptr", "use", "up", "ptr", "use"})}
	default:
		for _, f := range []string{"up", "fb", "boot", "ptr", "use"} {
			if g.rng.Intn(2) == 0 {
				fields = append(fields, f)
			}
		}
		if len(fields) == 0 {
			fields = []string{"up"}
		}
	}

	for _, f := range fields {
		r.Has = append(r.Has, f)
		switch f {
		case "up":
			r.Up = g.upList()
		case "fb":
			r.Fb = g.fbList()
		case "boot":
			r.Boot = g.pick([]string{"b1", "b2", "b1", "b2", "empty", "empty", "comment", "blank", "hostname", "scheme", "section"})
		case "ptr":
			r.Ptr = g.ptrList()
		case "use":
			r.Use = g.rng.Intn(2) == 0
		}
	}

	return r
}

// question returns a random question and how it is to be asked.
func (g *zzG11Gen) question() (q *zzG11Q) {
	switch g.rng.Intn(10) {
	case 0:
		return &zzG11Q{K: "a", N: []string{zzG11LocalDom, zzG11LeaseHost}, C: "lanknown"}
	case 1:
		return &zzG11Q{K: "a", N: []string{zzG11LocalDom, g.pick([]string{"nobody", "printer", "www"})}, C: "lanunknown"}
	case 2:
		ip := []netip.Addr{zzG11LeaseIP, zzG11HostsIP}[g.rng.Intn(2)]

		return &zzG11Q{K: "ptr", N: zzG11RevLabels(ip), C: "privknown"}
	case 3, 4:
		ip := netip.AddrFrom4([4]byte{[]byte{10, 192}[g.rng.Intn(2)], 168, byte([]int{11, 20, 0}[g.rng.Intn(3)]), byte(20 + g.rng.Intn(200))})
		if ip.As4()[0] == 10 {
			ip = netip.AddrFrom4([4]byte{10, byte([]int{20, 0, 99}[g.rng.Intn(3)]), byte(g.rng.Intn(4)), byte(20 + g.rng.Intn(200))})
		}

		return &zzG11Q{K: "ptr", N: zzG11RevLabels(ip), C: "privunknown"}
	case 5:
		ip := netip.AddrFrom4([4]byte{byte([]int{8, 1, 193}[g.rng.Intn(3)]), 8, 4, byte(1 + g.rng.Intn(200))})

		return &zzG11Q{K: "ptr", N: zzG11RevLabels(ip), C: "pub"}
	default:
		d := g.dom(4)
		if g.rng.Intn(5) == 0 {
			d = append(d, g.pick([]string{"deep", "q"}))
		}

		return &zzG11Q{K: "a", N: d, C: "plain"}
	}
}

func zzG11RevLabels(ip netip.Addr) (n []string) {
	b := ip.As4()

	return []string{"arpa", "in-addr", fmt.Sprint(b[0]), fmt.Sprint(b[1]), fmt.Sprint(b[2]), fmt.Sprint(b[3])}
}

// zzG11History records one history on a fresh rig.
func zzG11History(h int, ip netip.Addr, seed int64, nsteps int) (lines []map[string]any, err error) {
	rng := rand.New(rand.NewSource(seed*1000003 + int64(h)*7907))
	g := &zzG11Gen{rng: rng}
	mode := []UpstreamMode{UpstreamModeLoadBalance, UpstreamModeLoadBalance, UpstreamModeParallel}[rng.Intn(3)]
	rig, err := zzG11NewRig(ip, rng, mode)
	if err != nil {
		return nil, err
	}
	defer rig.close()

	conc := zzG11NewConc(rig, seed*7919+int64(h))
	sys := []string{}
	if rng.Intn(2) == 0 {
		sys = g.subset(1)[:1]
	}

	for _, u := range sys {
		rig.sys.addrs = append(rig.sys.addrs, rig.mocks[zzG11UpIdx(u)].addr)
	}
	if rng.Intn(2) == 0 {
		rig.sys.addrs = append(rig.sys.addrs, rig.self())
	}

	none := zzG11List{Gen: []string{}, Secs: []zzG11Sec{}, Bad: "ok"}
	up0 := zzG11List{Gen: []string{"u1"}, Secs: []zzG11Sec{}, Bad: "ok"}
	if err = rig.start(conc.list("up", &up0)); err != nil {
		return nil, err
	}

	// reg maps the text of every list rendered in this history to its
	// abstract value: the abstraction function for dns_info.
	reg := map[string]map[string]zzG11List{"up": {}, "fb": {}, "ptr": {}}
	note := func(field string, l zzG11List) {
		reg[field][strings.Join(conc.list(field, &l), "\n")] = l
	}
	note("up", up0)
	note("fb", none)
	note("ptr", none)
	bootReg := map[string]string{}
	for _, tok := range []string{"b1", "b2", "default"} {
		bootReg[strings.Join(conc.boot(tok), "\n")] = tok
	}

	lines = append(lines, map[string]any{"k": "reset", "h": h, "sys": sys, "concrete": fmt.Sprintf("mode=%s self=%s os=%v", mode, rig.self(), rig.sys.addrs)})
	down := map[string]bool{}
	for n := 0; n < nsteps; n++ {
		switch x := rng.Intn(10); {
		case x < 2:
			req := g.req()
			if req.has("up") {
				note("up", req.Up)
			}
			if req.has("fb") {
				note("fb", req.Fb)
			}
			if req.has("ptr") {
				note("ptr", req.Ptr)
			}

			body := conc.body(req)
			savedBefore := rig.saved
			code, text := rig.setConfig(body)
			info, ierr := rig.info()
			if ierr != nil {
				return nil, ierr
			}

			var infobad []string
			abs := zzG11Cfg{Use: info.Use}
			for _, f := range []struct {
				name  string
				lines []string
				dst   *zzG11List
			}{{"up", info.Up, &abs.Up}, {"fb", info.Fb, &abs.Fb}, {"ptr", info.Ptr, &abs.Ptr}} {
				l, ok := reg[f.name][strings.Join(f.lines, "\n")]
				if !ok {
					infobad = append(infobad, fmt.Sprintf("%s reported as %q, which was never sent", f.name, f.lines))
					l = none
				}
				*f.dst = l
			}

			var ok bool
			if abs.Boot, ok = bootReg[strings.Join(info.Boot, "\n")]; !ok {
				infobad = append(infobad, fmt.Sprintf("bootstrap_dns reported as %q", info.Boot))
				abs.Boot = "?"
			}

			if !rig.srv.IsRunning() {
				infobad = append(infobad, "the DNS server is not running")
			}
			if d := rig.diskDiff(info); d != "" {
				infobad = append(infobad, d)
			}
			if code != http.StatusOK && rig.saved != savedBefore {
				infobad = append(infobad, "a rejected request made the server save its configuration")
			}

			def := []string{}
			for _, a := range info.Def {
				found := false
				for i := 1; i <= zzG11Mocks; i++ {
					if rig.mocks[i].addr.String() == a {
						def = append(def, fmt.Sprintf("u%d", i))
						found = true
					}
				}
				if !found {
					infobad = append(infobad, "default_local_ptr_upstreams reports "+a)
				}
			}

			bj, _ := json.Marshal(body)
			lines = append(lines, map[string]any{"k": "set", "h": h, "req": req, "code": code, "info": abs, "def": def,
				"infobad": strings.Join(infobad, "; "), "concrete": fmt.Sprintf("POST dns_config %s -> %d %s", bj, code, text)})
			if !rig.srv.IsRunning() {
				// Nothing more can be observed on a stopped server.
				return lines, nil
			}
		case x < 4:
			u := g.pick(zzG11Ups)
			down[u] = !down[u]
			rig.mocks[zzG11UpIdx(u)].setDown(down[u])
			lines = append(lines, map[string]any{"k": "down", "h": h, "u": u, "on": down[u]})
		default:
			q := g.question()
			loc, cli := "local", zzG11LocalCli
			if rng.Intn(4) == 0 {
				loc, cli = "ext", zzG11ExtCli
			}

			fqdn, qt := conc.name(q, n)
			obs := rig.ask(fqdn, qt, cli)
			rcv := []string{}
			for _, i := range obs.Rcv {
				rcv = append(rcv, fmt.Sprintf("u%d", i))
			}

			by := ""
			if obs.By != 0 {
				by = fmt.Sprintf("u%d", obs.By)
			}

			lines = append(lines, map[string]any{"k": "ask", "h": h, "loc": loc, "q": q,
				"obs": map[string]any{"rcv": rcv, "cls": obs.Class, "by": by},
				"concrete": fmt.Sprintf("%s %s from %s -> %+v", fqdn, dns.TypeToString[qt], cli, obs)})
		}
	}

	return lines, nil
}

func TestZZVerifG11Trace(t *testing.T) {
	w := zzNewWriter(t, "VERIF_OUT")
	defer w.close()

	n, nsteps, workers := 40, 40, 16
	if v := os.Getenv("VERIF_G11_HISTORIES"); v != "" {
		_, _ = fmt.Sscanf(v, "%d", &n)
	}
	if v := os.Getenv("VERIF_G11_STEPS"); v != "" {
		_, _ = fmt.Sscanf(v, "%d", &nsteps)
	}
	if v := os.Getenv("VERIF_G11_WORKERS"); v != "" {
		_, _ = fmt.Sscanf(v, "%d", &workers)
	}

	var hs []int
	if v := os.Getenv("VERIF_G11_ONLY"); v != "" {
		for _, f := range strings.Split(v, ",") {
			var h int
			if _, err := fmt.Sscanf(f, "%d", &h); err == nil {
				hs = append(hs, h)
			}
		}
	} else {
		for h := 0; h < n; h++ {
			hs = append(hs, h)
		}
	}

	seed := zzSeed()
	out := make([][]map[string]any, len(hs))
	errs := make([]error, len(hs))
	ch := make(chan int)
	wg := &sync.WaitGroup{}
	for k := 0; k < workers; k++ {
		wg.Add(1)
		go func(k int) {
			defer wg.Done()

			ip := netip.AddrFrom4([4]byte{127, 0, zzG11Net(), byte(101 + k)})
			for i := range ch {
				for attempt := 0; attempt < 3; attempt++ {
					out[i], errs[i] = zzG11History(hs[i], ip, seed, nsteps)
					if errs[i] == nil {
						break
					}
				}
			}
		}(k)
	}
	for i := range hs {
		ch <- i
	}
	close(ch)
	wg.Wait()

	for i := range hs {
		if errs[i] != nil {
			t.Logf("history %d: %v", hs[i], errs[i])

			continue
		}

		for _, ln := range out[i] {
			w.put(ln)
		}
	}
}
