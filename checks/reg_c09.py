PROPERTY = "C09"
ENTRY = {
        "text": "Stats.tla (written from the statement: ghost ledger of (hour counted, category) vs. current unit + hourly buckets; actions Update, Tick, Flush, "
                "Close, Open, SetLimit, SetEnabled, Clear, Read, FlushFails (I/O fault at the periodic step); hours kept relative to the observed hour, so the exhaustive run covers histories of every length) "
                "is model-checked by TLC with 8 invariants of the statement (scaled-day configuration reaches the daily branch). "
                "A: every labelled edge TLC emits (limits 2-3 h, <= 5 live queries, clock gaps 1..limit+1) is walked on the real StatsCtx "
                "(bbolt file, injected UnitID clock, real HTTP handlers) with edge-covering tours; GET /control/stats is compared with the spec's admissible reply after every step. "
                "B: seeded long histories over the real constants (5 categories, 1 h .. 90 d, daily rendering, gaps of thousands of hours) validated by TraceStats.tla; "
                "concurrent Update/flush/GET histories (inv/res stamps, no wall clock) for which TraceStatsConc.tla lets TLC infer a linearisation; same driver under -race.",
        "design_ref": "DESIGN.md section 4 C09",
        "note": "Trusted: TLC, conc()/abs()/compare() of zz_verif_c09_test.go. The absolute clock position is a seeded dimension (0, 1, limit-1, limit, limit+1, 2*limit, ~470000); open finding restart-below-limit-wipes-units. 'Hour that was current' = hour observed by the module (id of the current unit; the flusher polls the clock). "
                "Hours that were outside the window once and re-enter after the limit is raised may or may not be reported. Daily series: only sum <= totals. "
                "Top lists, average processing time and upstream statistics are inputs only, not compared. Scratch bbolt files use NoSync.",
        "technique": "TLA+ spec model-checked by TLC; edge-covering replay of TLC's transition graph into real code + TLC trace validation (sequential and linearisation inference) + race detector",
    }
