SPECIFICATION Spec
CONSTANTS MaxLines = 3
          Shapes <- ShapesFull
          Endings <- EndingsAll
INVARIANTS Statement
