SPECIFICATION GenSpec6
CONSTANTS
  Macs = {"m1", "m2", "m3"}
  Pool = {1, 2, 3}
  Outs = {4, 5}
  GW = 98
  Far = 99
  ReqHosts = {""}
  StaticHosts = {"", "h1"}
  MaxStatic = 2
INVARIANTS
  OneHolderPerAddress KeyedByAddress OneLeasePerClient DynamicInsidePool
  ReservedClientGetsReservation6 OfferWhenFree6 HeldOnDisk DiskIsATable
  RestartRestoresHeld StaticsHeld BoundedStatics
