CONSTANTS Design = "intended" Lis = {0, 1, 2, 3, 4, 5} Plans = "all"
SPECIFICATION Spec
INVARIANTS NoIgnoredLogged NoIgnoredCounted AnonStored AnonReported SearchNames SearchClientsIdentifiable OracleConsistent RegistryAsConfigured
