SPECIFICATION Spec
CONSTANTS
  U <- UDhcpQ
  W = 4
VIEW view
INVARIANTS TypeOK WinnerIsHighest DhcpOffSilent RegistryConsistent BuiltOnlyWithUpstreams CustCurrent
PROPERTIES OnlyOwnSource Separation ListSyncs CommonInvalidates
