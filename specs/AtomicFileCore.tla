--------------------------- MODULE AtomicFileCore ---------------------------
(***************************************************************************)
(* C14 -- "the configuration file, the DHCP lease database and downloaded  *)
(* filter-list files are replaced atomically: at every instant, and        *)
(* therefore after a crash or power loss at any point of a save, the path  *)
(* holds either the complete previous version or the complete new version, *)
(* never an empty, truncated or mixed file."                               *)
(*                                                                         *)
(* This module is the vocabulary shared by the exhaustive model            *)
(* (AtomicFile.tla: writer protocols + Crash + a concurrent reader) and by *)
(* the trace specification (TraceAtomicFile.tla: real system calls         *)
(* recorded with strace).  It contains                                     *)
(*                                                                         *)
(*   * a tiny POSIX file-system model with an explicit *durable* side:     *)
(*       dir   path -> inode        (what a reader sees now)               *)
(*       ino   inode -> [cur, poss] cur  = content visible now,            *)
(*                                  poss = contents the disk may hold for  *)
(*                                         this inode if power fails now   *)
(*       fds   open descriptors     fd -> [ino, off, app, sync]            *)
(*       ddst  set of inodes (0 = no entry) the destination path may be    *)
(*             bound to after a power failure                              *)
(*   * the save-level bookkeeping of the property: which versions exist,   *)
(*     which one is "previous", which one is "new";                        *)
(*   * the property itself as three state predicates:                      *)
(*       InstantOK  at this instant the path holds old or new, complete    *)
(*       CrashSafe  for EVERY outcome of a power failure at this instant   *)
(*                  the path holds a complete version                      *)
(*       (ReadEnd)  a concurrent reader got old or new, complete           *)
(*                                                                         *)
(* Durability model (what is assumed of the kernel, nothing more):         *)
(*   D1  data written to an inode becomes durable at an unknown time not   *)
(*       later than the next successful fsync/fdatasync of a descriptor of *)
(*       that inode (or sync).  Until then a power failure leaves ANY of   *)
(*       the contents the inode went through since its last fsync.         *)
(*   D2  directory operations (create, rename, unlink, link) are each      *)
(*       atomic, and become durable at an unknown later time, in order,    *)
(*       not later than an fsync of the directory (or sync).  So after a   *)
(*       power failure the path is bound to ANY inode it was bound to      *)
(*       since the last directory sync.  In particular a rename can be     *)
(*       durable while the data of the renamed inode is not (D1) -- the    *)
(*       classic zero-length-file-after-crash hazard -- and that is what   *)
(*       "fsync before rename" prevents.                                   *)
(*   D3  rename(2) works only inside one file system (EXDEV otherwise).    *)
(* What the kernel does below fsync is trusted (DESIGN.md section 9).      *)
(*                                                                         *)
(* Reading of the statement.  At every instant (no crash) the path must    *)
(* hold exactly the previous or the new version of the save in progress.   *)
(* After a power failure it must hold a COMPLETE version: the new one, the *)
(* previous one, or -- because none of the writers (nor the statement)     *)
(* promises that a finished save is already durable, D2 -- an earlier      *)
(* complete one.  "Never an empty, truncated or mixed file" is asserted    *)
(* without exception.                                                      *)
(***************************************************************************)
EXTENDS Integers, Sequences, FiniteSets, TLC

CONSTANT Dst          \* the destination path (a string)

VARIABLES
  dir,     \* [paths present -> inode id (Nat >= 1)]
  ino,     \* [live inode ids -> [cur : Content, poss : SUBSET Content]]
  fds,     \* [open fds -> [ino, off, app, sync]]
  ddst,    \* SUBSET Nat: possible durable bindings of Dst (0 = absent)
  armed,   \* FALSE while the environment prepares the directory
  phase,   \* "idle" | "saving" | "crashed"
  k,       \* number of the last version declared (0 = none yet)
  vers,    \* [1..k -> size] : declared size of every version
  prev,    \* Content: what the path held when the current save began
  good,    \* SUBSET Content: every complete version so far (+ NoFile if
           \* the path did not exist when the observation started)
  reads    \* [open read ids -> SUBSET Content] admissible results

fsVars   == <<dir, ino, fds, ddst>>
saveVars == <<armed, phase, k, vers, prev, good>>
coreVars == <<dir, ino, fds, ddst, armed, phase, k, vers, prev, good, reads>>

(***************************************************************************)
(* Contents.  A file's bytes are abstracted to [v, n]: n = its length,     *)
(* v = the number of the save during which ALL of its bytes were written,  *)
(* contiguously from offset 0.  v = 0: empty.  v = -1: anything else       *)
(* (overwritten in place, appended to by another save, written outside a   *)
(* save, cut by truncate, holes).  v = -2: there is no file.               *)
(* Version j of the document has the declared size vers[j]; the path holds *)
(* "complete version j" iff its content is [v |-> j, n |-> vers[j]].       *)
(* (Byte identity of the final file with the intended document is checked  *)
(* by the harness against the document it asked to be saved.)              *)
(***************************************************************************)
Empty    == [v |-> 0,  n |-> 0]
NoFile   == [v |-> -2, n |-> 0]
Mixed(n) == IF n = 0 THEN Empty ELSE [v |-> -1, n |-> n]
Complete(j) == IF vers[j] = 0 THEN Empty ELSE [v |-> j, n |-> vers[j]]

Max(a, b) == IF a >= b THEN a ELSE b
Range(f)  == {f[x] : x \in DOMAIN f}
Restrict(f, S) == [x \in (DOMAIN f \cap S) |-> f[x]]

Binding(p)   == IF p \in DOMAIN dir THEN dir[p] ELSE 0
ContentOf(i) == IF i = 0 THEN NoFile ELSE ino[i].cur
ContentAt(p) == ContentOf(Binding(p))
PossOf(i)    == IF i = 0 THEN {NoFile} ELSE ino[i].poss

\* The tag given to bytes written now.
Tag == IF phase = "saving" THEN k ELSE -1

\* Result of writing m bytes at position pos into content c.
Written(c, pos, m) ==
  IF m = 0 THEN c
  ELSE IF Tag > 0 /\ pos = c.n /\ (c.n = 0 \/ c.v = Tag)
       THEN [v |-> Tag, n |-> c.n + m]
       ELSE Mixed(Max(c.n, pos + m))

\* Result of setting the length to len.
Cut(c, len) == IF len = c.n THEN c ELSE IF len = 0 THEN Empty ELSE Mixed(len)

FreshIno == CHOOSE i \in 1..(Cardinality(DOMAIN ino) + 1) : i \notin DOMAIN ino
FreshFd  == CHOOSE f \in 1..(Cardinality(DOMAIN fds) + 1) : f \notin DOMAIN fds

\* Inodes that can still be reached (a name, a descriptor, or the disk).
Live(d, f, dd) == Range(d) \cup {f[x].ino : x \in DOMAIN f} \cup (dd \ {0})

\* New durable-binding set after the directory changed from dir to d.
DDst(d) == LET b == IF Dst \in DOMAIN d THEN d[Dst] ELSE 0
           IN  IF b = Binding(Dst) THEN ddst ELSE ddst \cup {b}

(***************************************************************************)
(* File-system actions.  Each one constrains dir', ino', fds', ddst' only. *)
(***************************************************************************)

\* open(2)/openat(2)/creat(2).  fl = [creat, excl, trunc, app, sync].
FsOpen(fd, p, fl) ==
  /\ fd \notin DOMAIN fds
  /\ IF p \in DOMAIN dir
       THEN /\ ~(fl.creat /\ fl.excl)
            /\ dir' = dir
            /\ ddst' = ddst
            /\ fds' = fds @@ (fd :> [ino |-> dir[p], off |-> 0, app |-> fl.app, sync |-> fl.sync])
            /\ ino' = IF fl.trunc
                        THEN [ino EXCEPT ![dir[p]] = [cur |-> Empty, poss |-> @.poss \cup {Empty}]]
                        ELSE ino
       ELSE /\ fl.creat
            /\ LET i == FreshIno IN
               /\ dir' = dir @@ (p :> i)
               /\ ddst' = DDst(dir')
               /\ fds' = fds @@ (fd :> [ino |-> i, off |-> 0, app |-> fl.app, sync |-> fl.sync])
               /\ ino' = ino @@ (i :> [cur |-> Empty, poss |-> {Empty}])

\* write(2) (off = -1: at the descriptor's offset / at the end for O_APPEND)
\* and pwrite64(2) (off >= 0).  m = the number of bytes actually written.
FsWrite(fd, m, off) ==
  /\ fd \in DOMAIN fds
  /\ LET d   == fds[fd]
         c   == ino[d.ino].cur
         pos == IF off >= 0 THEN off ELSE IF d.app THEN c.n ELSE d.off
         nc  == Written(c, pos, m)
     IN  /\ ino' = [ino EXCEPT ![d.ino] =
                      [cur |-> nc, poss |-> IF d.sync THEN {nc} ELSE @.poss \cup {nc}]]
         /\ fds' = IF off >= 0 THEN fds ELSE [fds EXCEPT ![fd].off = pos + m]
  /\ UNCHANGED <<dir, ddst>>

\* fsync(2)/fdatasync(2) on a descriptor of a regular file (D1).
FsFsync(fd) ==
  /\ fd \in DOMAIN fds
  /\ ino' = [ino EXCEPT ![fds[fd].ino].poss = {ino[fds[fd].ino].cur}]
  /\ UNCHANGED <<dir, fds, ddst>>

\* fsync(2) on a descriptor of Dst's directory (D2).
FsSyncDir ==
  /\ ddst' = {Binding(Dst)}
  /\ ino' = Restrict(ino, Live(dir, fds, ddst'))
  /\ UNCHANGED <<dir, fds>>

\* sync(2)/syncfs(2).
FsSync ==
  /\ ddst' = {Binding(Dst)}
  /\ ino' = [i \in (DOMAIN ino \cap Live(dir, fds, ddst')) |-> [cur |-> ino[i].cur, poss |-> {ino[i].cur}]]
  /\ UNCHANGED <<dir, fds>>

FsClose(fd) ==
  /\ fd \in DOMAIN fds
  /\ fds' = Restrict(fds, DOMAIN fds \ {fd})
  /\ ino' = Restrict(ino, Live(dir, fds', ddst))
  /\ UNCHANGED <<dir, ddst>>

\* rename(2) that succeeded.  The caller guarantees D3 (same file system).
FsRename(a, b) ==
  /\ a \in DOMAIN dir
  /\ IF a = b \/ Binding(a) = Binding(b)
       THEN UNCHANGED <<dir, ino, ddst>>
       ELSE /\ dir' = [p \in ((DOMAIN dir \ {a}) \cup {b}) |-> IF p = b THEN dir[a] ELSE dir[p]]
            /\ ddst' = DDst(dir')
            /\ ino' = Restrict(ino, Live(dir', fds, ddst'))
  /\ UNCHANGED fds

FsUnlink(p) ==
  /\ p \in DOMAIN dir
  /\ dir' = Restrict(dir, DOMAIN dir \ {p})
  /\ ddst' = DDst(dir')
  /\ ino' = Restrict(ino, Live(dir', fds, ddst'))
  /\ UNCHANGED fds

\* link(2)/linkat(2): fails if b exists, so it can create but not replace.
FsLink(a, b) ==
  /\ a \in DOMAIN dir
  /\ b \notin DOMAIN dir
  /\ dir' = dir @@ (b :> dir[a])
  /\ ddst' = DDst(dir')
  /\ UNCHANGED <<ino, fds>>

\* ftruncate(2).
FsFtruncate(fd, len) ==
  /\ fd \in DOMAIN fds
  /\ LET i == fds[fd].ino nc == Cut(ino[i].cur, len)
     IN  ino' = [ino EXCEPT ![i] = [cur |-> nc, poss |-> @.poss \cup {nc}]]
  /\ UNCHANGED <<dir, fds, ddst>>

\* truncate(2).
FsTruncate(p, len) ==
  /\ p \in DOMAIN dir
  /\ LET i == dir[p] nc == Cut(ino[i].cur, len)
     IN  ino' = [ino EXCEPT ![i] = [cur |-> nc, poss |-> @.poss \cup {nc}]]
  /\ UNCHANGED <<dir, fds, ddst>>

(***************************************************************************)
(* Save-level actions (constrain armed, phase, k, vers, prev, good, reads) *)
(***************************************************************************)

\* What the path may hold at this instant.
Allowed == IF phase = "saving" THEN {prev, Complete(k)} ELSE {prev}

\* The environment has finished preparing the directory and declares what
\* is at the path: nothing (size = -1) or version 1 of the given size,
\* durably (the harness fsyncs file and directory before it says so).
Arm(size) ==
  /\ ~armed
  /\ armed' = TRUE
  /\ phase' = "idle"
  /\ IF size < 0
       THEN /\ Dst \notin DOMAIN dir
            /\ k' = 0 /\ vers' = <<>> /\ prev' = NoFile /\ good' = {NoFile}
            /\ ddst' = {0}
            /\ UNCHANGED <<dir, ino, fds>>
       ELSE /\ Dst \in DOMAIN dir
            /\ k' = 1 /\ vers' = <<size>>
            /\ LET c == IF size = 0 THEN Empty ELSE [v |-> 1, n |-> size] IN
               /\ prev' = c /\ good' = {c}
               /\ ino' = [ino EXCEPT ![dir[Dst]] = [cur |-> c, poss |-> {c}]]
            /\ ddst' = {dir[Dst]}
            /\ UNCHANGED <<dir, fds>>
  /\ reads' = <<>>

\* A save of a new version of the given size starts now.
BeginSave(size) ==
  /\ good # {} /\ phase = "idle"        \* good # {}: Arm or ArmSeen happened
  /\ phase' = "saving"
  /\ k' = k + 1
  /\ vers' = Append(vers, size)
  /\ LET c == IF size = 0 THEN Empty ELSE [v |-> k + 1, n |-> size] IN
     /\ good' = good \cup {c}
     /\ reads' = [r \in DOMAIN reads |-> reads[r] \cup {c}]
  /\ UNCHANGED <<armed, prev>>

\* The save call returned.  Whatever is at the path now is "previous" for
\* the next save (a save may legitimately fail or decide there is nothing
\* to do: then the path still holds prev).
EndSave ==
  /\ phase = "saving"
  /\ phase' = "idle"
  /\ prev' = ContentAt(Dst)
  /\ UNCHANGED <<armed, k, vers, good, reads>>

\* Variants for traces that contain no system calls, only what a reader of
\* the path observed (the poll runs): the file-system part of the model and
\* the invariants over it stay switched off (armed = FALSE); the environment
\* states what it found at the path before the first and after every save.
ArmSeen(size) ==
  /\ ~armed /\ good = {}
  /\ phase' = "idle"
  /\ IF size < 0
       THEN k' = 0 /\ vers' = <<>> /\ prev' = NoFile /\ good' = {NoFile}
       ELSE LET c == IF size = 0 THEN Empty ELSE [v |-> 1, n |-> size] IN
            k' = 1 /\ vers' = <<size>> /\ prev' = c /\ good' = {c}
  /\ reads' = <<>>
  /\ UNCHANGED <<armed, dir, ino, fds, ddst>>

EndSaveSeen(c) ==
  /\ ~armed /\ phase = "saving"
  /\ phase' = "idle"
  /\ prev' = c
  /\ UNCHANGED <<armed, k, vers, good, reads>>

\* A reader opens the path now ...
ReadBegin(r) ==
  /\ r \notin DOMAIN reads
  /\ reads' = reads @@ (r :> Allowed)

\* ... and has read the whole file: c must be something the path was
\* allowed to hold at some instant in between.
ReadOK(r, c) == r \in DOMAIN reads /\ c \in reads[r]
ReadEnd(r) ==
  /\ r \in DOMAIN reads
  /\ reads' = Restrict(reads, DOMAIN reads \ {r})

(***************************************************************************)
(* The property.                                                           *)
(***************************************************************************)

\* At this very instant the path holds the previous or the new version.
InstantOK == armed /\ phase # "crashed" => ContentAt(Dst) \in Allowed

\* Whatever a power failure leaves behind now is a complete version:
\* for every inode the path may durably be bound to (D2) and every content
\* the disk may hold for that inode (D1).
CrashSafe == armed => \A i \in ddst : \A c \in PossOf(i) : c \in good

\* The same, restricted to the strict reading "previous or new" under the
\* extra assumption that directory operations are durable at once
\* (ddst = {current binding}); used by the exhaustive model only.
CrashStrict == armed /\ phase # "crashed" =>
                 \A c \in PossOf(Binding(Dst)) : c \in Allowed

TypeOK ==
  /\ \A p \in DOMAIN dir : dir[p] \in DOMAIN ino
  /\ \A f \in DOMAIN fds : fds[f].ino \in DOMAIN ino
  /\ \A i \in ddst : i = 0 \/ i \in DOMAIN ino
  /\ \A i \in DOMAIN ino : ino[i].cur \in ino[i].poss
  /\ Binding(Dst) \in ddst \/ ~armed
=============================================================================
