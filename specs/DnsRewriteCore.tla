--------------------------- MODULE DnsRewriteCore ---------------------------
(***************************************************************************)
(* G02 -- $dnsrewrite filtering rules, system-hosts rewrites and their     *)
(* place among legacy rewrites and ordinary blocking / allow rules.        *)
(*                                                                         *)
(* Pure operators (no constants, no variables): the exhaustive model       *)
(* (DnsRewrite.tla) and trace validation (TraceDnsRewrite.tla) share this  *)
(* text.                                                                   *)
(*                                                                         *)
(* Sources (the statement is in notes/G02.md):                             *)
(*   * AGHTechDoc.md "Filtering": the order "process Rewrite rules /       *)
(*     process /etc/hosts entries (can set a list of IP addresses or a     *)
(*     hostname for PTR requests) / match host name against filtering      *)
(*     lists"; the same order is the list of checkers in filtering.New.    *)
(*   * the project wiki, "Hosts-Blocklists", section dnsrewrite (quoted in *)
(*     notes/G02.md): shorthand and full syntax, "Rules with the           *)
(*     dnsrewrite response modifier have higher priority than other rules  *)
(*     in AdGuard Home", "the answer section will only contain RRs that    *)
(*     match the request's query type and, possibly, CNAME RRs ... may     *)
(*     become empty (NODATA)", "Keyword rewrites take precedence over the  *)
(*     other and will result in an empty response with an appropriate      *)
(*     response code", "Next, the CNAME rewrite.  After that, all other    *)
(*     records' values are summed as one response", the exception rules    *)
(*     "@@||example.com^$dnsrewrite" (all) and "...$dnsrewrite=1.2.3.4"    *)
(*     (one).                                                              *)
(*   * CHANGELOG.md: "$important,dnsrewrite rules not overriding allowlist *)
(*     rules (#6204)", "dnsrewrite rules and other DNS rewrites will now   *)
(*     be applied even when the protection is disabled (#1558)", "Support  *)
(*     for a dnsrewrite modifier with an empty NOERROR response (#4133)",  *)
(*     "$dnsrewrite rules containing IPv4-mapped IPv6 addresses ... match  *)
(*     the AAAA requests", "Names defined in the /etc/hosts for a single   *)
(*     address family wrongly considered undefined for another family      *)
(*     (#6541)", "Omitted aliases of hosts specified by another line       *)
(*     (#4079)", "Ability to disable the use of system hosts file          *)
(*     information for query resolution (#6610)".                          *)
(*   * doc comments of processDNSResultRewrites ("A rewrite of a host to   *)
(*     itself.  Go on and try matching other things"), of                  *)
(*     urlfilter DNSResult.DNSRewrites (exception logic) and of         *)
(*     removeMatchingException ("$important,dnsrewrite disables all",      *)
(*     "do not match important rules unless the exception is important").  *)
(*                                                                         *)
(* Rule matching (pattern, $dnstype, $client, $denyallow) and the          *)
(* precedence among ordinary rules are RuleEngine.tla's (C01); the legacy  *)
(* rewrite table is RewritesCore.tla's (C06).  Neither is edited.          *)
(*                                                                         *)
(* Vocabulary                                                              *)
(*   name    sequence of labels.  <<tok, "REV">> is the reverse-lookup     *)
(*           name (in-addr.arpa / ip6.arpa) of the address token tok.      *)
(*   rule    RuleEngine's rule record plus the field rw, the value of the  *)
(*           rule's $dnsrewrite modifier:                                  *)
(*             [k |-> "none"]     no $dnsrewrite: an ordinary rule         *)
(*             [k |-> "empty"]    "$dnsrewrite" without a value            *)
(*             [k |-> "rcode", t] keyword / "RCODE;;" with t in NXDOMAIN,  *)
(*                                REFUSED, SERVFAIL                        *)
(*             [k |-> "noerror"]  "NOERROR" / "NOERROR;;"                  *)
(*             [k |-> "cname", n] "name" / "NOERROR;CNAME;name"            *)
(*             [k |-> "rr", t, v] "NOERROR;t;value" (for A / AAAA also the *)
(*                                shorthand "address"); v is a token       *)
(*           (all four fields k, t, v, n are always present).  How a value *)
(*           is SPELLED (shorthand or full form) is not part of the value: *)
(*           the harness varies it.  kind = "block" is a rewriting rule,   *)
(*           kind = "allow" (@@) an exception.                             *)
(*   hosts   set of lines [ip |-> address token, names |-> set of names]   *)
(*   cfg     [rules, hosts, hostsOn, legacy, filt, prot]                   *)
(*             rules    set of rules; place = "allow" is the allow-list    *)
(*                      engine, "custom" / "block" the blocking engine     *)
(*             hostsOn  hosts_file_enabled                                 *)
(*             legacy   RewritesCore table (sequence of entries)           *)
(*             filt     filtering_enabled        prot  protection_enabled  *)
(*   rq      [host |-> name, qt |-> question type, c1 |-> BOOLEAN (the     *)
(*           request comes from the client that $client rules name)]       *)
(*   outcome [r, rcode, canon, vals, up]                                   *)
(*             r      "none"    nothing applies (NotFilteredNotFound)      *)
(*                    "legacy"  answered by the legacy table (Rewritten)   *)
(*                    "hosts"   system hosts (RewrittenAutoHosts)          *)
(*                    "rule"    $dnsrewrite rules (RewrittenRule)          *)
(*                    "block"   ordinary blocking rule (FilteredBlockList) *)
(*                    "allow"   exception / allow list                     *)
(*             rcode  reply code decided locally, "" when the upstream's   *)
(*             canon  canonical name, <<>> if none                         *)
(*             vals   set of record values of the question's type, each a  *)
(*                    sequence: <<token>> or, for PTR answers from the     *)
(*                    hosts file, the host name itself                     *)
(*             up     the upstream is needed to complete the answer        *)
(*                                                                         *)
(* Outcomes(cfg, rq) is the SET of admissible outcomes: a singleton except *)
(* at the places marked SILENT.                                            *)
(***************************************************************************)
EXTENDS Sequences, Naturals, FiniteSets

RE == INSTANCE RuleEngine
LR == INSTANCE RewritesCore

Out(r, rcode, canon, vals, up) ==
    [r |-> r, rcode |-> rcode, canon |-> canon, vals |-> vals, up |-> up]

NoneO  == Out("none",  "", <<>>, {}, TRUE)
AllowO == Out("allow", "", <<>>, {}, TRUE)
BlockO == Out("block", "", <<>>, {}, FALSE)

\* ------------------------------------------------------------- rewrite values
NoRw       == [k |-> "none",    t |-> "", v |-> "", n |-> <<>>]
EmptyRw    == [k |-> "empty",   t |-> "", v |-> "", n |-> <<>>]
NoErrorRw  == [k |-> "noerror", t |-> "", v |-> "", n |-> <<>>]
RcodeRw(c) == [k |-> "rcode",   t |-> c,  v |-> "", n |-> <<>>]
CnameRw(n) == [k |-> "cname",   t |-> "", v |-> "", n |-> n]
RRRw(t, v) == [k |-> "rr",      t |-> t,  v |-> v,  n |-> <<>>]

IsDR(r) == r.rw.k # "none"

\* The request in RuleEngine's vocabulary ($client is always written as an
\* address here).
REq(rq) == [host |-> RE!NameHost(rq.host), rrtype |-> rq.qt, c1 |-> rq.c1, named |-> FALSE]

\* Rules of the blocking engine (custom rules and block lists) and of the
\* allow-list engine.
BlockSide(cfg) == {r \in cfg.rules : r.place # "allow"}
AllowSide(cfg) == {r \in cfg.rules : r.place = "allow"}

\* The $dnsrewrite rules that apply to the request: pattern, $dnstype,
\* $client and $denyallow decide as for any other rule.
Applying(cfg, rq) == {r \in BlockSide(cfg) : IsDR(r) /\ RE!NetMatches(r, REq(rq))}
RwRules(m) == {r \in m : r.kind = "block"}
RwExcs(m)  == {r \in m : r.kind = "allow"}

(***************************************************************************)
(* Exceptions.  "@@...$dnsrewrite" removes all rewriting rules,            *)
(* "@@...$dnsrewrite=value" the ones with that value.  $important: an      *)
(* important rewriting rule is only removed by an important exception      *)
(* (CHANGELOG #6204 and removeMatchingException's comments).  An exception *)
(* never produces an answer itself.                                        *)
(*                                                                         *)
(* SILENT (structured): the wiki shows a specific exception only for an    *)
(* address.  For values that are several fields (MX, SVCB, HTTPS, SRV) it  *)
(* does not say that "the same text" is "the same value"; both readings    *)
(* are admitted (the code never equates them).                             *)
(***************************************************************************)
Structured == {"MX", "HTTPS", "SVCB", "SRV"}
IsStructured(r) == r.rw.k = "rr" /\ r.rw.t \in Structured

ImpOK(e, r)      == e.imp \/ ~r.imp
CancelsAll(e, r) == e.rw.k = "empty" /\ ImpOK(e, r)
CancelsOne(e, r) == e.rw.k # "empty" /\ e.rw = r.rw /\ ImpOK(e, r)

\* The admissible sets of surviving rewriting rules.
Survivors(m) ==
    LET rw    == RwRules(m)
        ex    == RwExcs(m)
        gone  == {r \in rw : \E e \in ex : CancelsAll(e, r) \/ (CancelsOne(e, r) /\ ~IsStructured(r))}
        maybe == {r \in rw \ gone : \E e \in ex : CancelsOne(e, r)}
    IN {(rw \ gone) \ X : X \in SUBSET maybe}

\* ------------------------------------------------------------ ordinary rules
\* What the blocking engine says when no $dnsrewrite rule decides: RuleEngine's
\* precedence over the rules without $dnsrewrite; nothing when protection is
\* off.
Ordinary(cfg, rq) ==
    IF ~cfg.prot THEN NoneO
    ELSE LET e == RE!Engine({r \in BlockSide(cfg) : ~IsDR(r)}, REq(rq)) IN
         IF e.k = "none" THEN NoneO
         ELSE IF e.k = "net" /\ e.allow THEN AllowO
         ELSE BlockO

AllowListed(cfg, rq) ==
    cfg.prot /\ RE!Engine({r \in AllowSide(cfg) : ~IsDR(r)}, REq(rq)).k # "none"

(***************************************************************************)
(* What a set S of surviving rewriting rules answers.                      *)
(*   keyword (an RCODE other than NOERROR): empty response with that code; *)
(*   CNAME: the canonical name, to be resolved upstream -- except a rewrite *)
(*          of a name to itself, which is no rewrite at all ("go on and    *)
(*          try matching other things");                                   *)
(*   otherwise NOERROR with the values of the rules whose type is the      *)
(*          question's type, all of them ("summed"), possibly none         *)
(*          (NODATA).                                                      *)
(* SILENT (mixed): when S mixes keywords, CNAMEs and records the wiki says *)
(* keywords first, then CNAME, then the records; the code's comments say   *)
(* both "NewCNAME rules have a higher priority than other rules" and       *)
(* "RcodeRefused and other such codes have higher priority" and take       *)
(* whichever comes first in the rule list; the NOERROR keyword is a        *)
(* keyword for the wiki and an empty record set for the code.  Admitted:   *)
(* any one keyword or CNAME rule of S wins; if S has neither (or only the  *)
(* NOERROR keyword and records) the records, or, with the NOERROR keyword, *)
(* the empty NOERROR response.  Several CNAME rules / several different    *)
(* keywords: any one.                                                      *)
(***************************************************************************)
FromSurvivors(S, cfg, rq) ==
    LET K  == {r \in S : r.rw.k = "rcode"}
        N  == {r \in S : r.rw.k = "noerror"}
        C  == {r \in S : r.rw.k = "cname"}
        R  == {r \in S : r.rw.k = "rr"}
        Kw(r) == Out("rule", r.rw.t, <<>>, {}, FALSE)
        Cn(r) == IF r.rw.n = rq.host THEN Ordinary(cfg, rq)
                 ELSE Out("rule", "", r.rw.n, {}, TRUE)
        Rec == Out("rule", "NOERROR", <<>>, {<<r.rw.v>> : r \in {x \in R : x.rw.t = rq.qt}}, FALSE)
        Ne  == Out("rule", "NOERROR", <<>>, {}, FALSE)
    IN IF S = {} THEN {Ordinary(cfg, rq)}
       ELSE IF K \cup C # {}
            THEN {Kw(r) : r \in K} \cup {Cn(r) : r \in C}
                 \cup (IF N # {} /\ K = {} THEN {Ne} ELSE {})      \* wiki: the NOERROR keyword is a keyword
       ELSE IF N # {} THEN {Ne, Rec}
       ELSE {Rec}

DnsRewriteOutcomes(cfg, rq) ==
    UNION {FromSurvivors(S, cfg, rq) : S \in Survivors(Applying(cfg, rq))}

(***************************************************************************)
(* The filtering-rules stage.  SILENT (allow list): a name on an allow     *)
(* LIST is answered as allowed before $dnsrewrite rules of the block lists *)
(* are looked at, while the wiki gives $dnsrewrite rules priority over     *)
(* "other rules"; both are admitted when both apply.  (An exception rule   *)
(* "@@||name^" among the custom rules / block lists is an ordinary rule    *)
(* and never beats a $dnsrewrite rule.)                                    *)
(***************************************************************************)
RulesOutcomes(cfg, rq) ==
    IF ~cfg.filt THEN {NoneO}
    ELSE LET dr == DnsRewriteOutcomes(cfg, rq) IN
         IF AllowListed(cfg, rq) THEN {AllowO} \cup {o \in dr : o.r = "rule"}
         ELSE dr

\* ---------------------------------------------------------------- hosts file
\* Address tokens that stand for IPv6 addresses (h6m / v6m: IPv4-mapped ones,
\* which are IPv6 addresses and answer AAAA questions).
V6Tokens == {"h6a", "h6b", "h6c", "h6m", "v6a", "v6b", "v6m", "l6"}
IsV6(tok) == tok \in V6Tokens

IsRev(n) == Len(n) = 2 /\ n[2] = "REV"

HostsAddrs(hosts, n) == {l.ip : l \in {x \in hosts : n \in x.names}}
HostsNames(hosts, ip) == UNION {l.names : l \in {x \in hosts : x.ip = ip}}

(***************************************************************************)
(* A / AAAA: a name that appears on any line of the hosts file is answered *)
(* from it: all its addresses of the question's family, from all lines; a  *)
(* name that only has addresses of the other family is known and gets the  *)
(* empty answer (#6541).  PTR: a reverse name of an address in the file is *)
(* answered with all names of that address.  Other types, other names: the *)
(* hosts file says nothing.  The result is {} (no match) or one outcome.   *)
(***************************************************************************)
HostsOutcomes(cfg, rq) ==
    IF ~(cfg.filt /\ cfg.hostsOn) THEN {}
    ELSE IF rq.qt \in {"A", "AAAA"}
    THEN LET as == HostsAddrs(cfg.hosts, rq.host) IN
         IF as = {} THEN {}
         ELSE {Out("hosts", "NOERROR", <<>>, {<<a>> : a \in {x \in as : IsV6(x) = (rq.qt = "AAAA")}}, FALSE)}
    ELSE IF rq.qt = "PTR" /\ IsRev(rq.host)
    THEN LET ns == HostsNames(cfg.hosts, rq.host[1]) IN
         IF ns = {} THEN {} ELSE {Out("hosts", "NOERROR", <<>>, ns, FALSE)}
    ELSE {}

\* -------------------------------------------------------------- legacy table
LegacyOutcome(l) == Out("legacy", "NOERROR", l.canon, {<<a>> : a \in l.ips}, l.up)

(***************************************************************************)
(* The whole check, in the documented order: legacy rewrites, then the     *)
(* hosts file, then the filtering rules ($dnsrewrite before ordinary       *)
(* rules).  With filtering disabled nothing applies; with protection       *)
(* disabled the three kinds of rewrites still apply and ordinary rules and *)
(* allow lists do not (#1558).                                             *)
(***************************************************************************)
Outcomes(cfg, rq) ==
    LET leg == IF cfg.filt THEN LR!Outcomes(cfg.legacy, rq.host, rq.qt) ELSE {LR!Pass} IN
    UNION {IF l.r = "rw" THEN {LegacyOutcome(l)}
           ELSE LET h == HostsOutcomes(cfg, rq) IN
                IF h # {} THEN h ELSE RulesOutcomes(cfg, rq)
          : l \in leg}

(***************************************************************************)
(* KNOWN FINDING G02:exception-after-exception-becomes-rewrite.  NOT part  *)
(* of the statement: a description of what the unchanged code does, used   *)
(* only to classify a reproduced disagreement narrowly.  When two          *)
(* exceptions follow each other in the list of applying rules, the second  *)
(* is not applied and is then treated as a REWRITING rule with its own     *)
(* value (an exception without value: an empty NOERROR response).          *)
(* SkipOutcomes is what would be answered if some non-empty proper subset  *)
(* Sk of the applying exceptions were treated that way.                    *)
(***************************************************************************)
SkipOutcomes(cfg, rq) ==
    LET m  == Applying(cfg, rq)
        ex == RwExcs(m)
        AsRw(e) == [e EXCEPT !.kind = "block", !.rw = IF e.rw.k = "empty" THEN NoErrorRw ELSE e.rw]
    IN IF Cardinality(ex) < 2 THEN {}
       ELSE UNION {
              UNION {FromSurvivors(S \cup {AsRw(e) : e \in Sk}, cfg, rq)
                     : S \in Survivors(m \ Sk)}
            : Sk \in (SUBSET ex) \ {{}, ex}}

(***************************************************************************)
(* What the client and the upstream see.  Sym is what is decided before    *)
(* the upstream is consulted, Complete fills in what the upstream said     *)
(* about the one name it was asked (behaviours as in RewritesCore:         *)
(* "answer" | "nodata" | "nxdomain" | "servfail").                         *)
(*   ask     the name put to the upstream (with the client's question      *)
(*           type), <<>> if the upstream is not asked                      *)
(*   cname   target of the CNAME record leading the answer, <<>> if none   *)
(*   vals    record values answered locally                                *)
(*   rcode   reply code                                                    *)
(*   fromup  name whose upstream records complete the answer, <<>> if none *)
(*   blocked an ordinary blocking rule answered (how is C01's business:    *)
(*           only "the upstream is not asked" is demanded here)            *)
(* The question section of the reply is always the client's question; the  *)
(* CNAME record of a followed rewrite is always there ("AdGuard Home will  *)
(* resolve the host and add its info to the response").                    *)
(***************************************************************************)
Sym(o, h) ==
    IF o.r \in {"none", "allow"}
    THEN [ask |-> h, cname |-> <<>>, vals |-> {}, rcode |-> "", blocked |-> FALSE]
    ELSE IF o.r = "block"
    THEN [ask |-> <<>>, cname |-> <<>>, vals |-> {}, rcode |-> "", blocked |-> TRUE]
    ELSE IF o.up /\ o.canon # <<>>
    THEN [ask |-> o.canon, cname |-> o.canon, vals |-> {}, rcode |-> "", blocked |-> FALSE]
    ELSE [ask |-> <<>>, cname |-> o.canon, vals |-> o.vals,
          rcode |-> IF o.rcode = "" THEN "NOERROR" ELSE o.rcode, blocked |-> FALSE]

Complete(s, m) ==
    [ask |-> s.ask, cname |-> s.cname, vals |-> s.vals, blocked |-> s.blocked,
     rcode  |-> IF s.ask # <<>> THEN LR!UpRcode(m) ELSE s.rcode,
     fromup |-> IF s.ask # <<>> /\ m = "answer" THEN s.ask ELSE <<>>]

Serve(o, h, UpMode(_)) == LET s == Sym(o, h) IN Complete(s, UpMode(s.ask))
=============================================================================
