PROPERTY = "G11"
ENTRY = {
        "text": "TODO",
        "design_ref": "DESIGN.md section 5; notes/G11.md",
        "note": "TODO",
        "technique": "TLA+ state machine explored by TLC; edge-covering tour replay into real code + TLC trace validation",
    }
