PROPERTY = "C08"
ENTRY = {
        "text": "IgnoreAnon.tla models the tail stage (query log memory buffer + querylog.json + statistics unit/top clients + log API) as a state machine over "
                "scripts 'configure, record, flush, reconfigure, record, reconfigure'; TLC checks the statement's invariants (nothing ignored recorded, log API returns nothing "
                "currently ignored, addresses stored/reported after the last toggle anonymised) on the intended mechanism over all 1808 scripts (6 names incl. root and a suffix look-alike x 9 senders "
                "(v4, v6, 4-in-6, ClientIDs) x 3 rounds + ANY probes; run-time SetAnonymise/SetQueryLogEnabled/SetStatsEnabled in every combination through the current and the legacy endpoint; 6 ignore-list families incl. ||n^, *.n, |.^; persistent client by IP / anonymised IP / CIDR surviving or not "
                "surviving anonymisation / MAC lease / ClientID x ignore flags x anonymise x refuse-ANY) and shows the as-built mechanism and the strict search-time clause violated. "
                "Every script is replayed against the real wiring of package home (clients container + glue, querylog, stats, IPMut, dnsforward server; UDP and DoH transports) and "
                "all five stores are compared with the spec's verdict tables after every step; random server lives over a larger universe are validated by TraceIgnoreAnon.tla.",
        "design_ref": "DESIGN.md section 4 C08",
        "note": "Trusted: TLC, conc()/abs() of zz_verif_c08_test.go, my reading of the four ignore-rule forms (validated on the unchanged tree). Expected-present entries that are missing are "
                "treated as an unreliable observation channel (exit 2), not as a violation: the statement forbids recording, it does not demand it. A DNS message has no relative names, so "
                "'without trailing dot' does not exist at this entry point; nothing is demanded of records stored before an anonymisation toggle. "
                "Three findings fixed in /repo, three open (search-time half; zoned IPv6 identifier in statistics; 4-in-6 identifier) -- see known_findings/C08.jsonl.",
        "technique": "TLA+ state-machine spec model-checked and enumerated by TLC; script replay into the real code with per-step store comparison + TLC trace validation",
    }
