SPECIFICATION Spec
CONSTANT W = 8
INVARIANTS CandsConsistent NeverEmpty
