package stats

// C09 conformance harness.
//
// Direction A (TestZZVerifC09Walk): the labelled edges that TLC emitted from
// specs/Stats.tla are walked on the real StatsCtx (temp bbolt file, injected
// UnitID clock, real HTTP handlers); after every step GET /control/stats is
// compared with the reply the spec admits in the destination state.
//
// Direction B (TestZZVerifC09Trace): seeded long histories over the real
// constants are recorded for specs/TraceStats.tla.
//
// Schedules (TestZZVerifC09Conc): Update / flush / GET running in ungated
// goroutines; invocation/response histories for specs/TraceStatsConc.tla.
// The same test is also run under -race.
//
// The harness only concretises, drives and projects; TLC/the spec decide.

import (
	"bytes"
	"encoding/json"
	"fmt"
	"math/rand"
	"net/http"
	"net/http/httptest"
	"os"
	"path/filepath"
	"runtime"
	"sort"
	"strconv"
	"strings"
	"sync"
	"sync/atomic"
	"testing"
	"time"

	"github.com/AdguardTeam/AdGuardHome/internal/aghnet"
	"github.com/AdguardTeam/dnsproxy/proxy"
	"github.com/AdguardTeam/golibs/logutil/slogutil"
	"go.etcd.io/bbolt"
)

// zzC09NoSync makes bbolt skip fdatasync for databases opened with default
// options in this test process (an exported knob of the library; the module
// under test is not touched).  The scratch database lives on a real disk
// where every commit would otherwise cost 4-7 ms; durability across power
// loss is not part of C09 (clean shutdown only).  Called by the C09 tests
// only, so the package's own tests are not affected.
func zzC09NoSync() { bbolt.DefaultOptions.NoSync = true }

// ---------------------------------------------------------------- the system

// zzC09Sys is one real statistics module together with the things around it
// that the spec calls the environment: the wall clock (hour) and the
// configuration file (conf).
type zzC09Sys struct {
	s        *StatsCtx
	handlers map[string]http.HandlerFunc
	rng      *rand.Rand
	file     string
	catMap   []Result
	conf     Config
	hour     atomic.Uint32
	nUpd     int
	payMode  int
}

// zzC09Clients etc. are the pools the concrete entries are drawn from.
var (
	zzC09Clients = []string{"192.168.7.1", "192.168.7.2", "10.0.0.77", "fd00::7", "client-id-7", "127.0.0.1"}
	zzC09Domains = []string{"example.com", "a.example.com", "EXAMPLE.org", "b.c.example.net", "x", "ads.example"}
	zzC09Ups     = []string{"8.8.8.8:53", "tls://dns.example:853", "https://dns.example/dns-query", "[2001:db8::1]:53"}
)

// zzC09NewSys creates a fresh module in dir: empty database, clock at base.
func zzC09NewSys(dir string, seed int64, catMap []Result, base uint32, limitH int, enabled bool) (y *zzC09Sys, err error) {
	y = &zzC09Sys{
		rng:     rand.New(rand.NewSource(seed)),
		file:    filepath.Join(dir, "stats.db"),
		catMap:  catMap,
		payMode: -1,
	}
	_ = os.Remove(y.file)
	y.hour.Store(base)

	ign, err := aghnet.NewIgnoreEngine([]string{})
	if err != nil {
		return nil, err
	}

	y.conf = Config{
		Logger:            slogutil.NewDiscardLogger(),
		UnitID:            func() (id uint32) { return y.hour.Load() },
		ConfigModified:    func() {},
		ShouldCountClient: func([]string) (ok bool) { return true },
		Ignored:           ign,
		Filename:          y.file,
		Limit:             time.Duration(limitH) * time.Hour,
		Enabled:           enabled,
	}

	return y, y.open()
}

// open is New + registration of the HTTP handlers, as Start does, without the
// background flusher: the periodic step is an explicit action here.
func (y *zzC09Sys) open() (err error) {
	y.handlers = map[string]http.HandlerFunc{}
	conf := y.conf
	conf.HTTPRegister = func(method, url string, h http.HandlerFunc) { y.handlers[method+" "+url] = h }

	y.s, err = New(conf)
	if err != nil {
		return fmt.Errorf("stats.New: %w", err)
	}

	y.s.initWeb()

	return nil
}

func (y *zzC09Sys) destroy() {
	if y.s != nil {
		_ = y.s.Close()
		y.s = nil
	}
	_ = os.Remove(y.file)
}

// call runs one registered handler.
func (y *zzC09Sys) call(method, url string, body []byte) (code int, resp []byte, err error) {
	h := y.handlers[method+" "+url]
	if h == nil {
		return 0, nil, fmt.Errorf("no handler for %s %s", method, url)
	}

	var rd *bytes.Reader
	if body == nil {
		rd = bytes.NewReader(nil)
	} else {
		rd = bytes.NewReader(body)
	}

	r := httptest.NewRequest(method, url, rd)
	if body != nil {
		r.Header.Set("Content-Type", "application/json")
	}

	w := httptest.NewRecorder()
	h(w, r)

	return w.Code, w.Body.Bytes(), nil
}

// putConfig changes the configuration through the current HTTP API the way
// the web client does: read it, change a field, write it back.
func (y *zzC09Sys) putConfig(change func(m map[string]any)) (err error) {
	code, b, err := y.call(http.MethodGet, "/control/stats/config", nil)
	if err != nil || code != http.StatusOK {
		return fmt.Errorf("get config: code %d err %v", code, err)
	}

	m := map[string]any{}
	if err = json.Unmarshal(b, &m); err != nil {
		return fmt.Errorf("get config: %w", err)
	}

	if m["ignored"] == nil {
		m["ignored"] = []string{}
	}

	change(m)

	body, err := json.Marshal(m)
	if err != nil {
		return err
	}

	code, b, err = y.call(http.MethodPut, "/control/stats/config/update", body)
	if err != nil || code != http.StatusOK {
		return fmt.Errorf("put config %s: code %d body %q err %v", body, code, b, err)
	}

	return nil
}

// zzC09Mix is splitmix64: a tiny deterministic stream derived from a payload
// seed.
type zzC09Mix uint64

func (m *zzC09Mix) next() (v uint64) {
	*m += 0x9e3779b97f4a7c15
	z := uint64(*m)
	z = (z ^ (z >> 30)) * 0xbf58476d1ce4e5b9
	z = (z ^ (z >> 27)) * 0x94d049bb133111eb

	return z ^ (z >> 31)
}

func (m *zzC09Mix) n(k int) (v int) { return int(m.next() % uint64(k)) }

// zzC09PayModes is the number of processing-time classes, see entry.
const zzC09PayModes = 6

// nextP draws the payload seed of the next counted query.  The low bits hold
// the processing-time class; the class is sticky (redrawn for every sixth
// query on average), so that whole hours consist of one class.
func (y *zzC09Sys) nextP() (p int64) {
	if y.payMode < 0 || y.rng.Intn(6) == 0 {
		y.payMode = y.rng.Intn(zzC09PayModes)
	}

	return (y.rng.Int63()>>4)<<3 | int64(y.payMode) | 1<<62
}

// entry concretises one counted query of real category res.  The statement
// says every counted query is in the totals whatever else it carries, so
// everything but the category is drawn from p over the boundary values of
// each field: processing time zero / below a microsecond / around one
// microsecond / ordinary / huge, one-character and maximal-length domain
// names, short and long client ids, upstream list nil / empty / several
// entries with cached, failed, zero-duration and huge-duration answers.
// (Empty domain or client make the entry invalid, i.e. not a counted query;
// they are not generated.)
func (y *zzC09Sys) entry(res Result, p int64) (e *Entry) {
	y.nUpd++
	m := zzC09Mix(p)
	mode := int(p & 7)
	if mode >= zzC09PayModes-1 {
		mode = m.n(zzC09PayModes - 1) // mixed: any class, entry by entry
	}

	var pt time.Duration
	switch mode {
	case 0:
		pt = 0
	case 1:
		pt = time.Duration(1 + m.n(999)) // below one microsecond
	case 2:
		pt = []time.Duration{999, 1000, 1001, 1999, 2000}[m.n(5)] // around one microsecond
	case 3:
		pt = time.Duration(m.n(5_000_000)) * time.Microsecond
	default:
		pt = time.Hour + time.Duration(m.n(2400))*time.Hour
	}

	e = &Entry{Result: res, ProcessingTime: pt}
	switch m.n(6) {
	case 0:
		e.Domain = "x"
	case 1:
		e.Domain = strings.Repeat(strings.Repeat("a", 62)+".", 3) + strings.Repeat("b", 61) + "." // 253 octets
	default:
		e.Domain = zzC09Domains[m.n(len(zzC09Domains))]
	}

	switch m.n(6) {
	case 0:
		e.Client = "c"
	case 1:
		e.Client = strings.Repeat("client-id-", 20)
	default:
		e.Client = zzC09Clients[m.n(len(zzC09Clients))]
	}

	switch m.n(5) {
	case 0:
		// nil list.
	case 1:
		e.UpstreamStats = []*proxy.UpstreamStatistics{}
	default:
		for n := 1 + m.n(3); n > 0; n-- {
			us := &proxy.UpstreamStatistics{
				Address:  zzC09Ups[m.n(len(zzC09Ups))],
				IsCached: m.n(4) == 0,
			}
			switch m.n(4) {
			case 0:
				us.QueryDuration = 0
			case 1:
				us.QueryDuration = time.Duration(1 + m.n(999))
			case 2:
				us.QueryDuration = time.Duration(m.n(900_000)) * time.Microsecond
			default:
				us.QueryDuration = 24 * time.Hour
			}

			if m.n(5) == 0 {
				us.Error = fmt.Errorf("upstream failed")
			}

			e.UpstreamStats = append(e.UpstreamStats, us)
		}
	}

	return e
}

// zzC09Recover turns a panic of the code under test into an error, so that it
// is compared, reproduced and reported like any other disagreement.
func zzC09Recover(err *error) {
	if p := recover(); p != nil {
		*err = fmt.Errorf("panic: %v", p)
	}
}

// do performs one abstract action on the real module; the payload of an
// update is drawn from the module's own seeded stream.
func (y *zzC09Sys) do(act string, x int) (err error) {
	var p int64
	if act == "update" || act == "flushfail" {
		p = y.nextP()
	}

	return y.doP(act, x, p)
}

// doP is do with the payload seed of the update given.
func (y *zzC09Sys) doP(act string, x int, p int64) (err error) {
	defer zzC09Recover(&err)

	switch act {
	case "update":
		y.s.Update(y.entry(y.catMap[x-1], p))
	case "tick":
		y.hour.Add(uint32(x))
	case "flush":
		y.s.flush()
	case "flushfail":
		// An I/O fault at the periodic step, injected with the package's own
		// means: either the bbolt database is closed underneath, so that
		// opening the write transaction fails, or the handle is momentarily
		// gone (as inside clear()).  The step runs, then the database is usable
		// again.  Which of the two is part of the recorded payload seed.
		db := y.s.db.Load()
		if db == nil {
			return fmt.Errorf("flushfail: no database")
		}

		if (p>>3)&1 == 0 {
			if err = db.Close(); err != nil {
				return fmt.Errorf("flushfail: closing: %w", err)
			}

			y.s.flush()
			err = y.s.openDB()
		} else {
			y.s.db.Store(nil)
			y.s.flush()
			y.s.db.Store(db)
		}
	case "close":
		// What home does on shutdown: the configuration goes to the file, the
		// module is closed.
		dc := Config{}
		y.s.WriteDiskConfig(&dc)
		y.conf.Limit, y.conf.Enabled, y.conf.Ignored = dc.Limit, dc.Enabled, dc.Ignored
		err = y.s.Close()
		y.s = nil
	case "open":
		err = y.open()
	case "limit":
		err = y.putConfig(func(m map[string]any) { m["interval"] = float64(x) * 3600_000 })
	case "enable":
		err = y.putConfig(func(m map[string]any) { m["enabled"] = x == 1 })
	case "clear":
		var code int
		code, _, err = y.call(http.MethodPost, "/control/stats_reset", nil)
		if err == nil && code != http.StatusOK {
			err = fmt.Errorf("stats_reset: code %d", code)
		}
	case "read":
		// The reply is fetched and compared after every step anyway.
	default:
		err = fmt.Errorf("unknown action %q", act)
	}

	return err
}

// ------------------------------------------------------------- projection

// zzC09Got is the projection of a GET /control/stats reply onto what the
// property names.
type zzC09Got struct {
	Units string    `json:"units"`
	Tot   []int64   `json:"tot"`
	NZ    [][]int64 `json:"nz"`
	Len   int       `json:"len"`
	Lens  []int     `json:"-"`
}

// read is GET /control/stats.  Tot = <<total, by real category 1..5>>, where
// category 1 (not filtered) is what the four reported categories leave of
// the total.  NZ = non-zero positions of the four series as <<pos, total,
// filtered, safebrowsing, parental>>, pos counted from 1 = oldest.
func (y *zzC09Sys) read() (g *zzC09Got, err error) {
	defer zzC09Recover(&err)

	code, b, err := y.call(http.MethodGet, "/control/stats", nil)
	if err != nil {
		return nil, err
	}

	if code != http.StatusOK {
		return nil, fmt.Errorf("GET /control/stats: code %d body %q", code, b)
	}

	resp := &StatsResp{}
	if err = json.Unmarshal(b, resp); err != nil {
		return nil, fmt.Errorf("GET /control/stats: %w", err)
	}

	f, sb, ss, p := int64(resp.NumBlockedFiltering), int64(resp.NumReplacedSafebrowsing),
		int64(resp.NumReplacedSafesearch), int64(resp.NumReplacedParental)
	tot := int64(resp.NumDNSQueries)
	g = &zzC09Got{
		Units: resp.TimeUnits,
		Len:   len(resp.DNSQueries),
		Lens:  []int{len(resp.DNSQueries), len(resp.BlockedFiltering), len(resp.ReplacedSafebrowsing), len(resp.ReplacedParental)},
		Tot:   []int64{tot, tot - f - sb - ss - p, f, sb, ss, p},
		NZ:    [][]int64{},
	}

	at := func(a []uint64, i int) (v int64) {
		if i < len(a) {
			return int64(a[i])
		}

		return 0
	}

	n := 0
	for _, l := range g.Lens {
		n = max(n, l)
	}

	for i := range n {
		row := []int64{int64(i + 1), at(resp.DNSQueries, i), at(resp.BlockedFiltering, i),
			at(resp.ReplacedSafebrowsing, i), at(resp.ReplacedParental, i)}
		if row[1] != 0 || row[2] != 0 || row[3] != 0 || row[4] != 0 {
			g.NZ = append(g.NZ, row)
		}
	}

	return g, nil
}

// ------------------------------------------------- direction A: comparison

// zzC09Slot is one slot of the reply the spec admits: hour `a` hours before
// the observed hour holds these counts; opt slots may be left out.
type zzC09Slot struct {
	By  []int64 `json:"by"`
	A   int     `json:"a"`
	T   int64   `json:"t"`
	Opt bool    `json:"opt"`
}

type zzC09Obs struct {
	Units string      `json:"units"`
	Slots []zzC09Slot `json:"slots"`
	Len   int         `json:"len"`
}

// real5 maps the abstract per-category counters of a slot to the real result
// categories: <<total, notfiltered, filtered, safebrowsing, safesearch, parental>>.
func (y *zzC09Sys) real5(sl *zzC09Slot) (r [6]int64) {
	r[0] = sl.T
	for i, n := range sl.By {
		r[int(y.catMap[i])] += n
	}

	return r
}

// zzC09Compare says in which respects the observed reply g is not admitted by
// the spec's reply o in a state whose limit is lim hours.
func (y *zzC09Sys) compare(lim int, o *zzC09Obs, g *zzC09Got) (msgs []string) {
	var kept [6]int64
	switch g.Units {
	case "hours":
		for _, l := range g.Lens {
			if l != lim {
				msgs = append(msgs, fmt.Sprintf("hourly series have lengths %v, the window has %d hours", g.Lens, lim))

				break
			}
		}

		nz := map[int][]int64{}
		for _, row := range g.NZ {
			nz[int(row[0])] = row
		}

		for i := range o.Slots {
			sl := &o.Slots[i]
			r := y.real5(sl)
			pos := lim - sl.A
			want := []int64{int64(pos), r[0], r[2], r[3], r[5]}
			got, ok := nz[pos]
			delete(nz, pos)
			switch {
			case ok && fmt.Sprint(got) == fmt.Sprint(want):
				for j := range kept {
					kept[j] += r[j]
				}
			case !ok && sl.Opt:
				// An hour that had left the window is not reported: admitted.
			case !ok:
				msgs = append(msgs, fmt.Sprintf("hour at age %d: reply has nothing, %v counted there", sl.A, want[1:]))
			default:
				msgs = append(msgs, fmt.Sprintf("hour at age %d: reply has %v, counted %v (total, filtered, safebrowsing, parental)", sl.A, got[1:], want[1:]))
			}

			if !sl.Opt && !(ok && fmt.Sprint(got) == fmt.Sprint(want)) {
				// Already reported; the totals below are judged on their own.
				for j := range kept {
					kept[j] += r[j]
				}
			}
		}

		for pos, row := range nz {
			msgs = append(msgs, fmt.Sprintf("hour at age %d: reply has %v, nothing counted there", lim-pos, row[1:]))
		}

		if fmt.Sprint(g.Tot) != fmt.Sprint(kept[:]) {
			msgs = append(msgs, fmt.Sprintf("totals %v, counted inside the window %v (total, notfiltered, filtered, safebrowsing, safesearch, parental)", g.Tot, kept[:]))
		}

		// The statement, directly on the reply: hourly series sum to the totals.
		var sums [5]int64
		for _, row := range g.NZ {
			for j := 1; j <= 4; j++ {
				sums[j] += row[j]
			}
		}

		if sums[1] != g.Tot[0] || sums[2] != g.Tot[2] || sums[3] != g.Tot[3] || sums[4] != g.Tot[5] {
			msgs = append(msgs, fmt.Sprintf("hourly series sum to %v, totals are %v", sums[1:], g.Tot))
		}
	case "days":
		// Totals: some choice of the optional hours must explain them.
		var opt []int
		var base [6]int64
		for i := range o.Slots {
			if o.Slots[i].Opt {
				opt = append(opt, i)

				continue
			}

			r := y.real5(&o.Slots[i])
			for j := range base {
				base[j] += r[j]
			}
		}

		found := false
		for k := 0; k < 1<<len(opt) && !found; k++ {
			cand := base
			for b, i := range opt {
				if k&(1<<b) != 0 {
					r := y.real5(&o.Slots[i])
					for j := range cand {
						cand[j] += r[j]
					}
				}
			}

			found = fmt.Sprint(cand[:]) == fmt.Sprint(g.Tot)
		}

		if !found {
			msgs = append(msgs, fmt.Sprintf("totals %v, counted inside the window %v (+ optional hours)", g.Tot, base[:]))
		}

		// Daily series never exceed the totals.
		var sums [5]int64
		for _, row := range g.NZ {
			for j := 1; j <= 4; j++ {
				sums[j] += row[j]
			}
		}

		if sums[1] > g.Tot[0] || sums[2] > g.Tot[2] || sums[3] > g.Tot[3] || sums[4] > g.Tot[5] {
			msgs = append(msgs, fmt.Sprintf("daily series sum to %v and exceed the totals %v", sums[1:], g.Tot))
		}
	default:
		msgs = append(msgs, fmt.Sprintf("time_units %q", g.Units))
	}

	return msgs
}

// ------------------------------------------------------- direction A: graph

type zzC09State struct {
	O     zzC09Obs `json:"o"`
	ID    int      `json:"id"`
	Lim   int      `json:"lim"`
	Lead  int      `json:"lead"`
	Part  int      `json:"part"`
	Up    bool     `json:"up"`
	En    bool     `json:"en"`
	Fresh bool     `json:"fresh"`
}

type zzC09Edge struct {
	A  string `json:"a"`
	S  int    `json:"s"`
	X  int    `json:"x"`
	D  int    `json:"d"`
	NT int    `json:"nt"`
}

type zzC09Graph struct {
	states []zzC09State
	edges  []zzC09Edge
	adj    [][]int32 // state -> outgoing edge indices
	fresh  []int
	// fromFresh[s] = edge by which the shortest path from a fresh state enters
	// s (-1 for fresh states themselves, -2 if unreachable).
	fromFresh []int32
}

func zzC09LoadGraph(t testing.TB) (g *zzC09Graph) {
	g = &zzC09Graph{}
	zzReadNDJSON(t, "VERIF_STATES", func(line []byte) {
		st := zzC09State{}
		if err := json.Unmarshal(line, &st); err != nil {
			t.Fatalf("state line: %v", err)
		}

		if st.ID != len(g.states) {
			t.Fatalf("state ids not dense at %d", st.ID)
		}

		g.states = append(g.states, st)
	})
	zzReadNDJSON(t, "VERIF_EDGES", func(line []byte) {
		e := zzC09Edge{}
		if err := json.Unmarshal(line, &e); err != nil {
			t.Fatalf("edge line: %v", err)
		}

		g.edges = append(g.edges, e)
	})

	g.adj = make([][]int32, len(g.states))
	for i, e := range g.edges {
		g.adj[e.S] = append(g.adj[e.S], int32(i))
	}

	g.fromFresh = make([]int32, len(g.states))
	for i := range g.fromFresh {
		g.fromFresh[i] = -2
	}

	var q []int
	for i := range g.states {
		if g.states[i].Fresh {
			g.fresh = append(g.fresh, i)
			g.fromFresh[i] = -1
			q = append(q, i)
		}
	}

	for len(q) > 0 {
		s := q[0]
		q = q[1:]
		for _, ei := range g.adj[s] {
			d := g.edges[ei].D
			if g.fromFresh[d] == -2 {
				g.fromFresh[d] = ei
				q = append(q, d)
			}
		}
	}

	return g
}

// shortest returns a fresh state and the shortest edge path from it to s.
func (g *zzC09Graph) shortest(s int) (start int, path []int32) {
	for g.fromFresh[s] >= 0 {
		ei := g.fromFresh[s]
		path = append(path, ei)
		s = g.edges[ei].S
	}

	for i, j := 0, len(path)-1; i < j; i, j = i+1, j-1 {
		path[i], path[j] = path[j], path[i]
	}

	return s, path
}

// cost is the routing weight of an edge: a clear re-creates the database file
// (about 10 ms), everything else costs about the same.
func (g *zzC09Graph) cost(ei int32) (c int) {
	if g.edges[ei].A == "clear" {
		return 16
	}

	return 1
}

// zzC09Step is one concrete step of a replayable path.
type zzC09Step struct {
	A string   `json:"a"`
	O zzC09Obs `json:"o"`
	X int      `json:"x"`
	P int64    `json:"p"`
	L int      `json:"lim"`
	U bool     `json:"up"`
}

// zzC09Path is a self-contained replayable behaviour: fresh module, steps,
// the reply the spec admits after each step.
type zzC09Path struct {
	CatMap []int       `json:"catmap"`
	Steps  []zzC09Step `json:"steps"`
	Seed   int64       `json:"seed"`
	Base   uint32      `json:"base"`
	Lim    int         `json:"lim"`
	En     bool        `json:"en"`
}

func (g *zzC09Graph) mkPath(start int, path []int32, pays []int64, seed int64, base uint32, catMap []Result) (p *zzC09Path) {
	st := &g.states[start]
	p = &zzC09Path{Seed: seed, Base: base, Lim: st.Lim, En: st.En}
	for _, c := range catMap {
		p.CatMap = append(p.CatMap, int(c))
	}

	for i, ei := range path {
		e := &g.edges[ei]
		d := &g.states[e.D]
		p.Steps = append(p.Steps, zzC09Step{A: e.A, X: e.X, P: pays[i], O: d.O, L: d.Lim, U: d.Up})
	}

	return p
}

// zzC09RunPath runs p on a fresh module in dir and returns the index of the
// first step after which the real reply is not admitted (-1: none).
func zzC09RunPath(dir string, p *zzC09Path) (bad int, msgs []string, got *zzC09Got, err error) {
	cm := make([]Result, len(p.CatMap))
	for i, c := range p.CatMap {
		cm[i] = Result(c)
	}

	y, err := zzC09NewSys(dir, p.Seed, cm, p.Base, p.Lim, p.En)
	if err != nil {
		return -1, nil, nil, err
	}
	defer y.destroy()

	for i := range p.Steps {
		st := &p.Steps[i]
		pay := st.P
		if (st.A == "update" || st.A == "flushfail") && pay == 0 {
			pay = y.nextP()
		}

		if err = y.doP(st.A, st.X, pay); err != nil {
			return i, []string{"action failed: " + err.Error()}, nil, nil
		}

		if !st.U {
			continue
		}

		if got, err = y.read(); err != nil {
			return i, []string{"read failed: " + err.Error()}, nil, nil
		}

		if msgs = y.compare(st.L, &st.O, got); len(msgs) > 0 {
			return i, msgs, got, nil
		}
	}

	return -1, nil, nil, nil
}

// zzC09Base draws the absolute hour at which a behaviour starts.  The spec's
// hours are relative and the property must hold wherever the clock stands, so
// the position is a dimension of the concretisation: the epoch itself, just
// after it, around the point where the hour number equals the retention limit
// (in hours), and an ordinary present-day hour.  which < 0 draws it from rng.
func zzC09Base(rng *rand.Rand, lim, which int) (base uint32) {
	bases := []uint32{0, 1, uint32(max(lim-1, 0)), uint32(lim), uint32(lim + 1), uint32(2 * lim),
		470_000 + uint32(rng.Intn(20_000))}
	if which < 0 {
		which = rng.Intn(len(bases))
	}

	return bases[which%len(bases)]
}

// zzC09CatMap draws an injective map from the abstract categories to the real
// result categories.
func zzC09CatMap(rng *rand.Rand, n int) (cm []Result) {
	perm := rng.Perm(int(resultLast) - 1)
	for i := range n {
		cm = append(cm, Result(perm[i]+1))
	}

	return cm
}

type zzC09WalkStats struct {
	Acts                                                 map[string]int
	ActMs                                                map[string]int64
	Steps, Reads, Targets, Covered, Restarts, Bad, Flaky int
	CoveredNT                                            int
	TimedOut                                             bool
}

// zzC09Walk covers the target edges of worker w with greedy tours: from the
// state the real module is in, go to the nearest state that still has an
// uncovered target edge; restart from a fresh module only when none is
// reachable or after a disagreement.
func zzC09Walk(t *testing.T, g *zzC09Graph, w, nw int, frac int, seed int64, deadline time.Time, emit func(any)) (ws zzC09WalkStats) {
	ws.Acts = map[string]int{}
	rng := rand.New(rand.NewSource(seed*1000 + int64(w)))
	dir, err := os.MkdirTemp(zzGetenv("VERIF_DBDIR"), fmt.Sprintf("walk%d-", w))
	if err != nil {
		t.Errorf("tempdir: %v", err)

		return ws
	}
	defer os.RemoveAll(dir)

	// Targets of this worker.
	target := make([]bool, len(g.edges))
	pending := make([]int, len(g.states))
	sel := rand.New(rand.NewSource(seed))
	for i := range g.edges {
		pick := sel.Intn(frac) == 0
		if g.states[g.edges[i].S].Part%nw == w && pick {
			target[i] = true
			pending[g.edges[i].S]++
			ws.Targets++
		}
	}

	ncats, _ := strconv.Atoi(zzGetenv("VERIF_NCATS"))
	ncats = min(max(ncats, 1), int(resultLast)-1)

	left := ws.Targets
	prev := make([]int32, len(g.states))
	mark := make([]int32, len(g.states))
	var epoch int32
	actNs := map[string]int64{}

	// bfs returns the cheapest edge path (see cost) from s to the nearest state
	// with a pending target edge (possibly empty), ok = false if there is none.
	// Dial's algorithm: the weights are small integers.
	const maxW = 16
	dist := make([]int, len(g.states))
	var buckets [maxW + 1][]int
	bfs := func(s int) (path []int32, end int, ok bool) {
		epoch++
		for i := range buckets {
			buckets[i] = buckets[i][:0]
		}

		mark[s] = epoch
		prev[s] = -1
		dist[s] = 0
		buckets[0] = append(buckets[0], s)
		inq := 1
		for d := 0; inq > 0; d++ {
			b := &buckets[d%(maxW+1)]
			for len(*b) > 0 {
				u := (*b)[len(*b)-1]
				*b = (*b)[:len(*b)-1]
				inq--
				if dist[u] != d {
					continue
				}

				if pending[u] > 0 {
					for v := u; prev[v] >= 0; v = g.edges[prev[v]].S {
						path = append(path, prev[v])
					}

					for i, j := 0, len(path)-1; i < j; i, j = i+1, j-1 {
						path[i], path[j] = path[j], path[i]
					}

					return path, u, true
				}

				for _, ei := range g.adj[u] {
					v := g.edges[ei].D
					nd := d + g.cost(ei)
					if mark[v] != epoch || nd < dist[v] {
						mark[v] = epoch
						dist[v] = nd
						prev[v] = ei
						buckets[nd%(maxW+1)] = append(buckets[nd%(maxW+1)], v)
						inq++
					}
				}
			}
		}

		return nil, 0, false
	}

	var (
		y       *zzC09Sys
		cur     int
		start   int
		hist    []int32
		histP   []int64
		catMap  []Result
		base    uint32
		sysSeed int64
	)

	restart := func(at int) (ok bool) {
		if y != nil {
			y.destroy()
		}

		ws.Restarts++
		catMap = zzC09CatMap(rng, ncats)
		st := &g.states[at]
		// Tours take the clock positions in turn (0, lim-1, lim+1, present, 1,
		// lim, 2*lim over workers and restarts); worker 0 starts at the epoch.
		base = zzC09Base(rng, st.Lim, 2*(w+ws.Restarts-1))
		sysSeed = rng.Int63()
		y, err = zzC09NewSys(dir, sysSeed, catMap, base, st.Lim, st.En)
		if err != nil {
			t.Errorf("fresh module: %v", err)

			return false
		}

		cur, start, hist, histP = at, at, hist[:0], histP[:0]

		return true
	}
	defer func() {
		if y != nil {
			y.destroy()
		}
	}()

	// step performs edge ei on the real module and compares.
	step := func(ei int32) (ok bool) {
		e := &g.edges[ei]
		d := &g.states[e.D]
		var pay int64
		if e.A == "update" || e.A == "flushfail" {
			pay = y.nextP()
		}

		hist = append(hist, ei)
		histP = append(histP, pay)
		ws.Steps++
		ws.Acts[e.A]++

		var msgs []string
		var got *zzC09Got
		t0 := time.Now()
		defer func() { actNs[e.A] += int64(time.Since(t0)) }()
		if derr := y.doP(e.A, e.X, pay); derr != nil {
			msgs = []string{"action failed: " + derr.Error()}
		} else if d.Up {
			ws.Reads++
			if got, derr = y.read(); derr != nil {
				msgs = []string{"read failed: " + derr.Error()}
			} else {
				msgs = y.compare(d.Lim, &d.O, got)
			}
		}

		if target[ei] {
			target[ei] = false
			pending[e.S]--
			left--
			ws.Covered++
			ws.CoveredNT += e.NT
		}

		cur = e.D
		if len(msgs) == 0 {
			return true
		}

		// Disagreement: reproduce in isolation.  First the shortest behaviour
		// that reaches the source state plus this edge, then the whole walk
		// since the module was created.
		// The short behaviour gives every update the payload of the most
		// recent update of the walk; the long one repeats the payloads exactly.
		s0, sp := g.shortest(e.S)
		sp = append(sp, ei)
		var lastP int64
		for i := len(histP) - 1; i >= 0 && lastP == 0; i-- {
			lastP = histP[i]
		}

		shortP := make([]int64, len(sp))
		for i, sei := range sp {
			if a := g.edges[sei].A; a == "update" || a == "flushfail" {
				shortP[i] = lastP
			}
		}

		short := g.mkPath(s0, sp, shortP, sysSeed, base, catMap)
		long := g.mkPath(start, hist, histP, sysSeed, base, catMap)
		rec := map[string]any{"kind": "flaky", "act": e.A, "x": e.X, "msgs": msgs, "got": got, "want": d.O,
			"lim": d.Lim, "path": short, "walk_len": len(hist)}
		for _, cand := range []*zzC09Path{short, long} {
			bad, m2, g2, rerr := zzC09RunPath(dir, cand)
			if rerr == nil && bad >= 0 {
				cand.Steps = cand.Steps[:bad+1]
				rec["kind"], rec["path"], rec["msgs"], rec["got"] = "bad", cand, m2, g2
				rec["act"], rec["x"], rec["want"], rec["lim"] = cand.Steps[bad].A, cand.Steps[bad].X, cand.Steps[bad].O, cand.Steps[bad].L

				break
			}
		}

		if rec["kind"] == "bad" {
			ws.Bad++
		} else {
			ws.Flaky++
		}

		emit(rec)

		return false
	}

	if !restart(g.fresh[rng.Intn(len(g.fresh))]) {
		return ws
	}
	defer func() {
		ws.ActMs = map[string]int64{}
		for a, ns := range actNs {
			ws.ActMs[a] = ns / 1e6
		}
	}()

	for left > 0 {
		if time.Now().After(deadline) {
			ws.TimedOut = true

			break
		}

		path, end, ok := bfs(cur)
		if !ok {
			// Nothing reachable from here: try the fresh states.
			found := false
			for _, f := range g.fresh {
				if _, _, ok = bfs(f); ok {
					found = restart(f)

					break
				}
			}

			if !found {
				break
			}

			continue
		}

		good := true
		for _, ei := range path {
			if good = step(ei); !good {
				break
			}
		}

		if good {
			// At a state with pending target edges: take one.
			var cands []int32
			for _, ei := range g.adj[end] {
				if target[ei] {
					cands = append(cands, ei)
				}
			}

			good = step(cands[rng.Intn(len(cands))])
		}

		if !good && !restart(g.fresh[rng.Intn(len(g.fresh))]) {
			break
		}
	}

	return ws
}

// TestZZVerifC09Walk is direction A.
func TestZZVerifC09Walk(t *testing.T) {
	zzC09NoSync()

	g := zzC09LoadGraph(t)
	out := zzNewWriter(t, "VERIF_OUT")
	defer out.close()

	nw, _ := strconv.Atoi(zzGetenv("VERIF_WORKERS"))
	nw = max(nw, 1)
	frac, _ := strconv.Atoi(zzGetenv("VERIF_FRAC"))
	frac = max(frac, 1)
	budget, _ := strconv.Atoi(zzGetenv("VERIF_BUDGET_S"))
	if budget <= 0 {
		budget = 600
	}

	deadline := time.Now().Add(time.Duration(budget) * time.Second)

	mu := &sync.Mutex{}
	emit := func(v any) {
		mu.Lock()
		defer mu.Unlock()

		out.put(v)
	}

	wg := &sync.WaitGroup{}
	all := make([]zzC09WalkStats, nw)
	for w := range nw {
		wg.Add(1)
		go func() {
			defer wg.Done()

			all[w] = zzC09Walk(t, g, w, nw, frac, zzSeed(), deadline, emit)
		}()
	}

	wg.Wait()

	sum := zzC09WalkStats{Acts: map[string]int{}, ActMs: map[string]int64{}}
	for _, ws := range all {
		sum.Steps += ws.Steps
		sum.Reads += ws.Reads
		sum.Targets += ws.Targets
		sum.Covered += ws.Covered
		sum.CoveredNT += ws.CoveredNT
		sum.Restarts += ws.Restarts
		sum.Bad += ws.Bad
		sum.Flaky += ws.Flaky
		sum.TimedOut = sum.TimedOut || ws.TimedOut
		for a, n := range ws.Acts {
			sum.Acts[a] += n
		}

		for a, n := range ws.ActMs {
			sum.ActMs[a] += n
		}
	}

	emit(map[string]any{"kind": "summary", "steps": sum.Steps, "reads": sum.Reads, "targets": sum.Targets,
		"covered": sum.Covered, "covered_nt": sum.CoveredNT, "restarts": sum.Restarts, "bad": sum.Bad, "flaky": sum.Flaky,
		"timed_out": sum.TimedOut, "acts": sum.Acts, "act_ms": sum.ActMs, "states": len(g.states), "edges": len(g.edges)})
}

// TestZZVerifC09Low is the second part of direction A: short behaviours, each on
// a fresh module -- the shortest path from a fresh state to the source of an
// edge, then the edge -- with the clock started at the boundary positions of
// zzC09Base in turn.  Hours only grow, so the long covering tours leave the
// neighbourhood of the epoch after their first few steps; these behaviours
// stay there.  Restart edges come first (all of them if the budget allows),
// the rest is a seeded sample of the other edges.
func TestZZVerifC09Low(t *testing.T) {
	zzC09NoSync()

	g := zzC09LoadGraph(t)
	out := zzNewWriter(t, "VERIF_OUT")
	defer out.close()

	nw, _ := strconv.Atoi(zzGetenv("VERIF_WORKERS"))
	nw = max(nw, 1)
	n, _ := strconv.Atoi(zzGetenv("VERIF_LOW_N"))
	n = max(n, 1)
	ncats, _ := strconv.Atoi(zzGetenv("VERIF_NCATS"))
	ncats = min(max(ncats, 1), int(resultLast)-1)

	rng := rand.New(rand.NewSource(zzSeed()*31337 + 5))
	var opens, others []int32
	for i := range g.edges {
		if g.fromFresh[g.edges[i].S] == -2 {
			continue
		}

		if g.edges[i].A == "open" {
			opens = append(opens, int32(i))
		} else {
			others = append(others, int32(i))
		}
	}

	rng.Shuffle(len(opens), func(i, j int) { opens[i], opens[j] = opens[j], opens[i] })
	rng.Shuffle(len(others), func(i, j int) { others[i], others[j] = others[j], others[i] })
	sel := opens[:min(len(opens), n*2/3)]
	sel = append(sel, others[:min(len(others), n-len(sel))]...)

	type job struct {
		p  *zzC09Path
		ei int32
	}

	jobs := make([]job, len(sel))
	for i, ei := range sel {
		s0, sp := g.shortest(g.edges[ei].S)
		sp = append(sp, ei)
		pays := make([]int64, len(sp)) // 0: drawn from the path's own seed
		jobs[i] = job{ei: ei, p: g.mkPath(s0, sp, pays, rng.Int63(), zzC09Base(rng, g.states[s0].Lim, i), zzC09CatMap(rng, ncats))}
	}

	mu := &sync.Mutex{}
	var steps, reads, bad, flaky, restartsLow int
	acts := map[string]int{}
	wg := &sync.WaitGroup{}
	for w := range nw {
		wg.Add(1)
		go func() {
			defer wg.Done()

			dir, err := os.MkdirTemp(zzGetenv("VERIF_DBDIR"), fmt.Sprintf("low%d-", w))
			if err != nil {
				t.Errorf("tempdir: %v", err)

				return
			}
			defer os.RemoveAll(dir)

			for i := w; i < len(jobs); i += nw {
				j := jobs[i]
				at, msgs, got, rerr := zzC09RunPath(dir, j.p)
				if rerr != nil {
					t.Errorf("fresh module: %v", rerr)

					return
				}

				mu.Lock()
				for k := range j.p.Steps {
					steps++
					acts[j.p.Steps[k].A]++
					if j.p.Steps[k].U {
						reads++
					}

					if j.p.Steps[k].A == "open" {
						restartsLow++
					}
				}
				mu.Unlock()

				if at < 0 {
					continue
				}

				// A second time, alone.
				at2, msgs2, got2, _ := zzC09RunPath(dir, j.p)
				rec := map[string]any{"kind": "flaky", "leg": "low", "act": j.p.Steps[at].A, "x": j.p.Steps[at].X,
					"msgs": msgs, "got": got, "want": j.p.Steps[at].O, "lim": j.p.Steps[at].L, "path": j.p}
				if at2 == at {
					cut := *j.p
					cut.Steps = cut.Steps[:at+1]
					rec["kind"], rec["path"], rec["msgs"], rec["got"] = "bad", &cut, msgs2, got2
				}

				mu.Lock()
				if rec["kind"] == "bad" {
					bad++
				} else {
					flaky++
				}

				out.put(rec)
				mu.Unlock()
			}
		}()
	}

	wg.Wait()
	out.put(map[string]any{"kind": "summary", "behaviours": len(jobs), "open_edges": min(len(opens), n*2/3), "steps": steps,
		"reads": reads, "bad": bad, "flaky": flaky, "restarts": restartsLow, "acts": acts})
}

// TestZZVerifC09Path replays stored behaviours (isolation / --replay).
func TestZZVerifC09Path(t *testing.T) {
	zzC09NoSync()

	out := zzNewWriter(t, "VERIF_OUT")
	defer out.close()

	dir, err := os.MkdirTemp(zzGetenv("VERIF_DBDIR"), "path-")
	if err != nil {
		t.Fatal(err)
	}
	defer os.RemoveAll(dir)

	n := 0
	zzReadNDJSON(t, "VERIF_IN", func(line []byte) {
		p := &zzC09Path{}
		if err = json.Unmarshal(line, p); err != nil {
			t.Fatalf("path line: %v", err)
		}

		bad, msgs, got, rerr := zzC09RunPath(dir, p)
		rec := map[string]any{"kind": "ok", "i": n}
		if rerr != nil {
			rec["kind"], rec["msgs"] = "error", []string{rerr.Error()}
		} else if bad >= 0 {
			rec["kind"], rec["step"], rec["msgs"], rec["got"], rec["want"] = "bad", bad, msgs, got, p.Steps[bad].O
			rec["act"], rec["x"] = p.Steps[bad].A, p.Steps[bad].X
		}

		out.put(rec)
		n++
	})
	out.put(map[string]any{"kind": "summary", "n": n})
}

// ------------------------------------------------ direction B: long traces

// zzC09Line is one line of the trace for TraceStats.tla; every field is
// always present.
type zzC09Line struct {
	Ev    string    `json:"ev"`
	Units string    `json:"units"`
	Tot   []int64   `json:"tot"`
	NZ    [][]int64 `json:"nz"`
	K     int       `json:"k"`
	Ph    int       `json:"ph"`
	En    int       `json:"en"`
	Len   int       `json:"len"`
	Hour  uint32    `json:"hour"`
	Seed  int64     `json:"seed"`
}

func zzC09B2I(b bool) (i int) {
	if b {
		return 1
	}

	return 0
}

var zzC09Identity = []Result{RNotFiltered, RFiltered, RSafeBrowsing, RSafeSearch, RParental}

// TestZZVerifC09Trace records seeded histories over the real constants.
func TestZZVerifC09Trace(t *testing.T) {
	zzC09NoSync()

	out := zzNewWriter(t, "VERIF_OUT")
	defer out.close()

	nTraces, _ := strconv.Atoi(zzGetenv("VERIF_TRACES"))
	nTraces = max(nTraces, 1)
	nSteps, _ := strconv.Atoi(zzGetenv("VERIF_STEPS"))
	nSteps = max(nSteps, 10)

	dir, err := os.MkdirTemp(zzGetenv("VERIF_DBDIR"), "trace-")
	if err != nil {
		t.Fatal(err)
	}
	defer os.RemoveAll(dir)

	var seeds []int64
	if sl := zzGetenv("VERIF_TSEEDS"); sl != "" {
		for _, f := range strings.Split(sl, ",") {
			v, perr := strconv.ParseInt(f, 10, 64)
			if perr != nil {
				t.Fatalf("VERIF_TSEEDS: %v", perr)
			}

			seeds = append(seeds, v)
		}
	} else {
		master := rand.New(rand.NewSource(zzSeed()*7919 + 13))
		for range nTraces {
			seeds = append(seeds, master.Int63())
		}
	}

	limits := []int{1, 2, 3, 5, 24, 25, 48, 168, 191, 192, 193, 200, 720, 2160}
	empty := func(l *zzC09Line) *zzC09Line {
		l.Tot, l.NZ = []int64{}, [][]int64{}

		return l
	}

	for _, tseed := range seeds {
		rng := rand.New(rand.NewSource(tseed))
		lim := limits[rng.Intn(len(limits))]
		en := rng.Intn(8) != 0
		base := zzC09Base(rng, lim, -1)
		y, nerr := zzC09NewSys(dir, rng.Int63(), zzC09Identity, base, lim, en)
		if nerr != nil {
			t.Fatalf("fresh module: %v", nerr)
		}

		out.put(empty(&zzC09Line{Ev: "new", K: lim, Ph: int(base % 24), En: zzC09B2I(en), Hour: base, Seed: tseed}))
		up := true
		read := func() {
			g, rerr := y.read()
			if rerr != nil {
				t.Fatalf("read: %v", rerr)
			}

			out.put(&zzC09Line{Ev: "read", Units: g.Units, Len: g.Len, Tot: g.Tot, NZ: g.NZ, Hour: y.hour.Load()})
		}

		for range nSteps {
			ev, k := "", 0
			r := rng.Intn(100)
			switch {
			case !up && r < 40:
				ev, k = "tick", zzC09Gap(rng, lim)
			case !up:
				ev = "open"
			case r < 55:
				ev, k = "update", 1+rng.Intn(5)
			case r < 68:
				ev, k = "tick", zzC09Gap(rng, lim)
			case r < 78:
				ev = "flush"
			case r < 82:
				ev = "flushfail"
			case r < 88:
				ev = "close"
			case r < 93:
				ev, k = "limit", limits[rng.Intn(len(limits))]
			case r < 96:
				en = !en
				ev, k = "enable", zzC09B2I(en)
			case r < 97:
				ev = "clear"
			default:
				ev = "read"
			}

			if ev == "limit" {
				lim = k
			}

			if ev != "read" {
				if derr := y.do(ev, k); derr != nil {
					t.Fatalf("%s %d: %v", ev, k, derr)
				}

				out.put(empty(&zzC09Line{Ev: ev, K: k, Hour: y.hour.Load()}))
			}

			up = up && ev != "close" || ev == "open"
			// Observe after every step while the window is small, less often
			// when a reply has hundreds of slots.
			if up && (lim <= 48 || rng.Intn(4) == 0 || ev == "read" || ev == "open") {
				read()
			}
		}

		y.destroy()
	}
}

// zzC09Gap draws a clock advance: mostly one hour, sometimes around the limit,
// sometimes many hours.
func zzC09Gap(rng *rand.Rand, lim int) (k int) {
	switch r := rng.Intn(20); {
	case r < 10:
		return 1
	case r < 13:
		return 1 + rng.Intn(3)
	case r < 15:
		return max(1, lim-1)
	case r < 16:
		return lim
	case r < 17:
		return lim + 1
	case r < 19:
		return 1 + rng.Intn(30)
	default:
		return 24 * (1 + rng.Intn(200))
	}
}

// ------------------------------------------------------ schedules: histories

type zzC09Op struct {
	Op    string    `json:"op"`
	Units string    `json:"units"`
	Tot   []int64   `json:"tot"`
	NZ    [][]int64 `json:"nz"`
	G     int       `json:"g"`
	Seq   int       `json:"seq"`
	Inv   int64     `json:"inv"`
	Res   int64     `json:"res"`
	K     int       `json:"k"`
	Len   int       `json:"len"`
}

type zzC09Hist struct {
	Ops   []*zzC09Op `json:"ops"`
	H     int        `json:"h"`
	Limit int        `json:"limit"`
	Ph    int        `json:"ph"`
	Seed  int64      `json:"seed"`
}

// zzC09RunHist records one concurrent history.  The main goroutine (g = 0)
// prepares some stored data sequentially, then runs rounds: advance the clock,
// start updaters, a flusher and a reader at the same moment, wait for all of
// them, read.
func zzC09RunHist(dir string, seed int64) (h *zzC09Hist, err error) {
	rng := rand.New(rand.NewSource(seed))
	lims := []int{2, 2, 3, 3, 4, 24}
	lim := lims[rng.Intn(len(lims))]
	base := zzC09Base(rng, lim, -1)
	y, err := zzC09NewSys(dir, rng.Int63(), zzC09Identity, base, lim, true)
	if err != nil {
		return nil, err
	}
	defer y.destroy()

	h = &zzC09Hist{Limit: lim, Ph: int(base % 24), Seed: seed}
	clock := &atomic.Int64{}
	mu := &sync.Mutex{}
	var firstErr error

	// run performs one operation of goroutine g and records it.  Entries are
	// prepared before the invocation stamp is taken; y.rng is used by the
	// main goroutine only.
	run := func(g, seq int, op string, k int, e *Entry) {
		o := &zzC09Op{Op: op, K: k, G: g, Seq: seq, Tot: []int64{}, NZ: [][]int64{}}
		o.Inv = clock.Add(1)
		var oerr error
		func() {
			defer zzC09Recover(&oerr)

			switch op {
			case "update":
				y.s.Update(e)
			case "flush":
				y.s.flush()
			case "tick":
				y.hour.Add(uint32(k))
			case "read":
				var got *zzC09Got
				if got, oerr = y.read(); oerr == nil {
					o.Units, o.Len, o.Tot, o.NZ = got.Units, got.Len, got.Tot, got.NZ
				}
			}
		}()
		o.Res = clock.Add(1)

		mu.Lock()
		defer mu.Unlock()

		h.Ops = append(h.Ops, o)
		if oerr != nil && firstErr == nil {
			firstErr = oerr
		}
	}

	seq0 := 0
	main := func(op string, k int) {
		var e *Entry
		if op == "update" {
			e = y.entry(Result(k), y.nextP())
		}

		run(0, seq0, op, k, e)
		seq0++
	}

	budget := 12
	// Sequential prefix: something in the database and in the current unit.
	for n := rng.Intn(3); n > 0 && budget > 8; n-- {
		main("update", 1+rng.Intn(5))
		budget--
	}

	if rng.Intn(2) == 0 {
		main("tick", 1)
		main("flush", 0)
		budget -= 2
	}

	for round := 0; budget >= 4 && round < 3; round++ {
		if rng.Intn(5) != 0 {
			main("tick", 1+rng.Intn(lim+1))
			budget--
		}

		type job struct {
			e   *Entry
			op  string
			k   int
			spn int
		}

		var gs [][]job
		nu := 1 + rng.Intn(3)
		for range nu {
			var js []job
			for n := 1 + rng.Intn(2); n > 0 && budget > 2; n-- {
				k := 1 + rng.Intn(5)
				js = append(js, job{op: "update", k: k, e: y.entry(Result(k), y.nextP()), spn: rng.Intn(40)})
				budget--
			}

			if len(js) > 0 {
				gs = append(gs, js)
			}
		}

		var fl []job
		for n := 1 + rng.Intn(2); n > 0 && budget > 1; n-- {
			fl = append(fl, job{op: "flush", spn: rng.Intn(40)})
			budget--
		}

		if len(fl) > 0 {
			gs = append(gs, fl)
		}

		if rng.Intn(4) != 0 && budget > 1 {
			gs = append(gs, []job{{op: "read", spn: rng.Intn(40)}})
			budget--
		}

		// All goroutines of the round spin on one flag, so that they really
		// start at the same moment; nothing gates them afterwards.
		ready, start := &atomic.Int32{}, &atomic.Bool{}
		wg := &sync.WaitGroup{}
		for gi, js := range gs {
			wg.Add(1)
			go func() {
				defer wg.Done()

				ready.Add(1)
				for !start.Load() {
					runtime.Gosched()
				}

				for si, j := range js {
					for range j.spn {
						runtime.Gosched()
					}

					run(100*(round+1)+gi+1, si, j.op, j.k, j.e)
				}
			}()
		}

		for int(ready.Load()) < len(gs) {
			runtime.Gosched()
		}

		start.Store(true)
		wg.Wait()

		if budget > 0 {
			main("read", 0)
			budget--
		}
	}

	sort.SliceStable(h.Ops, func(i, j int) (less bool) { return h.Ops[i].Inv < h.Ops[j].Inv })

	return h, firstErr
}

// TestZZVerifC09Conc records VERIF_HISTS concurrent histories.  With
// VERIF_HSEEDS set it re-records exactly those history seeds (isolation).
func TestZZVerifC09Conc(t *testing.T) {
	zzC09NoSync()

	out := zzNewWriter(t, "VERIF_OUT")
	defer out.close()

	dir, err := os.MkdirTemp(zzGetenv("VERIF_DBDIR"), "conc-")
	if err != nil {
		t.Fatal(err)
	}
	defer os.RemoveAll(dir)

	var seeds []int64
	if s := zzGetenv("VERIF_HSEEDS"); s != "" {
		for _, f := range strings.Split(s, ",") {
			v, perr := strconv.ParseInt(f, 10, 64)
			if perr != nil {
				t.Fatalf("VERIF_HSEEDS: %v", perr)
			}

			seeds = append(seeds, v)
		}
	} else {
		n, _ := strconv.Atoi(zzGetenv("VERIF_HISTS"))
		rng := rand.New(rand.NewSource(zzSeed()*104729 + 71))
		for range max(n, 1) {
			seeds = append(seeds, rng.Int63())
		}
	}

	wd, _ := strconv.Atoi(zzGetenv("VERIF_HIST_WATCHDOG_S"))
	if wd <= 0 {
		wd = 15
	}

	// Every history runs in its own goroutine group on a fresh module in its
	// own directory, under a watchdog: an operation of the code under test that
	// never returns is an observation (recorded with the seed and a goroutine
	// dump), not a reason to lose the whole run.  After such a history the rest
	// is skipped: the check settles it first (re-run alone in a fresh process).
	type res struct {
		h   *zzC09Hist
		err error
	}

	hangs := 0
	for i, sd := range seeds {
		hdir := filepath.Join(dir, strconv.Itoa(i))
		if err = os.MkdirAll(hdir, 0o755); err != nil {
			t.Fatal(err)
		}

		ch := make(chan res, 1)
		go func() {
			h, herr := zzC09RunHist(hdir, sd)
			ch <- res{h: h, err: herr}
		}()

		select {
		case r := <-ch:
			if r.err != nil {
				t.Fatalf("history %d (seed %d): %v", i, sd, r.err)
			}

			r.h.H = i + 1
			out.put(r.h)
			_ = os.RemoveAll(hdir)
		case <-time.After(time.Duration(wd) * time.Second):
			hangs++
			out.put(map[string]any{"kind": "hang", "seed": sd, "i": i, "watchdog_s": wd, "dump": zzC09Dump()})
		}

		if hangs >= 1 {
			out.put(map[string]any{"kind": "aborted", "done": i + 1, "of": len(seeds)})

			break
		}
	}
}

// zzC09Dump returns the stacks of the goroutines that are inside the package
// under test, capped.
func zzC09Dump() (dump string) {
	buf := make([]byte, 1<<20)
	buf = buf[:runtime.Stack(buf, true)]
	var keep []string
	for _, blk := range strings.Split(string(buf), "\n\n") {
		if strings.Contains(blk, "internal/stats.(*StatsCtx)") || strings.Contains(blk, "bbolt.") {
			keep = append(keep, blk)
		}
	}

	dump = strings.Join(keep, "\n\n")
	if len(dump) > 8000 {
		dump = dump[:8000] + "\n..."
	}

	return dump
}
