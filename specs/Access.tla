------------------------------- MODULE Access -------------------------------
(***************************************************************************)
(* C03 -- access lists: disallowed clients and blocked names are never     *)
(* served.                                                                 *)
(*                                                                         *)
(* State machine around the decision procedure of AccessCore.tla.          *)
(*                                                                         *)
(*   cfg   the access settings in force (allowed, disallowed, hosts);      *)
(*         replaced as a whole by SetLists = one successful                *)
(*         POST /control/access/set (the critical section of               *)
(*         handleAccessSet).  SetLists is repeatable: the server lives     *)
(*         through a history of installations.  The API refuses lists that *)
(*         share an item, so SetLists is only enabled for disjoint lists.  *)
(*         LoadConfig = the other way lists get installed: the server is   *)
(*         created / reconfigured from a configuration (Prepare,           *)
(*         Reconfigure) that carries the three lists.  An empty            *)
(*         blocked-hosts list in a configuration stands for the documented *)
(*         defaults (DefaultHosts); that effective list is what            *)
(*         GET /control/access/list reports and what must be enforced.     *)
(*         SetLists and LoadConfig alternate freely in a history.          *)
(*   posted  history variable: every configuration posted so far, in       *)
(*         order.  LastPostedRules says that what is in force is the       *)
(*         configuration posted LAST, as posted -- re-posting the same     *)
(*         lists in another letter case or order, or emptying the allow    *)
(*         list and filling it again, leaves nothing of the earlier ones.  *)
(*   obs   what the statement says must not move for a denied request:     *)
(*         number of requests that reached the upstream (up), the filter   *)
(*         (filt), the query log (qlog) and the statistics (stats).        *)
(*   last  the last request and what the client saw for it.                *)
(*                                                                         *)
(* Request(r, o) = one DNS request passing the pre-request hook            *)
(* (HandleBefore) and, if let through, the whole pipeline.                 *)
(*                                                                         *)
(* Three universes are selected by the constant Universe:                  *)
(*   "mc"       small lists, every history of <= MaxSet reconfigurations   *)
(*              and <= MaxReq requests: invariants + action properties,    *)
(*              run with -coverage for the vacuity guard;                  *)
(*   "clients"  every pair of disjoint lists of size <= 2 out of a         *)
(*              14-element entry family (IPs, CIDRs of several lengths     *)
(*              incl. /0 and full length, both families, two ClientIDs);   *)
(*              one vector per list pair carrying the verdict for every    *)
(*              (address, ClientID) of the universe;                       *)
(*   "hosts"    every blocked-hosts list of size <= 2 out of 11 patterns   *)
(*              under four representative client lists; one vector per     *)
(*              configuration carrying the verdict for every name.         *)
(* The Go harness (zz_verif_c03_test.go) concretises a vector, installs    *)
(* the lists in a real server and replays the table against it; forms,     *)
(* spellings, query types and transports are expanded on the Go side       *)
(* because, by AccessCore, the verdict does not depend on them.             *)
(***************************************************************************)
EXTENDS AccessCore, TLC, Json

CONSTANTS Universe,   \* "mc" | "clients" | "hosts"
          MaxSet,     \* bound on SetLists steps in a history
          MaxReq,     \* bound on Request steps in a history
          Emitting    \* TRUE: print one @@V vector per SetLists

VARIABLES cfg, last, obs, nset, nreq,
          posted, \* history of posted configurations
          plan    \* enumeration aid only, see Init
vars == <<cfg, last, obs, nset, nreq, posted, plan>>
\* The mc configuration identifies states up to the history (VIEW): posted is
\* read by LastPostedRules only and never by an action's guard.
NoHistory == <<cfg, last, obs, nset, nreq, plan>>

\* ------------------------------------------------------------- the universes
Bit4(i) == << (i \div 8) % 2, (i \div 4) % 2, (i \div 2) % 2, i % 2 >>

\* All 16 abstract addresses of both families, in a fixed order (the order of
\* the emitted verdict table).
AddrSeq == [j \in 1..32 |-> [fam  |-> IF j <= 16 THEN "v4" ELSE "v6",
                            bits |-> Bit4((j - 1) % 16)]]
IdSeq   == <<NoId, "c1", "c2">>

\* Entry family of the "clients" universe.  Chosen so that entries overlap in
\* every way the statement cares about: an address inside a prefix of the
\* other list, nested prefixes, /0, a full-length prefix equal to a listed
\* address, the same bits in the other family.
ClientFamily ==
    { Ip("v4", <<0,1,0,1>>), IpM(<<1,1,0,0>>),
      Cidr("v4", <<0,1>>), CidrM(<<1>>), Cidr("v4", <<>>),
      Cidr("v4", <<0,1,0,1>>), IdM("c1"),
      Ip("v6", <<0,1,0,1>>), Ip("v6", <<0,0,1,1>>),
      Cidr("v6", <<0,1>>), Cidr("v6", <<>>), Cidr("v6", <<0,0,1,1>>),
      Id("c1"), Id("c2") }

McFamily == { IpM(<<0,1,0,1>>), Id("c1"), IdM("c1") }

\* Names.  "xa" is a label that ends like "a" (look-alike: xa.com must not be
\* caught by a pattern for a.com).
ACom == <<"a", "com">>
NameSeq ==
    << ACom, <<"b","com">>, <<"xa","com">>, <<"a","org">>,
       <<"b","a","com">>, <<"a","a","com">>, <<"xa","a","com">>, <<"b","xa","com">>,
       <<"a","b","com">>, <<"b","b","a","com">>, <<"b","a","org">>,
       <<"com">>, <<"org">>, <<"a","com","org">>, <<"b","a","com","org">>,
       <<"a","b","a","com","org">>,
       <<"version","bind">>, <<"b","version","bind">>,
       \* "ar" = "ads" + non-digits ("adsrv"), "a1" = "ads" + a digit ("ads1")
       <<"ar","com">>, <<"a1","com">> >>


\* Query types of the universes (order of the emitted table).
QtypeSeq == <<"A", "AAAA", "TXT", "HTTPS", "MX">>

PatNames == {ACom, <<"b","a","com">>, <<"a","org">>}
HostPatterns ==
    {Pat(k, n) : k \in {"exact", "domain", "wild"}, n \in PatNames}
      \cup {Pat("domain", <<"com">>), Pat("wild", <<"com">>)}
      \* rules restricted to one query type
      \cup {PatT("domain", ACom, "AAAA"), PatT("domain", ACom, "MX"),
            PatT("wild", ACom, "A"), PatT("domain", <<"com">>, "TXT"),
            PatT("all", <<>>, "HTTPS")}
      \* regular-expression rules
      \cup {Pat("re", <<"nondigit">>), Pat("re", <<"capital">>), Pat("re", <<"named">>)}
      \* exception rules: inside a blocked domain / wildcard, with no blocking
      \* rule around them, restricted to a type
      \cup {PatX("domain", <<"b","a","com">>), PatX("domain", <<"a","org">>),
            PatXT("domain", ACom, "AAAA")}
      \* entries written with the final dot
      \cup {PatF("exact", ACom), PatF("wild", ACom)}

McPatterns == {PatF("exact", ACom), Pat("wild", ACom), PatT("domain", ACom, "AAAA"),
               PatX("domain", <<"b","a","com">>)}

\* Small subsets by comprehension (never SUBSET S filtered by cardinality).
Sub1(S) == {{}} \cup {{a} : a \in S}
Sub2(S) == Sub1(S) \cup {{a, b} : a, b \in S}

\* The list pairs / host lists a SetLists may install.
ListPairs ==
    CASE Universe = "clients" ->
           {<<A, D>> : A \in Sub2(ClientFamily), D \in Sub2(ClientFamily)}
      [] Universe = "hosts" ->
           { <<{}, {}>>,
             <<{Ip("v4", <<0,1,0,1>>)}, {Cidr("v4", <<>>)}>>,
             <<{}, {Cidr("v4", <<0,1>>), Id("c2")}>>,
             <<{Id("c1")}, {}>> }
      [] Universe = "mc" ->
           {<<A, D>> : A \in Sub1(McFamily), D \in Sub1(McFamily)}

HostLists ==
    CASE Universe = "clients" -> {{Pat("domain", ACom), PatT("domain", <<"b","com">>, "AAAA")}}
      [] Universe = "hosts"   -> Sub2(HostPatterns)
      [] Universe = "mc"      -> Sub1(McPatterns)

\* Requests of the "mc" universe: every transport, ClientID absent / present in
\* both spellings (only where a transport can carry one), every presentation
\* form of an address, names hit by each pattern kind and by none.
McAddrForms == { <<AddrSeq[6],  "mapped">>, <<AddrSeq[22], "zoned">>, <<AddrSeq[3], "plain">> }
McNames == {ACom, <<"b","a","com">>, <<"version","bind">>}
McRequests ==
    { [addr |-> af[1], form |-> af[2], id |-> c, idcase |-> ic, name |-> n,
       spell |-> "plain", qtype |-> q, proto |-> p] :
        af \in McAddrForms, c \in {NoId, "c1", "c2", BadId}, ic \in {"lower", "mixed"},
        n \in McNames, q \in {"A", "AAAA"}, p \in Protos }
Requests ==
    {r \in McRequests : /\ (r.id # NoId => r.proto \in IdProtos)
                        /\ (r.id = NoId => r.idcase = "lower")
                        /\ (r.id # NoId => r.idcase = "mixed")
                        /\ (r.qtype = "AAAA" => r.name = ACom /\ r.form # "plain")
                        /\ (r.name = <<"version","bind">> => r.qtype = "A" /\ r.id = NoId /\ r.form = "mapped")
                        /\ (r.form = "plain" => r.name = ACom /\ r.id = NoId /\ r.qtype = "A")
                        /\ (r.id = "c2" => r.proto = "https" /\ r.qtype = "A")
                        /\ (r.id = BadId => r.proto = "tls" /\ r.qtype = "A" /\ r.form = "mapped")}

\* ----------------------------------------------------------------- behaviour
NoLast  == [out |-> "none"]
NoCfg   == [allowed |-> {}, disallowed |-> {}, hosts |-> {}]
ZeroObs == [up |-> 0, filt |-> 0, qlog |-> 0, stats |-> 0]

\* 1 = must be denied, 0 = must not be, 2 = statement silent (either).
Code(v) == IF v = {TRUE} THEN 1 ELSE IF v = {FALSE} THEN 0 ELSE 2

\* Client table, address-major: entry (a, c).
ExTable(c) ==
    [j \in 1..(Len(AddrSeq) * Len(IdSeq)) |->
        Code({Excluded(c, AddrSeq[((j - 1) \div Len(IdSeq)) + 1],
                          IdSeq[((j - 1) % Len(IdSeq)) + 1])})]

\* Name table, name-major: entry (n, q).
HostTable(c) ==
    [i \in 1..(Len(NameSeq) * Len(QtypeSeq)) |->
        Code(HostBlocked(c.hosts, NameSeq[((i - 1) \div Len(QtypeSeq)) + 1],
                                  QtypeSeq[((i - 1) % Len(QtypeSeq)) + 1]))]

EmitUniverse ==
    PrintT(<<"@@V", ToJson([kind |-> "universe", addrs |-> AddrSeq, ids |-> IdSeq,
                            names |-> NameSeq, qtypes |-> QtypeSeq])>>)
\* via = entry point, given = the blocked-hosts list as passed to it, hosts =
\* the effective one (reported by the API, enforced).
EmitCfg(c, via, given) ==
    PrintT(<<"@@V", ToJson([kind |-> "cfg", via |-> via, allowed |-> c.allowed,
                            disallowed |-> c.disallowed, hosts |-> c.hosts,
                            given |-> given,
                            ex |-> ExTable(c), hv |-> HostTable(c)])>>)

\* plan is not part of the modelled system.  All successors of one state are
\* computed by a single TLC worker, so enumerating thousands of list pairs
\* from the single initial state would be sequential.  In the enumeration
\* universes the initial state therefore already fixes which allowed list the
\* SetLists step is going to install (one initial state per allowed list);
\* the set of reachable configurations is the same.  In the "mc" universe the
\* aid is off.
Plans ==
    IF Universe = "mc" THEN {[on |-> FALSE, a |-> {}]}
    ELSE {[on |-> TRUE, a |-> p[1]] : p \in ListPairs}

Init == /\ cfg = NoCfg
        /\ last = NoLast
        /\ obs = ZeroObs
        /\ nset = 0
        /\ nreq = 0
        /\ posted = <<>>
        /\ plan \in Plans
        /\ (Emitting => EmitUniverse)

\* One successful POST /control/access/set.  Nothing is resolved, filtered,
\* logged or counted by it, and there is no request in flight afterwards.
SetLists(A, D, H) ==
    /\ nset < MaxSet
    \* Bound only: a reconfiguration after the first one is explored between
    \* two requests (histories S R* and S R S R).
    /\ (nset > 0 => (nreq > 0 /\ nreq < MaxReq))
    /\ A \cap D = {}
    /\ (plan.on => A = plan.a)
    /\ cfg' = [allowed |-> A, disallowed |-> D, hosts |-> H]
    /\ posted' = Append(posted, cfg')
    /\ last' = NoLast
    /\ nset' = nset + 1
    /\ UNCHANGED <<obs, nreq, plan>>
    /\ (Emitting => EmitCfg(cfg', "set", H))

\* The server is created or reconfigured from a configuration carrying the
\* lists.  Same obligations as SetLists; the only difference is that an empty
\* blocked-hosts list means the defaults.  (The configuration file is not
\* validated for shared items; the universes keep the lists disjoint.)  In
\* the "clients" universe only SetLists is enumerated: there H is never empty
\* and LoadConfig(A, D, H) has, by definition, the very same successor.
LoadConfig(A, D, H) ==
    /\ Universe # "clients"
    /\ nset < MaxSet
    /\ (nset > 0 => (nreq > 0 /\ nreq < MaxReq))
    /\ A \cap D = {}
    /\ (plan.on => A = plan.a)
    /\ cfg' = [allowed |-> A, disallowed |-> D, hosts |-> EffectiveHosts(H)]
    /\ posted' = Append(posted, cfg')
    /\ last' = NoLast
    /\ nset' = nset + 1
    /\ UNCHANGED <<obs, nreq, plan>>
    /\ (Emitting => EmitCfg(cfg', "load", H))

\* One DNS request r with outcome o.
Request(r, o) ==
    /\ nset > 0
    /\ nreq < MaxReq
    /\ o \in Outcomes(cfg, r)
    /\ last' = [out |-> o, req |-> r]
    /\ obs' = [x \in DOMAIN obs |-> obs[x] + Effect(o)]
    /\ nreq' = nreq + 1
    /\ UNCHANGED <<cfg, nset, posted, plan>>

Next == \/ \E p \in ListPairs, H \in HostLists : SetLists(p[1], p[2], H)
        \/ \E p \in ListPairs, H \in HostLists : LoadConfig(p[1], p[2], H)
        \/ \E r \in Requests : \E o \in Outcomes(cfg, r) : Request(r, o)

Spec == Init /\ [][Next]_vars

\* -------------------------------------------------- the statement, restated
HasLast == last.out # "none"

\* Over histories: what decides is the configuration posted last, exactly as
\* posted, whatever was posted before.
LastPostedRules ==
    /\ Len(posted) = nset
    /\ (nset > 0 => cfg = posted[Len(posted)])
    /\ (HasLast => last.out \in Outcomes(posted[Len(posted)], last.req))

\* A configuration never leaves the server without blocked hosts; loaded with
\* a non-empty list it is what SetLists would have installed.
LoadedDefaults ==
    /\ EffectiveHosts({}) = DefaultHosts
    /\ \A H \in HostLists : H # {} => EffectiveHosts(H) = H

\* "... is never resolved, filtered, logged or counted: over UDP and DNSCrypt
\*  it gets no reply at all, over every other transport only REFUSED."
ExcludedNeverServed ==
    HasLast /\ last.req.id # BadId /\ Excluded(cfg, last.req.addr, last.req.id) =>
        last.out = Denial(last.req.proto)
BlockedNameNeverServed ==
    HasLast /\ last.req.id # BadId
            /\ HostBlocked(cfg.hosts, last.req.name, last.req.qtype) = {TRUE} =>
        last.out = Denial(last.req.proto)
SilentOnDatagram ==
    HasLast => /\ (last.out = "drop"    => last.req.proto \in SilentProto)
               /\ (last.out = "refused" => last.req.proto \notin SilentProto)
               /\ (last.out = "servfail" => last.req.id = BadId)
\* "All other requests are served."
OthersServed ==
    HasLast /\ last.req.id # BadId /\ Admitted(cfg, last.req.addr, last.req.id)
            /\ HostBlocked(cfg.hosts, last.req.name, last.req.qtype) = {FALSE}
        => last.out = "served"

\* Whether an entry is written with the final dot is irrelevant.
HostSpellingIrrelevant ==
    HasLast => HostBlocked(cfg.hosts, last.req.name, last.req.qtype) =
               HostBlocked({[p EXCEPT !.fq = FALSE] : p \in cfg.hosts}, last.req.name, last.req.qtype)

\* A name that the list excepts is served to an admitted client, whatever
\* blocking rule stands around the exception.
ExceptedNameIsServed ==
    HasLast /\ last.req.id # BadId /\ Admitted(cfg, last.req.addr, last.req.id)
            /\ Excepted(cfg.hosts, last.req.name, last.req.qtype)
        => last.out = "served"

\* The decision looks at nothing but (address, ClientID, name, query type --
\* the latter only through type-restricted patterns --, transport): not at the
\* form of the address nor at the spelling of the ClientID or of the name.
Canon(r) == [r EXCEPT !.form = "plain", !.idcase = "lower", !.spell = "plain"]
PresentationIrrelevant ==
    HasLast => Outcomes(cfg, last.req) = Outcomes(cfg, Canon(last.req))
\* Without type-restricted patterns the query type is irrelevant as well.
TypeIrrelevantForPlainPatterns ==
    (HasLast /\ \A p \in cfg.hosts : p.qt = "") =>
        Outcomes(cfg, last.req) = Outcomes(cfg, [last.req EXCEPT !.qtype = "A"])

\* Table-level restatements, over every (address, ClientID) of the universe.
AllAddrs == {AddrSeq[j] : j \in 1..Len(AddrSeq)}
AllIds   == {IdSeq[j] : j \in 1..Len(IdSeq)}

\* "(the disallowed list is then ignored)"
AllowModeIgnoresDisallowed ==
    cfg.allowed # {} =>
        \A a \in AllAddrs, c \in AllIds :
            Excluded(cfg, a, c) = Excluded([cfg EXCEPT !.disallowed = {}], a, c)
\* Allow-list mode made of ClientIDs only: a request without ClientID is out,
\* whatever its address.
OnlyIdsAllowedExcludesAnonymous ==
    (cfg.allowed # {} /\ \A e \in cfg.allowed : e.k = "id") =>
        \A a \in AllAddrs : Excluded(cfg, a, NoId)
\* In block-list mode the allowed list is empty, hence irrelevant, and one
\* matching entry of either kind suffices.
BlockModeOneMatchSuffices ==
    cfg.allowed = {} =>
        \A a \in AllAddrs, c \in AllIds :
            Excluded(cfg, a, c) <=>
                \/ \E e \in cfg.disallowed : EntryHasAddr(e, a)
                \/ \E e \in cfg.disallowed : EntryHasId(e, c)
EmptyListsExcludeNobody ==
    (cfg.allowed = {} /\ cfg.disallowed = {}) =>
        \A a \in AllAddrs, c \in AllIds : Admitted(cfg, a, c)
\* How an entry is written (letter case of a ClientID, 4-in-6 form of an IPv4
\* address or prefix) is irrelevant.
Plain(e) == [e EXCEPT !.sp = "lower"]
EntrySpellingIrrelevant ==
    \A a \in AllAddrs, c \in AllIds :
        Excluded(cfg, a, c) =
            Excluded([cfg EXCEPT !.allowed = {Plain(e) : e \in cfg.allowed},
                                 !.disallowed = {Plain(e) : e \in cfg.disallowed}], a, c)
\* An invalid ClientID label is never served; it may be answered by the
\* denial only where the denial is due anyway.
InvalidIdNeverServed ==
    (HasLast /\ last.req.id = BadId) =>
        /\ last.out # "served"
        /\ (last.out # "servfail" => TRUE \in Denied(cfg, last.req))

\* Action properties: a denied request moves none of the observers, a served
\* one moves each of them, a reconfiguration moves none.
DeniedMovesNothing ==
    [][(nreq' = nreq + 1 /\ last'.out # "served") => obs' = obs]_vars
ServedIsObserved ==
    [][(nreq' = nreq + 1 /\ last'.out = "served") =>
          \A x \in DOMAIN obs : obs'[x] = obs[x] + 1]_vars
SetListsMovesNothing ==
    [][nset' = nset + 1 => (obs' = obs /\ last' = NoLast)]_vars
=============================================================================
