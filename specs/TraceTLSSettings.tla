-------------------------- MODULE TraceTLSSettings --------------------------
(***************************************************************************)
(* Direction B for G08 (B): histories recorded from the real               *)
(* /control/tls/* handlers (arena T: seeded random requests drawn from the *)
(* full product of the request dimensions, with restarts) are validated    *)
(* against TLSSettings.tla.  A line is accepted iff TLSSettings!OutR       *)
(* admits an outcome with the observed status code whose destination is    *)
(* exactly the observed projection (settings in force, settings on disk,   *)
(* what the HTTPS server serves, DNS running) and every observed status    *)
(* field lies in the set TLSSettings!FieldsR admits.  After a rejected     *)
(* line the rest of the behaviour is skipped and counted.                  *)
(***************************************************************************)
EXTENDS TLSSettings

Trace == ndJsonDeserialize("trace.ndjson")

VARIABLES l, bad, lost, skipped

tvars == <<st, l, bad, lost, skipped>>

Wellformed(o) == "cur" \in DOMAIN o /\ "enabled" \in DOMAIN o.cur /\ "enabled" \in DOMAIN o.disk

SettingsOf(x) == [enabled |-> x.enabled, name |-> x.name, https |-> x.https, dot |-> x.dot, doq |-> x.doq,
                  csrc |-> x.csrc, cert |-> x.cert, ksrc |-> x.ksrc, key |-> x.key, plain |-> x.plain]
Clean(x) == DOMAIN x = DOMAIN Empty

LineObs(o) == [cur |-> SettingsOf(o.cur), disk |-> SettingsOf(o.disk),
               serving |-> [on |-> o.serving.on, cert |-> o.serving.cert], running |-> o.running]

ReqOfLine(ln) == IF ln.act \in {"validate", "configure"} THEN ln.req ELSE B0

Matches(ln) ==
    IF ~Wellformed(ln.obs) \/ ~Clean(ln.obs.cur) \/ ~Clean(ln.obs.disk) THEN {}
    ELSE {o \in OutR(st, ln.act, ReqOfLine(ln)) : o.code = ln.code /\ Obs(o.st) = LineObs(ln.obs)}

FieldNames == {"valid_cert", "valid_chain", "valid_key", "valid_pair", "warning", "leaf", "key_returned"}

\* The status fields of a 200 reply that the specification does not admit.
BadFields(ln) ==
    IF ln.code # 200 \/ ln.act = "restart" THEN {}
    ELSE LET F == FieldsR(st, ln.act, ReqOfLine(ln)) IN
         IF "none" \in DOMAIN F THEN {}
         ELSE {n \in FieldNames : ln.fields[n] \notin F[n]}
              \cup (IF ln.act = "status" /\ ln.fields.saved # (st.cur.ksrc = "inline") THEN {"private_key_saved"} ELSE {})

TInit == /\ st = Init0 /\ l = 1 /\ bad = {} /\ lost = FALSE /\ skipped = 0

TStep ==
    /\ l <= Len(Trace)
    /\ LET ln == Trace[l] IN
       IF ln.ev = "reset"
       THEN /\ st' = Init0 /\ lost' = FALSE /\ UNCHANGED <<bad, skipped>>
       ELSE IF lost
       THEN /\ skipped' = skipped + 1 /\ UNCHANGED <<st, bad, lost>>
       ELSE LET m  == Matches(ln)
                bf == BadFields(ln) IN
            IF m # {}
            THEN /\ st' = (CHOOSE o \in m : TRUE).st
                 /\ bad' = IF bf = {} THEN bad ELSE bad \cup {[i |-> l, act |-> ln.act, kind |-> "fields", fields |-> bf,
                                                              codes |-> {ln.code}]}
                 /\ UNCHANGED <<lost, skipped>>
            ELSE /\ bad' = bad \cup {[i |-> l, act |-> ln.act, kind |-> "state", fields |-> {},
                                      codes |-> {o.code : o \in OutR(st, ln.act, ReqOfLine(ln))}]}
                 /\ lost' = TRUE /\ UNCHANGED <<st, skipped>>
    /\ l' = l + 1
    /\ (l' = Len(Trace) + 1 => PrintT(<<"@@V", ToJson([n |-> Len(Trace), bad |-> bad', skipped |-> skipped'])>>))

TSpec == TInit /\ [][TStep]_tvars
=============================================================================
