"""C01 -- a query blocked by rules is answered locally and never forwarded upstream."""
import json
import random
import vlib
import c0102_common as cm

TEST_REPLAY = "TestZZVerifC01Replay"
TEST_TRACE = "TestZZVerifC01Trace"

DEFAULT_FLAGS = {"prot": "on", "filt": True, "svc": "none", "aaaaOff": False}


MAX_REPORTS = 25     # replay records written per direction and run


def classify(rec):
    """Narrow keys of known findings.

    The harness sets `addrform` only when the outcome is not admissible although the very
    same request, sent right afterwards from the same client with the PLAIN form of its
    address, is: the form in which the client's address arrives makes the difference."""
    if rec.get("addrform") == "zoned":
        return "client-rule-zoned-address"
    if rec.get("addrform") == "mapped":
        return "client-rule-mapped-address"
    return None


def is_rule_stratum(c):
    cf = c["cfg"]
    return (all(cf[k] == v for k, v in DEFAULT_FLAGS.items())
            and not cf["client"]["useOwn"] and cf["client"]["svc"] == "inherit")


def nontrivial_set(cfgs):
    """Indices of the non-trivial configurations.

    Rule stratum: a rule set S with |S| >= 2 is non-trivial when, for some
    request, (a) two rules of S each decide that request on their own
    (a precedence decision), or (b) deleting one rule of S changes the verdict
    although that rule alone does not decide the request (an indirect effect:
    $badfilter, engine order).  A one-rule set is non-trivial when its table
    differs from the empty configuration's.
    Flag stratum: the table differs from the table of the same rule set under
    default flags (the flags matter).
    Only the 'why' part of the verdict is compared (the response class depends
    on the rotating blocking mode)."""
    sig = {}     # frozenset(rule keys) -> tuple of why signatures, rule stratum only
    for c in cfgs:
        if is_rule_stratum(c):
            k = frozenset(cm.rule_key(r) for r in c["cfg"]["rules"])
            sig.setdefault(k, tuple(cm.why_sig(e) for e in c["tab"]))
    empty = sig.get(frozenset())
    nt = set()
    for c in cfgs:
        rules = [cm.rule_key(r) for r in c["cfg"]["rules"]]
        k = frozenset(rules)
        mine = tuple(cm.why_sig(e) for e in c["tab"])
        if not is_rule_stratum(c):
            base = sig.get(k)
            if base is not None and base != mine:
                nt.add(c["i"])
            continue
        if len(k) == 0 or empty is None:
            continue
        if len(k) == 1:
            if mine != empty:
                nt.add(c["i"])
            continue
        singles = [sig.get(frozenset([r])) for r in k]
        if any(s is None for s in singles):
            continue
        for q in range(len(mine)):
            touching = sum(1 for s in singles if s[q] != empty[q])
            if touching >= 2:
                nt.add(c["i"])
                break
            indirect = False
            for r, s in zip(k, singles):
                rest = sig.get(k - {r})
                if rest is not None and rest[q] != mine[q] and s[q] == empty[q]:
                    indirect = True
            if indirect:
                nt.add(c["i"])
                break
    return nt


def generate(ctx):
    cfgname = "DnsPipeline.c01q.cfg" if ctx.quick else "DnsPipeline.c01t.cfg"
    gen = ctx.tlc("DnsPipeline", cfgname, workers=cm.TLC_WORKERS, timeout=1500)
    hdr = [v for v in gen["vectors"] if v.get("kind") == "hdr01"]
    cfgs = [v for v in gen["vectors"] if v.get("kind") == "c01"]
    if len(hdr) != 1 or len(cfgs) < 5000:
        raise vlib.Inconclusive("too few vectors: %d headers, %d configurations" % (len(hdr), len(cfgs)))
    # a stable numbering, independent of the order TLC's workers printed them in
    cfgs.sort(key=lambda c: cm.cfg_key(c["cfg"]))
    for i, c in enumerate(cfgs):
        c["i"] = i
    return hdr[0], cfgs


def run(ctx):
    # the source addresses of the requests also arrive zoned (link-local IPv6) and
    # IPv4-mapped: the same clients, abstractly nothing changes
    cm.EXTRA_ENV["VERIF_ADDRFORMS"] = "1"
    cm.model_check(ctx)
    hdr, cfgs = generate(ctx)
    nq = len(hdr["queries"])
    nt = nontrivial_set(cfgs)
    rng = random.Random(ctx.seed)
    if ctx.quick:
        # every 4th configuration (seeded phase, stratified by sorting on the
        # abstract configuration) plus the non-trivial ones, capped
        budget = 4500
        phase = rng.randrange(4)
        sample = {c["i"] for c in cfgs if c["i"] % 4 == phase}
        ntl = sorted(nt - sample)
        rng.shuffle(ntl)
        chosen = sample | set(ntl[:max(0, budget - len(sample))])
        sel = [c for c in cfgs if c["i"] in chosen]
    else:
        sel = cfgs
    # Histories: the selected configurations are chained into walks of ONE live
    # server (4 configurations + the first one again), reconfigured through
    # filtering's HTTP handlers; all requests after every reconfiguration; with the
    # cache on every request twice.
    walks = cm.make_walks(sel, rng, "w01", extra=("tabr",))
    # a sample also through a real UDP socket
    udp_n = 20 if ctx.quick else 150
    for w in rng.sample(walks, min(udp_n, len(walks))):
        w["udp"] = True
    confirmed, st = cm.replay_with_confirmation(ctx, TEST_REPLAY, cm.FILES01, hdr, walks, "c01")
    # unclassified disagreements first; a known finding is reported once per key
    keyed, seen_keys = [], set()
    for b in confirmed:
        k = classify(b)
        if k is None:
            keyed.append((k, b))
        elif k not in seen_keys:
            seen_keys.add(k)
            keyed.append((k, b))
    keyed.sort(key=lambda kb: kb[0] is not None)
    for k, b in keyed[:MAX_REPORTS]:
        ctx.disagreement(k, b, "C01: %s%s -- observed %s, spec admits %s (rule lists over the server's life: %s)" % (
            b["concrete"], " (asked before)" if b.get("rep") else "", json.dumps(b["got"]), json.dumps(b["want"]),
            json.dumps(b["history"])))
    addrform_bad = sum(1 for b in confirmed if classify(b) is not None)

    # Direction B
    n_cfg = 150 if ctx.quick else 700
    trows, bad_lines, ncorrupt = cm.trace_validate(ctx, TEST_TRACE, cm.FILES01, n_cfg, "c01")
    trace_q = sum(1 for r in trows if r["ev"] == "q")
    rejected = 0
    if bad_lines:
        # re-drive the configurations of the rejected lines alone
        cis = sorted({cm.cfg_index_of_line(trows, b) for b in bad_lines})
        real_ci = [[r for r in trows if r["ev"] == "cfg"][ci]["ci"] for ci in cis]
        rows2, bad2, _ = cm.trace_validate(ctx, TEST_TRACE, cm.FILES01, n_cfg, "c01b", only=real_ci)
        again = {json.dumps(rows2[b - 1]["req"], sort_keys=True) + json.dumps(rows2[b - 1]["obs"], sort_keys=True)
                 for b in bad2}
        for b in bad_lines[:MAX_REPORTS]:
            rec = dict(trows[b - 1])
            if json.dumps(rec["req"], sort_keys=True) + json.dumps(rec["obs"], sort_keys=True) in again:
                rejected += 1
                j = b - 1
                while trows[j]["ev"] != "cfg":
                    j -= 1
                rec["cfg"] = trows[j]["cfg"]
                rec["lists"] = trows[j].get("lists")
                rec["ci"], rec["seed"], rec["n_cfg"] = trows[j]["ci"], ctx.seed, n_cfg
                ctx.disagreement(classify(rec), rec, "C01 trace: %s -- outcome %s not admitted by DnsPipeline (lists %s)" % (
                    rec.get("concrete"), json.dumps(rec["obs"]), json.dumps(rec["lists"])))

    sel_nt = sum(1 for c in sel if c["i"] in nt)
    blocked_entries = sum(1 for c in sel for e in c["tab"] if any(o["why"] in ("B", "S") for o in e))
    cached = sum(1 for c in sel if c["cfg"]["cache"])
    if blocked_entries == 0 or sel_nt == 0 or st["udp"] == 0 or st["reconfigurations"] == 0 or cached == 0 or st["faults"] == 0:
        raise vlib.Inconclusive("vacuous replay: blocked=%d nontrivial=%d udp=%d reconfigurations=%d cached=%d" % (
            blocked_entries, sel_nt, st["udp"], st["reconfigurations"], cached))
    s0 = sel[0]
    samples = [{"cfg": s0["cfg"], "first_entries": s0["tab"][:3]},
               {"cfg": sel[len(sel) // 2]["cfg"], "first_entries": sel[len(sel) // 2]["tab"][:3]}]
    samples += st["samples"][:2]
    samples.append({"trace_line": next(r for r in trows if r["ev"] == "q")})
    cov = {
        "traces_validated_against_impl": st["configs"] + trace_q,
        "configurations_generated": len(cfgs), "configurations_replayed": len(sel),
        "live_servers": st["walks"], "configuration_visits": st["configs"],
        "reconfigurations_on_live_servers": st["reconfigurations"], "failed_rebuilds_injected": st["faults"],
        "disagreements_attributed_to_address_form": addrform_bad, "configurations_with_cache": cached,
        "evaluations": st["evals"] + trace_q,
        "queries_per_configuration": nq,
        "distinct_nontrivial": sel_nt, "nontrivial_in_universe": len(nt),
        "rule": "one vector = one configuration (rule lists, mode, flags) with the verdict table of all %d requests; "
                "non-trivial = two rules decide the same request, or deleting a rule changes a verdict it does not decide alone, "
                "or (flag stratum) the flags change the table of the rule set" % nq,
        "blocked_entries_replayed": blocked_entries,
        "udp_walks": sum(1 for w in walks if w.get("udp")), "udp_requests": st["udp"],
        "trace_lines": trace_q, "trace_lines_rejected": rejected, "trace_corrupted_lines_rejected": ncorrupt,
        "flaky": st["flaky"], "skipped": st["skipped"],
        "exhaustive": not ctx.quick, "samples": samples,
    }
    return ctx.finish("model_checking", cov, assumptions=[
        "TLC; RuleEngine.tla is a transcription of urlfilter v0.20.0 validated by this replay on the unchanged tree",
        "conc()/abs() of zz_verif_c0102_test.go (rule text rendering, response classification, address tokens)",
        "handler level (Server.handleDNSRequest) with a mock upstream and a mock query log; a sample through a UDP socket",
        "rewrites, hosts container, safe browsing, parental, safe search absent from every configuration"])


def replay(ctx, path):
    rec = json.load(open(path))["record"]
    cm.EXTRA_ENV["VERIF_ADDRFORMS"] = "1"
    if "walk" in rec:      # direction A
        return cm.replay_stored_walk(ctx, TEST_REPLAY, cm.FILES01, rec, "c01r")
    return cm.replay_trace_record(ctx, TEST_TRACE, cm.FILES01, rec, "c01r")
