SPECIFICATION Spec
CONSTANT Mode = "gen"
INVARIANTS SafeInv
