PROPERTY = "G09"
ENTRY = {
        "text": "placeholder",
        "design_ref": "DESIGN.md section 5 (AdGuardHome.tla); notes/G09.md",
        "note": "placeholder",
        "technique": "placeholder",
    }
