SPECIFICATION TSpec
CONSTANTS
  Pairs = FALSE
INVARIANTS NoPanic SuccessStampsCurrent UnconcernedKeysPreserved PathIndependent Idempotent
