CONSTANTS
    Addrs = {"a1", "a2"}
    Claims = {"none", "peer", "trusted", "untrusted"}
    MaxAttemptsSet = {1, 2, 3}
    BlockDurSet = {1, 2, 3}
    Window = 2
    MaxTick = 4
SPECIFICATION Spec
VIEW View
INVARIANTS IndInv Safety OrigInvs
PROPERTIES OrigSpec OrigProps
