#!/usr/bin/env python3
"""crosscheck.py <worktree> <seeded id> <other property>... : run other properties' quick checks against a stored
seeded change and record the result under meta["cross"] (which check of the suite catches the change)."""
import json, os, sys, subprocess
sys.path.insert(0, os.path.dirname(os.path.abspath(__file__)))
import seeded
wt, sid = sys.argv[1], sys.argv[2]
head = subprocess.run(["git", "-C", "/repo", "rev-parse", "HEAD"], capture_output=True, text=True).stdout.strip()
subprocess.run(["git", "-C", wt, "checkout", "-q", "--detach", head])
d = os.path.join("/verif/seeded", sid)
meta = json.load(open(os.path.join(d, "meta.json")))
for prop in sys.argv[3:]:
    r = seeded.check(wt, os.path.join(d, "patch.diff"), prop, "quick")
    meta.setdefault("cross", {})[prop] = {"exit": r.get("exit"), "lines": (r.get("lines") or [])[:2]}
    print(sid, "under", prop, "quick exit", r.get("exit"), (r.get("lines") or [""])[-1][:200])
json.dump(meta, open(os.path.join(d, "meta.json"), "w"), indent=1)
