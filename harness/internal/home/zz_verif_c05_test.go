package home

// C05 conformance harness: boots the whole server the way run() does (real
// initContextClients, setupDNSFilteringConf, registerControlHandlers, initDNS,
// startDNSServer), then executes the scenario families derived from
// specs/Concurrency.tla: DNS request goroutines over real UDP/TCP sockets
// concurrently with admin operations through the real HTTP mux and with the
// background workers.  Built with -race; the orchestrator parses the race
// detector's reports, this file reports panics, stalls and malformed
// responses, and the invocation/response history for trace validation.

import (
	"bytes"
	"context"
	"encoding/json"
	"fmt"
	"io"
	"math/rand"
	"net"
	"net/http"
	"net/http/httptest"
	"net/netip"
	"os"
	"path/filepath"
	"runtime"
	"strings"
	"sync"
	"sync/atomic"
	"testing"
	"time"

	"github.com/AdguardTeam/AdGuardHome/internal/dhcpd"
	"github.com/AdguardTeam/AdGuardHome/internal/filtering"
	"github.com/AdguardTeam/golibs/logutil/slogutil"
	"github.com/AdguardTeam/golibs/timeutil"
	"github.com/miekg/dns"
)

// zzC05Sys is the booted system.
type zzC05Sys struct {
	dnsAddr   string
	listSrv   *httptest.Server
	upstream  *dns.Server
	upAddr    string
	upGate    atomic.Pointer[chan struct{}]
	upCalls   atomic.Int64
	listGate  atomic.Pointer[chan struct{}]
	listCalls atomic.Int64
	dhcp      *zzC05DHCP
	upNames   sync.Map
	listBody  atomic.Value
	dir       string
	stopped   bool
	localList string
}

func zzC05FreeUDPPort(t testing.TB) (port uint16) {
	for i := 0; i < 50; i++ {
		c, err := net.ListenPacket("udp", "127.0.0.1:0")
		if err != nil {
			t.Fatalf("picking port: %v", err)
		}

		p := c.LocalAddr().(*net.UDPAddr).Port
		_ = c.Close()

		l, err := net.Listen("tcp", fmt.Sprintf("127.0.0.1:%d", p))
		if err != nil {
			continue
		}

		_ = l.Close()

		return uint16(p)
	}

	t.Fatal("no free port")

	return 0
}

// zzC05Boot boots the system in dir.
func zzC05Boot(t testing.TB, dir string) (sys *zzC05Sys) {
	sys = &zzC05Sys{dir: dir}
	ctx := context.Background()
	l := slogutil.NewDiscardLogger()

	// Mock upstream: answers every A/AAAA with a sentinel, optionally gated.
	upPort := zzC05FreeUDPPort(t)
	sys.upAddr = fmt.Sprintf("127.0.0.1:%d", upPort)
	pc, err := net.ListenPacket("udp", sys.upAddr)
	if err != nil {
		t.Fatalf("upstream listen: %v", err)
	}

	sys.upstream = &dns.Server{PacketConn: pc, Handler: dns.HandlerFunc(func(w dns.ResponseWriter, r *dns.Msg) {
		sys.upCalls.Add(1)
		if g := sys.upGate.Load(); g != nil {
			<-*g
		}

		m := (&dns.Msg{}).SetReply(r)
		if len(r.Question) == 1 {
			q := r.Question[0]
			sys.upNames.Store(strings.ToLower(q.Name), true)
			switch q.Qtype {
			case dns.TypeA:
				m.Answer = append(m.Answer, &dns.A{
					Hdr: dns.RR_Header{Name: q.Name, Rrtype: dns.TypeA, Class: dns.ClassINET, Ttl: 60},
					A:   net.IP{203, 0, 113, 77},
				})
			case dns.TypeAAAA:
				m.Answer = append(m.Answer, &dns.AAAA{
					Hdr:  dns.RR_Header{Name: q.Name, Rrtype: dns.TypeAAAA, Class: dns.ClassINET, Ttl: 60},
					AAAA: net.ParseIP("2001:db8::77"),
				})
			}
		}

		_ = w.WriteMsg(m)
	})}
	go func() { _ = sys.upstream.ActivateAndServe() }()

	// Filter-list server.
	sys.listBody.Store("||listed.example^\n||ads.example^\n")
	sys.listSrv = httptest.NewServer(http.HandlerFunc(func(w http.ResponseWriter, r *http.Request) {
		// The list server doubles as a scheduler gate for the refresh worker:
		// a download parks here while an admin operation runs.
		sys.listCalls.Add(1)
		if g := sys.listGate.Load(); g != nil {
			select {
			case <-*g:
			case <-time.After(30 * time.Second):
			}
		}

		// Every location also serves one rule of its own, so that the lists
		// can be told apart in DNS answers.
		own := strings.TrimSuffix(strings.Trim(r.URL.Path, "/"), ".txt")
		_, _ = io.WriteString(w, sys.listBody.Load().(string)+"||only-"+own+".example^\n")
	}))

	sys.localList = filepath.Join(dir, "local_list.txt")
	_ = os.WriteFile(sys.localList, []byte("||local-listed.example^\n"), 0o644)

	globalContext = homeContext{}
	globalContext.workDir = dir
	globalContext.confFilePath = filepath.Join(dir, "AdGuardHome.yaml")
	globalContext.mux = http.NewServeMux()
	globalContext.firstRun = false
	webHandlersRegistered = false

	dnsPort := zzC05FreeUDPPort(t)
	config.DNS.BindHosts = []netip.Addr{netip.MustParseAddr("127.0.0.1")}
	config.DNS.Port = dnsPort
	config.DNS.UpstreamDNS = []string{sys.upAddr}
	config.DNS.BootstrapDNS = []string{sys.upAddr}
	config.DNS.FallbackDNS = nil
	config.DNS.Ratelimit = 0
	config.DNS.CacheSize = 0
	config.DNS.UsePrivateRDNS = false
	config.DNS.HostsFileEnabled = false
	config.DNS.UpstreamTimeout = timeutil.Duration(5 * time.Second)
	config.Clients.Sources = &clientSourcesConfig{}
	config.Clients.Persistent = nil
	config.QueryLog.MemSize = 7
	config.QueryLog.Interval = timeutil.Duration(24 * time.Hour)
	config.Users = nil
	config.Filters = []filtering.FilterYAML{{
		Filter:  filtering.Filter{ID: 1},
		Enabled: true,
		URL:     sys.listSrv.URL + "/list1.txt",
		Name:    "list1",
	}}
	config.WhitelistFilters = nil
	config.UserRules = []string{"||custom-blocked.example^"}
	config.Filtering.SafeFSPatterns = []string{filepath.Join(dir, "*.txt")}
	config.Filtering.FiltersUpdateIntervalHours = 1
	// A CNAME rewrite whose target is resolved upstream: such a request has its
	// question rewritten while it is in flight and restored afterwards.
	config.Filtering.Rewrites = []*filtering.LegacyRewrite{{Domain: "cname-rw.example", Answer: "plain-target.example"}}
	config.TLS = tlsConfigSettings{}
	config.DHCP = &dhcpd.ServerConfig{
		Enabled:         true,
		InterfaceName:   "lo",
		LocalDomainName: "lan",
		Conf4: dhcpd.V4ServerConf{
			GatewayIP:     netip.MustParseAddr("127.0.10.1"),
			SubnetMask:    netip.MustParseAddr("255.255.255.0"),
			RangeStart:    netip.MustParseAddr("127.0.10.100"),
			RangeEnd:      netip.MustParseAddr("127.0.10.200"),
			LeaseDuration: 3600,
		},
	}
	config.Clients.Sources.DHCP = true

	filtering.InitModule()

	sigHdlr := newSignalHandler(make(chan os.Signal, 1), func(ctx context.Context) {})
	if err = initContextClients(ctx, l, sigHdlr); err != nil {
		t.Fatalf("initContextClients: %v", err)
	}

	tlsMgr, err := newTLSManager(ctx, &tlsManagerConfig{
		logger:         l,
		configModified: onConfigModified,
		tlsSettings:    config.TLS,
		servePlainDNS:  config.DNS.ServePlainDNS,
	})
	if err != nil {
		t.Fatalf("newTLSManager: %v", err)
	}

	globalContext.tls = tlsMgr

	if err = setupDNSFilteringConf(ctx, l, config.Filtering, tlsMgr); err != nil {
		t.Fatalf("setupDNSFilteringConf: %v", err)
	}

	// The real safe-browsing lookup service is unreachable offline: substitute
	// a checker that blocks names containing "malware", so that the
	// safe-browsing branch of the request path (block host given as a host
	// name, resolved through the proxy) is exercised.
	config.Filtering.SafeBrowsingChecker = zzC05Checker{}
	config.Filtering.SafeBrowsingEnabled = true

	if err = os.MkdirAll(globalContext.getDataDir(), 0o755); err != nil {
		t.Fatalf("mkdir: %v", err)
	}

	globalContext.auth, err = initUsers()
	if err != nil {
		t.Fatalf("initUsers: %v", err)
	}

	globalContext.web = &webAPI{conf: &webConfig{}, logger: l, baseLogger: l, tlsManager: tlsMgr}
	registerControlHandlers(globalContext.web)

	// The DNS server reads leases through a wrapper that can run a hook right
	// after a successful name lookup: the scheduler gate for "a lease changes
	// while a request that has looked it up is still in flight".
	if globalContext.dhcpServer != nil {
		sys.dhcp = &zzC05DHCP{Interface: globalContext.dhcpServer}
		globalContext.dhcpServer = sys.dhcp
	}

	statsDir, querylogDir, err := checkStatsAndQuerylogDirs(&globalContext, config)
	if err != nil {
		t.Fatalf("dirs: %v", err)
	}

	if err = initDNS(l, tlsMgr, statsDir, querylogDir); err != nil {
		t.Fatalf("initDNS: %v", err)
	}

	if sc, ok := globalContext.stats.(interface{ ZZVerifInstallClock() }); ok {
		sc.ZZVerifInstallClock()
	}

	if err = startDNSServer(); err != nil {
		t.Fatalf("startDNSServer: %v", err)
	}

	sys.dnsAddr = fmt.Sprintf("127.0.0.1:%d", dnsPort)

	return sys
}

// zzC05DHCP wraps the real DHCP server on its way into the DNS server.
type zzC05DHCP struct {
	dhcpd.Interface

	afterIPByHost atomic.Pointer[func(host string)]
}

// IPByHost implements the [dnsforward.DHCP] interface for *zzC05DHCP.
func (w *zzC05DHCP) IPByHost(host string) (ip netip.Addr) {
	ip = w.Interface.IPByHost(host)
	if f := w.afterIPByHost.Load(); f != nil && ip.IsValid() {
		(*f)(host)
	}

	return ip
}

func (sys *zzC05Sys) shutdown() {
	if sys.stopped {
		return
	}

	sys.stopped = true
	// Let background goroutines started by the last operations (configuration
	// writes, protection re-enable) finish before tearing the server down.
	time.Sleep(400 * time.Millisecond)
	_ = stopDNSServer()
	closeDNSServer()
	if globalContext.auth != nil {
		globalContext.auth.Close()
	}

	sys.listSrv.Close()
	_ = sys.upstream.Shutdown()
}

// zzC05Checker is a stand-in for the hash-prefix safe-browsing checker.
type zzC05Checker struct{}

// Check implements the [filtering.Checker] interface for zzC05Checker.
func (zzC05Checker) Check(host string) (block bool, err error) {
	return strings.Contains(host, "malware"), nil
}

// zzC05API performs one admin API call through the real mux.
func zzC05API(method, path string, body any) (code int, resp string) {
	var rd io.Reader
	if body != nil {
		b, _ := json.Marshal(body)
		rd = bytes.NewReader(b)
	}

	r := httptest.NewRequest(method, path, rd)
	if body != nil {
		r.Header.Set("Content-Type", "application/json")
	}

	w := httptest.NewRecorder()
	globalContext.mux.ServeHTTP(w, r)
	zzC05Codes.Add(fmt.Sprintf("%s %s %d", method, strings.SplitN(path, "?", 2)[0], w.Code))

	return w.Code, w.Body.String()
}

// zzC05CodeCounter counts admin API outcomes per (method, path, status).
type zzC05CodeCounter struct {
	mu sync.Mutex
	m  map[string]int
}

func (c *zzC05CodeCounter) Add(k string) {
	c.mu.Lock()
	defer c.mu.Unlock()

	if c.m == nil {
		c.m = map[string]int{}
	}

	c.m[k]++
}

func (c *zzC05CodeCounter) Take() (m map[string]int) {
	c.mu.Lock()
	defer c.mu.Unlock()

	m, c.m = c.m, nil

	return m
}

var zzC05Codes = &zzC05CodeCounter{}

// zzC05Query sends one query and classifies the reply.
type zzC05Reply struct {
	Class string // "sentinel", "blocked", "refused", "nodata", "timeout", "malformed", "servfail", "other"
	Rcode int
	Err   string
}

func zzC05Query(c *dns.Client, conn *dns.Conn, name string, qt uint16) (rep zzC05Reply) {
	m := (&dns.Msg{}).SetQuestion(dns.Fqdn(name), qt)
	m.Id = dns.Id()
	m.SetEdns0(4096, false)
	// Names on the access blocked-hosts list are dropped without a reply over
	// UDP by design; do not wait long for them and do not count the silence as
	// a stall.
	mayDrop := strings.Contains(name, "access-blocked") || strings.Contains(name, "access-rule")
	d := 8 * time.Second
	if mayDrop {
		d = 300 * time.Millisecond
	}

	_ = conn.SetDeadline(time.Now().Add(d))
	c.Timeout = d
	r, _, err := c.ExchangeWithConn(m, conn)
	if err != nil {
		if ne, ok := err.(net.Error); ok && ne.Timeout() {
			if mayDrop {
				return zzC05Reply{Class: "dropped"}
			}

			return zzC05Reply{Class: "timeout", Err: err.Error()}
		}

		return zzC05Reply{Class: "malformed", Err: err.Error()}
	}

	if r.Id != m.Id || !r.Response || len(r.Question) != 1 ||
		!strings.EqualFold(r.Question[0].Name, m.Question[0].Name) || r.Question[0].Qtype != qt {
		return zzC05Reply{Class: "malformed", Err: "header/question mismatch: " + r.String()}
	}

	rep.Rcode = r.Rcode
	switch r.Rcode {
	case dns.RcodeSuccess:
		if len(r.Answer) == 0 {
			rep.Class = "nodata"

			return rep
		}

		for _, rr := range r.Answer {
			switch v := rr.(type) {
			case *dns.A:
				if v.A.Equal(net.IP{203, 0, 113, 77}) {
					rep.Class = "sentinel"
				} else if rep.Class == "" {
					rep.Class = "blocked"
				}
			case *dns.AAAA:
				if v.AAAA.Equal(net.ParseIP("2001:db8::77")) {
					rep.Class = "sentinel"
				} else if rep.Class == "" {
					rep.Class = "blocked"
				}
			case *dns.CNAME:
			default:
				rep.Class = "other"
			}
		}

		if rep.Class == "" {
			rep.Class = "other"
		}
	case dns.RcodeRefused:
		rep.Class = "refused"
	case dns.RcodeNameError:
		rep.Class = "blocked"
	case dns.RcodeServerFailure:
		rep.Class = "servfail"
	default:
		rep.Class = "other"
	}

	return rep
}

// zzC05Families is the table of admin-operation families.  The names are the
// admin actions of specs/Concurrency.tla; the orchestrator checks that every
// action of the spec that shares a variable with a request stage has a family
// here and was executed.
func zzC05Families(sys *zzC05Sys) (fams map[string]func(rng *rand.Rand, i int)) {
	post, put := http.MethodPost, http.MethodPut
	type m = map[string]any

	return map[string]func(rng *rand.Rand, i int){
		"Clients": func(rng *rand.Rand, i int) {
			name := fmt.Sprintf("cl%d", i%3)
			ids := []string{fmt.Sprintf("127.0.7.%d", 1+i%3), fmt.Sprintf("cid%d", i%3)}
			cl := m{"name": name, "ids": ids, "use_global_settings": i%2 == 0, "filtering_enabled": i%3 != 0,
				"use_global_blocked_services": i%2 == 1, "blocked_services": []string{"youtube"},
				"tags": []string{}, "upstreams": []string{}, "ignore_querylog": i%4 == 1, "ignore_statistics": i%4 == 2,
				"safe_search": m{"enabled": i%3 == 1, "google": true}}
			switch i % 4 {
			case 1:
				cl["blocked_services_schedule"] = nil
			case 2:
				cl["blocked_services_schedule"] = m{"time_zone": "UTC", "mon": m{"start": 0, "end": 86400000}}
			case 3:
				cl["upstreams"] = []string{sys.upAddr}
				cl["upstreams_cache_enabled"] = true
				cl["upstreams_cache_size"] = 4096
			}
			switch rng.Intn(3) {
			case 0:
				zzC05API(post, "/control/clients/add", cl)
			case 1:
				cl["ids"] = []string{ids[0], "10.9.0.0/16"}
				zzC05API(post, "/control/clients/update", m{"name": name, "data": cl})
			default:
				zzC05API(post, "/control/clients/delete", m{"name": name})
			}
		},
		"Access": func(rng *rand.Rand, i int) {
			// Payload variants: all lists change / only the blocked hosts
			// change / only the client lists change / allow-list mode that
			// still admits the harness's own source addresses / empty lists.
			dis := []string{fmt.Sprintf("10.8.%d.0/24", (i/4)%5), "cid-blocked"}
			hosts := []string{fmt.Sprintf("access-blocked-%d.example", i%2), "||access-rule.example^"}
			allowed := []string{}
			switch i % 6 {
			case 1:
				// Only the blocked hosts differ from the previous post.
				dis = []string{fmt.Sprintf("10.8.%d.0/24", ((i-1)/4)%5), "cid-blocked"}
			case 2:
				hosts = []string{fmt.Sprintf("access-blocked-%d.example", (i-1)%2), "||access-rule.example^"}
			case 3:
				allowed = []string{"127.0.0.0/8", "cid-allowed"}
			case 4:
				dis, hosts = []string{}, []string{}
			case 5:
				hosts = append(hosts, "||*^$dnstype=HTTPS")
			}

			zzC05API(post, "/control/access/set", m{"allowed_clients": allowed, "disallowed_clients": dis, "blocked_hosts": hosts})
		},
		"UserRules": func(rng *rand.Rand, i int) {
			rules := []string{"||custom-blocked.example^"}
			if i%2 == 0 {
				rules = append(rules, "||flip.example^", "@@||listed.example^")
			}

			zzC05API(post, "/control/filtering/set_rules", m{"rules": rules})
		},
		"FilterLists": func(rng *rand.Rand, i int) {
			u := fmt.Sprintf("%s/extra%d.txt", sys.listSrv.URL, i%2)
			switch rng.Intn(5) {
			case 0:
				zzC05API(post, "/control/filtering/add_url", m{"name": "extra", "url": u, "whitelist": i%4 == 0})
			case 1:
				zzC05API(post, "/control/filtering/remove_url", m{"url": u, "whitelist": i%4 == 0})
			case 2:
				sys.listBody.Store(fmt.Sprintf("||listed.example^\n||ads.example^\n||gen%d.example^\n", i))
				zzC05API(post, "/control/filtering/refresh", m{"whitelist": false})
			case 3:
				zzC05API(post, "/control/filtering/set_url", m{"url": sys.listSrv.URL + "/list1.txt", "whitelist": false,
					"data": m{"name": "list1", "url": sys.listSrv.URL + "/list1.txt", "enabled": i%2 == 0}})
			default:
				zzC05API(post, "/control/filtering/config", m{"enabled": true, "interval": 1})
			}
		},
		"Rewrites": func(rng *rand.Rand, i int) {
			e := m{"domain": fmt.Sprintf("rw%d.example", i%2), "answer": fmt.Sprintf("192.0.2.%d", 1+i%3)}
			switch rng.Intn(3) {
			case 0:
				zzC05API(post, "/control/rewrite/add", e)
			case 1:
				zzC05API(post, "/control/rewrite/delete", e)
			default:
				zzC05API(put, "/control/rewrite/update", m{"target": e, "update": m{"domain": e["domain"], "answer": "192.0.2.9"}})
			}
		},
		"BlockedServices": func(rng *rand.Rand, i int) {
			ids := []string{}
			if i%2 == 0 {
				ids = []string{"youtube", "facebook"}
			}

			// Schedule variants: empty in a zone, omitted, explicit null, a
			// range that covers the whole of every day, a far-away zone.
			body := m{"ids": ids}
			switch i % 5 {
			case 0:
				body["schedule"] = m{"time_zone": "UTC"}
			case 1:
				// Omitted.
			case 2:
				body["schedule"] = nil
			case 3:
				day := m{"start": 0, "end": 86400000}
				body["schedule"] = m{"time_zone": "Europe/Berlin", "sun": day, "mon": day, "tue": day, "wed": day, "thu": day, "fri": day, "sat": day}
			default:
				body["schedule"] = m{"time_zone": "Pacific/Kiritimati", "mon": m{"start": 60000, "end": 120000}}
			}

			zzC05API(put, "/control/blocked_services/update", body)
		},
		"Protection": func(rng *rand.Rand, i int) {
			switch i % 4 {
			case 0:
				zzC05API(post, "/control/protection", m{"enabled": false, "duration": 15})
			case 1:
				zzC05API(post, "/control/protection", m{"enabled": true})
			case 2:
				zzC05API(post, "/control/protection", m{"enabled": false, "duration": 1})
			default:
				// Let a pause expire while queries are served: the re-enable
				// worker runs on its own goroutine.
				time.Sleep(25 * time.Millisecond)
				zzC05API(http.MethodGet, "/control/status", nil)
			}
		},
		"SafeSearch": func(rng *rand.Rand, i int) {
			zzC05API(put, "/control/safesearch/settings", m{"enabled": i%2 == 0, "bing": true, "duckduckgo": true,
				"ecosia": true, "google": i%3 == 0, "pixabay": true, "yandex": true, "youtube": true})
			if i%4 == 0 {
				// Safe browsing / parental are only ever disabled: their lookup
				// service is not reachable offline and every query would wait
				// for its timeout.
				zzC05API(post, "/control/parental/disable", m{})
				zzC05API(post, "/control/safebrowsing/disable", m{})
			}
		},
		"QueryLogConf": func(rng *rand.Rand, i int) {
			switch rng.Intn(3) {
			case 0:
				zzC05API(put, "/control/querylog/config/update", m{"enabled": true, "anonymize_client_ip": i%2 == 0,
					"interval": 86400000, "ignored": []string{fmt.Sprintf("ignored%d.example", i%2)}})
			case 1:
				zzC05API(post, "/control/querylog_clear", m{})
			default:
				zzC05API(http.MethodGet, "/control/querylog?limit=20", nil)
			}
		},
		"StatsConf": func(rng *rand.Rand, i int) {
			if i%7 == 3 {
				// Environment fault: a stored unit is undecodable.  The
				// documented reaction is to log it and go on.
				if sc, ok := globalContext.stats.(interface{ ZZVerifDamageUnit() }); ok {
					sc.ZZVerifDamageUnit()
				}
			}

			switch rng.Intn(3) {
			case 0:
				zzC05API(put, "/control/stats/config/update", m{"enabled": true, "interval": 86400000 * (1 + i%2),
					"ignored": []string{fmt.Sprintf("ignored%d.example", i%2)}})
			case 1:
				zzC05API(post, "/control/stats_reset", m{})
			default:
				zzC05API(http.MethodGet, "/control/stats", nil)
			}
		},
		"DHCPLeases": func(rng *rand.Rand, i int) {
			le := m{"mac": fmt.Sprintf("aa:bb:cc:dd:ee:%02x", i%3), "ip": fmt.Sprintf("127.0.10.%d", 150+i%3),
				"hostname": fmt.Sprintf("dhcphost%d", i%3)}
			if i%2 == 0 {
				zzC05API(post, "/control/dhcp/add_static_lease", le)
			} else {
				zzC05API(post, "/control/dhcp/remove_static_lease", le)
			}
		},
		// The persist step of an admin operation that touches none of the
		// filter's own locks otherwise; its worker (zzC05WorkerOf) is the
		// write-back step that ends a refresh which found new list contents.
		"Persist": func(rng *rand.Rand, i int) {
			if i%2 == 0 {
				zzC05API(post, "/control/safebrowsing/disable", m{})
			} else {
				zzC05API(post, "/control/parental/disable", m{})
			}
		},
		"Reads": func(rng *rand.Rand, i int) {
			for _, p := range []string{"/control/status", "/control/clients", "/control/filtering/status",
				"/control/access/list", "/control/rewrite/list", "/control/blocked_services/get",
				"/control/dns_info", "/control/stats", "/control/querylog?limit=5", "/control/clients/find?ip0=127.0.7.1"} {
				zzC05API(http.MethodGet, p, nil)
			}
		},
	}
}

var zzC05Names = []string{
	"plain.example", "listed.example", "sub.listed.example", "custom-blocked.example", "flip.example",
	"rw0.example", "rw1.example", "access-blocked-0.example", "x.access-rule.example", "www.youtube.com",
	"ignored0.example", "gen1.example", "malware.example", "sub.malware.example", "cname-rw.example", "Mixed.CASE.example", "dhcphost1.lan", "www.google.com",
}

// TestZZVerifC05Stress runs every family named in VERIF_C05_FAMILIES (comma
// separated, default all) for VERIF_C05_MS milliseconds each.
func TestZZVerifC05Stress(t *testing.T) {
	w := zzNewWriter(t, "VERIF_OUT")
	defer w.close()

	dir := os.Getenv("VERIF_DIR")
	if dir == "" {
		dir = t.TempDir()
	}

	sys := zzC05Boot(t, dir)
	defer sys.shutdown()

	ms := 1500
	if v := os.Getenv("VERIF_C05_MS"); v != "" {
		_, _ = fmt.Sscanf(v, "%d", &ms)
	}

	fams := zzC05Families(sys)
	var names []string
	if v := os.Getenv("VERIF_C05_FAMILIES"); v != "" {
		names = strings.Split(v, ",")
	} else {
		for n := range fams {
			names = append(names, n)
		}
	}

	seed := zzSeed()
	for _, fam := range names {
		op, ok := fams[fam]
		if !ok {
			t.Fatalf("unknown family %q", fam)
		}

		res := zzC05RunFamily(sys, fam, op, seed, time.Duration(ms)*time.Millisecond)
		w.put(res)
	}
}

type zzC05FamRes struct {
	Kind      string         `json:"kind"`
	Family    string         `json:"family"`
	Queries   int64          `json:"queries"`
	AdminOps  int64          `json:"admin_ops"`
	Classes   map[string]int `json:"classes"`
	Malformed []string       `json:"malformed"`
	Stalls    []string       `json:"stalls"`
	Panics    []string       `json:"panics"`
	UpCalls   int64          `json:"up_calls"`
	Codes     map[string]int `json:"codes"`

	WorkerSteps int64 `json:"worker_steps"`
}

// zzC05WorkerOf returns the background-worker step that belongs to a family
// (Concurrency.tla: FilterRefresh, StatsFlush, QLogFlush/rotation).
func zzC05WorkerOf(fam string) (step func()) {
	switch fam {
	case "FilterLists":
		return globalContext.filters.ZZVerifRefreshStep
	case "Persist":
		// What refreshFiltersIntl does, on the worker's goroutine and outside
		// the control lock, after a refresh that replaced a list.
		return func() { globalContext.filters.EnableFilters(false) }
	case "StatsConf":
		if sc, ok := globalContext.stats.(interface{ ZZVerifNextHour() }); ok {
			return sc.ZZVerifNextHour
		}
	case "QueryLogConf":
		if ql, ok := globalContext.queryLog.(interface{ ZZVerifRotateStep() }); ok {
			return ql.ZZVerifRotateStep
		}
	}

	return nil
}

func zzC05RunFamily(
	sys *zzC05Sys,
	fam string,
	op func(rng *rand.Rand, i int),
	seed int64,
	d time.Duration,
) (res *zzC05FamRes) {
	res = &zzC05FamRes{Kind: "family", Family: fam, Classes: map[string]int{}}
	var mu sync.Mutex
	stop := make(chan struct{})
	wg := &sync.WaitGroup{}
	up0 := sys.upCalls.Load()

	const nQuery = 6
	for g := 0; g < nQuery; g++ {
		wg.Add(1)
		go func(g int) {
			defer wg.Done()
			defer func() {
				if r := recover(); r != nil {
					mu.Lock()
					res.Panics = append(res.Panics, fmt.Sprint(r))
					mu.Unlock()
				}
			}()

			rng := rand.New(rand.NewSource(seed*1000 + int64(g)))
			netw := "udp"
			if g%3 == 2 {
				netw = "tcp"
			}

			// 127.0.7.x are the persistent clients' addresses, 127.0.10.15x
			// those of the DHCP leases that the DHCPLeases family adds and
			// removes: requests from them are attributed to a runtime client.
			// g = 0 and g = 3 share an address, so that one persistent client
			// has two requests in flight at once.
			src := fmt.Sprintf("127.0.7.%d", 1+g%3)
			if g%7 >= 4 {
				src = fmt.Sprintf("127.0.10.%d", 150+g%3)
			}

			// Like real stub resolvers, the clients advertise a 4096-octet
			// UDP buffer (EDNS0): the families pile up dozens of duplicate
			// rewrite entries, and an answer beyond 512 octets read through a
			// 512-octet buffer would look malformed although it is not.
			c := &dns.Client{Net: netw, Timeout: 8 * time.Second, UDPSize: 4096}
			var laddr net.Addr
			if netw == "udp" {
				laddr = &net.UDPAddr{IP: net.ParseIP(src)}
			} else {
				laddr = &net.TCPAddr{IP: net.ParseIP(src)}
			}

			c.Dialer = &net.Dialer{LocalAddr: laddr, Timeout: 2 * time.Second}
			var conn *dns.Conn
			defer func() {
				if conn != nil {
					_ = conn.Close()
				}
			}()

			consecutiveTimeouts := 0
			for {
				select {
				case <-stop:
					return
				default:
				}

				if conn == nil {
					var err error
					conn, err = c.Dial(sys.dnsAddr)
					if err != nil {
						time.Sleep(5 * time.Millisecond)

						continue
					}
				}

				name := zzC05Names[rng.Intn(len(zzC05Names))]
				qt := []uint16{dns.TypeA, dns.TypeA, dns.TypeAAAA, dns.TypeTXT}[rng.Intn(4)]
				rep := zzC05Query(c, conn, name, qt)
				mu.Lock()
				res.Queries++
				res.Classes[rep.Class]++
				mu.Unlock()

				switch rep.Class {
				case "dropped":
					_ = conn.Close()
					conn = nil
				case "timeout":
					consecutiveTimeouts++
					_ = conn.Close()
					conn = nil
					if consecutiveTimeouts >= 3 {
						mu.Lock()
						res.Stalls = append(res.Stalls, fmt.Sprintf("%s %s/%d from %s: 3 consecutive timeouts", netw, name, qt, src))
						mu.Unlock()

						return
					}
				case "malformed":
					consecutiveTimeouts = 0
					_ = conn.Close()
					conn = nil
					// A UDP client without EDNS reads at most 512 octets: an
					// answer that is larger must come with the TC bit.  Ask
					// again over TCP to tell a cut datagram from a reply that
					// is malformed in itself.
					detail := ""
					if netw == "udp" {
						tc := &dns.Client{Net: "tcp", Timeout: 8 * time.Second}
						if tr, _, terr := tc.Exchange((&dns.Msg{}).SetQuestion(dns.Fqdn(name), qt), sys.dnsAddr); terr == nil {
							detail = fmt.Sprintf(" [the same question over TCP: rcode %d, %d answers, %d octets]", tr.Rcode, len(tr.Answer), tr.Len())
						} else {
							detail = " [the same question over TCP: " + terr.Error() + "]"
						}
					}

					mu.Lock()
					if len(res.Malformed) < 20 {
						res.Malformed = append(res.Malformed, fmt.Sprintf("%s %s/%d: %s%s", netw, name, qt, rep.Err, detail))
					}
					mu.Unlock()
				default:
					consecutiveTimeouts = 0
				}
			}
		}(g)
	}

	// Admin goroutine (admin operations are serialised by the server's own
	// control lock, so one mutating goroutine plus one reading goroutine is
	// the faithful shape).
	for a := 0; a < 2; a++ {
		wg.Add(1)
		go func(a int) {
			defer wg.Done()
			defer func() {
				if r := recover(); r != nil {
					buf := make([]byte, 1<<14)
					buf = buf[:runtime.Stack(buf, false)]
					mu.Lock()
					res.Panics = append(res.Panics, fmt.Sprintf("%v\n%s", r, buf))
					mu.Unlock()
				}
			}()

			rng := rand.New(rand.NewSource(seed*7777 + int64(a)))
			reads := zzC05Families(sys)["Reads"]
			for i := 0; ; i++ {
				select {
				case <-stop:
					return
				default:
				}

				done := make(chan struct{})
				go func() {
					defer close(done)
					defer func() {
						if r := recover(); r != nil {
							buf := make([]byte, 1<<14)
							buf = buf[:runtime.Stack(buf, false)]
							mu.Lock()
							res.Panics = append(res.Panics, fmt.Sprintf("%v\n%s", r, buf))
							mu.Unlock()
						}
					}()

					if a == 0 {
						op(rng, i)
					} else {
						reads(rng, i)
					}
				}()

				select {
				case <-done:
					mu.Lock()
					res.AdminOps++
					mu.Unlock()
				case <-time.After(20 * time.Second):
					buf := make([]byte, 1<<18)
					buf = buf[:runtime.Stack(buf, true)]
					mu.Lock()
					res.Stalls = append(res.Stalls, fmt.Sprintf("admin op of family %s did not return in 20s\n%s", fam, buf))
					mu.Unlock()

					return
				}
			}
		}(a)
	}

	// Background worker steps (the real workers' timers fire too rarely for a
	// stress run; the shims run exactly one step of the worker's own loop body).
	if wk := zzC05WorkerOf(fam); wk != nil {
		wg.Add(1)
		go func() {
			defer wg.Done()
			defer func() {
				if r := recover(); r != nil {
					buf := make([]byte, 1<<14)
					buf = buf[:runtime.Stack(buf, false)]
					mu.Lock()
					res.Panics = append(res.Panics, fmt.Sprintf("worker: %v\n%s", r, buf))
					mu.Unlock()
				}
			}()

			for {
				select {
				case <-stop:
					return
				default:
				}

				wk()
				mu.Lock()
				res.WorkerSteps++
				mu.Unlock()
				time.Sleep(3 * time.Millisecond)
			}
		}()
	}

	time.Sleep(d)
	close(stop)
	wg.Wait()
	res.UpCalls = sys.upCalls.Load() - up0
	res.Codes = zzC05Codes.Take()

	return res
}

// zzC05ForgetLists removes the two extra list locations from both kinds of
// lists: the per-family rounds that run first may leave one of them behind as
// an ALLOW list (the FilterLists operation adds "extra" with a seeded choice
// of kind), and a location can only be configured once, so the block list the
// list scenarios are about would then be refused and never be in force (false
// alarm of the harness at seed 3).
func zzC05ForgetLists(sys *zzC05Sys) {
	for _, u := range []string{sys.listSrv.URL + "/extra0.txt", sys.listSrv.URL + "/extra1.txt"} {
		for _, wl := range []bool{true, false} {
			zzC05API(http.MethodPost, "/control/filtering/remove_url", map[string]any{"url": u, "whitelist": wl})
		}
	}
}

// TestZZVerifC05Gated forces the interleavings of Concurrency.tla in which a
// request is parked in its Upstream stage (the mock upstream blocks on a gate)
// while one admin operation runs to completion, then is released: the request
// must still be answered with a well-formed response, and the admin operation
// must return although requests are in flight.
func TestZZVerifC05Gated(t *testing.T) {
	w := zzNewWriter(t, "VERIF_OUT")
	defer w.close()

	dir := os.Getenv("VERIF_DIR")
	if dir == "" {
		dir = t.TempDir()
	}

	sys := zzC05Boot(t, dir)
	defer sys.shutdown()

	fams := zzC05Families(sys)
	names := make([]string, 0, len(fams))
	for n := range fams {
		names = append(names, n)
	}

	rounds := 6
	if v := os.Getenv("VERIF_C05_ROUNDS"); v != "" {
		_, _ = fmt.Sscanf(v, "%d", &rounds)
	}

	rng := rand.New(rand.NewSource(zzSeed()))
	type gatedRes struct {
		Kind    string   `json:"kind"`
		Family  string   `json:"family"`
		Round   int      `json:"round"`
		Replies []string `json:"replies"`
		Bad     []string `json:"bad"`
		Parked  int64    `json:"parked"`
	}

	for _, fam := range names {
		for i := 0; i < rounds; i++ {
			res := &gatedRes{Kind: "gated", Family: fam, Round: i}
			gate := make(chan struct{})
			up0 := sys.upCalls.Load()
			sys.upGate.Store(&gate)

			type qres struct {
				name string
				rep  zzC05Reply
			}

			// Names that reach the upstream under every configuration the
			// families install, plus ones whose fate the operation changes.
			qnames := []string{"plain.example", "flip.example", "rw0.example", "www.youtube.com", "gen1.example", "cname-rw.example"}
			out := make(chan qres, len(qnames))
			for qi, name := range qnames {
				go func(qi int, name string) {
					netw := "udp"
					if qi%2 == 1 {
						netw = "tcp"
					}

					c := &dns.Client{Net: netw, Timeout: 8 * time.Second}
					conn, err := c.Dial(sys.dnsAddr)
					if err != nil {
						out <- qres{name, zzC05Reply{Class: "malformed", Err: err.Error()}}

						return
					}
					defer conn.Close()

					m := (&dns.Msg{}).SetQuestion(dns.Fqdn(name), dns.TypeA)
					_ = conn.SetDeadline(time.Now().Add(8 * time.Second))
					r, _, err := c.ExchangeWithConn(m, conn)
					switch {
					case err != nil:
						out <- qres{name, zzC05Reply{Class: "timeout", Err: err.Error()}}
					case r.Id != m.Id || !r.Response || len(r.Question) != 1 || !strings.EqualFold(r.Question[0].Name, m.Question[0].Name):
						out <- qres{name, zzC05Reply{Class: "malformed", Err: r.String()}}
					default:
						out <- qres{name, zzC05Reply{Class: "ok", Rcode: r.Rcode}}
					}
				}(qi, name)
			}

			// Wait until at least one request is parked in the upstream (or all
			// were answered locally).
			deadline := time.Now().Add(2 * time.Second)
			for sys.upCalls.Load() == up0 && time.Now().Before(deadline) {
				time.Sleep(2 * time.Millisecond)
			}

			time.Sleep(20 * time.Millisecond)
			res.Parked = sys.upCalls.Load() - up0

			done := make(chan string, 1)
			go func() {
				defer func() {
					if r := recover(); r != nil {
						buf := make([]byte, 1<<14)
						buf = buf[:runtime.Stack(buf, false)]
						done <- fmt.Sprintf("panic: %v\n%s", r, buf)

						return
					}

					done <- ""
				}()

				fams[fam](rng, i)
			}()

			select {
			case p := <-done:
				if p != "" {
					res.Bad = append(res.Bad, p)
				}
			case <-time.After(15 * time.Second):
				buf := make([]byte, 1<<18)
				buf = buf[:runtime.Stack(buf, true)]
				res.Bad = append(res.Bad, "STALL: admin operation did not return while requests were parked in the upstream\n"+string(buf))
			}

			sys.upGate.Store(nil)
			close(gate)

			for range qnames {
				q := <-out
				res.Replies = append(res.Replies, fmt.Sprintf("%s:%s:%d", q.name, q.rep.Class, q.rep.Rcode))
				if q.rep.Class != "ok" {
					res.Bad = append(res.Bad, fmt.Sprintf("%s: %s %s", q.name, q.rep.Class, q.rep.Err))
				}
			}

			w.put(res)
			if len(res.Bad) > 0 && strings.HasPrefix(res.Bad[0], "STALL") {
				return
			}
		}
	}

	// The other direction (Concurrency.tla: FilterRefresh is a multi-step
	// worker: select lists, download without the lock, apply): the refresh
	// worker is parked inside a list download while an operation that changes
	// the set of lists runs to completion, then released.  Neither may panic
	// or fail to return, and a rule change made afterwards must still reach
	// the engine that answers DNS.
	post := http.MethodPost
	type m = map[string]any
	runTimed := func(what string, f func()) (bad string) {
		done := make(chan string, 1)
		go func() {
			defer func() {
				if r := recover(); r != nil {
					buf := make([]byte, 1<<14)
					buf = buf[:runtime.Stack(buf, false)]
					done <- fmt.Sprintf("panic in %s: %v\n%s", what, r, buf)

					return
				}

				done <- ""
			}()

			f()
		}()

		select {
		case p := <-done:
			return p
		case <-time.After(15 * time.Second):
			buf := make([]byte, 1<<18)
			buf = buf[:runtime.Stack(buf, true)]

			return "STALL: " + what + " did not return\n" + string(buf)
		}
	}

	for i := 0; i < rounds; i++ {
		res := &gatedRes{Kind: "gated", Family: "FilterLists", Round: 1000 + i}
		u0, u1 := sys.listSrv.URL+"/extra0.txt", sys.listSrv.URL+"/extra1.txt"
		zzC05ForgetLists(sys)
		zzC05API(post, "/control/filtering/add_url", m{"name": "extra0", "url": u0, "whitelist": false})
		zzC05API(post, "/control/filtering/add_url", m{"name": "extra1", "url": u1, "whitelist": false})
		sys.listBody.Store(fmt.Sprintf("||listed.example^\n||ads.example^\n||parked%d.example^\n", i))

		gate := make(chan struct{})
		l0 := sys.listCalls.Load()
		sys.listGate.Store(&gate)
		wdone := make(chan string, 1)
		go func() {
			wdone <- runTimed("refresh worker", func() {
				// The periodic worker, not POST /control/filtering/refresh:
				// state-changing API calls are serialised by home's
				// controlLock, so a second one legitimately waits for the
				// download to end.
				globalContext.filters.ZZVerifRefreshStep()
			})
		}()

		deadline := time.Now().Add(3 * time.Second)
		for sys.listCalls.Load() == l0 && time.Now().Before(deadline) {
			time.Sleep(2 * time.Millisecond)
		}

		res.Parked = sys.listCalls.Load() - l0
		bad := runTimed("list operation while the refresh worker is parked in a download", func() {
			switch i % 3 {
			case 0:
				zzC05API(post, "/control/filtering/remove_url", m{"url": u1, "whitelist": false})
			case 1:
				zzC05API(post, "/control/filtering/remove_url", m{"url": u0, "whitelist": false})
			default:
				zzC05API(post, "/control/filtering/remove_url", m{"url": u0, "whitelist": false})
				zzC05API(post, "/control/filtering/remove_url", m{"url": u1, "whitelist": false})
			}
		})
		if bad != "" {
			res.Bad = append(res.Bad, bad)
		}

		sys.listGate.Store(nil)
		close(gate)
		if bad = <-wdone; bad != "" {
			res.Bad = append(res.Bad, bad)
		}

		// A rule change made now must reach the DNS path.
		probe := fmt.Sprintf("afterpark%d.example", i)
		zzC05API(post, "/control/protection", m{"enabled": true})
		zzC05API(post, "/control/access/set", m{"allowed_clients": []string{}, "disallowed_clients": []string{}, "blocked_hosts": []string{}})
		zzC05API(post, "/control/filtering/config", m{"enabled": true, "interval": 1})
		zzC05API(post, "/control/filtering/set_rules", m{"rules": []string{"||custom-blocked.example^", "||" + probe + "^"}})
		blocked := false
		for try := 0; try < 100 && !blocked; try++ {
			c := &dns.Client{Net: "udp", Timeout: 2 * time.Second}
			r, _, err := c.Exchange((&dns.Msg{}).SetQuestion(dns.Fqdn(probe), dns.TypeA), sys.dnsAddr)
			blocked = err == nil && len(r.Answer) == 1 && strings.Contains(r.Answer[0].String(), "0.0.0.0")
			if !blocked {
				time.Sleep(50 * time.Millisecond)
			}
		}

		if !blocked && len(res.Bad) == 0 {
			res.Bad = append(res.Bad, "rule change after a parked refresh never reached the DNS path: "+probe+" is not blocked after 5s")
		}

		res.Replies = append(res.Replies, fmt.Sprintf("%s:blocked=%v", probe, blocked))
		w.put(res)
		if len(res.Bad) > 0 && strings.HasPrefix(res.Bad[0], "STALL") {
			return
		}
	}

	// The same worker parked in a download while the list it is downloading is
	// disabled through set_url, then enabled again: afterwards the list must
	// be in force with the content of its location (its file, its rule count
	// and the engine agree).  set_url may finish while the worker is parked or
	// wait for it: both are fine.
	for i := 0; i < rounds; i++ {
		res := &gatedRes{Kind: "gated", Family: "FilterLists", Round: 1500 + i}
		u0 := sys.listSrv.URL + "/extra0.txt"
		zzC05ForgetLists(sys)
		zzC05API(post, "/control/filtering/add_url", m{"name": "extra0", "url": u0, "whitelist": false})
		setURL := func(enabled bool) {
			zzC05API(post, "/control/filtering/set_url", m{"url": u0, "whitelist": false,
				"data": m{"name": "extra0", "url": u0, "enabled": enabled}})
		}
		setURL(true)
		sys.listBody.Store(fmt.Sprintf("||listed.example^\n||ads.example^\n||setparked%d.example^\n", i))

		gate := make(chan struct{})
		l0 := sys.listCalls.Load()
		sys.listGate.Store(&gate)
		wdone := make(chan string, 1)
		go func() {
			wdone <- runTimed("refresh worker", func() { globalContext.filters.ZZVerifRefreshStep() })
		}()

		deadline := time.Now().Add(3 * time.Second)
		for sys.listCalls.Load() == l0 && time.Now().Before(deadline) {
			time.Sleep(2 * time.Millisecond)
		}

		res.Parked = sys.listCalls.Load() - l0
		odone := make(chan string, 1)
		go func() {
			odone <- runTimed("set_url (disable) while the refresh worker is parked in a download", func() { setURL(false) })
		}()

		opBad, opReturned := "", false
		select {
		case opBad = <-odone:
			opReturned = true
		case <-time.After(1500 * time.Millisecond):
			// Serialised behind the running refresh.
		}

		sys.listGate.Store(nil)
		close(gate)
		if bad := <-wdone; bad != "" {
			res.Bad = append(res.Bad, bad)
		}

		if !opReturned {
			opBad = <-odone
		}

		if opBad != "" {
			res.Bad = append(res.Bad, opBad)
		}

		setURL(true)

		probe := "only-extra0.example"
		zzC05API(post, "/control/protection", m{"enabled": true})
		zzC05API(post, "/control/access/set", m{"allowed_clients": []string{}, "disallowed_clients": []string{}, "blocked_hosts": []string{}})
		zzC05API(post, "/control/filtering/config", m{"enabled": true, "interval": 1})
		blocked := false
		for try := 0; try < 100 && !blocked; try++ {
			c := &dns.Client{Net: "udp", Timeout: 2 * time.Second}
			r, _, err := c.Exchange((&dns.Msg{}).SetQuestion(dns.Fqdn(probe), dns.TypeA), sys.dnsAddr)
			blocked = err == nil && len(r.Answer) == 1 && strings.Contains(r.Answer[0].String(), "0.0.0.0")
			if !blocked {
				time.Sleep(50 * time.Millisecond)
			}
		}

		for try := 0; try < 300 && !blocked; try++ {
			// The engine is rebuilt asynchronously: be patient on a loaded
			// machine before concluding anything.
			time.Sleep(50 * time.Millisecond)
			c := &dns.Client{Net: "udp", Timeout: 2 * time.Second}
			r, _, err := c.Exchange((&dns.Msg{}).SetQuestion(dns.Fqdn(probe), dns.TypeA), sys.dnsAddr)
			blocked = err == nil && len(r.Answer) == 1 && strings.Contains(r.Answer[0].String(), "0.0.0.0")
		}

		if !blocked && len(res.Bad) == 0 {
			_, st := zzC05API(http.MethodGet, "/control/filtering/status", nil)
			if len(st) > 1500 {
				st = st[:1500]
			}

			res.Bad = append(res.Bad, "list state corrupted: after disable-while-refreshing and enable, the enabled list extra0 is not in force ("+probe+" is not blocked after 20s); filtering status: "+st)
		}

		res.Replies = append(res.Replies, fmt.Sprintf("%s:blocked=%v:opReturnedWhileParked=%v", probe, blocked, opReturned))
		w.put(res)
		zzC05API(post, "/control/filtering/remove_url", m{"url": u0, "whitelist": false})
		if len(res.Bad) > 0 && strings.HasPrefix(res.Bad[0], "STALL") {
			return
		}
	}

	// A DHCP lease is removed while a request for its name, which has already
	// looked the lease up, is still in flight (Concurrency.tla: a request stage
	// reads the lease cell, the admin operation rewrites it, the request goes
	// on).  The answer must be well formed: the address that was read, or a
	// negative answer, never a record without an address.
	if sys.dhcp != nil {
		for i := 0; i < rounds; i++ {
			res := &gatedRes{Kind: "gated", Family: "DHCPLeases", Round: 2000 + i}
			le := m{"mac": "aa:bb:cc:dd:ee:31", "ip": "127.0.10.171", "hostname": "midflight"}
			zzC05API(post, "/control/dhcp/remove_static_lease", le)
			if code, body := zzC05API(post, "/control/dhcp/add_static_lease", le); code != http.StatusOK {
				res.Bad = append(res.Bad, fmt.Sprintf("cannot add the lease: %d %s", code, body))
				w.put(res)

				continue
			}

			var once sync.Once
			var hookBad atomic.Value
			hook := func(host string) {
				if host != "midflight" {
					return
				}

				once.Do(func() {
					res.Parked++
					if bad := runTimed("lease removal while a request holding its address is in flight", func() {
						zzC05API(post, "/control/dhcp/remove_static_lease", le)
					}); bad != "" {
						hookBad.Store(bad)
					}
				})
			}
			sys.dhcp.afterIPByHost.Store(&hook)

			qt := dns.TypeA
			c := &dns.Client{Net: []string{"udp", "tcp"}[i%2], Timeout: 20 * time.Second}
			r, _, err := c.Exchange((&dns.Msg{}).SetQuestion("midflight.lan.", qt), sys.dnsAddr)
			sys.dhcp.afterIPByHost.Store(nil)
			if b, _ := hookBad.Load().(string); b != "" {
				res.Bad = append(res.Bad, b)
			}

			switch {
			case err != nil:
				res.Bad = append(res.Bad, "midflight.lan: no well-formed answer: "+err.Error())
			default:
				for _, rr := range r.Answer {
					if a, ok := rr.(*dns.A); ok && a.A.To4() == nil {
						res.Bad = append(res.Bad, "midflight.lan: A record without an address: "+rr.String())
					}
				}

				res.Replies = append(res.Replies, fmt.Sprintf("midflight.lan:rcode=%d:answers=%d", r.Rcode, len(r.Answer)))
			}

			w.put(res)
			if len(res.Bad) > 0 && strings.HasPrefix(res.Bad[0], "STALL") {
				return
			}
		}
	}
}
