SPECIFICATION Spec
CONSTANTS MaxLines = 4
          Shapes <- ShapesCore
          Endings <- EndingsLFCR
          Policies <- UniformPolicies
INVARIANTS Statement
