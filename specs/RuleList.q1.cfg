SPECIFICATION Spec
CONSTANTS MaxLines = 2
          Shapes <- ShapesFull
INVARIANTS NormalFormIsFixedPoint NormalIsClean RulesAreInputLines HTMLFirstFails BinaryFails Deterministic
