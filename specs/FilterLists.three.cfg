SPECIFICATION SpecNamed
CONSTANTS Urls = {"u1", "u2", "u3"}
          Names = {"n1"}
          Sides = {"b", "a"}
          Served = {"cA", "fail"}
          UserSets = {{}}
          Switch = FALSE
          Bad = FALSE
          Aimless = FALSE
          MaxId = 3
          BlankPolicies = {FALSE}
          Forget = FALSE
INVARIANTS InvUniqueIds
