SPECIFICATION Spec
CONSTANTS
  U <- UCov
  W = 4
VIEW view
INVARIANTS TypeOK UniqueOwner Precedence OwnSettingsOnlyWhenOptedOut ResolvesToOwnerOrNone
PROPERTY RejectedLeavesUnchanged
