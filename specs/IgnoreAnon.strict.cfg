CONSTANTS Design = "intended" Lis = {0, 3} Plans = "cover"
SPECIFICATION Spec
INVARIANTS SearchClientsStrict
