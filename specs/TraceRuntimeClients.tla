------------------------ MODULE TraceRuntimeClients ------------------------
(***************************************************************************)
(* Direction B for G05: validates histories recorded from the real         *)
(* client.Storage (harness TestZZVerifG05Trace) against                    *)
(* RuntimeClientsCore.tla -- the same operators RuntimeClients.tla is      *)
(* built from.                                                             *)
(*                                                                         *)
(* A trace file is the concatenation of several histories; each starts     *)
(* with a "reset" line (addresses of the universe, the DHCP switch).       *)
(* Every other line is one call with its arguments, the reply the real     *)
(* code gave, and `proj`: the abstraction of the real runtime index right  *)
(* after the call.                                                         *)
(*                                                                         *)
(* The specification is nondeterministic in a few places (empty ARP table, *)
(* WHOIS for an address owned through a lease, ARP after a failed refresh, *)
(* a lookup after the lease ended, an update that keeps the upstream       *)
(* settings).  The validator therefore carries the SET `cands` of spec     *)
(* states that are compatible with everything observed so far (a subset    *)
(* construction: the validator itself is deterministic, -workers 1).  A    *)
(* line is accepted iff some candidate has a successor whose reply and     *)
(* runtime view are the observed ones.  If none has, the line number goes  *)
(* to `bad` and the rest of that history is skipped -- except when only    *)
(* the IDENTITY of a handed-out upstream configuration is wrong (its       *)
(* settings are the current ones): then the real object is still in the    *)
(* spec's state, the line goes to `soft` and validation continues.         *)
(*                                                                         *)
(* Address width is W = 8 (cfg).                                           *)
(***************************************************************************)
EXTENDS RuntimeClientsCore, TLC, Json

Trace == ndJsonDeserialize("trace.ndjson")

VARIABLES l, cands, on, addrs, bad, soft, skipping, skipped
tvars == <<l, cands, on, addrs, bad, soft, skipping, skipped>>

SetOf(s) == {s[i] : i \in DOMAIN s}

\* ---------------------------------------------- JSON -> vocabulary of the core
\* A client as recorded; obj is the serial number of the configuration object
\* it was last handed (0 = none): identities are checked exactly here.
Cl(c, obj) == [name |-> c.name, ids |-> SetOf(c.ids), ups |-> c.ups, ce |-> c.ce, cfg |-> "unbuilt", obj |-> obj]

\* A table recorded as a sequence of <<address, datum>> pairs.
Has(T, a)  == \E i \in DOMAIN T : T[i][1] = a
At(T, a)   == T[CHOOSE i \in DOMAIN T : T[i][1] = a][2]
ArpTab(ln)   == [a \in addrs |-> IF Has(ln.T, a) THEN At(ln.T, a) ELSE None]
\* "Only the first name of the first record is considered a canonical hostname."
HostsTab(ln) == [a \in addrs |-> IF Has(ln.T, a) THEN At(ln.T, a)[1] ELSE None]

Row(r) == <<r.whois, r.arp, r.rdns, r.dhcp, r.hosts>>
ProjOK(s, ln) ==
    /\ ln.projbad = <<>>
    /\ \A a \in addrs : Row(s.rt[a]) = (IF Has(ln.proj, a) THEN At(ln.proj, a) ELSE Row(NoInfo))

InitState == [rt |-> [a \in addrs' |-> NoInfo], ls |-> [a \in addrs' |-> NoLease], cl |-> {}, dead |-> FALSE]

\* ------------------------------------------------------------- one call
\* GET /control/clients.  Whether an address that a persistent client owns is
\* also listed among the runtime clients is not documented: it may be missing.
ListOK(r2, s, ln) ==
    /\ ln.bad = <<>>
    /\ \A a \in addrs :
         LET got == IF Has(ln.out, a) THEN At(ln.out, a) ELSE NoView IN
         \/ got = View(r2[a])
         \/ got = NoView /\ ByAddr(s.cl, MacOf(s.ls), a).name # ""

CustSucc(s, ln, strict) ==
    LET r == CustRes(s.cl, MacOf(s.ls), ln.cid, ln.a)
        o == ln.out
    IN IF r.out.who = "" THEN (IF o.nil THEN {s} ELSE {})
       ELSE IF o.nil THEN {}
       ELSE IF o.ups # r.out.ups \/ o.ce # r.out.ce THEN {}
       ELSE LET c == ByName(s.cl, r.out.who)
                idok == \/ "same" \in r.out.fresh /\ o.obj = c.obj
                        \/ "new" \in r.out.fresh /\ o.new
            IN IF strict /\ ~idok THEN {}
               ELSE {[s EXCEPT !.cl = {IF x.name = r.out.who THEN [x EXCEPT !.obj = o.obj] ELSE x : x \in r.reg}]}

\* The successors of candidate s that agree with the recorded reply.
Succs(s, ln, strict) ==
    CASE ln.op = "upd" ->
           {[s EXCEPT !.rt = r2] : r2 \in UpdAddrAlts(s.rt, s.cl, MacOf(s.ls), ln.a, ln.h, ln.w)}
      [] ln.op = "arp" ->
           \* A refresh that fails changes nothing; what later refreshes do
           \* after a failure is not documented (the code gives ARP up).
           LET alts == {[s EXCEPT !.rt = r2] : r2 \in ArpRefreshAlts(s.rt, ArpTab(ln))} IN
           IF ln.fail THEN {[s EXCEPT !.dead = TRUE]}
           ELSE IF s.dead THEN alts \cup {s} ELSE alts
      [] ln.op = "hosts" -> {[s EXCEPT !.rt = HostsUpdate(s.rt, HostsTab(ln))]}
      [] ln.op = "lease" ->
           {[s EXCEPT !.ls = [s.ls EXCEPT ![ln.a] =
                IF ln.mac = NoId THEN NoLease ELSE [mac |-> ln.mac, host |-> ln.host]]]}
      [] ln.op = "list" ->
           LET r2 == SyncDHCP(s.rt, s.ls, on) IN
           IF ListOK(r2, s, ln) THEN {[s EXCEPT !.rt = r2]} ELSE {}
      [] ln.op = "look" ->
           IF ln.out \in LookupViews(s.rt, s.ls, on, ln.a)
           THEN {[s EXCEPT !.rt = LookupRT(s.rt, s.ls, on, ln.a)]} ELSE {}
      [] ln.op = "who" ->
           LET r == WhoRes(s.rt, s.cl, s.ls, on, ln.a) IN
           IF r.p = ln.p /\ (r.p = "" => ln.out \in r.v) THEN {[s EXCEPT !.rt = r.rt]} ELSE {}
      [] ln.op = "add" ->
           LET r == AddCRes(s.cl, Cl(ln.c, 0)) IN
           IF r.out = ln.out THEN {[s EXCEPT !.cl = r.reg]} ELSE {}
      [] ln.op = "updc" ->
           LET old == ByName(s.cl, ln.n)
               r == UpdCRes(s.cl, ln.n, Cl(ln.c, IF old.name = "" THEN 0 ELSE old.obj)) IN
           IF r.out = ln.out THEN {[s EXCEPT !.cl = r.reg]} ELSE {}
      [] ln.op = "rem" ->
           LET r == RemoveRes(s.cl, ln.n) IN
           IF r.out = ln.out THEN {[s EXCEPT !.cl = r.reg]} ELSE {}
      [] ln.op = "common" -> {[s EXCEPT !.cl = CommonRes(s.cl)]}
      [] ln.op = "cust" -> CustSucc(s, ln, strict)

\* What the spec expected (printed for rejected lines; diagnosis and the
\* classification of known findings).
Expect(s, ln) ==
    CASE ln.op = "cust" ->
           LET r == CustRes(s.cl, MacOf(s.ls), ln.cid, ln.a) IN
           [who |-> r.out.who, ups |-> r.out.ups, ce |-> r.out.ce, fresh |-> r.out.fresh,
            via |-> Via(s.cl, MacOf(s.ls), ln.cid, ln.a),
            obj |-> IF r.out.who = "" THEN 0 ELSE ByName(s.cl, r.out.who).obj]
      [] ln.op = "look" -> [views |-> LookupViews(s.rt, s.ls, on, ln.a)]
      [] ln.op = "who" -> LET r == WhoRes(s.rt, s.cl, s.ls, on, ln.a) IN [p |-> r.p, views |-> r.v]
      [] ln.op = "list" -> [views |-> {<<a, View(SyncDHCP(s.rt, s.ls, on)[a])>> : a \in addrs}]
      [] ln.op = "add" -> [out |-> AddCRes(s.cl, Cl(ln.c, 0)).out]
      [] ln.op = "updc" -> [out |-> UpdCRes(s.cl, ln.n, Cl(ln.c, 0)).out]
      [] ln.op = "rem" -> [out |-> RemoveRes(s.cl, ln.n).out]
      [] OTHER -> [rows |-> {<<a, Row(t.rt[a])>> : a \in addrs, t \in Succs(s, ln, FALSE)}]

Init == /\ l = 1 /\ cands = {} /\ on = FALSE /\ addrs = {}
        /\ bad = <<>> /\ soft = <<>> /\ skipping = FALSE /\ skipped = 0

Step ==
    /\ l <= Len(Trace)
    /\ l' = l + 1
    /\ LET ln == Trace[l] IN
       IF ln.op = "reset" THEN
            /\ addrs' = SetOf(ln.addrs) /\ on' = ln.on /\ cands' = {InitState} /\ skipping' = FALSE
            /\ UNCHANGED <<bad, soft, skipped>>
       ELSE IF skipping THEN
            /\ skipped' = skipped + 1
            /\ UNCHANGED <<cands, on, addrs, bad, soft, skipping>>
       ELSE
            LET strict == {t \in UNION {Succs(s, ln, TRUE) : s \in cands} : ProjOK(t, ln)} IN
            IF strict # {} THEN
                 /\ cands' = strict
                 /\ UNCHANGED <<on, addrs, bad, soft, skipping, skipped>>
            ELSE LET loose == {t \in UNION {Succs(s, ln, FALSE) : s \in cands} : ProjOK(t, ln)} IN
                 IF loose # {} THEN
                      /\ cands' = loose
                      /\ soft' = Append(soft, [l |-> l, exp |-> {Expect(s, ln) : s \in cands}])
                      /\ UNCHANGED <<on, addrs, bad, skipping, skipped>>
                 ELSE /\ bad' = Append(bad, [l |-> l, exp |-> {Expect(s, ln) : s \in cands}])
                      /\ skipping' = TRUE
                      /\ UNCHANGED <<cands, on, addrs, soft, skipped>>
    /\ (l' = Len(Trace) + 1 =>
          PrintT(<<"@@V", ToJson([n |-> Len(Trace), bad |-> bad', soft |-> soft', skipped |-> skipped'])>>))

Spec == Init /\ [][Step]_tvars

\* The candidates' registries stay consistent along every recorded history,
\* and a history is never left without a candidate.
CandsConsistent == \A s \in cands : Consistent(s.cl)
NeverEmpty == l > 1 => cands # {}
=============================================================================
