SPECIFICATION Spec
CONSTANTS
  Universe = "mc"
  MaxSet = 2
  MaxReq = 2
  Emitting = FALSE
INVARIANTS ExcludedNeverServed BlockedNameNeverServed SilentOnDatagram OthersServed PresentationIrrelevant AllowModeIgnoresDisallowed OnlyIdsAllowedExcludesAnonymous BlockModeOneMatchSuffices EmptyListsExcludeNobody
PROPERTIES DeniedMovesNothing ServedIsObserved SetAccessMovesNothing
