SPECIFICATION FairSpec
CONSTANTS
  MaxEntry = 4
  BufSize = 12
  DepthLimit = 100
  EmptyFileSeek = {"ioerr", "tooEarly"}
  MaxLines = 3
  MinLen = 1
  MaxLen = 3
  SkipEmpty = TRUE
PROPERTY Terminates
