-------------------------- MODULE TraceAtomicFile --------------------------
(***************************************************************************)
(* C14, binding part: validation of REAL system-call traces.               *)
(*                                                                         *)
(* trace.ndjson is produced by checks/c14.py from `strace -f` logs of the  *)
(* real save paths of AdGuard Home (configuration file, DHCP lease         *)
(* database, filter-list refresh) running in a child process.  One line =  *)
(* one successful system call that touches a file in the destination's     *)
(* directory (or the temporary directory), in the order the kernel         *)
(* executed them, plus the harness's markers:                              *)
(*                                                                         *)
(*   reset                 a new scenario (another process) starts         *)
(*   arm   n               set-up finished; Dst absent (n = -1) or holds   *)
(*                         version 1 of n bytes, durably                   *)
(*   begin id n            save number id of a document of n bytes starts  *)
(*   end                   the save call returned                          *)
(*   rbegin id / rend id c a concurrent reader opened Dst / finished       *)
(*                         reading it and saw content c                    *)
(*   parm n / pend c       arm / end of the poll runs, which record no     *)
(*                         system calls: the harness states what it found  *)
(*                         at the path (ArmSeen, EndSaveSeen)              *)
(*   open fd p fl | write fd n off | fsync fd | fsyncdir | sync | close fd *)
(*   rename p q | unlink p | link p q | ftrunc fd n | trunc p n            *)
(*                                                                         *)
(* The destination path is spelled "DST" in every scenario.                *)
(*                                                                         *)
(* Every line must be an ENABLED action of AtomicFileCore (otherwise the   *)
(* trace is not a behaviour of the file-system model: TLC stops there and  *)
(* the check reports "inconclusive", never a violation).  After every line *)
(* TLC evaluates                                                           *)
(*   InstantOK   the path holds old or new at this instant                 *)
(*   CrashSafe   EVERY outcome of a power failure right after this system  *)
(*               call leaves a complete version at the path -- i.e. a      *)
(*               crash is injected after every prefix of the trace and all *)
(*               its outcomes (D1 x D2 of AtomicFileCore) are enumerated   *)
(*   ReadOK      (at rend) the reader saw old or new, complete             *)
(* and records in `viol` the line numbers at which one of them BECOMES     *)
(* false.                                                                  *)
(* The spec is deterministic, so TLC's run is one pass over the trace.     *)
(***************************************************************************)
EXTENDS AtomicFileCore, Json

Trace == ndJsonDeserialize("trace.ndjson")

VARIABLES l,     \* next line to consume
          viol   \* sequence of [l, inv] (first MaxViol violations)

MaxViol == 400

tvars == <<dir, ino, fds, ddst, armed, phase, k, vers, prev, good, reads, l, viol>>

Blank ==
  /\ dir = <<>> /\ ino = <<>> /\ fds = <<>> /\ ddst = {0}
  /\ armed = FALSE /\ phase = "idle" /\ k = 0 /\ vers = <<>>
  /\ prev = NoFile /\ good = {} /\ reads = <<>>

Init == Blank /\ l = 1 /\ viol = <<>> /\ TLCSet(1, 1) /\ TLCSet(2, <<>>)

Reset ==
  /\ dir' = <<>> /\ ino' = <<>> /\ fds' = <<>> /\ ddst' = {0}
  /\ armed' = FALSE /\ phase' = "idle" /\ k' = 0 /\ vers' = <<>>
  /\ prev' = NoFile /\ good' = {} /\ reads' = <<>>

\* The effect of one trace line on the core variables.
Apply(e) ==
  CASE e.ev = "reset"    -> Reset
    [] e.ev = "arm"      -> Arm(e.n)
    [] e.ev = "begin"    -> e.id = k + 1 /\ BeginSave(e.n) /\ UNCHANGED fsVars
    [] e.ev = "end"      -> EndSave /\ UNCHANGED fsVars
    [] e.ev = "parm"     -> ArmSeen(e.n)
    [] e.ev = "pend"     -> EndSaveSeen(e.c) /\ UNCHANGED fsVars
    [] e.ev = "rbegin"   -> ReadBegin(e.id) /\ UNCHANGED <<dir, ino, fds, ddst, armed, phase, k, vers, prev, good>>
    [] e.ev = "rend"     -> ReadEnd(e.id) /\ UNCHANGED <<dir, ino, fds, ddst, armed, phase, k, vers, prev, good>>
    [] e.ev = "open"     -> FsOpen(e.fd, e.p, e.fl) /\ UNCHANGED <<armed, phase, k, vers, prev, good, reads>>
    [] e.ev = "write"    -> FsWrite(e.fd, e.n, e.off) /\ UNCHANGED <<armed, phase, k, vers, prev, good, reads>>
    [] e.ev = "fsync"    -> FsFsync(e.fd) /\ UNCHANGED <<armed, phase, k, vers, prev, good, reads>>
    [] e.ev = "fsyncdir" -> FsSyncDir /\ UNCHANGED <<armed, phase, k, vers, prev, good, reads>>
    [] e.ev = "sync"     -> FsSync /\ UNCHANGED <<armed, phase, k, vers, prev, good, reads>>
    [] e.ev = "close"    -> FsClose(e.fd) /\ UNCHANGED <<armed, phase, k, vers, prev, good, reads>>
    [] e.ev = "rename"   -> FsRename(e.p, e.q) /\ UNCHANGED <<armed, phase, k, vers, prev, good, reads>>
    [] e.ev = "unlink"   -> FsUnlink(e.p) /\ UNCHANGED <<armed, phase, k, vers, prev, good, reads>>
    [] e.ev = "link"     -> FsLink(e.p, e.q) /\ UNCHANGED <<armed, phase, k, vers, prev, good, reads>>
    [] e.ev = "ftrunc"   -> FsFtruncate(e.fd, e.n) /\ UNCHANGED <<armed, phase, k, vers, prev, good, reads>>
    [] e.ev = "trunc"    -> FsTruncate(e.p, e.n) /\ UNCHANGED <<armed, phase, k, vers, prev, good, reads>>

\* Invariants that line l breaks: false in the state it leads to and true in
\* the state before (a broken state usually stays broken for many lines;
\* only the system call that broke it is reported).  ReadOK is about the
\* state before the reader's entry is dropped.
Broken(e) ==
  (IF InstantOK' \/ ~InstantOK THEN {} ELSE {"InstantOK"}) \cup
  (IF CrashSafe' \/ ~CrashSafe THEN {} ELSE {"CrashSafe"}) \cup
  (IF e.ev = "rend" /\ ~ReadOK(e.id, e.c) THEN {"ReadOK"} ELSE {}) \cup
  \* poll runs: what the harness found at the path when the save had returned
  (IF e.ev = "pend" /\ e.c \notin Allowed THEN {"InstantOK"} ELSE {})

RECURSIVE SetToSeq(_)
SetToSeq(S) == IF S = {} THEN <<>> ELSE LET x == CHOOSE x \in S : TRUE IN <<x>> \o SetToSeq(S \ {x})

Next ==
  /\ l <= Len(Trace)
  /\ Apply(Trace[l])
  /\ l' = l + 1
  /\ LET b == Broken(Trace[l]) IN
     viol' = IF b = {} \/ Len(viol) >= MaxViol THEN viol
             ELSE viol \o [i \in 1..Cardinality(b) |-> [l |-> l, inv |-> SetToSeq(b)[i]]]
  /\ TLCSet(1, l') /\ TLCSet(2, viol')

Spec == Init /\ [][Next]_tvars

\* Reported at the end (also when a line was not enabled and TLC stopped).
Post == PrintT(<<"@@V", ToJson([n |-> Len(Trace), consumed |-> TLCGet(1) - 1, viol |-> TLCGet(2)])>>)
=============================================================================
