\* Generation + statement invariants: every table (multiset) of exactly three
\* entries over the small universe.
CONSTANTS U = "small" MaxLen = 3 EmitFrom = 3 Shard = 0 Perms = FALSE Families = 0 Mode = "gen"
INIT Init
NEXT Next
INVARIANTS Unmatched WellFormed CnameBeatsAddress ExactShadowsWildcardCname ExactShadowsWildcard MostSpecificWildcard SelfAndTypeExceptionsPassThrough AddressesComeFromTableForFinalName MatchedButNoValue
