SPECIFICATION SpecNamed
CONSTANTS Urls = {"u1", "u2", "u3"}
          Names = {"n1"}
          Sides = {"b"}
          Served = {"cA", "fail"}
          UserSets = {{}}
          Switch = FALSE
          Bad = FALSE
          Aimless = TRUE
          MaxId = 3
          BlankPolicies = {FALSE}
          Forget = FALSE
INVARIANTS InvUniqueIds
