SPECIFICATION Spec
CONSTANTS
  Universe = "clients"
  MaxSet = 1
  MaxReq = 0
  Emitting = TRUE
INVARIANTS ExcludedNeverServed BlockedNameNeverServed SilentOnDatagram OthersServed PresentationIrrelevant AllowModeIgnoresDisallowed OnlyIdsAllowedExcludesAnonymous BlockModeOneMatchSuffices EmptyListsExcludeNobody
PROPERTIES DeniedMovesNothing ServedIsObserved SetAccessMovesNothing
