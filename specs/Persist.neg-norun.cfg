\* Negative configuration: the seeded fault "norun" of Persist.tla must violate WriteThrough.
SPECIFICATION Spec
CONSTANTS
    Deep = FALSE
    Bug = "norun"
    DoEmit = FALSE
INVARIANTS WriteThrough
VIEW View
