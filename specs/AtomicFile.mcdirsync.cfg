SPECIFICATION Spec
CONSTANTS
  Dst = "d/dst"
  Protocol <- ProtoAtomicDirSync
  MaxSaves = 3
  MaxChunks = 2
  MaxCrashes = 2
  InitPresent = TRUE
  WithReader = TRUE
INVARIANTS TypeOK DstOldOrNew CrashSafe CrashStrict ReaderOK
PROPERTIES Effective CrashAgree
