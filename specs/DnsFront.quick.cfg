SPECIFICATION Spec
CONSTANTS Full = FALSE
INVARIANTS Statements TypeOK
