--------------------------- MODULE ClientsIndApa ---------------------------
(***************************************************************************)
(* Apalache front end of ClientsInd.tla: the constants are ARBITRARY sets   *)
(* (Gen) of at most the stated cardinalities -- any strings, any triples,  *)
(* not a symmetric or enumerated universe -- constrained by ConstOK only;  *)
(* IndInit is an arbitrary state (a registry of at most 5 arbitrary        *)
(* clients) constrained by IndInv only.                                    *)
(***************************************************************************)
EXTENDS ClientsInd, Apalache

CInit ==
    /\ Names = Gen(4)
    /\ Ident = Gen(6)
    /\ IdSets = Gen(4)
    /\ Flags \in [Names -> SUBSET (BOOLEAN \X BOOLEAN)]
    /\ LeaseAddrs = Gen(2)
    /\ LeaseMacs = Gen(2)
    /\ Configs = Gen(3)
    /\ ConstOK

IndInit ==
    /\ clients = Gen(5)
    /\ leases \in [LeaseAddrs -> LeaseMacs \cup {NoId}]
    /\ last \in [op : Ops, out : {"ok", "err"}]
    /\ IndInv
=============================================================================
