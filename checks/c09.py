"""C09 -- statistics totals equal the queries counted inside the retention window.

Half 1   Stats.tla model-checked exhaustively (Stats.mc.cfg: scaled day so that
         the daily branch is inside the universe; Stats.gen*.cfg: the universe
         that is replayed), all invariants of the statement, coverage/vacuity.
A        every labelled edge TLC emits from Stats.gen*.cfg is walked on the real
         StatsCtx (edge-covering tours), GET /control/stats compared with the
         spec's admissible reply after every step.
B        seeded long histories over the real constants -> TraceStats.tla;
         concurrent Update/flush/GET histories -> TraceStatsConc.tla (TLC infers a
         linearisation); the concurrent driver also runs under -race.
"""
import json
import os
import re
import subprocess
import time

import vlib

PKG = "internal/stats"
FILES = ["zz_verif_common_test.go", "zz_verif_c09_test.go"]
ACTIONS = ["Update", "Tick", "Flush", "FlushFails", "Close", "Open", "SetLimit", "SetEnabled", "Clear", "Read"]
_vec = re.compile(r'^<<"@@V", "(.*)">>$')


KF_WIPE = "restart-below-limit-wipes-units"


def classify(rec):
    """Narrow keys of known findings; None = unclassified (reported).

    restart-below-limit-wipes-units: the disagreement appears at a restart (Open) that
    happens while the absolute hour number is not greater than the retention limit in
    hours, and it consists of the reply being completely empty although the spec has
    counts inside the window (stats.New: id - limit - 1 wraps, every unit is deleted).
    Anything else at a restart, or the same symptom at a larger hour, has no key."""
    kind = rec.get("kind")
    if kind == "bad" and rec.get("act") == "open" and rec.get("got"):
        hour = rec["path"]["base"] + sum(st["x"] for st in rec["path"]["steps"] if st["a"] == "tick")
        got = rec["got"]
        if hour <= rec["lim"] and not got["nz"] and not any(got["tot"]) and rec["want"]["slots"]:
            return KF_WIPE
    if kind == "trace" and rec.get("prev_ev") == "open":
        last = rec["trace"][-1]
        if rec["hour"] <= rec["limit_at"] and not last["nz"] and not any(last["tot"]):
            return KF_WIPE
    return None


# ------------------------------------------------------------------ TLC, streamed
def tlc_stream(ctx, module, cfg, workers=6, timeout=900, heap="4g"):
    """Like ctx.tlc but leaves the (large) output on disk instead of parsing every
    vector into memory; returns the path.  Counters are added to ctx as vlib does."""
    import shutil
    d = ctx.path("tlc_%s_%s_s" % (module, cfg.replace(".cfg", "")))
    shutil.rmtree(d, ignore_errors=True)
    os.makedirs(d)
    for f in os.listdir(vlib.SPECS):
        if f.endswith(".tla"):
            shutil.copy(os.path.join(vlib.SPECS, f), d)
    shutil.copy(os.path.join(vlib.SPECS, cfg), os.path.join(d, "run.cfg"))
    os.makedirs(os.path.join(d, "jtmp"), exist_ok=True)
    cmd = ["java", "-Djava.io.tmpdir=" + os.path.join(d, "jtmp"), "-XX:+UseParallelGC", "-Xss512m", "-Xmx" + heap, "-cp", vlib.TLA_JAR, "tlc2.TLC",
           "-metadir", os.path.join(d, "meta"), "-workers", str(workers), "-config", "run.cfg", "-deadlock",
           module + ".tla"]
    outp = os.path.join(d, "tlc.out")
    t = time.time()
    try:
        with open(outp, "w") as fh:
            p = subprocess.run(cmd, cwd=d, stdout=fh, stderr=subprocess.STDOUT, timeout=timeout)
    except subprocess.TimeoutExpired:
        raise vlib.Inconclusive("TLC timeout on %s/%s" % (module, cfg))
    gen = dist = ninit = 0
    bad = None
    with open(outp, errors="replace") as fh:
        for line in fh:
            if line.startswith("<<"):
                continue
            m = re.search(r"(\d+) states generated, (\d+) distinct states found", line)
            if m:
                gen, dist = int(m.group(1)), int(m.group(2))
            m = re.search(r"Finished computing initial states: (\d+) distinct state", line)
            if m:
                ninit = int(m.group(1))
            if "Error:" in line or "is violated" in line:
                bad = bad or line.strip()
    wall = time.time() - t
    ctx.tlc_states += gen
    ctx.tlc_distinct += dist
    ctx.tlc_runs.append({"module": module, "cfg": cfg, "generated": gen, "distinct": dist,
                         "wall_s": round(wall, 1), "violated": bad})
    ctx.log("TLC %s/%s: %d generated, %d distinct, %.1fs" % (module, cfg, gen, dist, wall))
    if p.returncode != 0 or bad or gen == 0:
        raise vlib.Inconclusive("TLC failed on %s/%s (rc=%s): %s" % (module, cfg, p.returncode, bad))
    return outp, gen, ninit


def build_graph(ctx, tlc_out):
    """TLC's edge lines -> states.ndjson / edges.ndjson with dense state ids."""
    ids, states = {}, []
    nedges = nt = 0
    opt_states = 0
    samples = []
    acts = {}

    def key(s):
        s["db"].sort(key=lambda b: b["a"])
        return json.dumps(s, sort_keys=True)

    epath, spath = ctx.path("edges.ndjson"), ctx.path("states.ndjson")
    with open(epath, "w") as ef, open(tlc_out, errors="replace") as fh:
        for line in fh:
            m = _vec.match(line.rstrip("\n"))
            if not m:
                continue
            v = json.loads(json.loads('"' + m.group(1) + '"'))
            pair = []
            for st in (v["s"], v["d"]):
                k = key(st)
                i = ids.get(k)
                if i is None:
                    i = ids[k] = len(states)
                    states.append({"id": i, "lim": st["lim"], "lead": st["lead"], "part": i, "en": st["en"],
                                   "up": st["up"], "o": None,
                                   "fresh": bool(st["up"] and st["lead"] == 0 and st["ct"] == 0 and not st["db"])})
                pair.append(i)
            d = states[pair[1]]
            if d["o"] is None:
                v["o"]["slots"].sort(key=lambda b: b["a"])
                d["o"] = v["o"]
                if any(sl["opt"] for sl in v["o"]["slots"]):
                    opt_states += 1
            # Non-trivial: counted queries are visible in the destination, or the
            # source had some and the step is one that moves / may lose them.
            src_has = v["s"]["ct"] > 0 or bool(v["s"]["db"])
            nontriv = bool(d["o"]["slots"]) or (src_has and v["a"] in ("flush", "close", "open", "limit", "clear", "tick"))
            nt += nontriv
            acts[v["a"]] = acts.get(v["a"], 0) + 1
            ef.write(json.dumps({"s": pair[0], "a": v["a"], "x": v["x"], "d": pair[1], "nt": int(nontriv)}) + "\n")
            nedges += 1
            if nedges in (1, 5000, 50000):
                samples.append({"edge": {"s": v["s"], "a": v["a"], "x": v["x"], "d": v["d"], "o": v["o"]}})
    with open(spath, "w") as sf:
        for st in states:
            if st["o"] is None:  # never a destination (cannot happen: Read is a self-loop)
                st["o"] = {"units": "down" if not st["up"] else "hours", "len": st["lim"], "slots": []}
            sf.write(json.dumps(st) + "\n")
    return {"states": spath, "edges": epath, "n_states": len(states), "n_edges": nedges, "n_nontrivial": nt,
            "opt_states": opt_states, "samples": samples, "acts": acts,
            "fresh": sum(1 for s in states if s["fresh"])}


# ---------------------------------------------------------------------------- Go
def dbdir(ctx):
    d = ctx.path("db")
    os.makedirs(d, exist_ok=True)
    return d


def go_rows(ctx, test, env, what, race=False, timeout=1500):
    outp = ctx.path("c09_%s_%d.ndjson" % (what, int(time.time() * 1000) % 10 ** 9))
    e = {"VERIF_OUT": outp, "VERIF_DBDIR": dbdir(ctx)}
    e.update(env)
    rc, out = ctx.go_test(PKG, FILES, "^%s$" % test, env=e, race=race, timeout=timeout)
    return rc, out, vlib.read_ndjson(outp), outp


def walk(ctx, graph, ncats, frac, budget, workers):
    rc, out, rows, _ = go_rows(ctx, "TestZZVerifC09Walk", {
        "VERIF_STATES": graph["states"], "VERIF_EDGES": graph["edges"], "VERIF_WORKERS": str(workers),
        "VERIF_FRAC": str(frac), "VERIF_NCATS": str(ncats), "VERIF_BUDGET_S": str(budget)}, "walk",
        timeout=budget + 600)
    summ = [r for r in rows if r.get("kind") == "summary"]
    if rc != 0 or not summ:
        raise vlib.Inconclusive("C09 walk harness did not complete:\n" + out[-3000:])
    return rows, summ[0]


def low_clock(ctx, graph, ncats, n, workers):
    rc, out, rows, _ = go_rows(ctx, "TestZZVerifC09Low", {
        "VERIF_STATES": graph["states"], "VERIF_EDGES": graph["edges"], "VERIF_WORKERS": str(workers),
        "VERIF_NCATS": str(ncats), "VERIF_LOW_N": str(n)}, "low", timeout=900)
    summ = [r for r in rows if r.get("kind") == "summary"]
    if rc != 0 or not summ:
        raise vlib.Inconclusive("C09 low-clock harness did not complete:\n" + out[-3000:])
    return rows, summ[0]


def run_paths(ctx, paths):
    pin = ctx.path("c09_paths_in.ndjson")
    vlib.write_ndjson(pin, paths)
    rc, out, rows, _ = go_rows(ctx, "TestZZVerifC09Path", {"VERIF_IN": pin}, "path")
    if rc != 0 or not any(r.get("kind") == "summary" for r in rows):
        raise vlib.Inconclusive("C09 path harness did not complete:\n" + out[-3000:])
    return [r for r in rows if r.get("kind") != "summary"]


def record_traces(ctx, n, steps, seeds=None):
    env = {"VERIF_TRACES": str(n), "VERIF_STEPS": str(steps)}
    if seeds:
        env["VERIF_TSEEDS"] = ",".join(str(s) for s in seeds)
    rc, out, rows, path = go_rows(ctx, "TestZZVerifC09Trace", env, "trace")
    if rc != 0 or not rows:
        raise vlib.Inconclusive("C09 trace driver did not complete:\n" + out[-3000:])
    return rows, path


def validate_traces(ctx, rows, path):
    r = ctx.tlc("TraceStats", "TraceStats.cfg", workers=1, extra_files=[(path, "trace.ndjson")], timeout=1200,
                heap="4g")
    if not r["vectors"]:
        raise vlib.Inconclusive("TraceStats produced no verdict")
    verdict = r["vectors"][-1]
    if verdict["n"] != len(rows):
        raise vlib.Inconclusive("TraceStats consumed %s of %d lines" % (verdict["n"], len(rows)))
    return verdict["bad"]


def trace_of_line(rows, i):
    """The trace (from its "new" line) up to and including 1-based line i."""
    j = i - 1
    while rows[j]["ev"] != "new":
        j -= 1
    return rows[j:i]


def record_hists(ctx, n, seeds=None, race=False):
    env = {"VERIF_HISTS": str(n)}
    if seeds:
        env["VERIF_HSEEDS"] = ",".join(str(s) for s in seeds)
    rc, out, rows, path = go_rows(ctx, "TestZZVerifC09Conc", env, "hist_race" if race else "hist", race=race,
                                  timeout=480)
    return rc, out, rows, path


def hist_rows(rows):
    """Rows of the concurrent driver -> (complete histories, histories that did not finish)."""
    return [r for r in rows if "ops" in r], [r for r in rows if r.get("kind") == "hang"]


def validate_hists(ctx, rows, path=None):
    """TLC on the complete histories among rows; returns those without a linearisation."""
    hists, _ = hist_rows(rows)
    if not hists:
        return []
    for i, h in enumerate(hists):
        h["h"] = i + 1          # TraceStatsConc addresses a history by its line number
    hp = ctx.path("c09_hist_tlc_%d.ndjson" % (int(time.time() * 1000) % 10 ** 9))
    vlib.write_ndjson(hp, hists)
    r = ctx.tlc("TraceStatsConc", "TraceStatsConc.cfg", workers=4, extra_files=[(hp, "hist.ndjson")],
                timeout=1200, heap="4g")
    acc = {v["h"] for v in r["vectors"]}
    return [h for h in hists if h["h"] not in acc]


HANGS = {"seen": 0, "reproduced": 0, "flaky": 0}


def hang_text(h):
    frames = re.findall(r"internal/stats\.\(\*StatsCtx\)\.(\w+)|bbolt\.\(\*(?:DB|Tx)\)\.(\w+)", h.get("dump", ""))
    names = []
    for a, b in frames:
        n = a or ("bbolt." + b)
        if n not in names:
            names.append(n)
    return "goroutines blocked in " + ", ".join(names[:10]) if names else "no goroutine of the package in the dump"


def reproduce_hangs(ctx, hangs, race):
    """A history that did not terminate is run again alone, in a fresh test process (the same seed up
    to 30 times, stopping at the first one that hangs); hangs again => reproduced disagreement."""
    for h in hangs:
        HANGS["seen"] += 1
        rc, out, rows2, _ = record_hists(ctx, 0, seeds=[h["seed"]] * 30, race=race)
        _, hangs2 = hist_rows(rows2)
        if hangs2:
            HANGS["reproduced"] += 1
            rec = {"kind": "hang", "seed": h["seed"], "race": race, "watchdog_s": h.get("watchdog_s"),
                   "dump": hangs2[0].get("dump", "")[:8000], "first_dump": h.get("dump", "")[:3000]}
            ctx.disagreement(classify(rec), rec, "concurrent history %d does not terminate: Update / flush / GET /control/stats "
                             "still not returned after %s s, again when re-run alone (%s)" % (
                                 h["seed"], h.get("watchdog_s"), hang_text(hangs2[0])))
        else:
            HANGS["flaky"] += 1
            ctx.log("history %d did not terminate once but did in 30 re-runs alone: counted as flaky, no verdict" % h["seed"])


def concurrent_pairs(h):
    ops = h["ops"]
    n = 0
    for i in range(len(ops)):
        for j in range(i + 1, len(ops)):
            a, b = ops[i], ops[j]
            if not (a["res"] < b["inv"] or b["res"] < a["inv"]):
                n += 1
    return n


_race_fn = re.compile(r"^\s+(github\.com/AdguardTeam/AdGuardHome/internal/\S+?)\(\)\s*$", re.M)


def race_reports(out):
    """DATA RACE blocks of a -race run -> {key: text}; key = the two innermost
    repository frames that are not harness code."""
    reps = {}
    for blk in out.split("WARNING: DATA RACE")[1:]:
        blk = blk.split("==================")[0]
        halves = re.split(r"\n(?:Previous|Goroutine) ", blk)
        fns = []
        for half in halves[:2]:
            fs = [f for f in _race_fn.findall(half) if "zzC09" not in f and "ZZVerif" not in f]
            fns.append(fs[0].split("/internal/")[-1] if fs else "?")
        key = "race:" + "|".join(sorted(fns))
        reps.setdefault(key, blk.strip()[:4000])
    return reps


def crashed(out):
    return "panic" in out or "fatal error:" in out


def schedules(ctx, n, race):
    """Record n histories (under -race if asked), validate, reproduce rejections.
    Returns (histories, rejected-and-reproduced, concurrent pairs)."""
    rc, out, rows, path = record_hists(ctx, n, race=race)
    tag = "-race " if race else ""
    hists, hangs = hist_rows(rows)
    if race:
        reps = race_reports(out)
        if reps:
            rc2, out2, _, _ = record_hists(ctx, n, race=True)
            reps2 = race_reports(out2)
            hit = False
            for key, text in reps.items():
                if key in reps2:
                    hit = True
                    ctx.disagreement(classify({"kind": "race", "key": key}) or key, {"kind": "race", "key": key, "report": text, "n": n},
                                     "data race reported by the race detector while Update / flush / GET /control/stats run concurrently: " + key)
            if not hit:
                raise vlib.Inconclusive("race report not reproduced on a second run:\n" + "\n".join(reps))
            return hists, [], 0
    if rc == 0 and hangs:
        reproduce_hangs(ctx, hangs, race)
    if rc != 0 or not (hists or hangs):
        if crashed(out):
            rc2, out2, _, _ = record_hists(ctx, n, race=race)
            if rc2 != 0 and crashed(out2):
                ctx.disagreement(classify({"kind": "panic"}), {"kind": "panic", "race": race, "n": n, "output": out[-4000:]},
                                 "panic / fatal runtime error while Update / flush / GET /control/stats run concurrently")
                return hists, [], 0
        raise vlib.Inconclusive("C09 %sconcurrent driver did not complete:\n%s" % (tag, out[-3000:]))
    rows = hists
    rej = validate_hists(ctx, rows)
    reproduced = []
    if rej:
        # Isolation: the same history seeds again, each many times, nothing else running.
        seeds = []
        for h in rej[:5]:
            seeds += [h["seed"]] * 30
        rc, out, rows2, path2 = record_hists(ctx, 0, seeds=seeds, race=race)
        if rc != 0 or not rows2:
            raise vlib.Inconclusive("C09 concurrent driver (isolation) did not complete:\n" + out[-3000:])
        rej2 = validate_hists(ctx, rows2)
        again = {h["seed"] for h in rej2}
        for h in rej:
            if h["seed"] in again:
                reproduced.append(h)
                rec = {"kind": "hist", "hist": h, "race": race}
                ctx.disagreement(classify(rec), rec, "concurrent history (seed %d) has no linearisation admitted by Stats.tla: %s" % (
                    h["seed"], json.dumps([[o["g"], o["op"], o["k"], o["tot"]] for o in h["ops"]])))
        if not reproduced:
            raise vlib.Inconclusive("%d %shistories rejected by TraceStatsConc but not reproduced in 30 re-runs each (seeds %s)" % (
                len(rej), tag, [h["seed"] for h in rej[:5]]))
    return rows, reproduced, sum(concurrent_pairs(h) for h in rows)


# --------------------------------------------------------------------------- run
def run(ctx):
    for m in ("Stats", "TraceStats", "TraceStatsConc"):
        ctx.sany(m)

    # Half 1 + vacuity: every action taken, the daily branch reachable with data.
    mc = ctx.tlc("Stats", "Stats.mc.cfg", workers=4, timeout=900, coverage=True, heap="4g")
    taken = {m.group(1): int(m.group(2)) for m in
             re.finditer(r"^<(\w+) line \d+, col \d+ to line \d+, col \d+ of module Stats>: \d+:(\d+)", mc["out"], re.M)}
    never = [a for a in ACTIONS if taken.get(a, 0) == 0]
    if never:
        raise vlib.Inconclusive("vacuous: actions never taken in Stats.mc.cfg: %s" % never)
    vac = ctx.tlc("Stats", "Stats.vac.cfg", workers=2, timeout=300, expect_violation=True, heap="2g")
    if vac["violated"] != "NeverDailyData":
        raise vlib.Inconclusive("vacuous: the daily branch with data is not reachable in Stats.vac.cfg")

    # Direction A.
    if ctx.quick:
        cfg, ncats, budget = "Stats.gen.cfg", 2, 45
    else:
        cfg, ncats, budget = "Stats.genL.cfg", 2, 330
    tout, gen_states, ninit = tlc_stream(ctx, "Stats", cfg, workers=6)
    graph = build_graph(ctx, tout)
    ctx.log("graph: %d states, %d edges (%d non-trivial), %d fresh, %d states with optional slots" % (
        graph["n_states"], graph["n_edges"], graph["n_nontrivial"], graph["fresh"], graph["opt_states"]))
    if graph["n_edges"] < 1000 or graph["fresh"] == 0 or graph["opt_states"] == 0:
        raise vlib.Inconclusive("vacuous: edge graph too small / no fresh state / no optional slot")
    if graph["n_edges"] != gen_states - ninit:
        raise vlib.Inconclusive("edge lines lost: %d parsed, TLC generated %d transitions" % (graph["n_edges"], gen_states - ninit))
    rows, summ = walk(ctx, graph, ncats, 1, budget, 6)
    for r in rows:
        if r.get("kind") == "bad":
            ctx.disagreement(classify(r), r, "after %s(%s): %s" % (r["act"], r["x"], "; ".join(r["msgs"])))
    truncated = sum(1 for r in rows if r.get("kind") == "bad" and classify(r))
    # Second part of A: short behaviours on fresh modules with the clock started at 0, 1,
    # limit-1, limit, limit+1, 2*limit, present day in turn (restart edges first).
    lrows, lsumm = low_clock(ctx, graph, ncats, 900 if ctx.quick else 9000, 6)
    for r in lrows:
        if r.get("kind") == "bad":
            ctx.disagreement(classify(r), r, "clock started at hour %d, after %s(%s): %s" % (
                r["path"]["base"], r["act"], r["x"], "; ".join(r["msgs"])))
    truncated += sum(1 for r in lrows if r.get("kind") == "bad" and classify(r))
    if lsumm["restarts"] == 0:
        raise vlib.Inconclusive("vacuous: no restart in the low-clock behaviours")
    ctx.log("low clock: %d behaviours (%d restart edges), %d steps, %d replies compared, %d disagreements" % (
        lsumm["behaviours"], lsumm["open_edges"], lsumm["steps"], lsumm["reads"], lsumm["bad"]))
    rows = rows + lrows
    flaky = sum(1 for r in rows if r.get("kind") == "flaky")
    if flaky:
        raise vlib.Inconclusive("%d disagreements of the walk were not reproduced in isolation: %s" % (
            flaky, [r["msgs"] for r in rows if r.get("kind") == "flaky"][:3]))
    if summ["covered"] < min(2000, graph["n_edges"]):
        raise vlib.Inconclusive("walk covered only %d edges" % summ["covered"])
    ctx.log("walk: %d/%d edges covered in %d steps (%d replies compared), %d restarts%s" % (
        summ["covered"], graph["n_edges"], summ["steps"], summ["reads"], summ["restarts"],
        " -- time budget exhausted" if summ["timed_out"] else ""))

    # Direction B, sequential traces over the real constants.
    ntr, nst = (12, 150) if ctx.quick else (60, 300)
    trows, tpath = record_traces(ctx, ntr, nst)
    bad = validate_traces(ctx, trows, tpath)
    daily_reads = sum(1 for r in trows if r["ev"] == "read" and r["units"] == "days" and r["nz"])
    reads = sum(1 for r in trows if r["ev"] == "read")
    if bad:
        seeds = sorted({trace_of_line(trows, i)[0]["seed"] for i in bad})
        trows2, tpath2 = record_traces(ctx, 0, nst, seeds=seeds)
        bad2 = validate_traces(ctx, trows2, tpath2)
        if not bad2:
            raise vlib.Inconclusive("trace lines %s rejected by TraceStats but not reproduced when their traces were re-run alone" % bad[:10])
        seen = set()
        for i in bad2:
            tr = trace_of_line(trows2, i)
            if tr[0]["seed"] in seen:
                continue
            seen.add(tr[0]["seed"])
            acts = [x for x in tr[:-1] if x["ev"] != "read"]
            lim_at = [x["k"] for x in acts if x["ev"] in ("new", "limit")][-1]
            rec = {"kind": "trace", "seed": tr[0]["seed"], "steps": nst, "line": len(tr), "trace": tr[-40:],
                   "prev_ev": acts[-1]["ev"], "hour": tr[-1]["hour"], "limit_at": lim_at}
            if classify(rec):
                # The spec's state and the module's have diverged: the rest of this trace is not judged.
                truncated += sum(1 for j in range(len(trows2)) if trows2[j]["ev"] == "read" and j + 1 > i
                                 and trace_of_line(trows2, j + 1)[0]["seed"] == tr[0]["seed"])
            ctx.disagreement(classify(rec), rec, "reply %s not admitted by Stats.tla after %s (trace seed %d, line %d)" % (
                json.dumps({k: tr[-1][k] for k in ("units", "len", "tot", "nz")}),
                json.dumps([[x["ev"], x["k"]] for x in tr[-8:-1] if x["ev"] != "read"]), tr[0]["seed"], len(tr)))
    if daily_reads == 0:
        raise vlib.Inconclusive("vacuous: no daily reply with data in the recorded traces")

    # Schedules.
    HANGS.update(seen=0, reproduced=0, flaky=0)
    nh, nhr = (150, 60) if ctx.quick else (1500, 500)
    hrows, hbad, pairs = schedules(ctx, nh, race=False)
    if HANGS["reproduced"]:
        # The code under test deadlocks reproducibly: the verdict is settled, the -race leg would
        # only wait for watchdogs.
        rrows, rbad, rpairs = [], [], 0
    else:
        rrows, rbad, rpairs = schedules(ctx, nhr, race=True)
    if hrows and rrows and pairs + rpairs == 0:
        raise vlib.Inconclusive("vacuous: no two operations overlapped in any recorded history")

    exhaustive = summ["covered"] == graph["n_edges"] and not summ["timed_out"]
    samples = graph["samples"][:2]
    samples.append({"trace_line": next((r for r in trows if r["ev"] == "read" and r["nz"]), trows[0])})
    if hrows:
        h = max(hrows, key=concurrent_pairs)
        samples.append({"history": {"limit": h["limit"], "ops": [[o["g"], o["seq"], o["inv"], o["res"], o["op"], o["k"], o["tot"]] for o in h["ops"]]}})
    cov = {
        "traces_validated_against_impl": summ["restarts"] + lsumm["behaviours"] + ntr + len(hrows) + len(rrows),
        "evaluations": summ["reads"] + lsumm["reads"] + reads + sum(len(h["ops"]) for h in hrows + rrows),
        "low_clock_behaviours": lsumm["behaviours"], "low_clock_restart_edges": lsumm["open_edges"],
        "low_clock_steps": lsumm["steps"], "low_clock_replies_compared": lsumm["reads"],
        "truncated_by_known_finding": truncated,
        "trace_start_hours": sorted({r["hour"] for r in trows if r["ev"] == "new"})[:12],
        "distinct_nontrivial": summ["covered_nt"],
        "rule": "A: one evaluation = one real GET /control/stats compared with the spec's admissible reply after a walked edge; "
                "an edge is non-trivial if counted queries are visible in its destination reply or its source holds counts and the "
                "action moves or may lose them (tick, flush, close, open, limit, clear). B: read lines of the recorded traces and "
                "operations of the concurrent histories validated by TLC.",
        "graph_states": graph["n_states"], "graph_edges": graph["n_edges"], "graph_nontrivial_edges": graph["n_nontrivial"],
        "edges_covered": summ["covered"], "walk_steps": summ["steps"], "walk_replies_compared": summ["reads"],
        "walk_tours": summ["restarts"], "walk_actions": summ["acts"], "walk_timed_out": summ["timed_out"],
        "gen_cfg": cfg, "states_with_optional_slots": graph["opt_states"],
        "trace_count": ntr, "trace_lines": len(trows), "trace_reads": reads, "trace_daily_reads_with_data": daily_reads,
        "trace_lines_rejected": len(bad),
        "histories": len(hrows), "histories_race": len(rrows), "histories_rejected": len(hbad) + len(rbad),
        "concurrent_pairs": pairs + rpairs,
        "histories_not_terminating": HANGS["reproduced"], "histories_hang_flaky": HANGS["flaky"],
        "exhaustive": exhaustive, "samples": samples,
    }
    return ctx.finish("model_checking", cov, assumptions=[
        "TLC; conc()/abs() of zz_verif_c09_test.go (entry concretisation, projection of the /control/stats reply, compare())",
        "'the hour that was current' = the hour the module had observed (id of the current unit); the periodic step is driven "
        "explicitly through StatsCtx.flush, the clock through the exported Config.UnitID",
        "hours that have been outside the window once (aged out / limit lowered) and are inside again after the limit was raised "
        "may or may not be reported (statement silent)",
        "daily series: only 'sum <= totals' is compared (statement); scratch bbolt files are opened with bbolt.DefaultOptions.NoSync",
        "the absolute position of the clock is a seeded dimension (0, 1, limit-1, limit, limit+1, 2*limit, ~470000) in every leg",
        "clock never goes backwards; clears, restarts and limit changes are sequential (the quantifier makes only updates concurrent "
        "with flush and reads)"])


# ------------------------------------------------------------------------ replay
def replay(ctx, path):
    rec = json.load(open(path))["record"]
    kind = rec.get("kind")
    if kind in ("bad", "flaky"):
        res = run_paths(ctx, [rec["path"]])
        bad = [r for r in res if r["kind"] == "bad"]
        print(json.dumps({"steps": [[s["a"], s["x"]] for s in rec["path"]["steps"]],
                          "expected": rec["path"]["steps"][-1]["o"],
                          "observed": bad[0]["got"] if bad else "admissible",
                          "why": bad[0]["msgs"] if bad else []}, indent=1))
        return 1 if bad else 0
    if kind == "trace":
        trows, tpath = record_traces(ctx, 0, rec["steps"], seeds=[rec["seed"]])
        bad = validate_traces(ctx, trows, tpath)
        print(json.dumps({"trace_seed": rec["seed"], "rejected_lines": bad,
                          "observed": [trows[i - 1] for i in bad[:3]]}, indent=1))
        return 1 if bad else 0
    if kind == "hist":
        rc, out, rows, hpath = record_hists(ctx, 0, seeds=[rec["hist"]["seed"]] * 30, race=rec.get("race", False))
        if rc != 0 or not rows:
            raise vlib.Inconclusive("concurrent driver did not complete:\n" + out[-2000:])
        rej = validate_hists(ctx, rows)
        print(json.dumps({"history_seed": rec["hist"]["seed"], "runs": len(rows), "rejected": len(rej),
                          "observed": rej[0]["ops"] if rej else "linearisable"}, indent=1))
        return 1 if rej else 0
    if kind == "hang":
        rc, out, rows, _ = record_hists(ctx, 0, seeds=[rec["seed"]] * 30, race=rec.get("race", False))
        _, hangs = hist_rows(rows)
        print(json.dumps({"history_seed": rec["seed"], "expected": "every operation returns",
                          "observed": hang_text(hangs[0]) if hangs else "terminated in 30 runs"}, indent=1))
        return 1 if hangs else 0
    if kind in ("race", "panic"):
        rc, out, rows, _ = record_hists(ctx, rec.get("n", 60), race=True)
        reps = race_reports(out)
        hit = (rec.get("key") in reps) if kind == "race" else (rc != 0 and crashed(out))
        print(json.dumps({"expected": "no data race, no panic", "observed": sorted(reps) or ("panic" if hit else "none")}, indent=1))
        return 1 if hit else 0
    raise vlib.Inconclusive("unknown replay record kind %r" % kind)
