SPECIFICATION TableSpec
CONSTANTS
  TTL = 2
  WithClient = FALSE
  MCQtypes = {"A"}
