"""C04 -- requests map to one persistent client by fixed precedence; registry consistent.

Direction A: specs/Clients.tla is explored by TLC over three finite universes
(all histories).  In every distinct state TLC prints the lookup tables of the
state and all its labelled outgoing edges; this module computes edge-covering
tours and internal/client's harness walks them through a real client.Storage
behind a real filtering.DNSFilter, comparing the full lookup table after every
step.  quick: the edges of a seeded fifth of the states; thorough: every edge.

Direction B: a seeded random driver records histories over a larger universe;
specs/TraceClients.tla validates them.
"""
import json
import os
import random
import re
import threading
from array import array

import vlib

PKG = "internal/client"
FILES = ["zz_verif_common_test.go", "zz_verif_c04_test.go"]
UNIVERSES = ["net", "kinds", "set", "zone", "misc"]
CHUNK = 4000            # steps per tour segment (bounds the history needed to reproduce)
_line_re = re.compile(r'^<<"@@([SU])", "(.*)">>$')


# Spellings.  Every tour segment and every trace history registers identifiers
# under seeded legal spellings (letter case of ClientIDs/macs, host bits of
# prefixes, the same identifier twice in one list, 8-byte macs with colons or
# dashes); lookups use the canonical spelling.  The two defects these spellings
# found (known_findings/C04.jsonl, fixed in /repo by 8d8600b and 17101da) used
# to be confined to a few dedicated probe segments; since the fixes the
# spellings are part of every segment.


# Findings of the audit of the property (known_findings/C04.jsonl).
#
# Soft lookups ("alt"): the harness repeats lookups with another legal spelling
# of the argument; a wrong answer there does not put the registry out of step,
# so the tour goes on and the disagreement is reported separately.  Each alt
# kind has a narrow predicate on the record; anything else is unclassified.
ALT_KEYS = {
    "nettext": ("find-by-cidr-text-finds-nothing", lambda r: r["got"] == 0 and r["want"] > 0),
    "cidcase": ("clientid-lookup-is-case-sensitive",
                lambda r: r["got"] == (r["absent"] if r["call"].startswith("Apply") else 0)),
    "mapped": ("ipv4-mapped-address-is-a-different-identity", lambda r: r["got"] == 0),
    "mac8colon": ("eui64-mac-text-looked-up-as-ip",
                  lambda r: r["variant"]["maclen"] == 8 and r["got"] > 0 and r["got"] != r["want"]),
    # the same lookup, other direction: nobody registered the mac, the text read as an address
    # lies in a registered ::/0, and the lookup stops at the mac reading
    "mac8colon#none": ("mac-shaped-ipv6-text-not-looked-up-as-address",
                       lambda r: r["variant"]["maclen"] == 8 and r["got"] == 0 and r["want"] > 0),
    # FindLoose (query log / statistics) against the precedence of the filtering: the harness marks
    # the two shapes of the finding (a mac-like ClientID taken for that mac; the answer of the strict
    # lookup of the zone-less address instead of the exact address in another zone)
    "loose": ("findloose-precedence-differs-from-filtering",
              lambda r: r["shape"] == "asfinding" and r["got"] not in r["admits"]),
    "mappednet": ("find-by-mapped-cidr-text-finds-nothing", lambda r: r["got"] == 0 and r["want"] > 0),
    # a zoned address whose exact owner is the identifier written without a zone: the answer is the
    # one without that rule (absent = that answer, printed by TLC: ByAddrZoneStrict)
    "zonefall": ("zoned-source-misses-zoneless-exact-identifier", lambda r: r["got"] == r["absent"] and r["got"] != r["want"]),
}
# Hard flags: concretisations that change what is REGISTERED or leased, so a
# defect they expose ends the tour.  While the finding is open they are
# confined to a few probe segments, and a disagreement there gets the key only
# if the very same segment agrees with the spec with the flag off (control
# run); once the finding is marked fixed they are part of every segment and
# history.
HARD_FLAGS = {
    "mapstore": ("ipv4-mapped-address-is-a-different-identity", ("net", "kinds", "set")),
    "oddlease": ("lease-mac-odd-length-panics", ("misc",)),
    # IPv6 base whose address texts are also well-formed EUI-64s (aa:bb:cc:dd:ee:ff:11:5b)
    "macish6": ("mac-shaped-ipv6-text-not-looked-up-as-address", ("net", "kinds", "set", "misc")),
}
PROBE_SEGMENTS = 4


def finding_fixed(key):
    kf = vlib.known_findings().get(("C04", key))
    return bool(kf and kf.get("status") == "fixed")


def mainstream_flags():
    return sorted(f for f, (key, _u) in HARD_FLAGS.items() if finding_fixed(key))


def classify(rec):
    """Narrow keys of known findings for tour / settings records (the probes and
    the soft lookups are classified where they are produced)."""
    return None


def classify_trace_lookup(q):
    """Key for a failing lookup of a trace line, or None."""
    alt = q.get("alt") or ""
    if alt not in ALT_KEYS:
        return None
    if alt in ("nettext", "mapped", "mappednet") and q.get("t") == "find" and q.get("r") != "":
        return None
    return ALT_KEYS[alt][0]


# ------------------------------------------------------------------ TLC side
def _unescape(s):
    try:
        return json.loads(json.loads('"' + s + '"'))
    except Exception:
        return json.loads(s.replace('\\"', '"').replace("\\\\", "\\"))


class Graph:
    """The labelled state graph TLC printed for one universe."""

    def __init__(self, name):
        self.name = name
        self.uni = None
        self.keys = []          # state index -> key tuple
        self.index = {}         # key tuple -> state index
        self.tables = []        # state index -> {"fi","fa","ap"}
        self.sampled = []       # state index -> edges printed?
        self.raw_edges = []     # state index -> list of raw edges (dst as key) until resolve()
        self.edges = []         # state index -> array('i') of 7-int edges (dst as index)
        self.nedges = 0

    def add_state(self, rec):
        k = tuple(rec["k"])
        i = len(self.keys)
        self.index[k] = i
        self.keys.append(k)
        self.tables.append({"fi": rec["fi"], "fa": rec["fa"], "ap": rec["ap"], "lo": rec["lo"], "fx": rec["fx"],
                            "zi": rec["zi"], "za": rec["za"], "zp": rec["zp"]})
        self.sampled.append(bool(rec["s"]))
        self.raw_edges.append(rec["e"])

    def resolve(self):
        for raw in self.raw_edges:
            arr = array("i")
            for e in raw:
                arr.extend(e[:6])
                arr.append(self.index[tuple(e[6])])
            self.edges.append(arr)
            self.nedges += len(raw)
        self.raw_edges = None


def generate(ctx, uni, sample_mod, out):
    """Run TLC on one universe; out[uni] = Graph or an exception."""
    try:
        cfg = open(os.path.join(vlib.SPECS, "Clients.%s.cfg" % uni)).read()
        cfg = cfg.replace("SampleMod = 1", "SampleMod = %d" % sample_mod)
        cfg = cfg.replace("SampleSeed = 0", "SampleSeed = %d" % (ctx.seed % 1000))
        p = ctx.path("Clients.%s.run.cfg" % uni)
        with open(p, "w") as fh:
            fh.write(cfg)
        r = ctx.tlc("Clients", "Clients.%s.cfg" % uni, workers=4 if ctx.quick else 5, timeout=900,
                    extra_files=[(p, "run.cfg")], heap="4g")
        r.pop("out", None)
        g = Graph(uni)
        with open(os.path.join(r["dir"], "tlc.out"), errors="replace") as fh:
            for line in fh:
                m = _line_re.match(line.rstrip("\n"))
                if not m:
                    continue
                rec = _unescape(m.group(2))
                if m.group(1) == "U":
                    g.uni = rec
                else:
                    g.add_state(rec)
        os.remove(os.path.join(r["dir"], "tlc.out"))
        if g.uni is None or not g.keys:
            raise vlib.Inconclusive("TLC printed no states for universe %s" % uni)
        g.resolve()
        if len(g.keys) != r["distinct"]:
            raise vlib.Inconclusive("universe %s: %d state records but TLC found %d distinct states" % (
                uni, len(g.keys), r["distinct"]))
        # Every transition TLC generated is a printed edge (plus Observe's self-loop per state, plus Init).
        if sample_mod == 1 and r["generated"] != 1 + len(g.keys) + g.nedges:
            raise vlib.Inconclusive("universe %s: %d edges printed but TLC generated %d transitions" % (
                uni, g.nedges, r["generated"] - 1 - len(g.keys)))
        out[uni] = g
    except BaseException as e:  # noqa: B902 - re-raised by the caller
        out[uni] = e


def tours(g, rng, variants):
    """Greedy edge-covering walks: keep walking from the current state along
    uncovered edges; when the current state has none left, start a new segment
    at a state that has.  Returns a list of chunks."""
    n = len(g.keys)
    left = []
    for s in range(n):
        m = len(g.edges[s]) // 7
        order = list(range(m))
        rng.shuffle(order)
        left.append(order)
    pending = [s for s in range(n) if left[s]]
    rng.shuffle(pending)
    chunks = []
    cur, steps, start = None, array("i"), None

    def flush():
        nonlocal steps
        if steps:
            chunks.append({"t": "c", "u": g.name, "id": len(chunks), "variant": variants(len(chunks)),
                           "start": start, "steps": steps})
        steps = array("i")

    while True:
        if cur is None or not left[cur] or len(steps) >= 7 * CHUNK:
            if cur is not None and left[cur] and len(steps) >= 7 * CHUNK:
                nxt = cur           # segment boundary only: continue from the same state
            else:
                while pending and not left[pending[-1]]:
                    pending.pop()
                if not pending:
                    break
                nxt = pending[-1]
            flush()
            cur, start = nxt, nxt
        i = left[cur].pop()
        e = g.edges[cur][7 * i:7 * i + 7]
        steps.extend(e)
        cur = e[6]
    flush()
    return chunks


def nsteps(c):
    return len(c["steps"]) // 7


def step_list(c, upto=None):
    a = c["steps"]
    n = len(a) // 7 if upto is None else upto
    return [list(a[7 * i:7 * i + 7]) for i in range(n)]


def make_variants(seed, uni):
    on = mainstream_flags()

    def v(i):
        r = random.Random("%d/%s/%d" % (seed, uni, i))
        return {"maclen": [6, 8, 20][i % 3], "v6": i % 4 == 3 or uni == "zone", "seed": r.randrange(1 << 40),
                "names": r.randrange(3), "global": r.randrange(16), "w": 4, "maccolon8": r.randrange(2) == 1,
                "mapstore": "mapstore" in on, "oddlease": "oddlease" in on,
                "macish6": "macish6" in on and uni != "zone" and i % 8 == 3}
    return v


def write_input(path, graphs, chunks):
    with open(path, "w") as fh:
        for g in graphs:
            u = dict(g.uni)
            u.update({"t": "u", "u": g.name})
            fh.write(json.dumps(u) + "\n")
            for i, k in enumerate(g.keys):
                t = g.tables[i]
                fh.write(json.dumps({"t": "s", "u": g.name, "i": i, "k": list(k), "fi": t["fi"], "fa": t["fa"],
                                     "ap": t["ap"], "lo": t["lo"], "fx": t["fx"], "zi": t["zi"], "za": t["za"], "zp": t["zp"]}, separators=(",", ":")) + "\n")
        for c in chunks:
            d = dict(c)
            if isinstance(d["steps"], array):
                d["steps"] = step_list(c)
            fh.write(json.dumps(d, separators=(",", ":")) + "\n")


def run_replay(ctx, graphs, chunks, tag, soft_cap=6):
    vin, vout = ctx.path("c04_in_%s.ndjson" % tag), ctx.path("c04_out_%s.ndjson" % tag)
    write_input(vin, graphs, chunks)
    rc, out = ctx.go_test(PKG, FILES, "^TestZZVerifC04Replay$", env={"VERIF_IN": vin, "VERIF_OUT": vout,
                                                                      "VERIF_WORKERS": "5", "VERIF_SOFT_CAP": str(soft_cap)})
    rows = vlib.read_ndjson(vout)
    summ = [r for r in rows if r.get("t") == "summary"]
    if rc != 0 or not summ:
        raise vlib.Inconclusive("C04 replay harness did not complete:\n" + out[-3000:])
    os.remove(vin)
    summ[0]["_soft"] = [r for r in rows if r.get("t") == "soft"]
    return [r for r in rows if r.get("t") == "bad"], summ[0]


def reproduce(ctx, gmap, bads, tag):
    """Re-run disagreements in isolation (a second time, each from a fresh
    Storage): first only the offending step from a freshly built source state,
    then -- for those that did not show that way -- the recorded prefix of the
    tour.  Returns a list parallel to bads: the replay record or None."""
    graphs = [gmap[u] for u in sorted({b["u"] for b in bads})]
    recs = [None] * len(bads)

    def attempt(kind):
        cs, who = [], []
        for i, b in enumerate(bads):
            if recs[i] is not None:
                continue
            if kind == "step":
                if b["step"] < 0:
                    continue
                c = {"start": b["src"], "steps": [b["edge"]]}
            else:
                c = {"start": b["start"], "steps": step_list(b["_chunk"], b["step"] + 1)}
            c.update({"t": "c", "u": b["u"], "id": len(cs), "variant": b["variant"]})
            cs.append(c)
            who.append(i)
        if not cs:
            return
        again, _ = run_replay(ctx, graphs, cs, "%s_%s" % (tag, kind))
        for a in again:
            c, i = cs[a["chunk"]], who[a["chunk"]]
            if a["step"] == len(c["steps"]) - 1 and a["what"] == bads[i]["what"]:
                g = gmap[c["u"]]
                rec = dict(a)
                # state indices depend on TLC's output order: store keys
                rec["chunk_keys"] = {"u": c["u"], "variant": c["variant"], "start": list(g.keys[c["start"]]),
                                     "steps": [e[:6] + [list(g.keys[e[6]])] for e in c["steps"]]}
                rec["seed"] = ctx.seed
                rec["_chunk_input"] = c
                recs[i] = rec

    attempt("step")
    attempt("prefix")
    return recs


# ------------------------------------------------------- settings decision table
def settings_vectors(ctx):
    """specs/ClientSettings.tla: every (global value x own value x opt-out switch)
    combination of the five settings, times the state of the two
    blocked-services schedules, replayed into the real code.  Returns
    (number of vectors, reproduced bad rows)."""
    r = ctx.tlc("ClientSettings", "ClientSettings.cfg", workers=2, timeout=300, heap="2g")
    vectors = r["vectors"]
    # global vals x own vals x own x bs x global svcs x own svcs x global schedule x own schedule
    if len(vectors) != 16 * 16 * 2 * 2 * 2 * 3 * 2 * 3:
        raise vlib.Inconclusive("ClientSettings printed %d vectors" % len(vectors))

    def go(vs, tag):
        vin, vout = ctx.path("c04_set_in_%s.ndjson" % tag), ctx.path("c04_set_out_%s.ndjson" % tag)
        vlib.write_ndjson(vin, vs)
        rc, out = ctx.go_test(PKG, FILES, "^TestZZVerifC04Settings$", env={"VERIF_IN": vin, "VERIF_OUT": vout})
        rows = vlib.read_ndjson(vout)
        summ = [x for x in rows if x.get("t") == "summary"]
        if rc != 0 or not summ or summ[0]["n"] != len(vs):
            raise vlib.Inconclusive("C04 settings harness did not complete:\n" + out[-3000:])
        return [x for x in rows if x.get("t") == "bad"]

    bad = go(vectors, "all")
    if not bad:
        return vectors, []
    # a second time, only the offending vectors, each in a fresh storage
    sig = lambda b: json.dumps([b["vec"], b["req"]], sort_keys=True)
    again = {sig(b): b for b in go([b["vec"] for b in bad[:40]], "again")}
    rep = [again[sig(b)] for b in bad[:40] if sig(b) in again]
    if len(rep) < len(bad[:40]):
        raise vlib.Inconclusive("%d settings disagreement(s) did not reproduce" % (len(bad[:40]) - len(rep)))
    return vectors, rep


# ---------------------------------------------------------------- direction B
def trace_validate(ctx, env=None, tag="b"):
    tout = ctx.path("c04_trace_%s.ndjson" % tag)
    rc, out = ctx.go_test(PKG, FILES, "^TestZZVerifC04Trace$", env=dict(
        {"VERIF_OUT": tout, "VERIF_C04_FLAGS": ",".join(mainstream_flags())}, **(env or {})))
    rows = vlib.read_ndjson(tout)
    if rc != 0 or not rows:
        raise vlib.Inconclusive("C04 trace driver did not complete:\n" + out[-3000:])
    r = ctx.tlc("TraceClients", "TraceClients.cfg", workers=1, extra_files=[(tout, "trace.ndjson")], timeout=900,
                heap="4g")
    if not r["vectors"]:
        raise vlib.Inconclusive("trace spec produced no verdict")
    verdict = r["vectors"][-1]
    if verdict["n"] != len(rows):
        raise vlib.Inconclusive("trace spec consumed %s of %d lines" % (verdict["n"], len(rows)))
    # bad: pairs [line, lookup index] (index 0 = the reply of the operation)
    return rows, sorted(tuple(b) for b in verdict["bad"]), verdict["skipped"]


def describe_line(rec):
    return "%s => %s" % (rec.get("conc"), rec.get("out"))


# ----------------------------------------------------------------------- run
def vacuity(ctx):
    r = ctx.tlc("Clients", "Clients.cov.cfg", workers=2, coverage=True, timeout=600, heap="2g")
    taken = {m.group(1): int(m.group(3)) for m in re.finditer(
        r"^<(\w+) line \d+, col \d+ to line \d+, col \d+ of module Clients[^>]*>: (\d+):(\d+)", r["out"], re.M)}
    for act in ("Add", "Update", "Remove", "LeaseChange", "LoadConfig"):
        if taken.get(act, 0) == 0:
            raise vlib.Inconclusive("vacuous: action %s never taken in Clients.cov.cfg (%s)" % (act, taken))
    return taken


def run(ctx):
    rng = random.Random(ctx.seed)
    taken = vacuity(ctx)

    # --- direction A: generate (three TLC processes side by side)
    sample_mod = 5 if ctx.quick else 1
    res = {}
    ths = [threading.Thread(target=generate, args=(ctx, u, sample_mod, res)) for u in UNIVERSES]
    for t in ths:
        t.start()
    for t in ths:
        t.join()
    for u in UNIVERSES:
        if isinstance(res.get(u), BaseException):
            raise res[u]
    graphs = [res[u] for u in UNIVERSES]
    gmap = {g.name: g for g in graphs}

    chunks, by_kind, nontrivial = [], {}, 0
    for g in graphs:
        cs = tours(g, rng, make_variants(ctx.seed, g.name))
        for c in cs:
            c["id"] = len(chunks)
            chunks.append(c)
            cur = c["start"]
            a = c["steps"]
            for j in range(0, len(a), 7):
                e = a[j:j + 7]
                by_kind[(e[0], e[5])] = by_kind.get((e[0], e[5]), 0) + 1
                # non-trivial: changes the registry, or is refused because of a clash
                present = e[0] in (1, 5) or (e[0] == 2 and g.keys[cur][e[1] - 1] != 0)
                if (e[5] == 0 and e[6] != cur) or (e[5] == 1 and present):
                    nontrivial += 1
                cur = e[6]
    total_steps = sum(nsteps(c) for c in chunks)
    ctx.log("tours: %d segments, %d steps over %d states" % (len(chunks), total_steps, sum(len(g.keys) for g in graphs)))
    for want in ((1, 0), (1, 1), (2, 0), (2, 1), (3, 0), (3, 1), (4, 0), (5, 0), (5, 1)):
        if by_kind.get(want, 0) == 0:
            raise vlib.Inconclusive("vacuous: no edge with (op, reply) = %s in the tours" % (want,))
    if not ctx.quick and total_steps != sum(g.nedges for g in graphs):
        raise vlib.Inconclusive("tours cover %d of %d edges" % (total_steps, sum(g.nedges for g in graphs)))

    bads, summ = run_replay(ctx, graphs, chunks, "a")
    if summ["chunks"] != len(chunks) or (not bads and summ["steps"] != total_steps):
        raise vlib.Inconclusive("replay harness ran %d of %d steps" % (summ["steps"], total_steps))
    truncated = 0
    flaky = 0
    cmap = {c["id"]: c for c in chunks}
    bads = bads[:12]
    for b in bads:
        b["_chunk"] = cmap[b["chunk"]]
        truncated += nsteps(b["_chunk"]) - (b["step"] + 1)
    for b, rec in zip(bads, reproduce(ctx, gmap, bads, "repro") if bads else []):
        if rec is None:
            flaky += 1
            continue
        rec.pop("_chunk_input")
        ctx.disagreement(classify(rec), rec, "%s: %s after %s" % (b["u"], rec["what"], rec["concrete"]))
    if flaky:
        raise vlib.Inconclusive("%d disagreement(s) did not reproduce in isolation" % flaky)

    # --- soft lookups (alternative spellings): reproduce from a freshly built state, classify
    softs = summ["_soft"]
    soft_counts = summ.get("soft") or {}
    if softs:
        minis, who = [], []
        for i, sb in enumerate(softs):
            minis.append({"t": "c", "u": sb["u"], "id": len(minis), "variant": sb["variant"], "start": sb["state"], "steps": []})
            who.append(i)
        sg = [gmap[u] for u in sorted({sb["u"] for sb in softs})]
        _, ssumm = run_replay(ctx, sg, minis, "soft_repro", soft_cap=100000)
        seen = {(r["chunk"], r["alt"], r["what"]) for r in ssumm["_soft"]}
        for k, sb in enumerate(softs):
            if (k, sb["alt"], sb["what"]) not in seen:
                raise vlib.Inconclusive("a soft lookup disagreement did not reproduce: %s" % sb["what"])
            key = None
            for name, (k2, pred) in ALT_KEYS.items():
                if name.split("#")[0] == sb["alt"] and pred(sb):
                    key = k2
            rec = dict(sb)
            rec["seed"] = ctx.seed
            rec["chunk_keys"] = {"u": sb["u"], "variant": sb["variant"], "start": list(gmap[sb["u"]].keys[sb["state"]]), "steps": []}
            ctx.disagreement(key, rec, "%s: lookup under another spelling (%s): %s in state %s" % (
                sb["u"], sb["alt"], sb["what"], list(gmap[sb["u"]].keys[sb["state"]])))

    # --- probe segments for the hard flags of open findings (see HARD_FLAGS)
    probe_chunks = []
    for flag, (key, unis) in sorted(HARD_FLAGS.items()):
        if finding_fixed(key):
            continue

        def relevant(c):
            if c["u"] not in unis:
                return False
            if flag == "oddlease":
                # a <<"macx">> lease in effect in the start state, or given out on the way
                a = c["steps"]
                nn = len(gmap[c["u"]].uni["names"])
                return 7 in gmap[c["u"]].keys[c["start"]][nn:] or any(
                    a[j] == 4 and a[j + 2] == 7 for j in range(0, len(a) - 7, 7))
            return nsteps(c) >= 2

        cand = [c for c in chunks if relevant(c)]
        rng.shuffle(cand)
        for c in cand[:PROBE_SEGMENTS]:
            pc = dict(c)
            pc["variant"] = dict(c["variant"])
            pc["variant"][flag] = True
            if flag == "mapstore":
                pc["variant"]["v6"] = False
            if flag == "macish6":
                pc["variant"]["v6"] = True
            pc["id"] = len(probe_chunks)
            pc["_flag"] = flag
            probe_chunks.append(pc)
    probe_hits = 0
    if probe_chunks:
        pbads, _ = run_replay(ctx, graphs, [{k: v for k, v in c.items() if k != "_flag"} for c in probe_chunks], "probe")
        probe_hits = len(pbads)
        for b in pbads:
            b["_chunk"] = probe_chunks[b["chunk"]]
            truncated += nsteps(b["_chunk"]) - (b["step"] + 1)
        precs = reproduce(ctx, gmap, pbads, "probe_repro") if pbads else []
        if any(r is None for r in precs):
            raise vlib.Inconclusive("a probe disagreement did not reproduce in isolation")
        # control: the same segments with the flag off must agree with the spec
        ctl = []
        for i, (b, rec) in enumerate(zip(pbads, precs)):
            c = dict(rec["_chunk_input"])
            c["variant"] = dict(c["variant"])
            c["variant"][b["_chunk"]["_flag"]] = False
            c["id"] = i
            ctl.append(c)
        failed = set()
        if ctl:
            cbads, _ = run_replay(ctx, [gmap[u] for u in sorted({c["u"] for c in ctl})], ctl, "probe_control")
            failed = {x["chunk"] for x in cbads}
        for i, (b, rec) in enumerate(zip(pbads, precs)):
            flag = b["_chunk"]["_flag"]
            rec.pop("_chunk_input")
            ctx.disagreement(None if i in failed else HARD_FLAGS[flag][0], rec, "%s (%s): %s after %s" % (
                b["u"], flag, rec["what"], rec["concrete"]))

    # --- settings decision table (pure vectors)
    svecs, sbad = settings_vectors(ctx)
    for b in sbad[:8]:
        b["kind"] = "settings"
        ctx.disagreement(classify(b), b, "settings: %s for the %s request; %s" % (b["what"], b["req"], b["concrete"]))

    # --- direction B
    trows, tbad, tskipped = trace_validate(ctx)
    ntraces = sum(1 for r in trows if r["op"] == "reset")
    tlines = sorted({l for l, _i in tbad})
    first_of = {}
    for k, r in enumerate(trows):
        first_of.setdefault(r["trace"], k)
    # classify every failing entry; reproduce the unclassified ones first, and one example per key
    entries = []
    for l, i in tbad:
        rec = trows[l - 1]
        key = classify_trace_lookup(rec["q"][i - 1]) if i > 0 else None
        entries.append((key is not None, key, l, i))
    entries.sort()
    todo, keys_seen = [], set()
    for _c, key, l, i in entries:
        if key is None and len(todo) < 8:
            todo.append((key, l, i))
        elif key is not None and key not in keys_seen:
            keys_seen.add(key)
            todo.append((key, l, i))
    reruns = {}
    for key, l, i in todo:
        rec = trows[l - 1]
        tr = rec["trace"]
        if tr not in reruns:
            # record the same history again (same seed), alone, and validate it again
            reruns[tr] = trace_validate(ctx, env={"VERIF_TRACE_ONLY": str(tr)}, tag="r%d" % tr)
        rows2, bad2, _ = reruns[tr]
        first = first_of[tr]
        if (l - first, i) in bad2 and rows2[l - first - 1].get("conc") == rec.get("conc"):
            rec = dict(rec)
            rec["seed"] = ctx.seed
            rec["failing_lookup"] = rec["q"][i - 1] if i > 0 else "reply"
            rec["history"] = [describe_line(r) for r in trows[first:l - 1]][-40:]
            ctx.disagreement(key, rec, "trace %d line %d rejected by TraceClients (%s): %s" % (
                tr, l - first, ("lookup %s" % json.dumps(rec["failing_lookup"])[:300]) if i > 0 else "reply", describe_line(rec)))
        else:
            raise vlib.Inconclusive("rejected trace line %d did not reproduce" % l)

    sample_chunk = chunks[len(chunks) // 2]
    samples = [
        {"universe": sample_chunk["u"], "variant": sample_chunk["variant"], "start_key": list(gmap[sample_chunk["u"]].keys[sample_chunk["start"]]),
         "steps[:5] = [op,a,b,idmask,flags,reply,dst]": step_list(sample_chunk, min(5, nsteps(sample_chunk)))},
        {"state_table": dict(gmap["set"].tables[len(gmap["set"].keys) // 2], k=list(gmap["set"].keys[len(gmap["set"].keys) // 2]))},
        {"trace_line": {k: trows[3].get(k) for k in ("op", "c", "n", "out", "conc")}, "lookups": trows[3]["q"][:3]},
    ]
    cov = {
        "traces_validated_against_impl": len(chunks) + ntraces,
        "tour_segments": len(chunks), "edges_replayed": summ["steps"],
        "settings_vectors_replayed": len(svecs), "settings_vectors_disagreeing": len(sbad),
        "edges_in_universe": sum(g.nedges for g in graphs) if not ctx.quick else None,
        "states_in_universes": {g.name: len(g.keys) for g in graphs},
        "edges_by_op_reply": {"%d/%d" % k: v for k, v in sorted(by_kind.items())},
        "evaluations": summ["lookups"] + 3 * len(svecs) + sum(len(r["q"]) for r in trows),
        "distinct_nontrivial": nontrivial,
        "rule": "one evaluation = one lookup (Find / FindByName / RangeByName / effective settings) compared with the spec; "
                "distinct_nontrivial = distinct labelled edges (state, operation, arguments) replayed that change the registry "
                "or are refused because of a name/identifier clash (refusals for an unknown name are trivial)",
        "trace_histories": ntraces, "trace_lines": len(trows), "trace_lines_rejected": len(tlines),
        "trace_lookups_rejected": len(tbad),
        "soft_lookup_disagreements": soft_counts, "probe_segments": len(probe_chunks), "probe_disagreements": probe_hits,
        "mainstream_flags": mainstream_flags(),
        "trace_lines_skipped": tskipped,
        "truncated_by_known_finding": truncated,
        "coverage_actions_cov_cfg": taken,
        "exhaustive": not ctx.quick, "samples": samples,
    }
    return ctx.finish("model_checking", cov, assumptions=[
        "TLC; conc()/abs() of zz_verif_c04_test.go (address embedding under 192.168.7.0/24 or fd00::7:0/120, mac bytes, names)",
        "a client's own values are the complement of the global ones in direction A (random in direction B)",
        "single goroutine per Storage (concurrency is C05)"])


def settings_vectors_one(ctx, vec):
    vin, vout = ctx.path("c04_set_in_replay.ndjson"), ctx.path("c04_set_out_replay.ndjson")
    vlib.write_ndjson(vin, [vec])
    rc, out = ctx.go_test(PKG, FILES, "^TestZZVerifC04Settings$", env={"VERIF_IN": vin, "VERIF_OUT": vout})
    rows = vlib.read_ndjson(vout)
    if rc != 0 or not [x for x in rows if x.get("t") == "summary"]:
        raise vlib.Inconclusive("C04 settings harness did not complete:\n" + out[-3000:])
    return rows, [x for x in rows if x.get("t") == "bad"]


def replay(ctx, path):
    rec = json.load(open(path))["record"]
    ctx.seed = rec.get("seed", ctx.seed)
    if rec.get("kind") == "settings":
        _, bad = settings_vectors_one(ctx, rec["vec"])
        print(json.dumps({"vector": rec["vec"], "expected": rec["vec"][rec["req"]],
                          "observed": [b["got"] for b in bad] or "agrees with the spec"}, indent=1))
        return 1 if bad else 0
    if "chunk_keys" in rec:
        ck = rec["chunk_keys"]
        res = {}
        generate(ctx, ck["u"], 1000, res)      # the tables of all states; no edges needed
        g = res[ck["u"]]
        if isinstance(g, BaseException):
            raise g
        c = {"t": "c", "u": ck["u"], "id": 0, "variant": ck["variant"], "start": g.index[tuple(ck["start"])],
             "steps": [e[:6] + [g.index[tuple(e[6])]] for e in ck["steps"]]}
        bads, summ = run_replay(ctx, [g], [c], "replay", soft_cap=100000)
        if rec.get("t") == "soft":      # a lookup under another spelling, in the state just built
            bads = [x for x in summ["_soft"] if x["alt"] == rec["alt"] and x["call"] == rec["call"]]
        print(json.dumps({"steps": rec.get("history") or rec.get("call"), "expected": rec.get("want"),
                          "observed": bads[0] if bads else "agrees with the spec"}, indent=1, default=str)[:6000])
        return 1 if bads else 0
    rows, bad, _ = trace_validate(ctx, env={"VERIF_TRACE_ONLY": str(rec["trace"])}, tag="replay")
    hit = [rows[l - 1] for l in sorted({l for l, _i in bad})]
    print(json.dumps({"expected": "every line accepted by TraceClients.tla",
                      "observed": [describe_line(r) for r in hit] or "accepted"}, indent=1))
    return 1 if hit else 0
