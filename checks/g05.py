"""G05 -- runtime clients (WHOIS/ARP/rDNS/DHCP/hosts) and per-client upstream configurations.

Direction A: specs/RuntimeClients.tla is explored by TLC over four finite
universes (all histories).  In every distinct state TLC prints the state's key,
its observation tables and all labelled outgoing transitions; this module plans
edge-covering tours -- every tour starts at the INITIAL state with a fresh
client.Storage and reaches its first new edge along a shortest known path --
and internal/client's harness walks them, comparing the reply and the observed
real state after every step.  thorough: every replayable edge; quick: a seeded
fraction.

Direction B: a seeded random driver records histories over a larger universe
(also through the real ticker and the hosts goroutine);
specs/TraceRuntimeClients.tla validates them (subset construction over the
spec's nondeterminism).
"""
import json
import os
import random
import re
import threading
from array import array
from collections import deque

import vlib

PKG = "internal/client"
FILES = ["zz_verif_common_test.go", "zz_verif_g05_test.go"]
# cfg per universe: the quick tier replays every edge of smaller universes
UNIVERSES = {"thorough": {"src": "src", "dhcp": "dhcp", "pers": "pers", "ups": "ups"},
             "quick": {"src": "srcq", "dhcp": "dhcpq", "pers": "pers", "ups": "upsq"}}
OPS = ["upd", "arp", "hosts", "lease", "list", "look", "who", "add", "updc", "rem", "common", "cust"]
CHUNK = 1500            # steps per tour (bounds the history needed to reproduce)
_line_re = re.compile(r'^<<"@@([SU])", "(.*)">>$')

K_MAC = "custom-upstreams-ignore-lease-mac"
K_REBUILT = "custom-upstream-config-rebuilt-on-every-lookup"


def open_findings():
    return {k[1] for k, v in vlib.known_findings().items() if k[0] == "G05" and v.get("status") == "open"}


def classify(b):
    """Narrow keys of the known findings (replay direction)."""
    if b.get("kind") == "cust-nil" and b.get("via") == "mac" and not b.get("soft"):
        return K_MAC
    if b.get("kind") == "cust-new" and b.get("soft") and b.get("pre") and (b.get("want") or {}).get("fresh") == ["same"]:
        return K_REBUILT
    return None


# ------------------------------------------------------------------ TLC side
def _unescape(s):
    try:
        return json.loads(json.loads('"' + s + '"'))
    except Exception:
        return json.loads(s.replace('\\"', '"').replace("\\\\", "\\"))


def _canon(k):
    return json.dumps(k, sort_keys=True, separators=(",", ":"))


def _views(vs):
    return sorted([list(v) for v in vs])


class Graph:
    """The labelled state graph TLC printed for one universe."""

    def __init__(self, name):
        self.name = name
        self.uni = None
        self.index = {}          # canonical key -> state index
        self.keys = []           # state index -> key (dict)
        self.recs = []           # state index -> harness state record (dict) or None
        self.init = None
        # edges, all in parallel arrays
        self.src = array("i")
        self.dst = array("i")
        self.op = array("b")     # index into OPS
        self.flags = array("b")  # 1 = nd (not replayable), 2 = resolved through the lease MAC with a configuration
        self.step = []           # the step as the harness reads it (JSON text, with "d")
        self.out_edges = []      # state index -> array of edge ids
        self.tags = []           # per edge: a small tag for the vacuity statistics

    def idx(self, key):
        c = _canon(key)
        i = self.index.get(c)
        if i is None:
            i = len(self.keys)
            self.index[c] = i
            self.keys.append(key)
            self.recs.append(None)
            self.out_edges.append(array("i"))
        return i

    def add_state(self, rec):
        k = rec["k"]
        i = self.idx(k)
        self.recs[i] = {"t": "s", "u": self.name, "i": i, "r": k["r"], "c": [{"m": c[0], "k": c[1]} for c in k["c"]],
                        "v": rec["v"], "f": rec["f"]}
        if all(r == ["-"] * 5 for r in k["r"]) and all(l == [0, "-"] for l in k["l"]) and all(c[0] == 0 for c in k["c"]):
            self.init = i
            self.recs[i]["init"] = True
        for opi, op in enumerate(OPS):
            for e in rec["e"][op]:
                d = self.idx(e["dst"])
                a, out = e["a"], e["out"]
                st = {"op": op, "d": d}
                tag = op
                fl = 1 if e["nd"] else 0
                if op == "upd":
                    st.update(x=a[0], h=a[1], w=a[2])
                elif op in ("arp", "hosts"):
                    st.update(T=list(a))
                elif op == "lease":
                    st.update(x=a[0], m=a[1], h=a[2])
                elif op == "list":
                    st.update(views=[list(v) for v in out])
                elif op == "look":
                    st.update(x=a[0], views=_views(out))
                    tag = "look/%d" % len(out)
                elif op == "who":
                    st.update(x=a[0], p=out["p"], views=_views(out["v"]))
                    tag = "who/" + ("persistent" if out["p"] else "runtime")
                elif op == "add":
                    st.update(n=a[0], m=a[1], k=a[2], r=out)
                    tag = "add/%d" % out
                elif op == "updc":
                    st.update(o=a[0], n=a[1], m=a[2], k=a[3], r=out)
                    tag = "updc/%d" % out
                elif op == "rem":
                    st.update(n=a[0], r=out)
                    tag = "rem/%d" % out
                elif op == "cust":
                    st.update(c=a[0], x=a[1], who=out["who"], ups=list(out["ups"]), ce=out["ce"],
                              fresh=sorted(out["fresh"]), via=out["via"])
                    tag = "cust/" + ("nil" if not out["who"] else "+".join(sorted(out["fresh"]))) + "/" + out["via"]
                    if out["who"] and out["via"] == "mac":
                        fl |= 2
                eid = len(self.step)
                self.src.append(i)
                self.dst.append(d)
                self.op.append(opi)
                self.flags.append(fl)
                self.step.append(json.dumps(st, separators=(",", ":")))
                self.tags.append(tag)
                self.out_edges[i].append(eid)

    def nontrivial(self, e):
        """An edge is non-trivial if it changes the state, is a refused registry
        operation on an existing name / clashing identifier, or is a lookup."""
        return self.src[e] != self.dst[e] or OPS[self.op[e]] in ("list", "look", "who", "cust") or \
            self.tags[e] in ("add/1", "updc/1")


def generate(ctx, uni, out, cfg=None):
    """Run TLC on one universe; out[uni] = Graph or an exception."""
    try:
        r = ctx.tlc("RuntimeClients", "RuntimeClients.%s.cfg" % (cfg or uni), workers=4, timeout=600, heap="3g")
        r.pop("out", None)
        g = Graph(uni)
        with open(os.path.join(r["dir"], "tlc.out"), errors="replace") as fh:
            for line in fh:
                m = _line_re.match(line.rstrip("\n"))
                if not m:
                    continue
                rec = _unescape(m.group(2))
                if m.group(1) == "U":
                    g.uni = rec
                else:
                    g.add_state(rec)
        os.remove(os.path.join(r["dir"], "tlc.out"))
        if g.uni is None or not g.keys or g.init is None:
            raise vlib.Inconclusive("TLC printed no states / no initial state for universe %s" % uni)
        if any(x is None for x in g.recs):
            raise vlib.Inconclusive("universe %s: an edge leads to a state TLC did not print" % uni)
        if len(g.keys) != r["distinct"]:
            raise vlib.Inconclusive("universe %s: %d state records but TLC found %d distinct states" % (
                uni, len(g.keys), r["distinct"]))
        # Every transition TLC generated is a printed edge (plus Observe's self-loop per state, plus Init).
        if r["generated"] != 1 + len(g.keys) + len(g.step):
            raise vlib.Inconclusive("universe %s: %d edges printed but TLC generated %d transitions" % (
                uni, len(g.step), r["generated"] - 1 - len(g.keys)))
        out[uni] = g
    except BaseException as e:  # noqa: B902 - re-raised by the caller
        out[uni] = e


def bfs_tree(g, avoid_flags):
    """Shortest paths from the initial state along replayable edges: parent edge per state."""
    parent = [-1] * len(g.keys)
    seen = [False] * len(g.keys)
    seen[g.init] = True
    q = deque([g.init])
    while q:
        s = q.popleft()
        for e in g.out_edges[s]:
            if g.flags[e] & avoid_flags:
                continue
            d = g.dst[e]
            if not seen[d]:
                seen[d] = True
                parent[d] = e
                q.append(d)
    return parent, seen


def path_to(g, parent, s):
    p = []
    while s != g.init:
        e = parent[s]
        p.append(e)
        s = g.src[e]
    p.reverse()
    return p


def tours(g, rng, mac_final, fraction=1.0):
    """Edge-covering tours, each starting at the initial state.  Returns
    (list of edge-id lists, set of target edges, states reachable only through
    nondeterministic edges, nd edges, edges cut off by the open lease-MAC finding)."""
    _, seen_nd = bfs_tree(g, 1)
    avoid = 1 | (2 if mac_final else 0)
    parent, seen = bfs_tree(g, avoid)
    g.parent = parent
    unreachable = seen_nd.count(False)
    n = len(g.keys)
    left = [[] for _ in range(n)]
    finals = []
    nd = cut = 0
    for e in range(len(g.step)):
        if g.flags[e] & 1:
            nd += 1
            continue
        if not seen[g.src[e]]:
            cut += 1 if seen_nd[g.src[e]] else 0
            continue
        if fraction < 1.0 and rng.random() >= fraction:
            continue
        if mac_final and g.flags[e] & 2:
            finals.append(e)
        else:
            left[g.src[e]].append(e)
    targets = set(finals)
    for x in left:
        targets.update(x)
        rng.shuffle(x)
    pending = [s for s in range(n) if left[s]]
    rng.shuffle(pending)
    # distinct replayable successors (one representative edge each), for short detours
    succ = []
    for s in range(n):
        d = {}
        for e in g.out_edges[s]:
            if not g.flags[e] & avoid and g.dst[e] != s:
                d.setdefault(g.dst[e], e)
        succ.append(list(d.items()))

    def detour(s):
        """At most two already-covered edges from s to a state that has uncovered ones."""
        for d, e in succ[s]:
            if left[d]:
                return [e]
        for d, e in succ[s]:
            for d2, e2 in succ[d]:
                if left[d2]:
                    return [e, e2]
        return None

    out = []
    cur, steps = None, None
    while True:
        if cur is not None and not left[cur] and len(steps) < CHUNK:
            dt = detour(cur)
            if dt:
                steps.extend(dt)
                cur = g.dst[dt[-1]]
        if cur is None or not left[cur] or len(steps) >= CHUNK:
            if steps:
                out.append(steps)
            if cur is not None and left[cur]:
                nxt = cur
            else:
                while pending and not left[pending[-1]]:
                    pending.pop()
                if not pending:
                    break
                nxt = pending[-1]
            steps = path_to(g, parent, nxt)
            cur = nxt
        e = left[cur].pop()
        steps.append(e)
        cur = g.dst[e]
    for e in finals:
        out.append(path_to(g, parent, g.src[e]) + [e])
    return out, targets, unreachable, nd, cut


def make_variant(seed, uni, i):
    r = random.Random("%d/%s/%d" % (seed, uni, i))
    return {"v6": i % 4 == 3, "maclen": [6, 8, 20][i % 3], "scheme": ["", "tcp://", "tls://"][r.randrange(3)],
            "salt": r.randrange(1000), "w": 4}


def write_input(path, graphs, chunks):
    with open(path, "w") as fh:
        for g in graphs:
            u = dict(g.uni)
            u.update({"t": "u", "u": g.name})
            u.pop("ops", None)
            fh.write(json.dumps(u) + "\n")
            for rec in g.recs:
                fh.write(json.dumps(rec, separators=(",", ":")) + "\n")
        for c in chunks:
            g = c["_g"]
            fh.write('{"t":"c","u":%s,"id":%d,"variant":%s,"steps":[%s]}\n' % (
                json.dumps(c["u"]), c["id"], json.dumps(c["variant"]), ",".join(g.step[e] for e in c["edges"])))


def run_replay(ctx, graphs, chunks, tag):
    vin, vout = ctx.path("g05_in_%s.ndjson" % tag), ctx.path("g05_out_%s.ndjson" % tag)
    write_input(vin, graphs, chunks)
    rc, out = ctx.go_test(PKG, FILES, "^TestZZVerifG05Replay$", env={"VERIF_IN": vin, "VERIF_OUT": vout,
                                                                      "VERIF_WORKERS": "5"})
    rows = vlib.read_ndjson(vout)
    summ = [r for r in rows if r.get("t") == "summary"]
    if rc != 0 or not summ:
        raise vlib.Inconclusive("G05 replay harness did not complete:\n" + out[-3000:])
    os.remove(vin)
    return [r for r in rows if r.get("t") == "bad"], summ[0]


def reproduce(ctx, gmap, cmap, bads, tag):
    """A second time, alone, from a fresh Storage: first the shortest known
    history that reaches the offending edge's source state followed by the
    edge; for those that do not show that way, the history of the tour up to
    and including the offending step.  Returns the replay records (None where
    the disagreement did not show again)."""
    recs = [None] * len(bads)

    def attempt(kind):
        cs, who = [], []
        for i, b in enumerate(bads):
            if recs[i] is not None:
                continue
            c = cmap[b["chunk"]]
            g = c["_g"]
            if kind == "short":
                if b["step"] < 0:
                    continue
                e = c["edges"][b["step"]]
                edges = path_to(g, g.parent, g.src[e]) + [e]
            else:
                edges = c["edges"][:b["step"] + 1]
            cs.append({"u": c["u"], "id": len(cs), "variant": c["variant"], "edges": edges, "_g": g})
            who.append(i)
        if not cs:
            return
        graphs = [gmap[u] for u in sorted({c["u"] for c in cs})]
        again, _ = run_replay(ctx, graphs, cs, "%s_%s" % (tag, kind))
        for a in again:
            c, i = cs[a["chunk"]], who[a["chunk"]]
            b = bads[i]
            if a["step"] == len(c["edges"]) - 1 and a["kind"] == b["kind"] and a["what"] == b["what"]:
                g = gmap[b["u"]]
                rec = dict(a)
                rec["seed"] = ctx.seed
                rec["universe"] = b["u"]
                rec["cfg"] = UNIVERSES[ctx.tier][b["u"]]
                rec["steps"] = [json.loads(g.step[e]) for e in c["edges"]]
                for st in rec["steps"]:
                    st["dkey"] = g.keys[st.pop("d")]
                recs[i] = rec

    attempt("short")
    attempt("prefix")
    return recs


# ---------------------------------------------------------------- direction B
def trace_validate(ctx, env=None, tag="b"):
    tout = ctx.path("g05_trace_%s.ndjson" % tag)
    rc, out = ctx.go_test(PKG, FILES, "^TestZZVerifG05Trace$", env=dict({"VERIF_OUT": tout}, **(env or {})))
    rows = vlib.read_ndjson(tout)
    if rc != 0 or not rows:
        raise vlib.Inconclusive("G05 trace driver did not complete:\n" + out[-3000:])
    r = ctx.tlc("TraceRuntimeClients", "TraceRuntimeClients.cfg", workers=1, extra_files=[(tout, "trace.ndjson")],
                timeout=600, heap="3g")
    if not r["vectors"]:
        raise vlib.Inconclusive("trace spec produced no verdict")
    verdict = r["vectors"][-1]
    if verdict["n"] != len(rows):
        raise vlib.Inconclusive("trace spec consumed %s of %d lines" % (verdict["n"], len(rows)))
    return rows, verdict["bad"], verdict["soft"], verdict["skipped"]


def binding_demo(ctx, rows, rejected):
    """One recorded history (one without rejected lines: after a rejected line
    the rest of a history is skipped) with ONE corrupted observation (the name
    a lookup reported) must be rejected by the trace spec exactly there."""
    dirty = {rows[x["l"] - 1]["trace"] for x in rejected}
    for tr in sorted({r["trace"] for r in rows} - dirty):
        hist = [dict(r) for r in rows if r["trace"] == tr]
        for j, r in enumerate(hist):
            if r["op"] == "look" and r["out"][0] not in ("none", "whois"):
                r["out"] = [r["out"][0], r["out"][1] + "x", r["out"][2]]
                p = ctx.path("g05_trace_demo.ndjson")
                vlib.write_ndjson(p, hist)
                res = ctx.tlc("TraceRuntimeClients", "TraceRuntimeClients.cfg", workers=1, extra_files=[(p, "trace.ndjson")],
                              timeout=300, heap="2g")
                v = res["vectors"][-1] if res["vectors"] else None
                if not v or j + 1 not in [x["l"] for x in v["bad"]]:
                    raise vlib.Inconclusive("binding demo: a corrupted lookup reply (line %d of history %d) was not rejected" % (j + 1, tr))
                return {"history": tr, "line": j + 1, "corrupted": "name reported by ClientRuntime", "rejected": True}
    raise vlib.Inconclusive("binding demo: no history contains a lookup that reports a name")


def pre_clients(rows, upto):
    """Names (at line `upto`, 1-based) of the clients of that history that
    already existed at its latest common-config change."""
    tr = rows[upto - 1]["trace"]
    serial, cur, pre = 0, {}, set()
    for r in rows[:upto - 1]:
        if r["trace"] != tr:
            continue
        op = r["op"]
        if op == "reset":
            cur, pre = {}, set()
        elif op == "add" and r["out"] == "ok":
            serial += 1
            cur[r["c"]["name"]] = serial
        elif op == "updc" and r["out"] == "ok":
            cur[r["c"]["name"]] = cur.pop(r["n"])
        elif op == "rem" and r["out"] == "ok":
            cur.pop(r["n"], None)
        elif op == "common":
            pre = set(cur.values())
    return {n for n, s in cur.items() if s in pre}


def classify_trace(rows, item, soft):
    ln = rows[item["l"] - 1]
    if ln["op"] != "cust":
        return None
    exps = item["exp"]
    o = ln["out"]
    if not soft:
        if o["nil"] and exps and all(e["who"] and e["via"] == "mac" for e in exps):
            return K_MAC
        return None
    pre = pre_clients(rows, item["l"])
    if o["new"] and exps and all(e["fresh"] == ["same"] and e["who"] in pre for e in exps):
        return K_REBUILT
    return None


def describe_line(rec):
    return "%s => %s" % (rec.get("conc"), json.dumps(rec.get("out", rec.get("p"))))


# ----------------------------------------------------------------------- run
def vacuity(ctx):
    r = ctx.tlc("RuntimeClients", "RuntimeClients.cov.cfg", workers=2, coverage=True, timeout=300, heap="2g")
    # All twelve groups go through the operator Take: TLC reports one entry per
    # call site (the Do* definitions, in the order of the module).
    acts = ["DoUpd", "DoArp", "DoHosts", "DoLease", "DoList", "DoLook", "DoWho", "DoAdd", "DoUpdC", "DoRem", "DoCommon", "DoCust"]
    # (TLC repeats the coverage report every minute: the last one per call site counts)
    sites = sorted({int(m.group(1)): int(m.group(3)) for m in re.finditer(
        r"^<Take line \d+, col \d+ to line \d+, col \d+ of module RuntimeClients \((\d+) \d+ \d+ \d+\)>: (\d+):(\d+)", r["out"], re.M)}.items())
    if len(sites) != len(acts):
        raise vlib.Inconclusive("coverage output lists %d transition groups, expected %d" % (len(sites), len(acts)))
    taken = {a: n for a, (_, n) in zip(acts, sites)}
    for act in acts:
        if taken[act] == 0:
            raise vlib.Inconclusive("vacuous: group %s never taken in RuntimeClients.cov.cfg (%s)" % (act, taken))
    return taken


WANT_TAGS = ["upd", "arp", "hosts", "lease", "list", "look/1", "look/2", "who/persistent", "who/runtime", "add/0", "add/1",
             "updc/0", "updc/1", "rem/0", "rem/1", "common", "cust/nil/none", "cust/new/cid", "cust/same/ip",
             "cust/same/net", "cust/new+same/ip", "cust/new/mac"]


def run(ctx):
    rng = random.Random(ctx.seed)
    openk = open_findings()
    unis = UNIVERSES[ctx.tier]

    # --- vacuity run and direction A generation (TLC processes side by side)
    res = {}

    def vac():
        try:
            res["_vac"] = vacuity(ctx)
        except BaseException as e:  # noqa: B902 - re-raised below
            res["_vac"] = e

    ths = [threading.Thread(target=generate, args=(ctx, u, res, cfg)) for u, cfg in unis.items()]
    ths.append(threading.Thread(target=vac))
    for t in ths:
        t.start()
    for t in ths:
        t.join()
    for u in list(unis) + ["_vac"]:
        if isinstance(res.get(u), BaseException):
            raise res[u]
    taken = res["_vac"]
    graphs = [res[u] for u in unis]
    gmap = {g.name: g for g in graphs}

    chunks, tagcount, nontrivial, targets, nd_edges, unreachable, distinct, cut_edges = [], {}, 0, 0, 0, 0, 0, 0
    for g in graphs:
        ts, tg, unr, nd, cut = tours(g, rng, K_MAC in openk)
        targets += len(tg)
        nd_edges += nd
        unreachable += unr
        cut_edges += cut
        seen_e = set()
        for edges in ts:
            c = {"u": g.name, "id": len(chunks), "variant": make_variant(ctx.seed, g.name, len(chunks)), "edges": edges, "_g": g}
            chunks.append(c)
            for e in edges:
                if e in seen_e:
                    continue
                seen_e.add(e)
                tagcount[g.tags[e]] = tagcount.get(g.tags[e], 0) + 1
                if g.nontrivial(e):
                    nontrivial += 1
        distinct += len(seen_e)
        ctx.log("universe %s: %d tours, %d steps, %d distinct edges, longest %d" % (
            g.name, len(ts), sum(len(x) for x in ts), len(seen_e), max(len(x) for x in ts)))
        if not tg <= seen_e:
            raise vlib.Inconclusive("universe %s: tours miss %d target edges" % (g.name, len(tg - seen_e)))
        if len(seen_e) + nd + cut != len(g.step):
            raise vlib.Inconclusive("universe %s: %d edges replayed + %d nondeterministic + %d cut off != %d printed" % (
                g.name, len(seen_e), nd, cut, len(g.step)))
    total_steps = sum(len(c["edges"]) for c in chunks)
    lead = total_steps - distinct
    ctx.log("tours: %d tours, %d steps (%d distinct edges, %d target edges) over %d states; %d nd edges not replayable, %d cut off by an open finding" % (
        len(chunks), total_steps, distinct, targets, sum(len(g.keys) for g in graphs), nd_edges, cut_edges))
    for want in WANT_TAGS:
        if tagcount.get(want, 0) == 0:
            raise vlib.Inconclusive("vacuous: no edge of class %s in the tours (%s)" % (want, sorted(tagcount)))
    if unreachable:
        raise vlib.Inconclusive("%d states are reachable only through nondeterministic edges" % unreachable)

    bads, summ = run_replay(ctx, graphs, chunks, "a")
    if summ["chunks"] != len(chunks):
        raise vlib.Inconclusive("replay harness ran %d of %d tours" % (summ["chunks"], len(chunks)))
    cmap = {c["id"]: c for c in chunks}
    truncated = 0
    by_key = {}
    for b in bads:
        if not b["soft"]:
            truncated += len(cmap[b["chunk"]]["edges"]) - (b["step"] + 1)
        by_key.setdefault(classify(b), []).append(b)
    if not bads and summ["steps"] != total_steps:
        raise vlib.Inconclusive("replay harness ran %d of %d steps" % (summ["steps"], total_steps))
    # reproduce: every unclassified disagreement (up to 12) and three of each known class
    todo = by_key.get(None, [])[:12]
    for k in sorted(k for k in by_key if k):
        todo += by_key[k][:3]
    flaky = 0
    if todo:
        for b, rec in zip(todo, reproduce(ctx, gmap, cmap, todo, "repro")):
            if rec is None:
                flaky += 1
                continue
            ctx.disagreement(classify(rec), rec, "%s: %s after %s" % (b["u"], rec["what"], rec["concrete"]))
    if flaky:
        raise vlib.Inconclusive("%d disagreement(s) did not reproduce in isolation" % flaky)

    # --- direction B
    trows, tbad, tsoft, tskipped = trace_validate(ctx)
    ntraces = sum(1 for r in trows if r["op"] == "reset")
    tby = {}
    for item, soft in [(x, False) for x in tbad] + [(x, True) for x in tsoft]:
        tby.setdefault(classify_trace(trows, item, soft), []).append((item, soft))
    ttodo = tby.get(None, [])[:8]
    for k in sorted(k for k in tby if k):
        ttodo += tby[k][:2]
    if ttodo:
        # reproduce: record the same histories again (same seed), alone, and validate them again
        want = sorted({trows[item["l"] - 1]["trace"] for item, _ in ttodo})
        rows2, bad2, soft2, _ = trace_validate(ctx, env={"VERIF_TRACE_ONLY": ",".join(map(str, want))}, tag="repro")
        first2 = {}
        for k, r in enumerate(rows2):
            first2.setdefault(r["trace"], k)
        for item, soft in ttodo:
            i = item["l"]
            rec = trows[i - 1]
            first = next(k for k, r in enumerate(trows) if r["trace"] == rec["trace"])
            i2 = i - first + first2[rec["trace"]]
            hit = [x for x in (soft2 if soft else bad2) if x["l"] == i2]
            if hit and rows2[i2 - 1].get("conc") == rec.get("conc") and \
                    classify_trace(rows2, hit[0], soft) == classify_trace(trows, item, soft):
                rec = {k: v for k, v in rec.items() if k not in ("proj", "projbad")}
                rec["seed"] = ctx.seed
                rec["soft"] = soft
                rec["spec_expected"] = item["exp"]
                rec["history"] = [describe_line(r) for r in trows[first:i - 1]][-60:]
                ctx.disagreement(classify_trace(trows, item, soft), rec, "trace %d line %d rejected by TraceRuntimeClients: %s; spec: %s" % (
                    rec["trace"], i - first, describe_line(rec), json.dumps(item["exp"])[:300]))
            else:
                raise vlib.Inconclusive("rejected trace line %d did not reproduce" % i)

    demo = binding_demo(ctx, trows, tbad)

    ops_b = {}
    for r in trows:
        ops_b[r["op"]] = ops_b.get(r["op"], 0) + 1
    for op in OPS:
        if ops_b.get(op, 0) == 0:
            raise vlib.Inconclusive("vacuous: the recorded histories contain no %s call" % op)

    sc = chunks[len(chunks) // 2]
    samples = [
        {"universe": sc["u"], "variant": sc["variant"], "steps[:4]": [json.loads(sc["_g"].step[e]) for e in sc["edges"][:4]]},
        {"state": gmap["dhcp"].recs[len(gmap["dhcp"].keys) // 2]},
        {"trace_line": {k: v for k, v in trows[5].items() if k in ("op", "a", "h", "w", "T", "out", "conc", "proj", "c", "n")}},
    ]
    cov = {
        "traces_validated_against_impl": len(chunks) + ntraces,
        "tours": len(chunks), "steps_replayed": summ["steps"], "distinct_edges_replayed": distinct, "target_edges": targets,
        "repeated_lead_in_steps": lead, "edges_cut_off_by_open_finding": cut_edges,
        "nondeterministic_edges_not_replayed": nd_edges,
        "edges_in_universes": {g.name: len(g.step) for g in graphs},
        "states_in_universes": {g.name: len(g.keys) for g in graphs},
        "edges_by_class": dict(sorted(tagcount.items())),
        "evaluations": summ["lookups"] + sum(1 for r in trows if r["op"] != "reset"),
        "distinct_nontrivial": nontrivial,
        "rule": "one evaluation = one observation compared with the spec (abstraction of the runtime index, RangeRuntime, "
                "Find, FindByName, ClientRuntime, CustomUpstreamConfig) or one validated trace line; distinct_nontrivial = distinct "
                "labelled edges (state, call, arguments) replayed that change the state, are lookups, or are registry "
                "operations refused because of a clash",
        "replay_disagreements": {str(k): len(v) for k, v in by_key.items()},
        "trace_histories": ntraces, "trace_lines": len(trows), "trace_calls_by_op": ops_b,
        "trace_lines_rejected": len(tbad), "trace_lines_identity_only": len(tsoft), "trace_lines_skipped": tskipped,
        "trace_disagreements": {str(k): len(v) for k, v in tby.items()},
        "truncated_by_known_finding": truncated + tskipped + cut_edges,
        "coverage_actions_cov_cfg": taken, "binding_demo": demo,
        "universe_cfgs": unis,
        # every replayable edge of the enumerated universes was replayed; the edges with several admissible
        # successors cannot be tour steps (trace direction), and an open finding cuts part of the graph off
        "exhaustive": cut_edges == 0,
        "exhaustive_note": "%d edges with several admissible successors are checked by TLC but not replayable; "
                           "%d edges lie behind lookups that an open finding makes fail" % (nd_edges, cut_edges),
        "samples": samples,
    }
    return ctx.finish("model_checking", cov, assumptions=[
        "TLC; conc()/abs() of zz_verif_g05_test.go (address embedding under 192.168.7.0/24 or fd00::7:0/120, mac bytes, "
        "host-name / WHOIS / upstream tokens); the configuration handed out is read through reflection (upstream addresses, cache present)",
        "fake DHCP server, ARP database and hosts container as in the package's own tests; the hosts goroutine and the ARP ticker are the real ones",
        "single caller goroutine per Storage (concurrency is C05); closing of replaced configurations and ClearUpstreamCache are not observed"])


def replay(ctx, path):
    rec = json.load(open(path))["record"]
    ctx.seed = rec.get("seed", ctx.seed)
    if "steps" in rec:
        u = rec["universe"]
        res = {}
        generate(ctx, u, res, rec.get("cfg"))
        g = res[u]
        if isinstance(g, BaseException):
            raise g
        # find the edges again by their labels (state indices depend on TLC's output order)
        cur, edges = g.init, []
        for st in rec["steps"]:
            want = dict(st)
            d = g.index[_canon(want.pop("dkey"))]
            want["d"] = d
            e = next(e for e in g.out_edges[cur] if json.loads(g.step[e]) == want)
            edges.append(e)
            cur = d
        c = {"u": u, "id": 0, "variant": rec["variant"], "edges": edges, "_g": g}
        bads, _ = run_replay(ctx, [g], [c], "replay")
        print(json.dumps({"steps": rec.get("history"), "expected": rec.get("want"),
                          "observed": [{k: b[k] for k in ("step", "kind", "what", "concrete", "got")} for b in bads] or
                          "agrees with the spec"}, indent=1, default=str)[:8000])
        return 1 if bads else 0
    rows, bad, soft, _ = trace_validate(ctx, env={"VERIF_TRACE_ONLY": str(rec["trace"])}, tag="replay")
    hit = [(rows[x["l"] - 1], x["exp"]) for x in bad + soft]
    print(json.dumps({"expected": "every line accepted by TraceRuntimeClients.tla",
                      "observed": [{"line": describe_line(r), "spec": e} for r, e in hit] or "accepted"}, indent=1)[:8000])
    return 1 if hit else 0
