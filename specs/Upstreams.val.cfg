SPECIFICATION Spec
CONSTANTS
  Up = {"u1", "u2", "u3", "u4"}
  UpLists <- ValUpLists
  FbLists <- ValFbLists
  BootVals <- ValBootVals
  PtrLists <- ValPtrLists
  UseVals <- BOOLEAN
  Shapes <- ValShapes
  Near <- NearVal
  Queries <- ValQueries
  Locs <- LocLocal
  FailSet <- FailNone
  SysVals <- SysBoth
  TestReqs <- NoTests
INVARIANTS TypeOK StoredValid Decided
