package dnsforward

// C16 conformance harness: replays TLC-generated (input, admissible outcomes)
// vectors of specs/ClientID.tla against the real HandleBefore (direction A)
// and records a trace of random larger inputs for TLC to validate
// (direction B).

import (
	"crypto/ecdsa"
	"crypto/elliptic"
	crand "crypto/rand"
	"crypto/tls"
	"crypto/x509"
	"crypto/x509/pkix"
	"encoding/json"
	"fmt"
	"math/big"
	"math/rand"
	"net"
	"net/http"
	"net/netip"
	"net/url"
	"os"
	"strings"
	"sync"
	"testing"
	"time"

	"github.com/AdguardTeam/AdGuardHome/internal/filtering"
	"github.com/AdguardTeam/dnsproxy/proxy"
	"github.com/AdguardTeam/golibs/errors"
	"github.com/miekg/dns"
	"github.com/quic-go/quic-go"
)

type zzC16In struct {
	Proto  string   `json:"proto"`
	Host   []string `json:"host"`
	Strict bool     `json:"strict"`
	Cli    []string `json:"cli"`
	Via    string   `json:"via"`
	Port   bool     `json:"port"`
	Path   []string `json:"path"`
}

type zzC16Out struct {
	K string `json:"k"`
	V string `json:"v"`
}

type zzC16Vec struct {
	In  zzC16In    `json:"in"`
	Out []zzC16Out `json:"out"`
}

type zzC16TLSConn struct {
	net.Conn
	sn string
}

func (c zzC16TLSConn) ConnectionState() (cs tls.ConnectionState) { cs.ServerName = c.sn; return cs }

type zzC16QUICConn struct {
	quic.Connection
	sn string
}

func (c zzC16QUICConn) ConnectionState() (cs quic.ConnectionState) {
	cs.TLS.ServerName = c.sn

	return cs
}

// zzC16Label renders an abstract label.
func zzC16Label(l string) (s string) {
	switch l {
	case "L63":
		return strings.Repeat("x", 62) + "1"
	case "L64":
		return strings.Repeat("x", 63) + "1"
	case "EMPTY":
		return ""
	case "KELVIN":
		return "\u212aids"
	case "IDOT":
		return "adm\u0130n"
	default:
		return l
	}
}

func zzC16Name(ls []string) (s string) {
	parts := make([]string, len(ls))
	for i, l := range ls {
		parts[i] = zzC16Label(l)
	}

	return strings.Join(parts, ".")
}

var zzC16Protos = map[string]proxy.Proto{
	"udp":      proxy.ProtoUDP,
	"tcp":      proxy.ProtoTCP,
	"dnscrypt": proxy.ProtoDNSCrypt,
	"tls":      proxy.ProtoTLS,
	"quic":     proxy.ProtoQUIC,
	"https":    proxy.ProtoHTTPS,
}

// zzC16PctEncode percent-encodes one seeded character of seg, if any.
func zzC16PctEncode(rng *rand.Rand, seg string) (enc string) {
	if seg == "" || rng.Intn(3) != 0 {
		return url.PathEscape(seg)
	}

	i := rng.Intn(len(seg))

	return url.PathEscape(seg[:i]) + fmt.Sprintf("%%%02X", seg[i]) + url.PathEscape(seg[i+1:])
}

// zzC16Request builds the concrete proxy context for one abstract input.
func zzC16Request(in *zzC16In, rng *rand.Rand, reqID uint64, confName string) (pctx *proxy.DNSContext, concrete string, err error) {
	cli := zzC16Name(in.Cli)
	req := (&dns.Msg{}).SetQuestion("probe.example.org.", dns.TypeA)
	// The 16-bit message id is the client's choice and says nothing about the
	// request's identity: DoH clients send 0 (RFC 8484), others are drawn here
	// from a handful of values so that different requests share one.
	req.Id = 0
	if in.Proto != "https" {
		req.Id = uint16(rng.Intn(4))
	}

	pctx = &proxy.DNSContext{
		Proto:     zzC16Protos[in.Proto],
		Req:       req,
		Addr:      netip.MustParseAddrPort("192.0.2.7:5353"),
		RequestID: reqID,
	}

	switch in.Proto {
	case "tls":
		pctx.Conn = zzC16TLSConn{sn: cli}
		concrete = "sni=" + cli
	case "quic":
		pctx.QUICConnection = zzC16QUICConn{sn: cli}
		concrete = "sni=" + cli
	case "https":
		segs := make([]string, len(in.Path))
		for i, s := range in.Path {
			segs[i] = zzC16PctEncode(rng, zzC16Label(s))
		}

		raw := "/" + strings.Join(segs, "/")
		if rng.Intn(4) == 0 {
			raw += "/"
		}

		var u *url.URL
		u, err = url.Parse("https://placeholder.invalid" + raw)
		if err != nil {
			return nil, raw, fmt.Errorf("parsing url: %w", err)
		}

		r := &http.Request{Method: http.MethodGet, ProtoMajor: 1, ProtoMinor: 1, URL: u, Header: http.Header{}}
		if in.Via == "sni" {
			r.TLS = &tls.ConnectionState{ServerName: cli}
			// With a TLS connection state the Host header says nothing about
			// the ClientID, whatever it contains.
			base := confName
			if base == "" {
				base = "example.com"
			}

			r.Host = []string{"unrelated.host.example", "cli." + base, base, "", "cli." + base + ":443"}[rng.Intn(5)]
		} else {
			r.Host = cli
			if in.Port {
				r.Host += ":8443"
			}
		}

		pctx.HTTPRequest = r
		concrete = fmt.Sprintf("path=%q host=%q tls=%v sni=%q", raw, r.Host, r.TLS != nil, cli)
	default:
		// Plain protocols: offer a TLS-looking connection anyway, it must be
		// ignored.
		pctx.Conn = zzC16TLSConn{sn: cli}
		concrete = "plain, conn sni=" + cli
	}

	return pctx, concrete, nil
}

// zzC16Live is ONE long-lived server that is reconfigured (real Prepare) when
// the configured server name / strict flag of the next vector differs from
// the current ones.  The ClientID is observed through the real read path
// (processInitial), not by peeking into the cache.
type zzC16Live struct {
	srv    *Server
	host   string
	strict bool
	n      uint64
	prevN  uint64
	total  uint64
	prep   int

	// hist is the history since the start of the previous proxy epoch: what
	// is needed to reproduce a history-dependent outcome on a fresh server.
	hist       []zzC16Step
	epochStart int
}

// zzC16Step is one step of a history: a request (abstract input plus the seed
// of its concretisation) or a reconfiguration that changes nothing.
type zzC16Step struct {
	Reconf bool    `json:"reconf,omitempty"`
	Late   bool    `json:"late,omitempty"`
	In     zzC16In `json:"in"`
	Seed   int64   `json:"seed"`
}

func zzC16NewLive(t *testing.T) (l *zzC16Live) {
	srv := createTestServer(t, &filtering.Config{
		BlockingMode: filtering.BlockingModeDefault,
	}, ServerConfig{
		UDPListenAddrs: []*net.UDPAddr{{IP: net.IP{127, 0, 0, 1}}},
		TCPListenAddrs: []*net.TCPAddr{{IP: net.IP{127, 0, 0, 1}}},
		TLSConf:        &TLSConfig{},
		Config: Config{
			UpstreamMode:     UpstreamModeLoadBalance,
			EDNSClientSubnet: &EDNSClientSubnet{Enabled: false},
			ClientsContainer: EmptyClientsContainer{},
		},
		ServePlainDNS: true,
	})

	return &zzC16Live{srv: srv}
}

// nextID returns request identifiers as dnsproxy documents them: "unique
// across requests processed by a single Proxy instance".  Server.Prepare
// creates a new Proxy, whose counter starts again, so the identifiers start
// again after every (re)configuration.  Within one instance they are unique as
// 64-bit numbers but collide in their low 32 bits every 509 requests, as the
// identifiers of a long-running proxy eventually do.
func (l *zzC16Live) nextID() (id uint64) {
	l.n++
	l.total++

	return (l.n % 509) | ((l.n / 509) << 32)
}

// lateID returns the next identifier of the PREVIOUS proxy instance: a
// connection that instance accepted and that was idle during the
// reconfiguration delivers one more request through it (dnsproxy closes only
// the listeners; handleTCPConnection checks isStarted before its blocking
// read), and that request reaches the same Server hooks.
func (l *zzC16Live) lateID() (id uint64) {
	l.prevN++
	l.total++

	return (l.prevN % 509) | ((l.prevN / 509) << 32)
}

// newEpoch is called after every real Prepare.
func (l *zzC16Live) newEpoch() {
	l.prevN = l.n
	l.n = 0
	l.prep++
	l.hist = append([]zzC16Step(nil), l.hist[l.epochStart:]...)
	l.epochStart = len(l.hist)
}

// reconf is the environment action Reconfigure of ClientID.tla: the same
// configuration is applied again (as any POST /control/dns_config does).
func (l *zzC16Live) reconf() (err error) {
	if l.prep == 0 {
		return nil
	}

	conf := l.srv.conf
	err = l.srv.Prepare(&conf)
	if err != nil {
		return fmt.Errorf("reconfiguring: %w", err)
	}

	l.newEpoch()
	l.hist = append(l.hist, zzC16Step{Reconf: true})

	return nil
}

func (l *zzC16Live) configure(host string, strict bool) (err error) {
	if l.prep > 0 && l.host == host && l.strict == strict {
		return nil
	}

	conf := l.srv.conf
	conf.TLSConf = &TLSConfig{ServerName: host, StrictSNICheck: strict}
	if host != "" {
		// A certificate for the configured name and its immediate
		// subdomains, so that the TLS-level half of the strict check
		// (Server.onGetCertificate) is armed the way it is in production.
		conf.TLSConf.Cert = zzC16Cert(host)
		conf.TLSConf.TLSListenAddrs = []*net.TCPAddr{{IP: net.IP{127, 0, 0, 1}}}
	}

	err = l.srv.Prepare(&conf)
	if err != nil {
		return fmt.Errorf("reconfiguring: %w", err)
	}

	l.host, l.strict = host, strict
	l.newEpoch()

	return nil
}

// run concretises one abstract input and drives it through the live server.
func (l *zzC16Live) run(in *zzC16In, rng *rand.Rand) (out zzC16Out, concrete string, err error) {
	return l.runSeeded(in, rng.Int63())
}

// runSeeded is run with the concretisation fixed by seed, so that a history
// can be replayed request for request.
func (l *zzC16Live) runSeeded(in *zzC16In, seed int64) (out zzC16Out, concrete string, err error) {
	if err = l.configure(zzC16Name(in.Host), in.Strict); err != nil {
		return out, "", err
	}

	rng := rand.New(rand.NewSource(seed))
	// One request in eight, over a connection-oriented transport, is a late
	// one of the previous proxy instance (ClientID.tla, Reconfigure).
	id, late := uint64(0), false
	if l.prevN > 0 && in.Proto != "udp" && in.Proto != "dnscrypt" && rng.Intn(8) == 0 {
		id, late = l.lateID(), true
	} else {
		id = l.nextID()
	}

	if len(l.hist) < 20000 {
		l.hist = append(l.hist, zzC16Step{In: *in, Seed: seed, Late: late})
	}

	pctx, concrete, err := zzC16Request(in, rng, id, zzC16Name(in.Host))
	if err != nil {
		return out, concrete, err
	}

	// The handshake comes first: with strict checking the TLS layer itself
	// refuses a server name it does not accept, and the request fails.
	overTLS := in.Proto == "tls" || in.Proto == "quic" || (in.Proto == "https" && in.Via == "sni")
	if overTLS && l.strict && l.host != "" {
		if _, herr := l.srv.onGetCertificate(&tls.ClientHelloInfo{ServerName: zzC16Name(in.Cli)}); herr != nil {
			return zzC16Out{K: "err"}, concrete + " (refused in the handshake)", nil
		}
	}

	herr := l.srv.HandleBefore(nil, pctx)
	if herr != nil {
		var bre *proxy.BeforeRequestError
		if errors.As(herr, &bre) && bre.Response != nil && bre.Response.Rcode == dns.RcodeServerFailure {
			return zzC16Out{K: "err"}, concrete, nil
		}

		return zzC16Out{K: "other", V: herr.Error()}, concrete, nil
	}

	dctx := &dnsContext{proxyCtx: pctx, result: &filtering.Result{}, startTime: time.Now()}
	_ = l.srv.processInitial(dctx)
	if dctx.clientID == "" {
		return zzC16Out{K: "none"}, concrete, nil
	}

	return zzC16Out{K: "id", V: dctx.clientID}, concrete, nil
}

var (
	zzC16CertMu sync.Mutex
	zzC16Certs  = map[string]*tls.Certificate{}
)

// zzC16Cert returns a self-signed certificate for host and *.host.
func zzC16Cert(host string) (cert *tls.Certificate) {
	zzC16CertMu.Lock()
	defer zzC16CertMu.Unlock()

	if cert = zzC16Certs[host]; cert != nil {
		return cert
	}

	key, err := ecdsa.GenerateKey(elliptic.P256(), crand.Reader)
	if err != nil {
		panic(err)
	}

	tmpl := &x509.Certificate{
		SerialNumber: big.NewInt(int64(len(zzC16Certs) + 1)),
		Subject:      pkix.Name{CommonName: host},
		NotBefore:    time.Now().Add(-time.Hour),
		NotAfter:     time.Now().Add(24 * time.Hour),
		DNSNames:     []string{host, "*." + host},
		KeyUsage:     x509.KeyUsageDigitalSignature,
		ExtKeyUsage:  []x509.ExtKeyUsage{x509.ExtKeyUsageServerAuth},
	}
	der, err := x509.CreateCertificate(crand.Reader, tmpl, tmpl, &key.PublicKey, key)
	if err != nil {
		panic(err)
	}

	cert = &tls.Certificate{Certificate: [][]byte{der}, PrivateKey: key}
	zzC16Certs[host] = cert

	return cert
}

// zzC16ReplayHistory runs hist on a fresh server and returns the outcome of its
// last request.
func zzC16ReplayHistory(t *testing.T, hist []zzC16Step) (out zzC16Out, concrete string, err error) {
	fresh := zzC16NewLive(t)
	for i := range hist {
		st := &hist[i]
		if st.Reconf {
			err = fresh.reconf()
		} else {
			out, concrete, err = fresh.runSeeded(&st.In, st.Seed)
		}

		if err != nil {
			return out, concrete, err
		}
	}

	return out, concrete, nil
}

func zzC16Admissible(v *zzC16Vec, got zzC16Out) (ok bool) {
	for _, o := range v.Out {
		if o.K != got.K {
			continue
		}

		if o.K != "id" || strings.ToLower(zzC16Label(o.V)) == got.V {
			return true
		}
	}

	return false
}

// TestZZVerifC16Replay is direction A.  All vectors are replayed on ONE live
// server in several passes; in every pass the configurations (server name,
// strict flag) are visited in a seeded order through real reconfigurations and
// the vectors of a configuration in a seeded order, so that every input is
// seen under every configuration after different histories: the outcome may
// depend on the current configuration and the request only.
func TestZZVerifC16Replay(t *testing.T) {
	w := zzNewWriter(t, "VERIF_OUT")
	defer w.close()

	rng := rand.New(rand.NewSource(zzSeed()))
	groups := map[string][]*zzC16Vec{}
	var keys []string
	zzReadNDJSON(t, "VERIF_IN", func(line []byte) {
		v := &zzC16Vec{}
		if err := json.Unmarshal(line, v); err != nil {
			t.Fatalf("bad vector: %v", err)
		}

		k := fmt.Sprintf("%s|%v", zzC16Name(v.In.Host), v.In.Strict)
		if _, ok := groups[k]; !ok {
			keys = append(keys, k)
		}

		groups[k] = append(groups[k], v)
	})

	passes := 2
	if v := zzGetenv("VERIF_C16_PASSES"); v != "" {
		_, _ = fmt.Sscanf(v, "%d", &passes)
	}

	// Replay of one stored history (./check C16 --replay of a history-dependent
	// record).
	if hp := zzGetenv("VERIF_C16_HISTORY"); hp != "" {
		raw, err := os.ReadFile(hp)
		if err != nil {
			t.Fatalf("reading history: %v", err)
		}

		rec := &struct {
			History []zzC16Step `json:"history"`
			Want    []zzC16Out  `json:"want"`
		}{}
		if err = json.Unmarshal(raw, rec); err != nil || len(rec.History) == 0 {
			t.Fatalf("bad history record: %v", err)
		}

		last := rec.History[len(rec.History)-1]
		v := &zzC16Vec{In: last.In, Out: rec.Want}
		got, conc, _ := zzC16ReplayHistory(t, rec.History)
		if !zzC16Admissible(v, got) {
			w.put(map[string]any{"kind": "bad", "in": v.In, "want": v.Out, "got": got, "concrete": conc, "how": "stored history replayed on a fresh server"})
		}

		w.put(map[string]any{"kind": "summary", "n": len(rec.History), "bad": 0, "flaky": 0, "passes": 1})

		return
	}

	live := zzC16NewLive(t)
	n, bad, flaky, more, reconfs := 0, 0, 0, 0, 0
	for pass := 0; pass < passes; pass++ {
		rng.Shuffle(len(keys), func(i, j int) { keys[i], keys[j] = keys[j], keys[i] })
		for _, k := range keys {
			vs := groups[k]
			rng.Shuffle(len(vs), func(i, j int) { vs[i], vs[j] = vs[j], vs[i] })
			for _, v := range vs {
				// ClientID.tla, Reconfigure: now and then the configuration in
				// force is applied again.  Nothing the outcome depends on
				// changes, but the proxy is a new one and its request
				// identifiers start again.
				if rng.Intn(120) == 0 {
					if err := live.reconf(); err != nil {
						t.Fatalf("reconf: %v", err)
					}

					reconfs++
				}

				n++
				got, conc, err := live.run(&v.In, rng)
				if err != nil {
					w.put(map[string]any{"kind": "skip", "in": v.In, "err": err.Error()})

					continue
				}

				if zzC16Admissible(v, got) {
					continue
				}

				// On a broken tree thousands of vectors disagree: once sixty
				// have been reproduced the rest is only counted.
				if bad >= 60 {
					more++

					continue
				}

				// Reproduce: alone on a fresh server; if it is admissible
				// there, the history since the start of the previous proxy
				// epoch replayed on a fresh server; and again on the live
				// server.
				hist := append([]zzC16Step(nil), live.hist...)
				fresh := zzC16NewLive(t)
				got3, conc3, _ := fresh.run(&v.In, rand.New(rand.NewSource(1)))
				if !zzC16Admissible(v, got3) {
					bad++
					w.put(map[string]any{"kind": "bad", "in": v.In, "want": v.Out, "got": got3, "concrete": conc3, "how": "alone on a fresh server"})

					continue
				}

				got4, conc4, herr := zzC16ReplayHistory(t, hist)
				if herr == nil && !zzC16Admissible(v, got4) {
					bad++
					rec := map[string]any{"kind": "bad", "in": v.In, "want": v.Out, "got": got4, "concrete": conc4,
						"how": fmt.Sprintf("history-dependent: reproduced by replaying the last %d steps (requests and reconfigurations since the start of the previous proxy epoch) on a fresh server; admissible alone on a fresh server", len(hist))}
					if len(hist) <= 4000 {
						rec["history"] = hist
					}

					lates := 0
					for i := range hist {
						if hist[i].Late {
							lates++
						}
					}

					rec["late_requests"] = lates

					w.put(rec)

					continue
				}

				got2, conc2, _ := live.run(&v.In, rng)
				if !zzC16Admissible(v, got2) {
					bad++
					w.put(map[string]any{"kind": "bad", "in": v.In, "want": v.Out, "got": got2, "concrete": conc2,
						"how": fmt.Sprintf("history-dependent: twice on the live server after %d requests and %d reconfigurations; admissible alone on a fresh server", live.total, live.prep)})

					continue
				}

				flaky++
				w.put(map[string]any{"kind": "flaky", "in": v.In, "got": got, "concrete": conc})
			}
		}
	}

	w.put(map[string]any{"kind": "summary", "n": n, "bad": bad, "flaky": flaky, "not_reproduced_beyond_cap": more,
		"reconfigurations": live.prep, "same_config_reconfigurations": reconfs, "passes": passes})
}

// ---------------------------------------------------------------- direction B

const zzC16Alphabet = "abcxyzABCXYZ0189-_.é \u212a\u0130\u017f"

func zzC16RandLabel(rng *rand.Rand) (s string) {
	switch rng.Intn(10) {
	case 0:
		return strings.Repeat("q", 60+rng.Intn(6))
	case 1, 2, 3:
		n := 1 + rng.Intn(8)
		b := make([]byte, n)
		for i := range b {
			b[i] = "abcdefXYZ019-"[rng.Intn(13)]
		}

		return string(b)
	case 4:
		n := 1 + rng.Intn(5)
		rs := []rune(zzC16Alphabet)
		b := make([]rune, n)
		for i := range b {
			b[i] = rs[rng.Intn(len(rs))]
		}

		return string(b)
	default:
		return []string{"cli", "Client-1", "my-phone", "x", "7", "a--b", "tv"}[rng.Intn(7)]
	}
}

// zzC16Classify is the harness's own label classifier, written from RFC 1123
// host-label rules and independent of the code under test.
func zzC16Classify(l string) (valid bool, lower string) {
	if len(l) < 1 || len(l) > 63 {
		return false, l
	}

	for i := 0; i < len(l); i++ {
		c := l[i]
		alnum := c >= 'a' && c <= 'z' || c >= 'A' && c <= 'Z' || c >= '0' && c <= '9'
		if alnum {
			continue
		}

		if c == '-' && i > 0 && i < len(l)-1 {
			continue
		}

		return false, l
	}

	return true, strings.ToLower(l)
}

// TestZZVerifC16Trace is direction B: random inputs from a larger universe,
// logged in the vocabulary of TraceClientID.tla.
func TestZZVerifC16Trace(t *testing.T) {
	w := zzNewWriter(t, "VERIF_OUT")
	defer w.close()

	rng := rand.New(rand.NewSource(zzSeed()))
	n := 4000
	if strings.EqualFold(strings.TrimSpace(getenvDefault("VERIF_TIER", "quick")), "thorough") {
		n = 40000
	}

	live := zzC16NewLive(t)
	hosts := [][]string{{}, {"example", "com"}, {"dns", "home", "example", "org"}, {"h", "test"}, {"Dns", "EXAMPLE", "org"}}
	curHost, curStrict := hosts[1], false
	protos := []string{"udp", "tcp", "dnscrypt", "tls", "quic", "https", "https", "https", "tls", "quic"}
	for i := 0; i < n; i++ {
		if i%97 == 0 {
			// The administrator changes the TLS settings now and then.
			curHost, curStrict = hosts[rng.Intn(len(hosts))], rng.Intn(2) == 0
		}

		in := zzC16In{
			Proto:  protos[rng.Intn(len(protos))],
			Host:   curHost,
			Strict: curStrict,
			Via:    "sni",
			Cli:    []string{},
			Path:   []string{},
		}

		base := in.Host
		if len(base) == 0 {
			base = []string{"example", "com"}
		}

		// One client name in three spells the configured name in another
		// letter case.
		switch rng.Intn(6) {
		case 0:
			base = zzC16MapLabels(base, strings.ToUpper)
		case 1:
			base = zzC16MapLabels(base, strings.ToLower)
		}

		switch rng.Intn(8) {
		case 0:
			// Empty client name.
		case 1:
			in.Cli = append(in.Cli, base...)
		case 2, 3, 4:
			in.Cli = append([]string{strings.ReplaceAll(zzC16RandLabel(rng), ".", "")}, base...)
		case 5:
			in.Cli = append([]string{"a", strings.ReplaceAll(zzC16RandLabel(rng), ".", "")}, base...)
		case 6:
			// Suffix look-alike of the first label.
			in.Cli = append([]string{"cli", "x" + base[0]}, base[1:]...)
		default:
			in.Cli = []string{"cli", "elsewhere", "net"}
		}

		for _, l := range in.Cli {
			// A space or a non-ASCII rune cannot appear in a real SNI or Host
			// header in a way that survives parsing; keep such labels to paths.
			if strings.ContainsAny(l, " é") {
				in.Cli = append([]string{"cli"}, base...)

				break
			}
		}

		if in.Proto == "https" {
			if rng.Intn(2) == 0 {
				in.Via = "hosthdr"
				in.Port = rng.Intn(2) == 0 && len(in.Cli) > 0
			}

			np := rng.Intn(6)
			segs := []string{"dns-query", "dns-query", "dns-query", "..", ".", "", "other", "DNS-QUERY", "dns-queryx", "dns-query-1", "adns-query", "dns-quer"}
			for j := 0; j < np; j++ {
				if rng.Intn(2) == 0 {
					in.Path = append(in.Path, segs[rng.Intn(len(segs))])
				} else {
					in.Path = append(in.Path, strings.ReplaceAll(zzC16RandLabel(rng), "/", ""))
				}
			}

			if rng.Intn(3) == 0 && np > 0 {
				in.Path[0] = "dns-query"
			}
		}

		got, conc, err := live.run(&in, rng)
		if err != nil {
			continue
		}

		type lab struct {
			S     string `json:"s"`
			Valid bool   `json:"valid"`
			Lower string `json:"lower"`
		}

		labs := []lab{}
		seen := map[string]bool{}
		for _, l := range append(append(append([]string{}, in.Cli...), in.Path...), in.Host...) {
			if seen[l] {
				continue
			}

			seen[l] = true
			v, lo := zzC16Classify(l)
			labs = append(labs, lab{S: l, Valid: v, Lower: lo})
		}

		w.put(map[string]any{"in": in, "out": got, "labels": labs, "concrete": conc})
	}
}

func zzC16MapLabels(ls []string, f func(string) string) (out []string) {
	out = make([]string, len(ls))
	for i, l := range ls {
		out[i] = f(l)
	}

	return out
}

func getenvDefault(k, d string) (v string) {
	if v = zzGetenv(k); v == "" {
		return d
	}

	return v
}
