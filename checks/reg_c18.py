PROPERTY = "C18"
ENTRY = {
        "text": "ScheduleCore.tla states the property as integer arithmetic written from the statement: zone = offset table, wall clock = instant + offset in effect, "
                "in effect <=> wall-clock time of day on the wall-clock weekday in [start,end), plus the validation classes. "
                "Schedule.tla is checked exhaustively by TLC on 16 abstract zone/day classes (UTC, +hh:30, +hh:45, -hh:30, DST north/south forward/back, half-hour DST step, "
                "transitions at local midnight, skipped civil day) x 10 schedule shapes x every instant of a +-36 h window, with the statement's claims as invariants "
                "(full day covers exactly the 23/24/25-hour local day, empty covers none, half-open interval on the wall clock, validation verdicts, round-trip identity). "
                "ScheduleHost.tla evaluates the same operators on the integer offset tables of the host's real IANA zones (seeded sample in quick, every zone name in thorough; "
                "ordinary, spring-forward, fall-back and midnight-transition days) at probe instants (half-hour grid, +-1 ns around every wall-clock range edge, local midnight and transition, "
                "both occurrences of repeated times); every table row is replayed into the real schedule.Weekly (built through UnmarshalJSON/UnmarshalYAML) and a sample through "
                "PUT /control/blocked_services/update + DNSFilter.ApplyAdditionalFiltering + CheckHost at that virtual time (synctest), global and per-client schedule; "
                "30324 serialisation vectors (whole-ms and sub-millisecond bounds down to 1 ns) go through both decoders/encoders (verdict + round trips); every row is put to 2 long-lived Weekly objects (ascending, then descending/shuffled instant order) with the instant given in 5 representations (UTC, schedule zone, +05:45, Local, 12 h away); every document is decoded into fresh and into already populated receivers. ScheduleHolder.tla models the schedules in effect in two independent holders under a history of requests (update, update with null schedule, restart from a YAML/JSON configuration decoded on top of the default EmptyWeekly(); all or nothing; 8470 edges, bad day at every weekday position with valid/absent days around it; action property: a request to one holder never changes the other); one edge-covering walk is driven through the real PUT blocked_services/update and GET blocked_services/get handlers of two DNSFilters, comparing reply, read-back and Contains at 35 probes of both holders after every step. Random triples, random serialised schedules and random update histories recorded from the real code are judged by TraceSchedule.tla / TraceScheduleHolder.tla.",
        "design_ref": "DESIGN.md section 4 C18",
        "note": "Trusted: TLC; the host tz database as read by Go's time package (tables via Time.ZoneBounds, cross-checked per instant against Time.In(loc).Zone/Clock/Weekday); "
                "conc()/projection of the two zz_verif_c18_test.go files. Instants 2000-01-05..2037-12-20. Instants are classes, not every nanosecond. "
                "Only start = end at a whole minute in (00:00, 24:00] admits both verdicts; a bound after 24:00 is rejected. "
                "JSON fractions limited to multiples of 1/64 ms (exact binary floats), others through YAML. Finding contains-elapsed-since-midnight-on-transition-day fixed in /repo (a52b228).",
        "technique": "TLA+ spec checked exhaustively by TLC on abstract classes; TLC verdict tables over real tz tables replayed into real code + TLC trace validation",
    }
