---------------------------- MODULE TraceDhcp4 ----------------------------
(***************************************************************************)
(* Direction B for C10.  trace.ndjson holds a header line (the universe of *)
(* the run) followed by one line per action executed on the real DHCPv4    *)
(* server in long random histories over a universe much larger than the    *)
(* exhaustive one: the action and its arguments, the projected table       *)
(* before (src) and after (dst), the content of leases.json (disk), the    *)
(* reply (out), and the disagreements between the server's own structures  *)
(* found by the harness before (srcprob) and after (prob) the step.        *)
(*                                                                         *)
(* A line is accepted iff (dst, out) is one of the outcomes that Dhcp4's   *)
(* own operator for that action admits in src, every lease is listed once, *)
(* the database holds exactly dst (or was left alone by a step that        *)
(* changed nothing; by Restart always), and no new structural disagreement *)
(* appeared.  After every line the specification state is re-synchronised  *)
(* to the observed one, so each rejected line is reported by itself.       *)
(***************************************************************************)
EXTENDS Integers, Sequences, FiniteSets, TLC, Json

Trace == ndJsonDeserialize("trace.ndjson")
Hdr   == Trace[1]
SetOf(s) == {s[i] : i \in DOMAIN s}

VARIABLES ls, disk, l, bad

D == INSTANCE Dhcp4 WITH Macs <- SetOf(Hdr.macs), Pool <- SetOf(Hdr.pool), Outs <- SetOf(Hdr.outs),
                         GW <- Hdr.gw, Far <- Hdr.far, ReqHosts <- SetOf(Hdr.reqhosts), BadHosts <- SetOf(Hdr.badhosts),
                         StaticHosts <- SetOf(Hdr.stathosts), MaxStatic <- 1000000,
                         LeaseT <- Hdr.leaset

\* <<mac, ip, remaining ticks (-1 = reservation), host>> as the harness writes leases.
Dec(t)   == [mac |-> t[1], ip |-> t[2], st |-> t[3] = -1, rem |-> IF t[3] = -1 THEN 0 ELSE t[3], host |-> t[4]]
DecS(s)  == {Dec(s[i]) : i \in DOMAIN s}
Once(s)  == Cardinality(DecS(s)) = Len(s) /\ \A i \in DOMAIN s : s[i][3] \in -1..Hdr.leaset

Outcomes(S, Dk, a) ==
    CASE a.act = "Discover"     -> D!DiscoverOut(S, a.m)
      [] a.act = "Request"      -> D!RequestOut(S, a.m, a.kind, a.a, a.h)
      [] a.act = "Decline"      -> D!DeclineOut(S, a.m, a.a)
      [] a.act = "Release"      -> D!ReleaseOut(S, a.m, a.a)
      [] a.act = "Tick"         -> D!TickOut(S)
      [] a.act = "Expire"       -> D!ExpireOut(S, a.a)
      [] a.act = "BlockEnd"     -> D!BlockEndOut(S, a.a)
      [] a.act = "AddStatic"    -> D!AddStaticOut(S, a.m, a.a, a.h)
      [] a.act = "UpdateStatic" -> D!UpdateStaticOut(S, a.m, a.a, a.h)
      [] a.act = "RemoveStatic" -> D!RemoveStatic4Out(S, a.m, a.a)
      [] a.act = "Restart"      -> D!RestartOut(Dk)
      [] OTHER                  -> {}

\* The observed reply against the reply class of an outcome.
ReplyOK(o, obs, dst, m) ==
    CASE o.out.k = "offer"            -> obs.k = o.out.k /\ obs.ip = o.out.ip
      [] o.out.k = "ack"              -> obs.k = o.out.k /\ obs.ip = o.out.ip /\ obs.t = o.out.t
      [] o.out.k = "refuse"           -> obs.k \in {"none", "nak"}
      [] o.out.k = "any"              -> obs.ip = 0 \/ \E x \in dst : x.mac = m /\ x.ip = obs.ip
      [] o.out.k \in {"ok", "err"}    -> obs.k = o.out.k
      [] OTHER                        -> obs.k = "-"

\* Why a line is rejected ("" = accepted), and the outcomes that were
\* admissible, for the report.
Why(S, Dk, t) ==
    LET dst  == DecS(t.dst)
        dk   == DecS(t.disk)
        outs == Outcomes(S, Dk, t.act)
        diskOK(o) == IF t.act.act = "Restart" THEN dk = Dk
                     ELSE dk = dst \/ (dst = S /\ dk = Dk)
    IN  IF DecS(t.src) # S THEN "src"
        ELSE IF ~Once(t.dst) THEN "state"
        ELSE IF \A o \in outs : o.dst # dst THEN "state"
        ELSE IF \A o \in outs : o.dst = dst => ~ReplyOK(o, t.out, dst, t.act.m) THEN "reply"
        ELSE IF ~Once(t.disk) \/ \A o \in outs : o.dst = dst => ~diskOK(o) THEN "structures"
        ELSE IF ~(SetOf(t.prob) \subseteq SetOf(t.srcprob)) THEN "structures"
        ELSE ""
Want(S, Dk, t) == {<<o.dst = S, D!EncS(o.dst), o.out.k, o.out.ip, o.out.t>> : o \in Outcomes(S, Dk, t.act)}

Init == ls = {} /\ disk = {} /\ l = 2 /\ bad = {}
Next == /\ l <= Len(Trace)
        /\ LET t  == Trace[l]
               S  == IF t.reset THEN {} ELSE ls
               Dk == IF t.reset THEN {} ELSE disk
               w  == Why(S, Dk, t)
           IN  /\ bad' = IF w = "" THEN bad ELSE bad \cup {[l |-> l, why |-> w, want |-> Want(S, Dk, t)]}
               /\ ls' = DecS(t.dst)
               /\ disk' = DecS(t.disk)
        /\ l' = l + 1
        /\ (l' = Len(Trace) + 1 => PrintT(<<"@@V", ToJson([n |-> Len(Trace), bad |-> bad'])>>))
Spec == Init /\ [][Next]_<<ls, disk, l, bad>>
=============================================================================
