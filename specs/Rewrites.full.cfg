\* Generation + statement invariants: every table (multiset; the harness
\* replays all orderings) of at most two entries over the big universe, plus
\* the full cycle and ladder families (thorough tier).
CONSTANTS U = "big" MaxLen = 2 EmitFrom = 1 Shard = 0 Perms = FALSE Families = 2 Mode = "gen"
INIT Init
NEXT Next
INVARIANTS Unmatched WellFormed CnameBeatsAddress ExactShadowsWildcardCname ExactShadowsWildcard MostSpecificWildcard SelfAndTypeExceptionsPassThrough AddressesComeFromTableForFinalName MatchedButNoValue
