package dnsforward

// G01 conformance harness: the FRONT STAGES of the DNS request pipeline
// (refuse_any, private reverse zones, aaaa_disabled, the Firefox canary, the
// healthcheck name, DDR, DHCP host names and DHCP PTR answers) and their order
// relative to each other and to blocking.
//
// Direction A replays the verdict tables of specs/DnsFront.tla (one table per
// configuration: every request of the finite universe with its set of
// admissible outcomes) into real servers that are really reconfigured
// (Server.Prepare, lease table, DHCP switch) between configurations.
// Direction B records a seeded random run over a larger universe for
// specs/TraceDnsFront.tla.
//
// Requests enter through Server.ServeHTTP (the DNS-over-HTTPS entry point home
// mounts under /dns-query), which lets the harness choose the client address;
// the proxy's own request validation (refuse_any, private reverse zones) and
// the server's handler chain both run.  A part of the requests of loopback
// clients is sent over a real UDP socket instead.

import (
	"bytes"
	"crypto/ecdsa"
	"crypto/elliptic"
	crand "crypto/rand"
	"crypto/tls"
	"crypto/x509"
	"crypto/x509/pkix"
	"encoding/json"
	"fmt"
	"math/big"
	"math/rand"
	"net"
	"net/http"
	"net/http/httptest"
	"net/netip"
	"sort"
	"strings"
	"sync"
	"testing"
	"time"

	"github.com/AdguardTeam/AdGuardHome/internal/filtering"
	"github.com/AdguardTeam/AdGuardHome/internal/querylog"
	"github.com/AdguardTeam/dnsproxy/upstream"
	"github.com/AdguardTeam/golibs/logutil/slogutil"
	"github.com/AdguardTeam/golibs/netutil"
	"github.com/miekg/dns"
)

// ---------------------------------------------------------------- vocabulary

// zzG01TLS is the encryption part of a configuration: which encrypted
// endpoints are configured (port as decimal text, "" = not configured) and
// whether the certificate names an IP address.
type zzG01TLS struct {
	On     bool   `json:"on"`
	DoH    string `json:"doh"`
	DoT    string `json:"dot"`
	DoQ    string `json:"doq"`
	CertIP bool   `json:"certIP"`
}

type zzG01Lease struct {
	// H is the host name of the lease, A its address (a token of
	// zzG01Addrs in direction A, an address text in direction B).
	H string `json:"h"`
	A string `json:"a"`
}

type zzG01Cfg struct {
	AAAAOff   bool         `json:"aaaaOff"`
	RefuseAny bool         `json:"refuseAny"`
	DDR       bool         `json:"ddr"`
	TLS       zzG01TLS     `json:"tls"`
	DHCP      bool         `json:"dhcp"`
	Leases    []zzG01Lease `json:"leases"`
	Suffix    []string     `json:"suffix"`
	PrivPTR   bool         `json:"privPTR"`
	// Nets names the set of private networks: "default" (the locally served
	// networks) or "custom" (192.168.0.0/16 only); direction B uses other
	// names, see zzG01NetSets.
	Nets    string     `json:"nets"`
	Blocked [][]string `json:"blocked"`
	// DNS64 is "off", "wkp" (enabled without prefixes: the Well-Known Prefix)
	// or "custom" (enabled with zzG01Prefs64).
	DNS64 string `json:"dns64"`
}

// zzG01Prefs64 are the custom DNS64 prefixes.
var zzG01Prefs64 = []netip.Prefix{
	netip.MustParsePrefix("2001:67c:27e4:1064::/96"), netip.MustParsePrefix("2001:67c:27e4:642::/96"),
}

var zzG01WKP = netip.MustParsePrefix("64:ff9b::/96")

// zzG01Excl are the exclusion prefixes of a DNS64 mode.
func zzG01Excl(mode string) (prefs []netip.Prefix) {
	switch mode {
	case "wkp":
		return []netip.Prefix{zzG01WKP}
	case "custom":
		return zzG01Prefs64
	default:
		return nil
	}
}

// zzG01UpScript is what the general upstream answers, in tokens (direction A).
type zzG01UpScript struct {
	NX bool     `json:"nx"`
	A6 []string `json:"a6"`
	A4 []string `json:"a4"`
}

// zzG01Rev is what the harness knows about a question name as a reverse name.
type zzG01Rev struct {
	Ok   bool   `json:"ok"`
	Priv bool   `json:"priv"`
	A    string `json:"a"`
	N64  bool   `json:"n64"`
}

type zzG01Req struct {
	Name  []string `json:"name"`
	Canon bool     `json:"canon"`
	Qt    string   `json:"qt"`
	// Cli is a client token ("in", "alt", "pub") in direction A and an
	// address text in direction B.
	Cli   string   `json:"cli"`
	CPriv bool     `json:"cpriv"`
	Rev   zzG01Rev `json:"rev"`
	// Up is the upstream's script in tokens (direction A only).
	Up *zzG01UpScript `json:"up,omitempty"`
}

type zzG01Out struct {
	C   string   `json:"c"`
	Fwd string   `json:"fwd"`
	V   []string `json:"v"`
	Log bool     `json:"log"`
}

func (o zzG01Out) key() (k string) {
	v := append([]string{}, o.V...)
	sort.Strings(v)

	return fmt.Sprintf("%s|%s|%s|%v", o.C, o.Fwd, strings.Join(v, ","), o.Log)
}

const (
	zzG01SrvName = "dns.example.org"
	zzG01DoHPath = "/dns-query{?dns}"
)

// Address tokens of direction A.
var zzG01Addrs = map[string]string{
	"a1": "192.168.10.5", "a2": "192.168.10.99", "a3": "10.0.0.7", "a4": "8.8.4.4",
	"in": "192.168.10.77", "alt": "127.0.7.9", "pub": "93.184.216.34",
	"o1": "2001:db8::77", "w1": "64:ff9b::102:304", "c1": "2001:67c:27e4:1064::102:305", "c2": "2001:67c:27e4:642::102:306",
	"s4": "203.0.113.77",
}

var zzG01Qtypes = map[string]uint16{
	"A": dns.TypeA, "AAAA": dns.TypeAAAA, "ANY": dns.TypeANY, "SVCB": dns.TypeSVCB, "PTR": dns.TypePTR,
	"SOA": dns.TypeSOA, "NS": dns.TypeNS, "TXT": dns.TypeTXT, "HTTPS": dns.TypeHTTPS, "MX": dns.TypeMX,
}

// zzG01NetSets are the sets of private networks a server can be created
// with.  nil = the default (locally served networks).
var zzG01NetSets = map[string][]string{
	"default": nil,
	"custom":  {"192.168.0.0/16"},
	"wide":    {"192.168.0.0/16", "10.0.0.0/8", "100.64.0.0/10", "fd00::/8", "127.0.0.0/8"},
}

func zzG01SubnetSet(name string) (s netutil.SubnetSet) {
	txt := zzG01NetSets[name]
	if txt == nil {
		return netutil.SubnetSetFunc(netutil.IsLocallyServed)
	}

	var prefs []netip.Prefix
	for _, t := range txt {
		prefs = append(prefs, netip.MustParsePrefix(t))
	}

	return netutil.SliceSubnetSet(prefs)
}

// ------------------------------------------------------------------- doubles

// zzG01DHCP is the lease table.  Like the real DHCP server it keeps answering
// address and host lookups when it is switched off (its leases persist).
type zzG01DHCP struct {
	mu      sync.Mutex
	enabled bool
	byHost  map[string]netip.Addr
	byIP    map[netip.Addr]string
}

func (d *zzG01DHCP) HostByIP(ip netip.Addr) (host string) {
	d.mu.Lock()
	defer d.mu.Unlock()

	if !ip.Is4() {
		return ""
	}

	return d.byIP[ip]
}

func (d *zzG01DHCP) IPByHost(host string) (ip netip.Addr) {
	d.mu.Lock()
	defer d.mu.Unlock()

	return d.byHost[host]
}

func (d *zzG01DHCP) Enabled() (ok bool) {
	d.mu.Lock()
	defer d.mu.Unlock()

	return d.enabled
}

func (d *zzG01DHCP) set(enabled bool, leases map[string]netip.Addr) {
	d.mu.Lock()
	defer d.mu.Unlock()

	d.enabled = enabled
	d.byHost = map[string]netip.Addr{}
	d.byIP = map[netip.Addr]string{}
	for h, a := range leases {
		d.byHost[h] = a
		d.byIP[a] = h
	}
}

// zzG01Up is a recording upstream.  Every answer is a sentinel that names the
// upstream, so that the delivered answer shows which upstream it came from.
type zzG01Up struct {
	tag   string
	mu    sync.Mutex
	calls []dns.Question
	// script, if not nil, replaces the sentinel answers for A and AAAA.
	script *zzG01Script
	// answered keeps the answer given per question type since the last take.
	answered map[uint16][]dns.RR
}

// zzG01Script is what an upstream answers for A and AAAA questions.
type zzG01Script struct {
	nx bool
	a6 []netip.Addr
	a4 []netip.Addr
}

func zzG01Sentinel(tag string, q dns.Question) (rr dns.RR) {
	hdr := dns.RR_Header{Name: q.Name, Class: dns.ClassINET, Ttl: 300}
	n := byte(77)
	if tag == "priv" {
		n = 78
	}

	switch q.Qtype {
	case dns.TypeA:
		hdr.Rrtype = dns.TypeA

		return &dns.A{Hdr: hdr, A: net.IP{203, 0, 113, n}}
	case dns.TypeAAAA:
		hdr.Rrtype = dns.TypeAAAA

		return &dns.AAAA{Hdr: hdr, AAAA: net.ParseIP(fmt.Sprintf("2001:db8::%d", n))}
	case dns.TypePTR:
		hdr.Rrtype = dns.TypePTR

		return &dns.PTR{Hdr: hdr, Ptr: tag + "-upstream.example."}
	default:
		hdr.Rrtype = dns.TypeTXT

		return &dns.TXT{Hdr: hdr, Txt: []string{"zz-g01-" + tag}}
	}
}

func (u *zzG01Up) Exchange(req *dns.Msg) (resp *dns.Msg, err error) {
	u.mu.Lock()
	defer u.mu.Unlock()

	q := req.Question[0]
	u.calls = append(u.calls, q)
	resp = (&dns.Msg{}).SetReply(req)
	resp.RecursionAvailable = true
	switch {
	case u.script != nil && q.Qtype == dns.TypeAAAA:
		if u.script.nx {
			resp.Rcode = dns.RcodeNameError
		}

		for _, a := range u.script.a6 {
			resp.Answer = append(resp.Answer, &dns.AAAA{
				Hdr:  dns.RR_Header{Name: q.Name, Rrtype: dns.TypeAAAA, Class: dns.ClassINET, Ttl: 300},
				AAAA: a.AsSlice(),
			})
		}
	case u.script != nil && q.Qtype == dns.TypeA:
		for _, a := range u.script.a4 {
			resp.Answer = append(resp.Answer, &dns.A{
				Hdr: dns.RR_Header{Name: q.Name, Rrtype: dns.TypeA, Class: dns.ClassINET, Ttl: 300},
				A:   a.AsSlice(),
			})
		}
	default:
		resp.Answer = []dns.RR{zzG01Sentinel(u.tag, q)}
	}

	if u.answered == nil {
		u.answered = map[uint16][]dns.RR{}
	}

	u.answered[q.Qtype] = nil
	for _, rr := range resp.Answer {
		u.answered[q.Qtype] = append(u.answered[q.Qtype], dns.Copy(rr))
	}

	return resp, nil
}

func (u *zzG01Up) Address() (addr string) { return "zz-g01-" + u.tag }
func (u *zzG01Up) Close() (err error)     { return nil }

func (u *zzG01Up) take() (calls []dns.Question) {
	u.mu.Lock()
	defer u.mu.Unlock()

	calls, u.calls = u.calls, nil
	u.answered = nil

	return calls
}

// answerTo returns the answer section given to a question of type qt since
// the last take.
func (u *zzG01Up) answerTo(qt uint16) (rrs []dns.RR) {
	u.mu.Lock()
	defer u.mu.Unlock()

	return u.answered[qt]
}

func (u *zzG01Up) setScript(sc *zzG01Script) {
	u.mu.Lock()
	defer u.mu.Unlock()

	u.script = sc
}

// zzG01QLog counts what the server writes to the query log.
type zzG01QLog struct {
	querylog.QueryLog
	mu sync.Mutex
	n  int
}

func (l *zzG01QLog) Add(_ *querylog.AddParams) {
	l.mu.Lock()
	defer l.mu.Unlock()

	l.n++
}

func (l *zzG01QLog) ShouldLog(_ string, _, _ uint16, _ []string) (ok bool) { return true }

func (l *zzG01QLog) take() (n int) {
	l.mu.Lock()
	defer l.mu.Unlock()

	n, l.n = l.n, 0

	return n
}

// zzG01Cert makes a self-signed certificate for the server name, with or
// without an IP address among its subject alternative names.
func zzG01Cert(withIP bool) (cert *tls.Certificate, err error) {
	key, err := ecdsa.GenerateKey(elliptic.P256(), crand.Reader)
	if err != nil {
		return nil, err
	}

	tmpl := &x509.Certificate{
		SerialNumber: big.NewInt(time.Now().UnixNano()),
		Subject:      pkix.Name{CommonName: zzG01SrvName},
		NotBefore:    time.Now().Add(-time.Hour),
		NotAfter:     time.Now().Add(24 * time.Hour),
		KeyUsage:     x509.KeyUsageDigitalSignature,
		ExtKeyUsage:  []x509.ExtKeyUsage{x509.ExtKeyUsageServerAuth},
		DNSNames:     []string{zzG01SrvName},
	}
	if withIP {
		tmpl.IPAddresses = []net.IP{{127, 0, 0, 1}}
	}

	der, err := x509.CreateCertificate(crand.Reader, tmpl, tmpl, &key.PublicKey, key)
	if err != nil {
		return nil, err
	}

	return &tls.Certificate{Certificate: [][]byte{der}, PrivateKey: key}, nil
}

var (
	zzG01CertOnce           sync.Once
	zzG01CertIP, zzG01CertN *tls.Certificate
)

func zzG01Certs(t testing.TB) (withIP, without *tls.Certificate) {
	zzG01CertOnce.Do(func() {
		var err error
		if zzG01CertIP, err = zzG01Cert(true); err != nil {
			t.Fatalf("certificate: %v", err)
		}
		if zzG01CertN, err = zzG01Cert(false); err != nil {
			t.Fatalf("certificate: %v", err)
		}
	})

	return zzG01CertIP, zzG01CertN
}

// ------------------------------------------------------------------ the server

// zzG01Live is one long-lived server.  The local domain suffix, the set of
// private networks and the blocklist are fixed when it is created (they are
// constructor parameters of the server and of its filter); everything else is
// changed on the live object.
type zzG01Live struct {
	t    testing.TB
	srv  *Server
	flt  *filtering.DNSFilter
	dhcp *zzG01DHCP
	gen  *zzG01Up
	priv *zzG01Up
	ql   *zzG01QLog

	suffix string
	// binds is the number of addresses every encrypted endpoint is bound to.
	binds int

	// pref64 is the prefix AAAA records are synthesised under, if DNS64 is on.
	pref64 netip.Prefix

	cur      string
	prepared int
	// hist is the sequence of configurations that were applied with a Prepare.
	hist []*zzG01Cfg
	n        uint16
	udp      bool
}

func zzG01BlockRules(blocked [][]string) (txt string) {
	var b strings.Builder
	b.WriteString("! zz-g01 blocklist\n")
	for _, n := range blocked {
		b.WriteString("||" + strings.Join(n, ".") + "^\n")
	}

	return b.String()
}

func zzG01NewLive(t testing.TB, suffix []string, nets string, blocked [][]string) (l *zzG01Live, err error) {
	l = &zzG01Live{t: t, dhcp: &zzG01DHCP{}, gen: &zzG01Up{tag: "gen"}, priv: &zzG01Up{tag: "priv"}, ql: &zzG01QLog{},
		suffix: strings.Join(suffix, "."), binds: 1}
	l.dhcp.set(false, nil)

	fc := &filtering.Config{
		BlockingMode:         filtering.BlockingModeDefault,
		BlockedServices:      emptyFilteringBlockedServices(),
		ApplyClientFiltering: applyEmptyClientFiltering,
		BlockedResponseTTL:   10,
		ProtectionEnabled:    true,
		FilteringEnabled:     true,
	}
	l.flt, err = filtering.New(fc, []filtering.Filter{{ID: 0, Data: []byte(zzG01BlockRules(blocked))}})
	if err != nil {
		return nil, fmt.Errorf("filtering.New: %w", err)
	}

	l.flt.SetEnabled(true)

	l.srv, err = NewServer(DNSCreateParams{
		DHCPServer:  l.dhcp,
		DNSFilter:   l.flt,
		QueryLog:    l.ql,
		PrivateNets: zzG01SubnetSet(nets),
		Logger:      slogutil.NewDiscardLogger(),
		LocalDomain: l.suffix,
	})
	if err != nil {
		return nil, fmt.Errorf("NewServer: %w", err)
	}

	return l, nil
}

func (l *zzG01Live) close() {
	if l.udp {
		_ = l.srv.Stop()
	}

	l.srv.Close()
	l.flt.Close()
}

func zzG01Port(s string) (p int) {
	_, _ = fmt.Sscanf(s, "%d", &p)

	return p
}

// serverConfig renders the part of cfg that Prepare consumes.
func (l *zzG01Live) serverConfig(cfg *zzG01Cfg) (sc *ServerConfig) {
	tc := &TLSConfig{}
	if cfg.TLS.On {
		withIP, without := zzG01Certs(l.t)
		tc.Cert = without
		if cfg.TLS.CertIP {
			tc.Cert = withIP
		}

		tc.ServerName = zzG01SrvName
		for i := 0; i < l.binds; i++ {
			ip := net.IP{127, 0, 0, byte(1 + i)}
			if cfg.TLS.DoH != "" {
				tc.HTTPSListenAddrs = append(tc.HTTPSListenAddrs, &net.TCPAddr{IP: ip, Port: zzG01Port(cfg.TLS.DoH)})
			}
			if cfg.TLS.DoT != "" {
				tc.TLSListenAddrs = append(tc.TLSListenAddrs, &net.TCPAddr{IP: ip, Port: zzG01Port(cfg.TLS.DoT)})
			}
			if cfg.TLS.DoQ != "" {
				tc.QUICListenAddrs = append(tc.QUICListenAddrs, &net.UDPAddr{IP: ip, Port: zzG01Port(cfg.TLS.DoQ)})
			}
		}
	}

	return &ServerConfig{
		UDPListenAddrs: []*net.UDPAddr{{IP: net.IP{127, 0, 0, 1}}},
		TCPListenAddrs: []*net.TCPAddr{{IP: net.IP{127, 0, 0, 1}}},
		TLSConf:        tc,
		Config: Config{
			UpstreamMode:     UpstreamModeLoadBalance,
			EDNSClientSubnet: &EDNSClientSubnet{},
			ClientsContainer: EmptyClientsContainer{},
			AAAADisabled:     cfg.AAAAOff,
			RefuseAny:        cfg.RefuseAny,
			HandleDDR:        cfg.DDR,
		},
		UsePrivateRDNS:    cfg.PrivPTR,
		LocalPTRResolvers: []string{"192.0.2.54:53"},
		UseDNS64:          cfg.DNS64 == "wkp" || cfg.DNS64 == "custom",
		DNS64Prefixes:     map[string][]netip.Prefix{"custom": zzG01Prefs64}[cfg.DNS64],
		ConfigModified:    func() {},
		ServePlainDNS:     true,
	}
}

// configure brings the live server to cfg: a real Prepare when a setting of
// the server changed, and the lease table / DHCP switch on the live object.
func (l *zzG01Live) configure(cfg *zzG01Cfg, leases map[string]netip.Addr) (err error) {
	l.dhcp.set(cfg.DHCP, leases)

	key := fmt.Sprintf("%v|%v|%v|%+v|%v|%d|%s", cfg.AAAAOff, cfg.RefuseAny, cfg.DDR, cfg.TLS, cfg.PrivPTR, l.binds, cfg.DNS64)
	if key == l.cur {
		return nil
	}

	if l.udp {
		// The UDP listener of the previous configuration goes away.
		_ = l.srv.Stop()
		l.udp = false
	}

	if err = l.srv.Prepare(l.serverConfig(cfg)); err != nil {
		return fmt.Errorf("Prepare: %w", err)
	}

	// As the package's own tests do: replace the upstreams after Prepare.
	l.srv.conf.UpstreamConfig.Upstreams = []upstream.Upstream{l.gen}
	if cfg.PrivPTR {
		if l.srv.conf.PrivateRDNSUpstreamConfig == nil {
			return fmt.Errorf("no private upstream configuration after Prepare")
		}

		l.srv.conf.PrivateRDNSUpstreamConfig.Upstreams = []upstream.Upstream{l.priv}
	}

	l.pref64 = netip.Prefix{}
	if ex := zzG01Excl(cfg.DNS64); len(ex) > 0 {
		l.pref64 = ex[0]
	}

	l.cur = key
	l.prepared++
	cc := *cfg
	l.hist = append(l.hist, &cc)

	return nil
}

// startUDP starts the plain-DNS listeners of the current configuration (only
// possible when no encrypted endpoint would have to be bound).
func (l *zzG01Live) startUDP() (err error) {
	if l.udp {
		return nil
	}

	if err = l.srv.Start(); err != nil {
		return err
	}

	l.udp = true

	return nil
}

// zzG01Spell renders a name; a non-canonical spelling has at least one
// upper-case letter (and needs a letter to have one).
func zzG01Spell(name []string, canon bool, rng *rand.Rand) (fqdn string) {
	s := []byte(strings.ToLower(strings.Join(name, ".")) + ".")
	if canon {
		return string(s)
	}

	var letters []int
	for i, c := range s {
		if c >= 'a' && c <= 'z' {
			letters = append(letters, i)
		}
	}

	if len(letters) == 0 {
		return string(s)
	}

	for _, i := range letters {
		if rng.Intn(2) == 0 {
			s[i] -= 'a' - 'A'
		}
	}

	i := letters[rng.Intn(len(letters))]
	if s[i] >= 'a' {
		s[i] -= 'a' - 'A'
	}

	return string(s)
}

// ask sends one question and returns the observation in the spec's vocabulary.
func (l *zzG01Live) ask(fqdn string, qt uint16, cli netip.Addr, viaUDP bool) (out zzG01Out, concrete string) {
	l.gen.take()
	l.priv.take()
	l.ql.take()

	l.n++
	m := &dns.Msg{}
	m.SetQuestion(fqdn, qt)
	m.Id = l.n

	var res *dns.Msg
	how := "doh"
	if viaUDP {
		how = "udp"
		c := &dns.Client{Net: "udp", Timeout: 3 * time.Second, Dialer: &net.Dialer{
			LocalAddr: &net.UDPAddr{IP: cli.AsSlice()},
		}}
		var err error
		res, _, err = c.Exchange(m, l.srv.dnsProxy.Addr("udp").String())
		if err != nil {
			res = nil
			how = "udp error: " + err.Error()
		}
	} else {
		buf, err := m.Pack()
		if err != nil {
			return zzG01Out{C: "other:pack:" + err.Error(), V: []string{}}, fqdn
		}

		r := httptest.NewRequest(http.MethodPost, "https://"+zzG01SrvName+"/dns-query", bytes.NewReader(buf))
		r.Header.Set("Content-Type", "application/dns-message")
		r.RemoteAddr = netip.AddrPortFrom(cli, 40000+l.n%20000).String()
		r.TLS = &tls.ConnectionState{ServerName: ""}
		w := httptest.NewRecorder()
		l.srv.ServeHTTP(w, r)
		if w.Code == http.StatusOK {
			res = &dns.Msg{}
			if err = res.Unpack(w.Body.Bytes()); err != nil {
				res = nil
				how = "doh unpack: " + err.Error()
			}
		} else {
			how = fmt.Sprintf("doh status %d", w.Code)
		}
	}

	out = l.abs(fqdn, qt, res)
	concrete = fmt.Sprintf("%s %s from %s via %s", fqdn, dns.TypeToString[qt], cli, how)
	if res != nil {
		var ans []string
		for _, rr := range res.Answer {
			ans = append(ans, strings.Join(strings.Fields(rr.String()), " "))
		}

		concrete += fmt.Sprintf(" -> %s %q", dns.RcodeToString[res.Rcode], ans)
	}

	return out, concrete
}

func zzG01NoTTL(rr dns.RR) (s string) {
	c := dns.Copy(rr)
	c.Header().Ttl = 0
	c.Header().Rdlength = 0

	return strings.ToLower(strings.Join(strings.Fields(c.String()), " "))
}

// abs projects the observation onto the spec's outcome vocabulary.
func (l *zzG01Live) abs(fqdn string, qt uint16, res *dns.Msg) (out zzG01Out) {
	out.V = []string{}
	upAns := map[string][]dns.RR{"gen": l.gen.answerTo(qt), "priv": l.priv.answerTo(qt)}
	gen, priv := l.gen.take(), l.priv.take()
	switch {
	case len(gen) == 0 && len(priv) == 0:
		out.Fwd = "none"
	case len(gen) == 1 && len(priv) == 0:
		out.Fwd = "gen"
	case len(gen) == 2 && len(priv) == 0 && qt == dns.TypeAAAA && gen[0].Qtype == qt && gen[1].Qtype == dns.TypeA &&
		strings.EqualFold(gen[1].Name, fqdn):
		// The question, then the A records of the same name (DNS64).
		out.Fwd = "gen+a"
		gen = gen[:1]
	case len(gen) == 0 && len(priv) == 1:
		out.Fwd = "priv"
	default:
		out.Fwd = fmt.Sprintf("other:gen=%d,priv=%d", len(gen), len(priv))
	}

	for _, q := range append(gen, priv...) {
		// What goes upstream must be the original question.
		if !strings.EqualFold(q.Name, fqdn) || q.Qtype != qt {
			out.Fwd += ":altered"
		}
	}

	out.Log = l.ql.take() > 0

	switch {
	case res == nil:
		out.C = "noresponse"

		return out
	case len(res.Question) != 1 || !strings.EqualFold(res.Question[0].Name, fqdn) || res.Question[0].Qtype != qt:
		out.C = "other:question"

		return out
	}

	switch res.Rcode {
	case dns.RcodeNotImplemented:
		out.C = "notimp"
	case dns.RcodeRefused:
		out.C = "ref"
	case dns.RcodeNameError:
		out.C = "nx"
	case dns.RcodeServerFailure:
		out.C = "servfail"
	case dns.RcodeSuccess:
		out.C = ""
	default:
		out.C = "other:rcode:" + dns.RcodeToString[res.Rcode]
	}

	if out.C != "" {
		if len(res.Answer) > 0 {
			out.C += "+answer"
		}

		return out
	}

	if len(res.Answer) == 0 {
		out.C = "empty"

		return out
	}

	// The upstream's answer, intact?
	for _, tag := range []string{"gen", "priv"} {
		want := upAns[tag]
		same := len(want) > 0 && len(want) == len(res.Answer)
		for i := 0; same && i < len(want); i++ {
			same = zzG01NoTTL(res.Answer[i]) == zzG01NoTTL(want[i])
		}

		if same {
			out.C = "up"
			if !strings.HasPrefix(out.Fwd, tag) {
				out.C = "other:up-from-" + tag
			}

			return out
		}
	}

	seen := map[string]bool{}
	add := func(v string) {
		if !seen[v] {
			seen[v] = true
			out.V = append(out.V, v)
		}
	}

	kinds := map[string]bool{}
	for _, rr := range res.Answer {
		if !strings.EqualFold(rr.Header().Name, fqdn) {
			kinds["other:owner"] = true

			continue
		}

		switch rr := rr.(type) {
		case *dns.A:
			a, _ := netip.AddrFromSlice(rr.A.To4())
			if a.IsUnspecified() {
				kinds["null"] = true
			} else {
				kinds["a"] = true
				add(a.String())
			}
		case *dns.AAAA:
			a, _ := netip.AddrFromSlice(rr.AAAA)
			switch {
			case a.IsUnspecified():
				kinds["null"] = true
			case l.pref64.IsValid() && l.pref64.Contains(a):
				// An address under the synthesis prefix: name the IPv4
				// address it maps.
				b := a.As16()
				kinds["aaaa"] = true
				add("syn:" + netip.AddrFrom4([4]byte(b[12:])).String())
			default:
				kinds["aaaa"] = true
				add(a.String())
			}
		case *dns.PTR:
			kinds["ptr"] = true
			add(strings.ToLower(rr.Ptr))
		case *dns.SVCB:
			kinds["svcb"] = true
			add(zzG01Endpoint(rr))
		default:
			kinds["other:rr:"+dns.TypeToString[rr.Header().Rrtype]] = true
		}
	}

	var ks []string
	for k := range kinds {
		ks = append(ks, k)
	}

	sort.Strings(ks)
	out.C = strings.Join(ks, "+")
	if (out.C == "aaaa" && qt != dns.TypeAAAA) || (out.C == "a" && qt != dns.TypeA) || (out.C == "ptr" && qt != dns.TypePTR) || (out.C == "svcb" && qt != dns.TypeSVCB) {
		out.C += ":for-" + dns.TypeToString[qt]
	}

	sort.Strings(out.V)

	return out
}

// zzG01Endpoint renders one SVCB record of a DDR answer as "<alpn>:<port>"; a
// record that does not designate this server the documented way (target, DoH
// path template, priority) is rendered differently.
func zzG01Endpoint(rr *dns.SVCB) (s string) {
	var alpn, port, path string
	for _, kv := range rr.Value {
		switch kv := kv.(type) {
		case *dns.SVCBAlpn:
			alpn = strings.Join(kv.Alpn, ",")
		case *dns.SVCBPort:
			port = fmt.Sprint(kv.Port)
		case *dns.SVCBDoHPath:
			path = kv.Template
		default:
			alpn += "?" + kv.Key().String()
		}
	}

	s = alpn + ":" + port
	switch {
	case !strings.EqualFold(rr.Target, zzG01SrvName+"."):
		s += ":target=" + rr.Target
	case rr.Priority == 0:
		// Priority 0 is the alias form: it designates nothing.
		s += ":alias"
	case alpn == "h2" && path != zzG01DoHPath:
		s += ":path=" + path
	case alpn != "h2" && path != "":
		s += ":path=" + path
	}

	return s
}

// ---------------------------------------------------------------- direction A

type zzG01Vec struct {
	Kind string       `json:"kind"`
	Reqs []zzG01Req   `json:"reqs"`
	Cfg  zzG01Cfg     `json:"cfg"`
	Tab  [][]zzG01Out `json:"tab"`
	Set  string       `json:"set"`
	Idx  []int        `json:"idx"`
	// Pre, if not empty, is a history: the configurations a fresh server is
	// taken through before Cfg (replay of a history-dependent finding).
	Pre []zzG01Cfg `json:"pre"`
}

func zzG01GroupKey(cfg *zzG01Cfg) (k string) {
	return fmt.Sprintf("%s|%s|%s", strings.Join(cfg.Suffix, "."), cfg.Nets, zzG01BlockRules(cfg.Blocked))
}

func zzG01Admissible(want []zzG01Out, got zzG01Out) (ok bool) {
	for _, w := range want {
		if w.key() == got.key() {
			return true
		}
	}

	return false
}

// zzG01TokenLeases turns the lease tokens of a direction-A configuration into
// the lease table.
func zzG01TokenLeases(cfg *zzG01Cfg) (m map[string]netip.Addr) {
	m = map[string]netip.Addr{}
	for _, le := range cfg.Leases {
		m[le.H] = netip.MustParseAddr(zzG01Addrs[le.A])
	}

	return m
}

// zzG01TokenScript turns the upstream script of a direction-A request into
// addresses.
func zzG01TokenScript(up *zzG01UpScript) (sc *zzG01Script) {
	if up == nil {
		return nil
	}

	sc = &zzG01Script{nx: up.NX}
	for _, t := range up.A6 {
		sc.a6 = append(sc.a6, netip.MustParseAddr(zzG01Addrs[t]))
	}

	for _, t := range up.A4 {
		sc.a4 = append(sc.a4, netip.MustParseAddr(zzG01Addrs[t]))
	}

	return sc
}

// zzG01Concretise maps the tokens of a direction-A outcome to the concrete
// values the harness observes.
func zzG01Concretise(cfg *zzG01Cfg, o zzG01Out) (c zzG01Out) {
	c = zzG01Out{C: o.C, Fwd: o.Fwd, Log: o.Log, V: []string{}}
	for _, v := range o.V {
		switch o.C {
		case "aaaa":
			if t, ok := strings.CutPrefix(v, "syn:"); ok {
				c.V = append(c.V, "syn:"+zzG01Addrs[t])
			} else {
				c.V = append(c.V, zzG01Addrs[v])
			}
		case "a":
			c.V = append(c.V, zzG01Addrs[v])
		case "ptr":
			c.V = append(c.V, v+"."+strings.Join(cfg.Suffix, ".")+".")
		default:
			c.V = append(c.V, v)
		}
	}

	return c
}

// TestZZVerifG01Replay is direction A.  The configurations are visited in a
// seeded order, several times; those of one group (suffix, private networks,
// blocklist) share ONE live server that is really reconfigured between them,
// so every configuration is reached after different histories: the verdict
// may depend on the current configuration and the request only.
func TestZZVerifG01Replay(t *testing.T) {
	w := zzNewWriter(t, "VERIF_OUT")
	defer w.close()

	rng := rand.New(rand.NewSource(zzSeed()))
	var reqSets = map[string][]zzG01Req{}
	var cfgs []*zzG01Vec
	zzReadNDJSON(t, "VERIF_IN", func(line []byte) {
		v := &zzG01Vec{}
		if err := json.Unmarshal(line, v); err != nil {
			t.Fatalf("bad vector: %v", err)
		}

		switch v.Kind {
		case "reqs":
			reqSets[v.Set] = v.Reqs
		case "cfg":
			cfgs = append(cfgs, v)
		}
	})

	passes := 1
	if v := zzGetenv("VERIF_G01_PASSES"); v != "" {
		_, _ = fmt.Sscanf(v, "%d", &passes)
	}

	lives := map[string]*zzG01Live{}
	defer func() {
		for _, l := range lives {
			l.close()
		}
	}()

	n, bad, flaky, viaUDP, shrunk := 0, 0, 0, 0, 0
	for pass := 0; pass < passes; pass++ {
		rng.Shuffle(len(cfgs), func(i, j int) { cfgs[i], cfgs[j] = cfgs[j], cfgs[i] })
		for _, v := range cfgs {
			cfg := &v.Cfg
			reqs := reqSets[v.Set]
			if len(v.Tab) != len(v.Idx) {
				t.Fatalf("table of %d entries for %d requests", len(v.Tab), len(v.Idx))
			}

			gk := zzG01GroupKey(cfg)
			if len(v.Pre) > 0 {
				gk = fmt.Sprintf("replay %p", v)
			}

			live := lives[gk]
			if live == nil {
				var err error
				live, err = zzG01NewLive(t, cfg.Suffix, cfg.Nets, cfg.Blocked)
				if err != nil {
					t.Fatalf("new server: %v", err)
				}

				lives[gk] = live
				for i := range v.Pre {
					if err = live.configure(&v.Pre[i], zzG01TokenLeases(&v.Pre[i])); err != nil {
						t.Fatalf("history: %v", err)
					}
				}
			}

			if err := live.configure(cfg, zzG01TokenLeases(cfg)); err != nil {
				w.put(map[string]any{"kind": "skip", "cfg": cfg, "err": err.Error()})

				continue
			}

			// A seeded part of the configurations without encrypted endpoints
			// gets its loopback-client requests over a real UDP socket.
			udp := !cfg.TLS.On && rng.Intn(3) == 0
			if udp {
				if err := live.startUDP(); err != nil {
					udp = false
				}
			}

			order := rng.Perm(len(v.Idx))
			for _, k := range order {
				req := &reqs[v.Idx[k]-1]
				want := make([]zzG01Out, len(v.Tab[k]))
				for i, o := range v.Tab[k] {
					want[i] = zzG01Concretise(cfg, o)
				}

				cli := netip.MustParseAddr(zzG01Addrs[req.Cli])
				script := zzG01TokenScript(req.Up)
				run := func(l *zzG01Live, r *rand.Rand, u bool) (got zzG01Out, conc string) {
					l.gen.setScript(script)
					got, conc = l.ask(zzG01Spell(req.Name, req.Canon, r), zzG01Qtypes[req.Qt], cli, u)
					if req.Up != nil {
						conc += fmt.Sprintf(" (upstream: nx=%v aaaa=%v a=%v)", script.nx, script.a6, script.a4)
					}

					return got, conc
				}

				n++
				u := udp && req.Cli == "alt"
				if u {
					viaUDP++
				}

				got, conc := run(live, rng, u)
				if zzG01Admissible(want, got) {
					continue
				}

				// Reproduce: again on the live server, and alone on a fresh one.
				got2, conc2 := run(live, rng, false)
				fresh, err := zzG01NewLive(t, cfg.Suffix, cfg.Nets, cfg.Blocked)
				if err != nil {
					t.Fatalf("new server: %v", err)
				}

				var got3 zzG01Out
				var conc3 string
				if err = fresh.configure(cfg, zzG01TokenLeases(cfg)); err == nil {
					got3, conc3 = run(fresh, rand.New(rand.NewSource(1)), false)
				}

				fresh.close()
				rec := map[string]any{"cfg": cfg, "req": req, "want": want, "abstract_want": v.Tab[k]}
				switch {
				case err == nil && !zzG01Admissible(want, got3):
					bad++
					rec["kind"], rec["got"], rec["concrete"], rec["how"] = "bad", got3, conc3, "alone on a fresh server"
				case !zzG01Admissible(want, got2):
					bad++
					rec["kind"], rec["got"], rec["concrete"] = "bad", got2, conc2
					rec["how"] = fmt.Sprintf("history-dependent: on the live server after %d reconfigurations; admissible alone on a fresh server", live.prepared)
					if shrunk < 3 {
						// Shrink the history: one earlier configuration, then
						// this one, on a fresh server.
						shrunk++
						for i := len(live.hist) - 2; i >= 0 && i >= len(live.hist)-400; i-- {
							f2, err2 := zzG01NewLive(t, cfg.Suffix, cfg.Nets, cfg.Blocked)
							if err2 != nil {
								break
							}

							var got4 zzG01Out
							ok := f2.configure(live.hist[i], zzG01TokenLeases(live.hist[i])) == nil &&
								f2.configure(cfg, zzG01TokenLeases(cfg)) == nil
							if ok {
								got4, _ = run(f2, rand.New(rand.NewSource(1)), false)
							}

							f2.close()
							if ok && !zzG01Admissible(want, got4) {
								rec["history"] = []*zzG01Cfg{live.hist[i]}
								rec["how"] = "history-dependent: on a fresh server that had the configuration 'history' before this one; admissible alone on a fresh server"

								break
							}
						}
					}
				default:
					flaky++
					rec["kind"], rec["got"], rec["concrete"] = "flaky", got, conc
				}

				w.put(rec)
			}
		}
	}

	prep := 0
	for _, l := range lives {
		prep += l.prepared
	}

	w.put(map[string]any{"kind": "summary", "n": n, "bad": bad, "flaky": flaky, "servers": len(lives),
		"reconfigurations": prep, "passes": passes, "via_udp": viaUDP, "cfgs": len(cfgs)})
}

// ---------------------------------------------------------------- direction B

// zzG01RFC6303 is the harness's own list of the locally served networks,
// written from RFC 6303 (sections 4.1 - 4.6) and independent of the code.
var zzG01RFC6303 = []string{
	"10.0.0.0/8", "172.16.0.0/12", "192.168.0.0/16", "0.0.0.0/8", "127.0.0.0/8", "169.254.0.0/16",
	"192.0.2.0/24", "198.51.100.0/24", "203.0.113.0/24", "255.255.255.255/32",
	"::/127", "fd00::/8", "fe80::/10", "2001:db8::/32",
}

// zzG01InNets is the harness's own private-network test.
func zzG01InNets(nets string, a netip.Addr) (ok bool) {
	txt := zzG01NetSets[nets]
	if txt == nil {
		txt = zzG01RFC6303
	}

	for _, t := range txt {
		if netip.MustParsePrefix(t).Contains(a) {
			return true
		}
	}

	return false
}

// zzG01Reverse renders the reverse name of an address, written from RFC 1035
// section 3.5 and RFC 3596 section 2.5.
func zzG01Reverse(a netip.Addr) (labels []string) {
	if a.Is4() {
		b := a.As4()

		return []string{fmt.Sprint(b[3]), fmt.Sprint(b[2]), fmt.Sprint(b[1]), fmt.Sprint(b[0]), "in-addr", "arpa"}
	}

	b := a.As16()
	for i := 15; i >= 0; i-- {
		labels = append(labels, fmt.Sprintf("%x", b[i]&0xf), fmt.Sprintf("%x", b[i]>>4))
	}

	return append(labels, "ip6", "arpa")
}

var (
	zzG01PrivPool = []string{
		"10.0.0.7", "10.200.3.4", "172.16.0.1", "172.31.255.254", "192.168.10.5", "192.168.10.99", "192.168.1.1",
		"127.0.0.1", "127.0.7.9", "169.254.10.10",
	}
	zzG01PrivPool6 = []string{"fd00::5", "fdab:cdef::1234", "fe80::1"}
	zzG01PubPool   = []string{
		"8.8.4.4", "1.1.1.1", "93.184.216.34", "172.32.0.1", "172.15.255.255", "192.169.0.1", "11.0.0.1",
		"100.64.0.5", "169.253.1.1",
	}
	zzG01PubPool6 = []string{"2606:4700::1111", "fc00::1", "2001:db9::1"}
	// Addresses under and next to the DNS64 prefixes.  None of them is the
	// mapping of an address of zzG01Pool4: a synthesised answer must be
	// distinguishable from the upstream's own (excluded) one.
	zzG01Pool64 = []string{
		"64:ff9b::102:304", "64:ff9b::909:909", "2001:67c:27e4:1064::102:305", "2001:67c:27e4:1064::a00:1",
		"2001:67c:27e4:642::c0a8:1", "64:ff9b:1::1", "2001:67c:27e4:1065::1", "2001:db8::77", "2606:4700::6810:84e5",
	}
	zzG01Pool4 = []string{"203.0.113.77", "198.51.100.4", "8.8.8.8"}
	zzG01Hosts    = []string{"printer", "nas", "tv", "my-phone", "host-1", "x", "ghost", "phantom"}
	zzG01Suffixes = [][]string{{"lan"}, {"home", "arpa"}, {"internal"}, {"corp", "example", "com"}, {"local-net"}}
)

func zzG01Pick(rng *rand.Rand, ss []string) (s string) { return ss[rng.Intn(len(ss))] }

// zzG01RandCfg draws the live part of a configuration.
func zzG01RandCfg(rng *rand.Rand, base *zzG01Cfg) (cfg *zzG01Cfg, leases map[string]netip.Addr) {
	c := *base
	cfg = &c
	cfg.AAAAOff, cfg.RefuseAny, cfg.DDR = rng.Intn(3) == 0, rng.Intn(2) == 0, rng.Intn(3) != 0
	cfg.DHCP, cfg.PrivPTR = rng.Intn(4) != 0, rng.Intn(2) == 0
	cfg.DNS64 = []string{"off", "off", "off", "wkp", "custom"}[rng.Intn(5)]
	cfg.TLS = zzG01TLS{}
	if rng.Intn(4) != 0 {
		cfg.TLS.On, cfg.TLS.CertIP = true, rng.Intn(2) == 0
		if rng.Intn(3) != 0 {
			cfg.TLS.DoH = zzG01Pick(rng, []string{"443", "8443", "4443"})
		}
		if rng.Intn(3) != 0 {
			cfg.TLS.DoT = zzG01Pick(rng, []string{"853", "8853"})
		}
		if rng.Intn(3) != 0 {
			cfg.TLS.DoQ = zzG01Pick(rng, []string{"853", "784", "8853"})
		}
	}

	leases = map[string]netip.Addr{}
	cfg.Leases = []zzG01Lease{}
	used := map[string]bool{}
	for i, n := 0, rng.Intn(6); i < n; i++ {
		h := zzG01Pick(rng, zzG01Hosts[:6])
		a := zzG01Pick(rng, zzG01PrivPool[:7])
		if rng.Intn(12) == 0 {
			// A lease outside every private network.
			a = zzG01Pick(rng, zzG01PubPool[:3])
		}

		if _, dup := leases[h]; dup || used[a] {
			continue
		}

		used[a] = true
		leases[h] = netip.MustParseAddr(a)
		cfg.Leases = append(cfg.Leases, zzG01Lease{H: h, A: a})
	}

	return cfg, leases
}

// zzG01RandName draws a question name: lower-case labels.
func zzG01RandName(rng *rand.Rand, cfg *zzG01Cfg) (name []string, rev zzG01Rev) {
	cat := func(parts ...[]string) (n []string) {
		for _, p := range parts {
			n = append(n, p...)
		}

		return n
	}

	special := [][]string{{"use-application-dns", "net"}, {"healthcheck", "adguardhome", "test"}, {"_dns", "resolver", "arpa"}}
	sfx := cfg.Suffix
	switch rng.Intn(12) {
	case 0:
		return special[rng.Intn(3)], rev
	case 1:
		s := special[rng.Intn(3)]
		switch rng.Intn(4) {
		case 0:
			return cat([]string{zzG01Pick(rng, []string{"www", "x", "_dns"})}, s), rev
		case 1:
			return cat(s, []string{"example", "com"}), rev
		case 2:
			return cat([]string{"x" + s[0]}, s[1:]), rev
		default:
			return s[1:], rev
		}
	case 2, 3, 4:
		// Host names under the local domain.
		h := zzG01Pick(rng, zzG01Hosts)
		switch rng.Intn(8) {
		case 0:
			return cat([]string{"a", h}, sfx), rev
		case 1:
			return sfx, rev
		case 2:
			return cat([]string{h, "x" + sfx[0]}, sfx[1:]), rev
		case 3:
			return cat([]string{h}, sfx, []string{"example", "com"}), rev
		case 4:
			if len(sfx) > 1 {
				return cat([]string{h}, sfx[1:]), rev
			}

			return []string{h + sfx[0]}, rev
		default:
			return cat([]string{h}, sfx), rev
		}
	case 5:
		if len(cfg.Blocked) > 0 {
			b := cfg.Blocked[rng.Intn(len(cfg.Blocked))]
			if rng.Intn(2) == 0 {
				return cat([]string{zzG01Pick(rng, []string{"www", "cdn", "a"})}, b), rev
			}

			return b, rev
		}

		return []string{"plain", "example"}, rev
	case 6, 7, 8, 9:
		// Reverse names.
		var a netip.Addr
		switch rng.Intn(8) {
		case 7:
			a = netip.MustParseAddr(zzG01Pick(rng, zzG01Pool64))
		case 0, 1:
			if len(cfg.Leases) > 0 {
				a = netip.MustParseAddr(cfg.Leases[rng.Intn(len(cfg.Leases))].A)

				break
			}

			fallthrough
		case 2:
			a = netip.MustParseAddr(zzG01Pick(rng, zzG01PrivPool))
		case 3:
			a = netip.MustParseAddr(zzG01Pick(rng, zzG01PrivPool6))
		case 4:
			a = netip.MustParseAddr(zzG01Pick(rng, zzG01PubPool))
		case 5:
			a = netip.MustParseAddr(zzG01Pick(rng, zzG01PubPool6))
		default:
			// Zone cuts that lie entirely inside or outside the networks.
			z := [][2]string{{"10.in-addr.arpa", "10.0.0.0"}, {"168.192.in-addr.arpa", "192.168.0.0"},
				{"16.172.in-addr.arpa", "172.16.0.0"}, {"8.in-addr.arpa", "8.0.0.0"}, {"1.1.in-addr.arpa", "1.1.0.0"}}[rng.Intn(5)]
			za := netip.MustParseAddr(z[1])

			return strings.Split(z[0], "."), zzG01Rev{Ok: true, Priv: zzG01InNets(cfg.Nets, za), A: "zone " + z[0]}
		}

		return zzG01Reverse(a), zzG01Rev{Ok: true, Priv: zzG01InNets(cfg.Nets, a), A: a.String(), N64: zzG01Under64(cfg.DNS64, a)}
	default:
		return [][]string{{"plain", "example"}, {"example", "org"}, {"arpa"}, {"in-addr", "arpa"}, {"net"},
			{"lan", "example", "org"}, {"www", "plain", "example"}}[rng.Intn(7)], rev
	}
}

// zzG01InPrefs is the harness's own prefix test.
func zzG01InPrefs(prefs []netip.Prefix, a netip.Addr) (ok bool) {
	for _, p := range prefs {
		if p.Contains(a) {
			return true
		}
	}

	return false
}

// zzG01Under64 says whether a PTR question for a concerns DNS64: the address
// lies under a configured prefix or under the Well-Known Prefix.
func zzG01Under64(mode string, a netip.Addr) (ok bool) {
	return mode != "off" && (zzG01InPrefs(zzG01Excl(mode), a) || zzG01WKP.Contains(a))
}

// zzG01TraceUp is the upstream's script as logged for TraceDnsFront.tla.
type zzG01TraceUp struct {
	NX bool             `json:"nx"`
	A6 []map[string]any `json:"a6"`
	A4 []string         `json:"a4"`
}

// zzG01RandScript draws what the general upstream answers.
func zzG01RandScript(rng *rand.Rand, mode string) (sc *zzG01Script, tu zzG01TraceUp) {
	sc = &zzG01Script{}
	tu = zzG01TraceUp{A6: []map[string]any{}, A4: []string{}}
	if rng.Intn(3) == 0 {
		// The sentinel answers.
		sc.a6, sc.a4 = []netip.Addr{netip.MustParseAddr("2001:db8::77")}, []netip.Addr{netip.MustParseAddr("203.0.113.77")}
	} else {
		sc.nx = rng.Intn(8) == 0
		seen := map[string]bool{}
		for i, n := 0, rng.Intn(4); i < n && !sc.nx; i++ {
			a := zzG01Pick(rng, zzG01Pool64)
			if !seen[a] {
				seen[a] = true
				sc.a6 = append(sc.a6, netip.MustParseAddr(a))
			}
		}

		for i, n := 0, rng.Intn(3); i < n; i++ {
			a := zzG01Pick(rng, zzG01Pool4)
			if !seen[a] {
				seen[a] = true
				sc.a4 = append(sc.a4, netip.MustParseAddr(a))
			}
		}
	}

	tu.NX = sc.nx
	for _, a := range sc.a6 {
		tu.A6 = append(tu.A6, map[string]any{"a": a.String(), "excl": zzG01InPrefs(zzG01Excl(mode), a)})
	}

	for _, a := range sc.a4 {
		tu.A4 = append(tu.A4, a.String())
	}

	return sc, tu
}

// TestZZVerifG01Trace is direction B: a seeded random run over a larger
// universe (other local domains, lease tables, ports, private-network sets,
// IPv6 clients and reverse names), logged in the vocabulary of
// TraceDnsFront.tla.
func TestZZVerifG01Trace(t *testing.T) {
	w := zzNewWriter(t, "VERIF_OUT")
	defer w.close()

	rng := rand.New(rand.NewSource(zzSeed()))
	servers, perServer, perCfg := 12, 12, 30
	if strings.EqualFold(strings.TrimSpace(zzGetenv("VERIF_TIER")), "thorough") {
		servers, perServer = 40, 25
	}

	qts := []string{"A", "A", "A", "AAAA", "AAAA", "ANY", "SVCB", "PTR", "PTR", "PTR", "SOA", "NS", "TXT", "MX"}
	netNames := []string{"default", "default", "custom", "wide"}
	for si := 0; si < servers; si++ {
		base := &zzG01Cfg{Suffix: zzG01Suffixes[rng.Intn(len(zzG01Suffixes))], Nets: netNames[rng.Intn(len(netNames))], Blocked: [][]string{}}
		cands := [][]string{{"use-application-dns", "net"}, {"healthcheck", "adguardhome", "test"}, {"_dns", "resolver", "arpa"},
			{"ads", "example"}, {"tracker", "example", "net"}}
		for _, h := range zzG01Hosts {
			cands = append(cands, append([]string{h}, base.Suffix...))
		}

		for _, c := range cands {
			if rng.Intn(3) == 0 {
				base.Blocked = append(base.Blocked, c)
			}
		}

		live, err := zzG01NewLive(t, base.Suffix, base.Nets, base.Blocked)
		if err != nil {
			t.Fatalf("new server: %v", err)
		}

		live.binds = 1 + rng.Intn(2)
		for ci := 0; ci < perServer; ci++ {
			cfg, leases := zzG01RandCfg(rng, base)
			if err = live.configure(cfg, leases); err != nil {
				t.Fatalf("configure %+v: %v", cfg, err)
			}

			for qi := 0; qi < perCfg; qi++ {
				name, rev := zzG01RandName(rng, cfg)
				canon := rng.Intn(3) != 0
				fqdn := zzG01Spell(name, canon, rng)
				canon = fqdn == strings.ToLower(fqdn)
				qt := qts[rng.Intn(len(qts))]

				var pool []string
				switch rng.Intn(4) {
				case 0:
					pool = zzG01PubPool
				case 1:
					pool = append(append([]string{}, zzG01PrivPool6...), zzG01PubPool6...)
				default:
					pool = zzG01PrivPool
				}

				cli := netip.MustParseAddr(zzG01Pick(rng, pool))
				script, tup := zzG01RandScript(rng, cfg.DNS64)
				live.gen.setScript(script)
				got, conc := live.ask(fqdn, zzG01Qtypes[qt], cli, false)
				if got.C == "ptr" {
					tail := "." + strings.Join(cfg.Suffix, ".") + "."
					for i, v := range got.V {
						if strings.HasSuffix(v, tail) {
							got.V[i] = strings.TrimSuffix(v, tail)
						}
					}
				}

				w.put(map[string]any{
					"cfg": cfg,
					"req": map[string]any{"name": name, "canon": canon, "qt": qt, "cli": cli.String(),
						"cpriv": zzG01InNets(cfg.Nets, cli), "rev": rev, "up": tup},
					"out": got, "concrete": conc,
				})
			}
		}

		live.close()
	}
}
