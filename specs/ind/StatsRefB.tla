----------------------------- MODULE StatsRefB -----------------------------
(***************************************************************************)
(* G12 correspondence, direction  StatsInd!Spec => Stats!Spec,  root =     *)
(* StatsInd with the constants of Stats.mc.cfg; checks/g12.py compares the *)
(* number of reachable states with StatsRefA.                              *)
(***************************************************************************)
EXTENDS StatsInd

Orig == INSTANCE Stats WITH EmitEdges <- FALSE

ASSUME ConstOK

OrigSpec == Orig!Spec
OrigInvs == /\ Orig!TypeOK /\ Orig!CountedOnceInItsHour /\ Orig!SurvivesRestart
            /\ Orig!ExactlyOneCategory /\ Orig!Conservation /\ Orig!OldNotReported
            /\ Orig!HourlySumsToTotal /\ Orig!DailyNeverExceeds
=============================================================================
