SPECIFICATION Spec
