SPECIFICATION SpecGen01
CONSTANT AllModes = TRUE
INVARIANTS Gen_C01
