// Command c11_routes is the route extractor of property C11.
//
// It walks every Go package of the AdGuard Home module (non-test files that
// match the build constraints of the requested GOOS), and collects every HTTP
// route registration:
//
//   - "direct" registrations: calls <mux>.Handle(pattern, h) and
//     <mux>.HandleFunc(pattern, h);
//   - "callback" registrations: calls of a value of type aghhttp.RegisterFunc
//     (struct fields of that type such as conf.HTTPRegister, parameters of
//     that type, local copies of them) and calls of a "registrar", i.e. a
//     function with RegisterFunc's signature that itself registers on a mux
//     (home.httpRegister).
//
// For every registration the wrapper chain is read off the handler argument
// expression, outermost wrapper first, e.g.
//
//	postInstallHandler(optionalAuthHandler(gziphandler.GzipHandler(ensureHandler(method, h))))
//	  => postInstall, optionalAuth, gzip, ensure
//
// Callback registrations get the chain of the registrar(s) that the code base
// binds to the RegisterFunc values (every assignment / composite-literal field
// / argument of that type is collected as a "binding").
//
// Only the standard library is used (go/ast, go/parser, go/build); there is no
// type checking, the analysis is syntactic.  What it cannot interpret it
// reports in "warnings" (the check turns them into an inconclusive verdict)
// and the conformance harness cross-checks the extracted pattern set against
// the patterns found on the real mux at run time.
package main

import (
	"encoding/json"
	"flag"
	"fmt"
	"go/ast"
	"go/build"
	"go/parser"
	"go/printer"
	"go/token"
	"os"
	"path/filepath"
	"sort"
	"strconv"
	"strings"
)

// Route is one extracted registration.
type Route struct {
	Pat       string   `json:"pat"`
	Method    string   `json:"method"` // declared method; "" = any; "?" = not constant
	Chain     []string `json:"chain"`  // outermost first
	Via       string   `json:"via"`    // "direct" | "callback"
	Mux       string   `json:"mux"`    // receiver expression of the Handle call
	Registrar string   `json:"registrar,omitempty"`
	Site      string   `json:"site"`
	Pkg       string   `json:"pkg"`
	Fn        string   `json:"fn"`
	Handler   string   `json:"handler"`
	Reachable bool     `json:"reachable"` // package is in the import closure of the main package
	GOOS      []string `json:"goos"`
}

// Binding is one place where a RegisterFunc value is bound.
type Binding struct {
	Site      string `json:"site"`
	Pkg       string `json:"pkg"`
	Target    string `json:"target"` // field / parameter
	Value     string `json:"value"`  // source text
	Kind      string `json:"kind"`   // "registrar" | "passthrough" | "nil" | "unknown"
	Registrar string `json:"registrar,omitempty"`
	Reachable bool   `json:"reachable"`
}

// Template is one registration performed by a registrar.
type Template struct {
	When  string   `json:"when"` // "empty" | "nonempty" | "any"  (condition on the method argument)
	Mux   string   `json:"mux"`
	Chain []string `json:"chain"`
	Site  string   `json:"site"`
}

// Registrar is a function with RegisterFunc's signature.
type Registrar struct {
	ID        string     `json:"id"`
	Site      string     `json:"site"`
	Templates []Template `json:"templates"`
	Err       string     `json:"err,omitempty"`
}

// Output is the JSON document written by the tool.
type Output struct {
	Repo       string      `json:"repo"`
	Module     string      `json:"module"`
	GOOS       []string    `json:"goos"`
	Routes     []*Route    `json:"routes"`
	Bindings   []*Binding  `json:"bindings"`
	Registrars []Registrar `json:"registrars"`
	Ignored    []string    `json:"ignored_handle_calls"`
	Warnings   []string    `json:"warnings"`
	Notes      []string    `json:"notes"` // warnings about packages that are not linked into the binary
	Files      int         `json:"files_parsed"`
	Packages   int         `json:"packages"`
}

type pkgInfo struct {
	dir       string // relative to the repo root, "." for the root
	imp       string // import path
	name      string
	files     []*ast.File
	fnames    []string
	funcs     map[string]*ast.FuncDecl // plain functions and methods (by bare name)
	consts    map[string]string
	reachable bool
}

type extractor struct {
	root     string
	module   string
	goos     string
	fset     *token.FileSet
	pkgs     map[string]*pkgInfo
	regField map[string]bool // names of struct fields of type RegisterFunc
	regs     map[string]*Registrar
	out      *Output
	warned   map[string]bool
}

func main() {
	repo := flag.String("repo", "/repo", "repository root")
	goosList := flag.String("goos", "linux", "comma separated GOOS values to extract for")
	outJSON := flag.String("json", "", "write JSON here (default stdout)")
	outTLA := flag.String("tla", "", "write RoutesGenerated.tla here")
	flag.Parse()

	final := &Output{Repo: *repo}
	byKey := map[string]*Route{}
	bindKey := map[string]bool{}
	regKey := map[string]bool{}
	warnKey := map[string]bool{}
	ignKey := map[string]bool{}
	for _, goos := range strings.Split(*goosList, ",") {
		goos = strings.TrimSpace(goos)
		if goos == "" {
			continue
		}

		ex := &extractor{
			root: *repo, goos: goos, fset: token.NewFileSet(), pkgs: map[string]*pkgInfo{},
			regField: map[string]bool{}, regs: map[string]*Registrar{}, out: &Output{}, warned: map[string]bool{},
		}
		if err := ex.run(); err != nil {
			fmt.Fprintln(os.Stderr, "c11_routes:", err)
			os.Exit(2)
		}

		final.Module = ex.module
		final.GOOS = append(final.GOOS, goos)
		if ex.out.Files > final.Files {
			final.Files = ex.out.Files
		}

		if ex.out.Packages > final.Packages {
			final.Packages = ex.out.Packages
		}

		for _, r := range ex.out.Routes {
			k := r.Pat + "|" + r.Method + "|" + strings.Join(r.Chain, ",") + "|" + r.Site + "|" + r.Registrar
			if o, ok := byKey[k]; ok {
				o.GOOS = append(o.GOOS, goos)

				continue
			}

			r.GOOS = []string{goos}
			byKey[k] = r
			final.Routes = append(final.Routes, r)
		}

		for _, b := range ex.out.Bindings {
			k := b.Site + "|" + b.Target + "|" + b.Value
			if !bindKey[k] {
				bindKey[k] = true
				final.Bindings = append(final.Bindings, b)
			}
		}

		for _, r := range ex.out.Registrars {
			if !regKey[r.ID] {
				regKey[r.ID] = true
				final.Registrars = append(final.Registrars, r)
			}
		}

		for _, w := range ex.out.Warnings {
			if !warnKey[w] {
				warnKey[w] = true
				final.Warnings = append(final.Warnings, w)
			}
		}

		for _, w := range ex.out.Notes {
			if !warnKey["n:"+w] {
				warnKey["n:"+w] = true
				final.Notes = append(final.Notes, w)
			}
		}

		for _, w := range ex.out.Ignored {
			if !ignKey[w] {
				ignKey[w] = true
				final.Ignored = append(final.Ignored, w)
			}
		}
	}

	sort.Slice(final.Routes, func(i, j int) bool {
		a, b := final.Routes[i], final.Routes[j]
		if a.Pat != b.Pat {
			return a.Pat < b.Pat
		}

		return a.Site < b.Site
	})

	b, err := json.MarshalIndent(final, "", " ")
	if err != nil {
		fmt.Fprintln(os.Stderr, "c11_routes:", err)
		os.Exit(2)
	}

	if *outJSON == "" {
		fmt.Println(string(b))
	} else if err = os.WriteFile(*outJSON, b, 0o644); err != nil {
		fmt.Fprintln(os.Stderr, "c11_routes:", err)
		os.Exit(2)
	}

	if *outTLA != "" {
		if err = os.WriteFile(*outTLA, []byte(renderTLA(final)), 0o644); err != nil {
			fmt.Fprintln(os.Stderr, "c11_routes:", err)
			os.Exit(2)
		}
	}
}

// ------------------------------------------------------------------ parsing

func (ex *extractor) warn(format string, a ...any) {
	s := fmt.Sprintf(format, a...)
	if !ex.warned[s] {
		ex.warned[s] = true
		ex.out.Warnings = append(ex.out.Warnings, s)
	}
}

// warnIn is warn for a finding inside package p: findings in packages that
// are not linked into the binary are only noted.
func (ex *extractor) warnIn(p *pkgInfo, format string, a ...any) {
	if p.reachable {
		ex.warn(format, a...)

		return
	}

	s := "[not linked] " + fmt.Sprintf(format, a...)
	if !ex.warned[s] {
		ex.warned[s] = true
		ex.out.Notes = append(ex.out.Notes, s)
	}
}

func (ex *extractor) run() (err error) {
	mod, err := os.ReadFile(filepath.Join(ex.root, "go.mod"))
	if err != nil {
		return err
	}

	for _, l := range strings.Split(string(mod), "\n") {
		if strings.HasPrefix(l, "module ") {
			ex.module = strings.TrimSpace(strings.TrimPrefix(l, "module "))

			break
		}
	}

	if ex.module == "" {
		return fmt.Errorf("no module line in go.mod")
	}

	bctx := build.Default
	bctx.GOOS = ex.goos
	bctx.GOARCH = "amd64"
	bctx.CgoEnabled = false
	bctx.BuildTags = nil
	bctx.ToolTags = build.Default.ToolTags
	bctx.ReleaseTags = build.Default.ReleaseTags

	err = filepath.WalkDir(ex.root, func(p string, d os.DirEntry, werr error) error {
		if werr != nil {
			return werr
		}

		if d.IsDir() {
			n := d.Name()
			if p != ex.root && (strings.HasPrefix(n, ".") || strings.HasPrefix(n, "_") ||
				n == "testdata" || n == "node_modules" || n == "vendor") {
				return filepath.SkipDir
			}

			return nil
		}

		n := d.Name()
		if !strings.HasSuffix(n, ".go") || strings.HasSuffix(n, "_test.go") {
			return nil
		}

		dir := filepath.Dir(p)
		ok, merr := bctx.MatchFile(dir, n)
		if merr != nil || !ok {
			return nil
		}

		f, perr := parser.ParseFile(ex.fset, p, nil, parser.SkipObjectResolution)
		if perr != nil {
			ex.warn("cannot parse %s: %v", ex.rel(p), perr)

			return nil
		}

		rel, _ := filepath.Rel(ex.root, dir)
		key := rel + "|" + f.Name.Name
		pi := ex.pkgs[key]
		if pi == nil {
			imp := ex.module
			if rel != "." {
				imp = ex.module + "/" + filepath.ToSlash(rel)
			}

			pi = &pkgInfo{dir: rel, imp: imp, name: f.Name.Name, funcs: map[string]*ast.FuncDecl{}, consts: map[string]string{}}
			ex.pkgs[key] = pi
		}

		pi.files = append(pi.files, f)
		pi.fnames = append(pi.fnames, p)
		ex.out.Files++

		return nil
	})
	if err != nil {
		return err
	}

	ex.out.Packages = len(ex.pkgs)
	ex.reachability()
	ex.declPass()
	ex.registrarPass()
	ex.callPass()

	return nil
}

func (ex *extractor) rel(p string) string {
	r, err := filepath.Rel(ex.root, p)
	if err != nil {
		return p
	}

	return filepath.ToSlash(r)
}

func (ex *extractor) site(n ast.Node) string {
	pos := ex.fset.Position(n.Pos())

	return ex.rel(pos.Filename) + ":" + strconv.Itoa(pos.Line)
}

func (ex *extractor) text(n ast.Node) string {
	var sb strings.Builder
	_ = printer.Fprint(&sb, ex.fset, n)
	s := strings.Join(strings.Fields(sb.String()), " ")
	if len(s) > 160 {
		s = s[:160] + "..."
	}

	return s
}

// reachability marks the packages in the import closure of the root main
// package (the AdGuardHome binary).
func (ex *extractor) reachability() {
	byImp := map[string][]*pkgInfo{}
	for _, p := range ex.pkgs {
		byImp[p.imp] = append(byImp[p.imp], p)
	}

	var queue []*pkgInfo
	for _, p := range ex.pkgs {
		if p.dir == "." && p.name == "main" {
			p.reachable = true
			queue = append(queue, p)
		}
	}

	if len(queue) == 0 {
		ex.warn("no main package at the repository root: every package is treated as reachable")
		for _, p := range ex.pkgs {
			p.reachable = true
		}

		return
	}

	for len(queue) > 0 {
		p := queue[0]
		queue = queue[1:]
		for _, f := range p.files {
			for _, is := range f.Imports {
				path, _ := strconv.Unquote(is.Path.Value)
				for _, q := range byImp[path] {
					if !q.reachable && q.name != "main" {
						q.reachable = true
						queue = append(queue, q)
					}
				}
			}
		}
	}
}

// ------------------------------------------------------------- declarations

func isHandlerFuncType(e ast.Expr) bool {
	switch t := e.(type) {
	case *ast.SelectorExpr:
		return t.Sel.Name == "HandlerFunc"
	case *ast.FuncType:
		return t.Params != nil && len(flatten(t.Params)) == 2 && t.Results == nil
	}

	return false
}

func isString(e ast.Expr) bool {
	id, ok := e.(*ast.Ident)

	return ok && id.Name == "string"
}

type param struct {
	name string
	typ  ast.Expr
}

func flatten(fl *ast.FieldList) (ps []param) {
	if fl == nil {
		return nil
	}

	for _, f := range fl.List {
		if len(f.Names) == 0 {
			ps = append(ps, param{"", f.Type})

			continue
		}

		for _, n := range f.Names {
			ps = append(ps, param{n.Name, f.Type})
		}
	}

	return ps
}

// isRegSig reports whether ft is func(string, string, http.HandlerFunc).
func isRegSig(ft *ast.FuncType) bool {
	if ft == nil || (ft.Results != nil && len(ft.Results.List) > 0) {
		return false
	}

	ps := flatten(ft.Params)

	return len(ps) == 3 && isString(ps[0].typ) && isString(ps[1].typ) && isHandlerFuncType(ps[2].typ)
}

// isRegType reports whether e denotes the type aghhttp.RegisterFunc (or an
// identical function type literal).
func isRegType(e ast.Expr, pkgName string) bool {
	switch t := e.(type) {
	case *ast.SelectorExpr:
		return t.Sel.Name == "RegisterFunc"
	case *ast.Ident:
		return t.Name == "RegisterFunc" && pkgName == "aghhttp"
	case *ast.FuncType:
		return isRegSig(t)
	}

	return false
}

func (ex *extractor) declPass() {
	for _, p := range ex.pkgs {
		for _, f := range p.files {
			for _, d := range f.Decls {
				switch d := d.(type) {
				case *ast.FuncDecl:
					p.funcs[d.Name.Name] = d
				case *ast.GenDecl:
					for _, s := range d.Specs {
						switch s := s.(type) {
						case *ast.ValueSpec:
							if d.Tok == token.CONST {
								for i, n := range s.Names {
									if i < len(s.Values) {
										if bl, ok := s.Values[i].(*ast.BasicLit); ok && bl.Kind == token.STRING {
											v, _ := strconv.Unquote(bl.Value)
											p.consts[n.Name] = v
										}
									}
								}
							}
						}
					}
				}
			}

			ast.Inspect(f, func(n ast.Node) bool {
				st, ok := n.(*ast.StructType)
				if !ok || st.Fields == nil {
					return true
				}

				for _, fld := range st.Fields.List {
					if isRegType(fld.Type, p.name) {
						for _, nm := range fld.Names {
							ex.regField[nm.Name] = true
						}
					}
				}

				return true
			})
		}
	}
}

// ---------------------------------------------------------------- chains

// wrapper names whose meaning the specification knows.
var wrapperNames = map[string]string{
	"postInstall":         "postInstall",
	"postInstallHandler":  "postInstall",
	"optionalAuth":        "optionalAuth",
	"optionalAuthHandler": "optionalAuth",
	"preInstall":          "preInstall",
	"preInstallHandler":   "preInstall",
	"GzipHandler":         "gzip",
}

func calleeName(e ast.Expr) string {
	switch t := e.(type) {
	case *ast.Ident:
		return t.Name
	case *ast.SelectorExpr:
		return t.Sel.Name
	case *ast.ParenExpr:
		return calleeName(t.X)
	}

	return ""
}

type chainRes struct {
	chain   []string
	method  string // method given to ensure(...), "" if none, "$method" if it is the registrar's method parameter
	handler string
}

// constMethod interprets a method argument: http.MethodGet, "GET", "".
func (ex *extractor) constMethod(p *pkgInfo, e ast.Expr) (m string, ok bool) {
	switch t := e.(type) {
	case *ast.BasicLit:
		if t.Kind == token.STRING {
			v, err := strconv.Unquote(t.Value)

			return v, err == nil
		}
	case *ast.SelectorExpr:
		if x, isID := t.X.(*ast.Ident); isID && x.Name == "http" && strings.HasPrefix(t.Sel.Name, "Method") {
			return strings.ToUpper(strings.TrimPrefix(t.Sel.Name, "Method")), true
		}
	case *ast.Ident:
		if v, has := p.consts[t.Name]; has {
			return v, true
		}
	}

	return "", false
}

// chainOf reads the wrapper chain off a handler expression.  methodParam is
// the name of the enclosing registrar's method parameter ("" outside one).
func (ex *extractor) chainOf(p *pkgInfo, e ast.Expr, methodParam string) (res chainRes) {
	for {
		switch t := e.(type) {
		case *ast.ParenExpr:
			e = t.X

			continue
		case *ast.UnaryExpr:
			// &postInstallHandlerStruct{h} and the like.
			if cl, ok := t.X.(*ast.CompositeLit); ok && t.Op == token.AND {
				res.chain = append(res.chain, "opaque:"+ex.text(cl.Type))
				res.handler = ex.text(e)

				return res
			}
		case *ast.CallExpr:
			name := calleeName(t.Fun)
			switch {
			case name == "HandlerFunc" && len(t.Args) == 1:
				// http.HandlerFunc(f): a conversion.
				e = t.Args[0]

				continue
			case name == "withMiddlewares" && len(t.Args) >= 1:
				// withMiddlewares(h, m1, m2, m3) == m3(m2(m1(h))).
				for i := len(t.Args) - 1; i >= 1; i-- {
					mn := calleeName(t.Args[i])
					if w, ok := wrapperNames[mn]; ok {
						res.chain = append(res.chain, w)
					} else {
						res.chain = append(res.chain, "opaque:"+ex.text(t.Args[i]))
					}
				}

				e = t.Args[0]

				continue
			case (name == "ensure" || name == "ensureHandler") && len(t.Args) == 2:
				res.chain = append(res.chain, "ensure")
				if id, ok := t.Args[0].(*ast.Ident); ok && methodParam != "" && id.Name == methodParam {
					res.method = "$method"
				} else if m, ok := ex.constMethod(p, t.Args[0]); ok {
					res.method = m
				} else {
					res.method = "?"
				}

				e = t.Args[1]

				continue
			case name == "ensureGET" && len(t.Args) == 1:
				res.chain = append(res.chain, "ensure")
				res.method = "GET"
				e = t.Args[0]

				continue
			case name == "ensurePOST" && len(t.Args) == 1:
				res.chain = append(res.chain, "ensure")
				res.method = "POST"
				e = t.Args[0]

				continue
			}

			if w, ok := wrapperNames[name]; ok && len(t.Args) == 1 {
				res.chain = append(res.chain, w)
				e = t.Args[0]

				continue
			}

			// A helper of the same package that only composes wrappers around
			// its parameter, func f(h) T { return a(b(h)) }, is expanded.
			if sub, ok := ex.expandHelper(p, t, methodParam, 0); ok {
				res.chain = append(res.chain, sub...)
				e = t.Args[len(t.Args)-1]

				continue
			}

			// A call the extractor has no meaning for: a constructor of the
			// handler (http.FileServer(...)), or an unknown wrapper.  If one
			// of its arguments is itself a call or a function value we treat
			// it as an opaque wrapper around its last argument, otherwise as
			// the handler itself.
			if len(t.Args) >= 1 && ex.looksLikeWrapper(p, t) {
				res.chain = append(res.chain, "opaque:"+ex.text(t.Fun))
				e = t.Args[len(t.Args)-1]

				continue
			}
		}

		res.handler = ex.text(e)

		return res
	}
}

// expandHelper returns the chain of a one-parameter helper whose body is a
// single return of wrappers applied to that parameter.
func (ex *extractor) expandHelper(p *pkgInfo, c *ast.CallExpr, methodParam string, depth int) (chain []string, ok bool) {
	id, isID := c.Fun.(*ast.Ident)
	if !isID || len(c.Args) != 1 || depth > 4 {
		return nil, false
	}

	fd := p.funcs[id.Name]
	if fd == nil || fd.Recv != nil || fd.Body == nil || len(fd.Body.List) != 1 {
		return nil, false
	}

	ps := flatten(fd.Type.Params)
	ret, isRet := fd.Body.List[0].(*ast.ReturnStmt)
	if len(ps) != 1 || !isRet || len(ret.Results) != 1 {
		return nil, false
	}

	sub := ex.chainOf(p, ret.Results[0], methodParam)
	if sub.handler != ps[0].name && sub.handler != ps[0].name+".ServeHTTP" {
		return nil, false
	}

	for _, w := range sub.chain {
		if w == "ensure" || strings.HasPrefix(w, "opaque:") {
			return nil, false
		}
	}

	return sub.chain, true
}

// looksLikeWrapper: a call to a function declared in the same package whose
// last parameter is a handler (func or http.Handler/http.HandlerFunc).
func (ex *extractor) looksLikeWrapper(p *pkgInfo, c *ast.CallExpr) bool {
	id, ok := c.Fun.(*ast.Ident)
	if !ok {
		return false
	}

	fd := p.funcs[id.Name]
	if fd == nil || fd.Recv != nil {
		return false
	}

	ps := flatten(fd.Type.Params)
	if len(ps) == 0 {
		return false
	}

	last := ps[len(ps)-1].typ
	if isHandlerFuncType(last) {
		return true
	}

	if se, isSel := last.(*ast.SelectorExpr); isSel && (se.Sel.Name == "Handler" || se.Sel.Name == "HandlerFunc") {
		return true
	}

	return false
}

// ------------------------------------------------------------- registrars

func isMuxRecv(s string) bool {
	l := strings.ToLower(s)

	return l == "http" || l == "mux" || strings.HasSuffix(l, "mux") || strings.HasSuffix(l, ".mux")
}

// directReg recognises <recv>.Handle(pat, h) / <recv>.HandleFunc(pat, h).
func (ex *extractor) directReg(c *ast.CallExpr) (recv string, ok bool) {
	se, isSel := c.Fun.(*ast.SelectorExpr)
	if !isSel || (se.Sel.Name != "Handle" && se.Sel.Name != "HandleFunc") || len(c.Args) != 2 {
		return "", false
	}

	recv = ex.text(se.X)
	if isMuxRecv(recv) {
		return recv, true
	}

	// Unknown receiver: still a registration if the first argument is a
	// string literal that looks like a pattern.
	if bl, isLit := c.Args[0].(*ast.BasicLit); isLit && bl.Kind == token.STRING {
		v, _ := strconv.Unquote(bl.Value)
		if strings.HasPrefix(v, "/") || strings.Contains(v, " /") {
			return recv, true
		}
	}

	ex.out.Ignored = append(ex.out.Ignored, ex.site(c)+": "+ex.text(c))

	return "", false
}

func (ex *extractor) analyseRegistrar(p *pkgInfo, id string, ft *ast.FuncType, body *ast.BlockStmt, at ast.Node) *Registrar {
	r := &Registrar{ID: id, Site: ex.site(at)}
	ps := flatten(ft.Params)
	mParam, uParam := ps[0].name, ps[1].name
	sawEmptyReturn := false

	var regsIn func(stmts []ast.Stmt, when string)
	regsIn = func(stmts []ast.Stmt, when string) {
		for _, s := range stmts {
			switch s := s.(type) {
			case *ast.ExprStmt:
				c, ok := s.X.(*ast.CallExpr)
				if !ok {
					continue
				}

				recv, isReg := ex.directReg(c)
				if !isReg {
					if ex.containsReg(s) {
						r.Err = "registration nested in an expression at " + ex.site(s)
					}

					continue
				}

				if pid, isID := c.Args[0].(*ast.Ident); !isID || pid.Name != uParam {
					r.Err = "registrar registers a pattern that is not its url parameter at " + ex.site(c)

					continue
				}

				cr := ex.chainOf(p, c.Args[1], mParam)
				w := when
				if w == "rest" {
					if sawEmptyReturn {
						w = "nonempty"
					} else {
						w = "any"
					}
				}

				r.Templates = append(r.Templates, Template{When: w, Mux: recv, Chain: cr.chain, Site: ex.site(c)})
			case *ast.IfStmt:
				if when == "rest" && s.Init == nil && s.Else == nil && isEmptyTest(s.Cond, mParam) && endsInReturn(s.Body) {
					regsIn(s.Body.List, "empty")
					sawEmptyReturn = true

					continue
				}

				if ex.containsReg(s) {
					r.Err = "registration under a condition the extractor cannot interpret at " + ex.site(s)
				}
			default:
				if ex.containsReg(s) {
					r.Err = "registration in a statement the extractor cannot interpret at " + ex.site(s)
				}
			}
		}
	}
	regsIn(body.List, "rest")

	if len(r.Templates) == 0 && r.Err == "" {
		r.Err = "no registration found in the body"
	}

	return r
}

func isEmptyTest(e ast.Expr, param string) bool {
	be, ok := e.(*ast.BinaryExpr)
	if !ok || be.Op != token.EQL {
		return false
	}

	id, ok1 := be.X.(*ast.Ident)
	bl, ok2 := be.Y.(*ast.BasicLit)

	return ok1 && ok2 && id.Name == param && bl.Value == `""`
}

func endsInReturn(b *ast.BlockStmt) bool {
	if len(b.List) == 0 {
		return false
	}

	_, ok := b.List[len(b.List)-1].(*ast.ReturnStmt)

	return ok
}

func (ex *extractor) containsReg(n ast.Node) (found bool) {
	ast.Inspect(n, func(m ast.Node) bool {
		if c, ok := m.(*ast.CallExpr); ok {
			if se, isSel := c.Fun.(*ast.SelectorExpr); isSel && (se.Sel.Name == "Handle" || se.Sel.Name == "HandleFunc") && len(c.Args) == 2 {
				if isMuxRecv(ex.text(se.X)) {
					found = true
				}
			}
		}

		return !found
	})

	return found
}

func (ex *extractor) registrarPass() {
	for _, p := range ex.pkgs {
		for name, fd := range p.funcs {
			if fd.Recv != nil || fd.Body == nil || !isRegSig(fd.Type) {
				continue
			}

			// Only functions that do register something count as registrars
			// (a handler-less helper with the same signature is not one).
			if !ex.containsReg(fd.Body) {
				continue
			}

			id := p.name + "." + name
			r := ex.analyseRegistrar(p, id, fd.Type, fd.Body, fd)
			ex.regs[id] = r
			if r.Err != "" {
				ex.warnIn(p, "registrar %s (%s): %s", id, r.Site, r.Err)
			}
		}
	}
}

// ------------------------------------------------------------------- calls

type fnCtx struct {
	p         *pkgInfo
	name      string
	regParams map[string]bool // parameters of type RegisterFunc
	regLocals map[string]bool // locals copied from a RegisterFunc value
	registrar *Registrar      // set when the function itself is a registrar
	urlParam  string
}

func (ex *extractor) isRegValue(fc *fnCtx, e ast.Expr) bool {
	switch t := e.(type) {
	case *ast.Ident:
		return fc.regParams[t.Name] || fc.regLocals[t.Name]
	case *ast.SelectorExpr:
		return ex.regField[t.Sel.Name]
	case *ast.ParenExpr:
		return ex.isRegValue(fc, t.X)
	}

	return false
}

func (ex *extractor) callPass() {
	for _, p := range ex.pkgs {
		for _, f := range p.files {
			for _, d := range f.Decls {
				switch d := d.(type) {
				case *ast.FuncDecl:
					if d.Body == nil {
						continue
					}

					fc := &fnCtx{p: p, name: d.Name.Name, regParams: map[string]bool{}, regLocals: map[string]bool{}}
					if d.Recv != nil && len(d.Recv.List) == 1 {
						fc.name = "(" + ex.text(d.Recv.List[0].Type) + ")." + d.Name.Name
					}

					for _, prm := range flatten(d.Type.Params) {
						if prm.name != "" && isRegType(prm.typ, p.name) {
							fc.regParams[prm.name] = true
						}
					}

					if r := ex.regs[p.name+"."+d.Name.Name]; r != nil && d.Recv == nil {
						fc.registrar = r
						fc.urlParam = flatten(d.Type.Params)[1].name
					}

					ex.walkBody(fc, d.Body)
				case *ast.GenDecl:
					fc := &fnCtx{p: p, name: "<package level>", regParams: map[string]bool{}, regLocals: map[string]bool{}}
					ex.walkBody(fc, d)
				}
			}
		}
	}

	// Expand callback routes with the registrars that are bound in the
	// reachable part of the program.
	bound := map[string]bool{}
	for _, b := range ex.out.Bindings {
		if b.Kind == "registrar" && b.Reachable {
			bound[b.Registrar] = true
		}

		if b.Kind == "unknown" && b.Reachable {
			ex.warn("RegisterFunc value bound to an expression the extractor cannot interpret at %s: %s", b.Site, b.Value)
		}
	}

	var boundIDs []string
	for id := range bound {
		boundIDs = append(boundIDs, id)
	}

	sort.Strings(boundIDs)

	var routes []*Route
	for _, r := range ex.out.Routes {
		if r.Via != "callback" {
			routes = append(routes, r)

			continue
		}

		ids := boundIDs
		if r.Registrar != "" {
			ids = []string{r.Registrar}
		}

		if len(ids) == 0 {
			ex.warn("callback registration at %s but no registrar is bound anywhere", r.Site)
			r.Chain = []string{"opaque:unbound"}
			routes = append(routes, r)

			continue
		}

		for _, id := range ids {
			reg := ex.regs[id]
			if reg == nil {
				ex.warn("unknown registrar %s for %s", id, r.Site)

				continue
			}

			matched := false
			for _, t := range reg.Templates {
				if t.When == "any" || (t.When == "empty") == (r.Method == "") {
					c := *r
					c.Registrar = id
					c.Mux = t.Mux
					c.Chain = append([]string{}, t.Chain...)
					routes = append(routes, &c)
					matched = true
				}
			}

			if !matched {
				ex.warn("registrar %s has no template for method %q (%s)", id, r.Method, r.Site)
			}
		}
	}

	ex.out.Routes = routes
	for _, id := range sortedKeys(ex.regs) {
		ex.out.Registrars = append(ex.out.Registrars, *ex.regs[id])
	}
}

func sortedKeys(m map[string]*Registrar) (ks []string) {
	for k := range m {
		ks = append(ks, k)
	}

	sort.Strings(ks)

	return ks
}

// walkBody visits one function body (function literals inside it included;
// a function literal with RegisterFunc's signature that registers something
// is analysed as an anonymous registrar where it is bound).
func (ex *extractor) walkBody(fc *fnCtx, body ast.Node) {
	// Locals copied from RegisterFunc values: x := conf.HTTPRegister.
	ast.Inspect(body, func(n ast.Node) bool {
		as, ok := n.(*ast.AssignStmt)
		if !ok || len(as.Lhs) != len(as.Rhs) {
			return true
		}

		for i, l := range as.Lhs {
			if id, isID := l.(*ast.Ident); isID && ex.isRegValue(fc, as.Rhs[i]) {
				fc.regLocals[id.Name] = true
			}
		}

		return true
	})

	ast.Inspect(body, func(n ast.Node) bool {
		switch t := n.(type) {
		case *ast.FuncLit:
			// A function literal with RegisterFunc's signature that registers
			// something is an anonymous registrar: its body holds templates,
			// not routes.  It is analysed where it is bound (addBinding).
			if isRegSig(t.Type) && ex.containsReg(t.Body) {
				id := "func@" + ex.site(t)
				if ex.regs[id] == nil {
					r := ex.analyseRegistrar(fc.p, id, t.Type, t.Body, t)
					ex.regs[id] = r
					if r.Err != "" {
						ex.warnIn(fc.p, "anonymous registrar at %s: %s", r.Site, r.Err)
					}
				}

				return false
			}
		case *ast.CallExpr:
			ex.visitCall(fc, t)
		case *ast.KeyValueExpr:
			if id, ok := t.Key.(*ast.Ident); ok && ex.regField[id.Name] {
				ex.addBinding(fc, t, id.Name, t.Value)
			}
		case *ast.AssignStmt:
			if len(t.Lhs) == len(t.Rhs) {
				for i, l := range t.Lhs {
					if se, ok := l.(*ast.SelectorExpr); ok && ex.regField[se.Sel.Name] {
						ex.addBinding(fc, t, ex.text(l), t.Rhs[i])
					}
				}
			}
		}

		return true
	})
}

func (ex *extractor) addBinding(fc *fnCtx, at ast.Node, target string, v ast.Expr) {
	b := &Binding{Site: ex.site(at), Pkg: fc.p.dir, Target: target, Value: ex.text(v), Reachable: fc.p.reachable}
	switch t := v.(type) {
	case *ast.Ident:
		switch {
		case t.Name == "nil":
			b.Kind = "nil"
		case ex.regs[fc.p.name+"."+t.Name] != nil:
			b.Kind = "registrar"
			b.Registrar = fc.p.name + "." + t.Name
		case fc.regParams[t.Name] || fc.regLocals[t.Name]:
			b.Kind = "passthrough"
		default:
			b.Kind = "unknown"
		}
	case *ast.SelectorExpr:
		switch {
		case ex.regField[t.Sel.Name]:
			b.Kind = "passthrough"
		default:
			b.Kind = "unknown"
			if x, ok := t.X.(*ast.Ident); ok {
				for id := range ex.regs {
					if id == x.Name+"."+t.Sel.Name {
						b.Kind = "registrar"
						b.Registrar = id
					}
				}
			}
		}
	case *ast.FuncLit:
		if isRegSig(t.Type) {
			id := "func@" + ex.site(t)
			if ex.regs[id] == nil {
				r := ex.analyseRegistrar(fc.p, id, t.Type, t.Body, t)
				ex.regs[id] = r
				if r.Err != "" {
					ex.warnIn(fc.p, "anonymous registrar at %s: %s", r.Site, r.Err)
				}
			}

			b.Kind = "registrar"
			b.Registrar = id
		} else {
			b.Kind = "unknown"
		}
	default:
		b.Kind = "unknown"
	}

	ex.out.Bindings = append(ex.out.Bindings, b)
}

func (ex *extractor) visitCall(fc *fnCtx, c *ast.CallExpr) {
	// 1. Direct registration on a mux.
	if recv, ok := ex.directReg(c); ok {
		pat, isConst := ex.constString(fc.p, c.Args[0])
		if !isConst {
			if fc.registrar != nil {
				if id, isID := c.Args[0].(*ast.Ident); isID && id.Name == fc.urlParam {
					return // a registrar's template, handled in registrarPass
				}
			}

			ex.warnIn(fc.p, "registration with a non-constant pattern at %s: %s", ex.site(c), ex.text(c.Args[0]))
			pat = "?" + ex.text(c.Args[0])
		}

		cr := ex.chainOf(fc.p, c.Args[1], "")
		m := cr.method
		if m == "$method" {
			m = "?"
		}

		ex.out.Routes = append(ex.out.Routes, &Route{
			Pat: pat, Method: m, Chain: nonNil(cr.chain), Via: "direct", Mux: recv, Site: ex.site(c),
			Pkg: fc.p.dir, Fn: fc.name, Handler: cr.handler, Reachable: fc.p.reachable,
		})

		return
	}

	// 2. Call of a RegisterFunc value or of a registrar.
	if len(c.Args) == 3 {
		regID := ""
		isCallback := ex.isRegValue(fc, c.Fun)
		if id, ok := c.Fun.(*ast.Ident); ok && !isCallback {
			if ex.regs[fc.p.name+"."+id.Name] != nil {
				isCallback = true
				regID = fc.p.name + "." + id.Name
			}
		}

		if isCallback {
			m, okM := ex.constMethod(fc.p, c.Args[0])
			if !okM {
				m = "?"
				ex.warnIn(fc.p, "registration with a non-constant method at %s: %s", ex.site(c), ex.text(c.Args[0]))
			}

			pat, okP := ex.constString(fc.p, c.Args[1])
			if !okP {
				ex.warnIn(fc.p, "registration with a non-constant pattern at %s: %s", ex.site(c), ex.text(c.Args[1]))
				pat = "?" + ex.text(c.Args[1])
			}

			ex.out.Routes = append(ex.out.Routes, &Route{
				Pat: pat, Method: m, Via: "callback", Registrar: regID, Site: ex.site(c),
				Pkg: fc.p.dir, Fn: fc.name, Handler: ex.text(c.Args[2]), Reachable: fc.p.reachable,
			})

			return
		}
	}

	// 3. A RegisterFunc value passed as an argument to a function of the
	// same package that has a RegisterFunc parameter at that position.
	var fd *ast.FuncDecl
	switch f := c.Fun.(type) {
	case *ast.Ident:
		fd = fc.p.funcs[f.Name]
	case *ast.SelectorExpr:
		if _, isID := f.X.(*ast.Ident); isID {
			fd = fc.p.funcs[f.Sel.Name]
		}
	}

	if fd != nil {
		ps := flatten(fd.Type.Params)
		for i, prm := range ps {
			if i < len(c.Args) && isRegType(prm.typ, fc.p.name) {
				ex.addBinding(fc, c.Args[i], fd.Name.Name+"("+prm.name+")", c.Args[i])
			}
		}
	}
}

func nonNil(s []string) []string {
	if s == nil {
		return []string{}
	}

	return s
}

func (ex *extractor) constString(p *pkgInfo, e ast.Expr) (s string, ok bool) {
	switch t := e.(type) {
	case *ast.BasicLit:
		if t.Kind == token.STRING {
			v, err := strconv.Unquote(t.Value)

			return v, err == nil
		}
	case *ast.Ident:
		v, has := p.consts[t.Name]

		return v, has
	case *ast.ParenExpr:
		return ex.constString(p, t.X)
	}

	return "", false
}

// ---------------------------------------------------------------------- TLA

func tlaStr(s string) string {
	s = strings.ReplaceAll(s, `\`, `\\`)
	s = strings.ReplaceAll(s, `"`, `\"`)

	return `"` + s + `"`
}

func tlaSeq(ss []string) string {
	q := make([]string, len(ss))
	for i, s := range ss {
		q[i] = tlaStr(s)
	}

	return "<<" + strings.Join(q, ", ") + ">>"
}

// slashTarget returns the pattern a request for path resolves to on a mux
// holding pats (exact match first, then the longest subtree pattern).
func slashTarget(pats []string, path string) string {
	best := ""
	for _, p := range pats {
		if p == path {
			return p
		}

		if strings.HasSuffix(p, "/") && strings.HasPrefix(path, p) && len(p) > len(best) {
			best = p
		}
	}

	return best
}

// AdminMux is the receiver expression of the mux that serves the admin API.
const AdminMux = "globalContext.mux"

// modelled reports whether the route belongs to the model: registered in a
// package linked into the AdGuardHome binary.  Registrations whose receiver is
// not literally the admin mux are kept (over-approximation: a local alias of
// the admin mux must not hide a route); the check decides at run time, from
// the census of the real mux, whether such a pattern is served at all.
func modelled(r *Route) bool { return r.Reachable && !strings.HasPrefix(r.Pat, "?") }

func renderTLA(o *Output) string {
	var pats []string
	seen := map[string]bool{}
	for _, r := range o.Routes {
		if modelled(r) && !seen[r.Pat] {
			seen[r.Pat] = true
			pats = append(pats, r.Pat)
		}
	}

	var sb strings.Builder
	sb.WriteString("--------------------------- MODULE RoutesGenerated ---------------------------\n")
	sb.WriteString("(* GENERATED by /verif/tools/c11_routes from the Go sources -- do not edit.   *)\n")
	sb.WriteString("(* One record per registration call found in the packages linked into the    *)\n")
	sb.WriteString("(* binary, on the admin mux.  chain: wrappers, outermost first.  method: the  *)\n")
	sb.WriteString("(* declared method (\"\" = any).  slash: the pattern that <pat>/ resolves to.   *)\n")
	sb.WriteString("(* reg: for a registration through the RegisterFunc callback, the registrar  *)\n")
	sb.WriteString("(* whose body gives the chain; with several registrars bound in the program  *)\n")
	sb.WriteString("(* there is one record per registrar (over-approximation).                   *)\n")
	fmt.Fprintf(&sb, "\\* repo: %s   GOOS: %s\n", o.Repo, strings.Join(o.GOOS, ","))
	sb.WriteString("Routes == {\n")
	first := true
	for _, r := range o.Routes {
		if !modelled(r) {
			continue
		}

		if !first {
			sb.WriteString(",\n")
		}

		first = false
		slash := ""
		if !strings.HasSuffix(r.Pat, "/") {
			slash = slashTarget(pats, r.Pat+"/")
		}

		fmt.Fprintf(&sb, "  [pat |-> %s, method |-> %s, chain |-> %s, via |-> %s, reg |-> %s, mux |-> %s, site |-> %s,\n   subtree |-> %s, slash |-> %s, installPfx |-> %s, assetsPfx |-> %s]",
			tlaStr(r.Pat), tlaStr(r.Method), tlaSeq(r.Chain), tlaStr(r.Via), tlaStr(r.Registrar), tlaStr(r.Mux), tlaStr(r.Site),
			tlaBool(strings.HasSuffix(r.Pat, "/")), tlaStr(slash),
			tlaBool(strings.HasPrefix(r.Pat, "/install.")), tlaBool(strings.HasPrefix(r.Pat, "/assets/")))
	}

	sb.WriteString("\n}\n")
	sb.WriteString("=============================================================================\n")

	return sb.String()
}

func tlaBool(b bool) string {
	if b {
		return "TRUE"
	}

	return "FALSE"
}
