--------------------------- MODULE TraceSafePath ---------------------------
(***************************************************************************)
(* Direction B for C17.  The trace is recorded from the real DNSFilter by  *)
(* a seeded driver (random trees, names, globs, spellings, histories):     *)
(*                                                                         *)
(*   {"act":"reset", "pats":[glob..], "cwd":[name..], "names":[{n,cs}..]}  *)
(*        a new server configuration; names gives the characters of every  *)
(*        name of this epoch (logged structurally by the harness)          *)
(*   {"act":"add"|"seturl"|"inject"|"remove", "loc":{scheme,abs,segs},     *)
(*    "opened":[path..], "stored":[path..], "lists":[loc..]}               *)
(*   {"act":"refresh", "opened":.., "stored":.., "lists":..}               *)
(*                                                                         *)
(* Paths are the real ones, split at the separators (no abstraction of the *)
(* tree's root).  Everything that decides -- Clean, Match, Denoted, May,   *)
(* Safe -- is SafePathCore's text, and the step bounds are those of        *)
(* SafePath.tla's actions (known over-approximates the configured lists;   *)
(* the logged lists must stay inside it).                                  *)
(*                                                                         *)
(* A line is                                                               *)
(*   "unsafe"      if something opened or stored violates the statement    *)
(*                 (does not match a configured pattern);                  *)
(*   "unexpected"  if everything matches but something opened is not what  *)
(*                 the step's location(s) name (model/harness problem);    *)
(*   "model"       if the real list table left the over-approximation.     *)
(***************************************************************************)
EXTENDS Sequences, Naturals, FiniteSets, TLC, Json, SequencesExt

Trace == ndJsonDeserialize("trace.ndjson")

VARIABLES l, pats, cwd, chars, known, bad
vars == <<l, pats, cwd, chars, known, bad>>

Core == INSTANCE SafePathCore WITH Chars <- chars

\* JSON arrays arrive as sequences: class sets and glob lists become sets.
NormTok(t)  == [k |-> t.k, c |-> t.c, set |-> ToSet(t.set)]
NormSeg(s)  == [j \in 1..Len(s) |-> NormTok(s[j])]
NormGlob(g) == [abs |-> g.abs, segs |-> [i \in 1..Len(g.segs) |-> NormSeg(g.segs[i])]]
NormLoc(x)  == [scheme |-> x.scheme, abs |-> x.abs, segs |-> x.segs]

CharTable(names) ==
    LET S == ToSet(names) IN
    [n \in {x.n : x \in S} |-> (CHOOSE x \in S : x.n = n).cs]

Bound(r) ==
    IF r.act \in {"add", "seturl"} THEN Core!May(pats, NormLoc(r.loc), cwd)
    ELSE IF r.act = "refresh" THEN Core!MayAll(pats, known, cwd)
    ELSE {}

KnownAfter(r) ==
    IF r.act \in {"add", "seturl", "inject"} THEN known \cup {NormLoc(r.loc)}
    ELSE IF r.act = "remove" THEN known \ {NormLoc(r.loc)}
    ELSE known

Seen(r) == ToSet(r.opened) \cup ToSet(r.stored)

\* The paths of a line that the statement forbids.
Unsafe(r) == {p \in Seen(r) : ~Core!Safe(pats, {p})}

Verdict(r) ==
    IF Unsafe(r) # {} THEN "unsafe"
    ELSE IF ~(ToSet(r.opened) \subseteq Bound(r)) THEN "unexpected"
    ELSE IF ~({NormLoc(x) : x \in ToSet(r.lists)} \subseteq KnownAfter(r)) THEN "model"
    ELSE "ok"

Init == /\ l = 1
        /\ pats = {}
        /\ cwd = <<>>
        /\ chars = <<>>
        /\ known = {}
        /\ bad = {}

Reset(r) == /\ pats'  = {NormGlob(g) : g \in ToSet(r.pats)}
            /\ cwd'   = r.cwd
            /\ chars' = CharTable(r.names)
            /\ known' = {}
            /\ bad'   = bad

Step(r) == /\ UNCHANGED <<pats, cwd, chars>>
           /\ known' = KnownAfter(r)
           /\ bad'   = LET v == Verdict(r) IN IF v = "ok" THEN bad
                                            ELSE bad \cup {[i |-> l, kind |-> v, paths |-> Unsafe(r)]}

Next == /\ l <= Len(Trace)
        /\ LET r == Trace[l] IN IF r.act = "reset" THEN Reset(r) ELSE Step(r)
        /\ l' = l + 1
        /\ (l' = Len(Trace) + 1 => PrintT(<<"@@V", ToJson([n |-> Len(Trace), bad |-> bad'])>>))

Spec == Init /\ [][Next]_vars
=============================================================================
