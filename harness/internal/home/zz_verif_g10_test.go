package home

// G10 conformance harness -- settings persistence (specs/Persist.tla).
//
// The subject is the whole server, so it is run as the whole server: the test
// binary re-executes ITSELF as a child process (TestZZVerifG10Child) which wires
// signals exactly as Main() does and calls the real run() on a working
// directory and a configuration file prepared by the parent.  Everything is
// then observed from OUTSIDE that process:
//
//   - requests go over TCP to the real web server started by web.start
//     (withMiddlewares(globalContext.mux, limitRequestBody) behind net/http);
//   - "reported" is what the GET endpoints answer;
//   - "file" is AdGuardHome.yaml parsed by the parent with yaml.v3 into a map
//     (no struct of package home is used for that);
//   - "running" is what DNS clients see: queries sent over UDP to the child's
//     DNS port, upstream side observed on mock upstreams owned by the parent;
//   - Restart is SIGTERM (the real signal handler: cleanup(), exit) + a new
//     process over the same directory; Crash is SIGKILL at a request boundary
//     or in the middle of a request.
//
// A process per boot is also what makes restarts sound here: dnsforward and
// home register their HTTP routes once per process (package flags), so an
// in-process second boot would keep serving /control/dns_config from the FIRST
// server object.
//
// The parent never boots anything itself; of package home it uses only the
// package-level default configuration (to write the initial AdGuardHome.yaml
// the way a fresh installation would) and run() in the child.

import (
	"bytes"
	"context"
	"encoding/json"
	"fmt"
	"io"
	"math/rand"
	"net"
	"net/http"
	"os"
	"os/exec"
	"os/signal"
	"path/filepath"
	"sort"
	"strconv"
	"strings"
	"sync"
	"syscall"
	"testing"
	"testing/fstest"
	"time"

	"github.com/AdguardTeam/golibs/log"
	"github.com/miekg/dns"
	yaml "gopkg.in/yaml.v3"
)

// ------------------------------------------------------------------- child

// TestZZVerifG10Child is the server process.  It does what Main() does after
// option parsing.
func TestZZVerifG10Child(t *testing.T) {
	if os.Getenv("VERIF_G10_CHILD") != "1" {
		t.Skip("not a child")
	}

	opts := options{
		workDir:       os.Getenv("VERIF_G10_WORK"),
		confFilename:  os.Getenv("VERIF_G10_CONF"),
		noEtcHosts:    true,
		disableUpdate: true,
		noPermCheck:   true,
	}

	done := make(chan struct{})
	signals := make(chan os.Signal, 1)
	signal.Notify(signals, syscall.SIGINT, syscall.SIGTERM, syscall.SIGHUP, syscall.SIGQUIT)

	ctx := context.Background()
	sigHdlr := newSignalHandler(signals, func(ctx context.Context) {
		cleanup(ctx)
		cleanupAlways()
		close(done)
	})

	go sigHdlr.handle(ctx)

	clientFS := fstest.MapFS{
		"build/static/index.html":   {Data: []byte("<html>dashboard</html>")},
		"build/static/login.html":   {Data: []byte("<html>login</html>")},
		"build/static/install.html": {Data: []byte("<html>install</html>")},
	}

	// The package's TestMain silences the log; a server process should say why
	// it dies.
	log.SetOutput(os.Stderr)

	run(opts, clientFS, done, sigHdlr)

	os.Exit(0)
}

// ------------------------------------------------------------ mock upstream

// zzG10Seen is what a mock upstream saw for one question name.
type zzG10Seen struct {
	n   int
	do  bool
	ecs string
}

// zzG10Mock is a DNS server owned by the parent.  It answers every A question
// with its own address mark, so that the answer tells which upstream was used.
type zzG10Mock struct {
	mark string // "1" -> 192.0.2.1 / 2001:db8::1
	pc   net.PacketConn
	srv  *dns.Server
	mu   sync.Mutex
	seen map[string]*zzG10Seen
}

func zzG10NewMock(port int, mark string) (m *zzG10Mock, err error) {
	pc, err := net.ListenPacket("udp", fmt.Sprintf("127.0.0.1:%d", port))
	if err != nil {
		return nil, err
	}

	m = &zzG10Mock{mark: mark, pc: pc, seen: map[string]*zzG10Seen{}}
	m.srv = &dns.Server{PacketConn: pc, Handler: dns.HandlerFunc(m.serve)}
	go func() { _ = m.srv.ActivateAndServe() }()

	return m, nil
}

func (m *zzG10Mock) serve(w dns.ResponseWriter, req *dns.Msg) {
	resp := &dns.Msg{}
	resp.SetReply(req)
	resp.RecursionAvailable = true
	if len(req.Question) == 1 {
		q := req.Question[0]
		name := strings.ToLower(q.Name)
		s := zzG10Seen{}
		if o := req.IsEdns0(); o != nil {
			s.do = o.Do()
			for _, e := range o.Option {
				if sub, ok := e.(*dns.EDNS0_SUBNET); ok {
					s.ecs = fmt.Sprintf("%s/%d", sub.Address, sub.SourceNetmask)
				}
			}
		}

		m.mu.Lock()
		if old := m.seen[name]; old != nil {
			s.n = old.n
		}
		s.n++
		m.seen[name] = &s
		if len(m.seen) > 20000 {
			m.seen = map[string]*zzG10Seen{name: &s}
		}
		m.mu.Unlock()

		hdr := dns.RR_Header{Name: q.Name, Rrtype: q.Qtype, Class: dns.ClassINET, Ttl: 300}
		switch q.Qtype {
		case dns.TypeA:
			resp.Answer = append(resp.Answer, &dns.A{Hdr: hdr, A: net.ParseIP("192.0.2." + m.mark)})
		case dns.TypeAAAA:
			resp.Answer = append(resp.Answer, &dns.AAAA{Hdr: hdr, AAAA: net.ParseIP("2001:db8::" + m.mark)})
		case dns.TypePTR:
			resp.Answer = append(resp.Answer, &dns.PTR{Hdr: hdr, Ptr: "ptr" + m.mark + ".g10.test."})
		}
	}

	_ = w.WriteMsg(resp)
}

func (m *zzG10Mock) saw(name string) (s zzG10Seen) {
	m.mu.Lock()
	defer m.mu.Unlock()

	if p := m.seen[strings.ToLower(dns.Fqdn(name))]; p != nil {
		return *p
	}

	return zzG10Seen{}
}

func (m *zzG10Mock) close() { _ = m.srv.Shutdown(); _ = m.pc.Close() }

// -------------------------------------------------------------------- arena

// zzG10Arena is one deployment: a working directory, fixed ports, the mock
// upstreams and the current server process.
type zzG10Arena struct {
	t       testing.TB
	id      int
	root    string
	work    string
	web     int
	dnsPort int
	pA, pB  int
	pL      int
	mA, mB  *zzG10Mock
	mL      *zzG10Mock
	cmd     *exec.Cmd
	exited  chan struct{}
	hc      *http.Client
	seq     int
	deploys int
	boots   int
	logPath string
	rng     *rand.Rand
	// dupSeen: two lists shared an id at some point of this deployment.
	dupSeen bool
}

const zzG10Host = "127.0.0.1"

func zzG10EnvInt(name string, dflt int) (n int) {
	n, err := strconv.Atoi(os.Getenv(name))
	if err != nil {
		return dflt
	}

	return n
}

// zzG10PickPort picks a loopback port below the ephemeral range that is free
// for TCP and UDP now.
func zzG10PickPort(rng *rand.Rand, taken map[int]bool) (p int) {
	for i := 0; i < 2000; i++ {
		p = 12000 + rng.Intn(18000)
		if taken[p] {
			continue
		}

		l, err := net.Listen("tcp", fmt.Sprintf("%s:%d", zzG10Host, p))
		if err != nil {
			continue
		}

		_ = l.Close()
		c, err := net.ListenPacket("udp", fmt.Sprintf("%s:%d", zzG10Host, p))
		if err != nil {
			continue
		}

		_ = c.Close()
		taken[p] = true

		return p
	}

	panic("no free port")
}

var zzG10PortMu sync.Mutex
var zzG10Taken = map[int]bool{}

func zzG10NewArena(t testing.TB, id int, seed int64) (a *zzG10Arena) {
	base := ""
	if st, err := os.Stat("/dev/shm"); err == nil && st.IsDir() {
		base = "/dev/shm"
	}

	root, err := os.MkdirTemp(base, "zzg10-")
	if err != nil {
		t.Fatalf("tempdir: %v", err)
	}

	a = &zzG10Arena{t: t, id: id, root: root, rng: rand.New(rand.NewSource(seed*1000 + int64(id)))}
	prng := rand.New(rand.NewSource(time.Now().UnixNano() + int64(id)*7919 + int64(os.Getpid())))

	zzG10PortMu.Lock()
	defer zzG10PortMu.Unlock()

	for {
		a.web = zzG10PickPort(prng, zzG10Taken)
		a.dnsPort = zzG10PickPort(prng, zzG10Taken)
		a.pA = zzG10PickPort(prng, zzG10Taken)
		a.pB = zzG10PickPort(prng, zzG10Taken)
		a.pL = zzG10PickPort(prng, zzG10Taken)
		var e1, e2, e3 error
		a.mA, e1 = zzG10NewMock(a.pA, "1")
		a.mB, e2 = zzG10NewMock(a.pB, "2")
		a.mL, e3 = zzG10NewMock(a.pL, "3")
		if e1 == nil && e2 == nil && e3 == nil {
			break
		}

		for _, m := range []*zzG10Mock{a.mA, a.mB, a.mL} {
			if m != nil {
				m.close()
			}
		}
	}

	return a
}

func (a *zzG10Arena) destroy() {
	a.kill()
	for _, m := range []*zzG10Mock{a.mA, a.mB, a.mL} {
		m.close()
	}

	_ = os.RemoveAll(a.root)
}

func (a *zzG10Arena) confPath() (p string) { return filepath.Join(a.work, "AdGuardHome.yaml") }
func (a *zzG10Arena) listPath(i string) (p string) {
	return filepath.Join(a.root, "lists", "l"+i+".txt")
}

// deploy gives the arena a new working directory holding the configuration
// file of a freshly set-up installation: the package defaults, bound to
// loopback, kept off the network (mock upstream, no remote filter lists, no
// runtime client sources, no hosts file).
func (a *zzG10Arena) deploy() {
	a.kill()
	a.deploys++
	a.dupSeen = false
	a.work = filepath.Join(a.root, fmt.Sprintf("work%d", a.deploys))
	if err := os.MkdirAll(a.work, 0o755); err != nil {
		a.t.Fatalf("mkdir: %v", err)
	}

	_ = os.MkdirAll(filepath.Join(a.root, "lists"), 0o755)
	for i, host := range map[string]string{"0": "blk0.g10.test", "1": "l1.g10.test", "2": "l2.g10.test"} {
		_ = os.WriteFile(a.listPath(i), []byte("! G10 list "+i+"\n||"+host+"^\n"), 0o644)
	}

	// The background list L0 is already downloaded (its copy in the data
	// directory exists), as after any earlier run of the installation.
	fdir := filepath.Join(a.work, "data", "filters")
	_ = os.MkdirAll(fdir, 0o755)
	_ = os.WriteFile(filepath.Join(fdir, "100.txt"), []byte("! G10 list 0\n||blk0.g10.test^\n"), 0o644)

	b, err := yaml.Marshal(config)
	if err != nil {
		a.t.Fatalf("marshalling defaults: %v", err)
	}

	y := map[string]any{}
	if err = yaml.Unmarshal(b, &y); err != nil {
		a.t.Fatalf("defaults: %v", err)
	}

	sub := func(k string) (m map[string]any) {
		m, _ = y[k].(map[string]any)
		if m == nil {
			m = map[string]any{}
			y[k] = m
		}

		return m
	}

	sub("http")["address"] = fmt.Sprintf("%s:%d", zzG10Host, a.web)
	y["users"] = []any{}
	d := sub("dns")
	d["bind_hosts"] = []any{zzG10Host}
	d["port"] = a.dnsPort
	d["upstream_dns"] = []any{a.upstream("A")}
	d["bootstrap_dns"] = []any{"9.9.9.10"}
	d["fallback_dns"] = []any{}
	d["use_private_ptr_resolvers"] = false
	d["local_ptr_upstreams"] = []any{}
	d["hostsfile_enabled"] = false
	d["blocked_hosts"] = []any{"version.bind", "id.server", "hostname.bind"}
	d["ratelimit_whitelist"] = []any{"127.0.0.1", "127.0.0.2", "127.0.0.3", "127.0.0.9"}
	cs := sub("clients")
	cs["runtime_sources"] = map[string]any{"whois": false, "arp": false, "rdns": false, "dhcp": false, "hosts": false}
	cs["persistent"] = []any{}
	y["filters"] = []any{map[string]any{"enabled": true, "url": a.listPath("0"), "name": "L0", "id": 100}}
	y["whitelist_filters"] = []any{}
	y["user_rules"] = []any{}
	f := sub("filtering")
	f["safe_fs_patterns"] = []any{filepath.Join(a.root, "lists", "*")}
	f["filters_update_interval"] = 24

	out, err := yaml.Marshal(y)
	if err != nil {
		a.t.Fatalf("initial yaml: %v", err)
	}

	if err = os.WriteFile(a.confPath(), out, 0o644); err != nil {
		a.t.Fatalf("initial yaml: %v", err)
	}
}

func (a *zzG10Arena) upstream(n string) (s string) {
	switch n {
	case "A":
		return fmt.Sprintf("%s:%d", zzG10Host, a.pA)
	case "B":
		return fmt.Sprintf("%s:%d", zzG10Host, a.pB)
	default:
		return fmt.Sprintf("%s:%d", zzG10Host, a.pL)
	}
}

// start runs a server process over the working directory and waits until it
// serves the API and DNS.
func (a *zzG10Arena) start() (err error) {
	a.boots++
	a.logPath = filepath.Join(a.root, fmt.Sprintf("child%d.log", a.boots))
	lf, err := os.Create(a.logPath)
	if err != nil {
		return err
	}

	cmd := exec.Command(os.Args[0], "-test.run", "^TestZZVerifG10Child$", "-test.timeout", "0")
	cmd.Env = append(os.Environ(), "VERIF_G10_CHILD=1", "VERIF_G10_WORK="+a.work, "VERIF_G10_CONF="+a.confPath())
	cmd.Stdout = lf
	cmd.Stderr = lf
	cmd.Dir = a.work
	if err = cmd.Start(); err != nil {
		_ = lf.Close()

		return err
	}

	_ = lf.Close()
	a.cmd = cmd
	a.exited = make(chan struct{})
	go func(c *exec.Cmd, ch chan struct{}) { _ = c.Wait(); close(ch) }(cmd, a.exited)
	a.hc = &http.Client{Timeout: 20 * time.Second, Transport: &http.Transport{MaxIdleConnsPerHost: 4}}

	deadline := time.Now().Add(time.Duration(zzG10EnvInt("VERIF_G10_BOOT_S", 60)) * time.Second)
	for time.Now().Before(deadline) {
		select {
		case <-a.exited:
			a.cmd = nil

			return fmt.Errorf("the server process ended during start: %s", a.logTail())
		default:
		}

		r := a.do(http.MethodGet, "/control/status", nil)
		if r.Code == 200 && bytes.Contains(r.Body, []byte(`"running":true`)) {
			// The DNS listeners are up when the TCP one accepts (it is bound
			// after the UDP one).  No question is asked: with safe browsing
			// on, an answer would wait for the remote service.
			//
			// The filtering, statistics and query-log routes are registered
			// by their Start methods, AFTER the DNS server reports running:
			// wait for them too.
			c, derr := net.DialTimeout("tcp", fmt.Sprintf("%s:%d", zzG10Host, a.dnsPort), 300*time.Millisecond)
			if derr == nil {
				_ = c.Close()
				all := true
				for _, p := range []string{"/control/filtering/status", "/control/stats/config", "/control/querylog/config"} {
					all = all && a.do(http.MethodGet, p, nil).Code == 200
				}

				if all {
					return nil
				}
			}
		}

		time.Sleep(15 * time.Millisecond)
	}

	a.kill()

	return fmt.Errorf("the server did not come up in time: %s", a.logTail())
}

func (a *zzG10Arena) logTail() (s string) {
	b, _ := os.ReadFile(a.logPath)
	if len(b) > 1500 {
		b = b[len(b)-1500:]
	}

	return string(b)
}

// stop is a graceful shutdown: SIGTERM, handled by the real signal handler.
func (a *zzG10Arena) stop() (err error) {
	if a.cmd == nil {
		return nil
	}

	_ = a.cmd.Process.Signal(syscall.SIGTERM)
	select {
	case <-a.exited:
		a.cmd = nil

		return nil
	case <-time.After(time.Duration(zzG10EnvInt("VERIF_G10_STOP_S", 30)) * time.Second):
		a.kill()

		return fmt.Errorf("the server did not exit after SIGTERM")
	}
}

// kill is a crash: SIGKILL.
func (a *zzG10Arena) kill() {
	if a.cmd == nil {
		return
	}

	_ = a.cmd.Process.Kill()
	<-a.exited
	a.cmd = nil
}

// ----------------------------------------------------------------- requests

type zzG10Resp struct {
	Code int
	Body []byte
	Err  string
}

func (a *zzG10Arena) do(method, path string, body []byte) (resp zzG10Resp) {
	var rd io.Reader
	if body != nil {
		rd = bytes.NewReader(body)
	}

	req, err := http.NewRequest(method, fmt.Sprintf("http://%s:%d%s", zzG10Host, a.web, path), rd)
	if err != nil {
		return zzG10Resp{Code: -1, Err: err.Error()}
	}

	if body != nil {
		req.Header.Set("Content-Type", "application/json")
	}

	r, err := a.hc.Do(req)
	if err != nil {
		return zzG10Resp{Code: -1, Err: err.Error()}
	}
	defer r.Body.Close()

	b, _ := io.ReadAll(r.Body)

	return zzG10Resp{Code: r.StatusCode, Body: b}
}

// query sends one question to the server under test from the given loopback
// source address ("" = 127.0.0.1).  m is nil when no answer came in time.
func (a *zzG10Arena) query(name string, qtype uint16, src string, timeout time.Duration) (m *dns.Msg, err error) {
	if src == "" {
		src = zzG10Host
	}

	c := &dns.Client{Net: "udp", Timeout: timeout, Dialer: &net.Dialer{
		LocalAddr: &net.UDPAddr{IP: net.ParseIP(src)},
		Timeout:   timeout,
	}}
	q := &dns.Msg{}
	q.SetQuestion(dns.Fqdn(name), qtype)
	q.RecursionDesired = true
	m, _, err = c.Exchange(q, fmt.Sprintf("%s:%d", zzG10Host, a.dnsPort))
	if err != nil {
		return nil, err
	}

	return m, nil
}

func (a *zzG10Arena) fresh(prefix string) (name string) {
	a.seq++

	return fmt.Sprintf("%s%d-%d-%d.fresh.g10.test", prefix, a.id, a.deploys, a.seq)
}

// sig is a short signature of an answer: "none" (no answer in time),
// "rc=<rcode>" or the answer records.
func zzG10Sig(m *dns.Msg) (s string) {
	if m == nil {
		return "none"
	}

	if m.Rcode != dns.RcodeSuccess {
		return "rc=" + dns.RcodeToString[m.Rcode]
	}

	var parts []string
	for _, rr := range m.Answer {
		switch v := rr.(type) {
		case *dns.A:
			parts = append(parts, "A="+v.A.String())
		case *dns.AAAA:
			parts = append(parts, "AAAA="+v.AAAA.String())
		case *dns.CNAME:
			parts = append(parts, "CNAME="+strings.ToLower(v.Target))
		case *dns.PTR:
			parts = append(parts, "PTR="+strings.ToLower(v.Ptr))
		default:
			parts = append(parts, "RR"+strconv.Itoa(int(rr.Header().Rrtype)))
		}
	}

	if len(parts) == 0 {
		return "empty"
	}

	sort.Strings(parts)

	return strings.Join(parts, ",")
}

// ask is query with one patient retry: an answer that does not come within the
// short limit is asked for again with a long one, so that only a server that
// really stays silent is reported as silent.
func (a *zzG10Arena) ask(name string, qtype uint16, src string) (m *dns.Msg) {
	m, _ = a.query(name, qtype, src, 150*time.Millisecond)
	if m == nil {
		m, _ = a.query(name, qtype, src, 1500*time.Millisecond)
	}

	return m
}

// ------------------------------------------------------------- exploration

// TestZZVerifG10Explore prints what a fresh deployment reports; a development
// aid (VERIF_G10_EXPLORE=1).
func TestZZVerifG10Explore(t *testing.T) {
	if os.Getenv("VERIF_G10_EXPLORE") == "" {
		t.Skip("no VERIF_G10_EXPLORE")
	}

	a := zzG10NewArena(t, 0, zzSeed())
	defer a.destroy()

	a.deploy()
	t0 := time.Now()
	if err := a.start(); err != nil {
		t.Fatalf("start: %v", err)
	}

	t.Logf("boot %v", time.Since(t0))
	for _, p := range strings.Split(os.Getenv("VERIF_G10_EXPLORE"), ",") {
		if p == "yaml" {
			b, _ := os.ReadFile(a.confPath())
			t.Logf("yaml:\n%s", b)

			continue
		}

		r := a.do(http.MethodGet, p, nil)
		t.Logf("GET %s -> %d %s %s", p, r.Code, r.Body, r.Err)
	}

	for _, pb := range strings.Split(os.Getenv("VERIF_G10_POST"), ";;") {
		if pb == "" {
			continue
		}

		x := strings.SplitN(pb, "|", 3)
		if x[0] == "RESTART" {
			t.Logf("restart: %v %v", a.stop(), a.start())

			continue
		}

		r := a.do(x[0], x[1], []byte(x[2]))
		t.Logf("%s %s %s -> %d %s %s", x[0], x[1], x[2], r.Code, r.Body, r.Err)
	}

	for i := 0; i < 100; i++ {
		if zzG10Sig(a.ask("blk0.g10.test", dns.TypeA, "")) != "A=192.0.2.1" {
			t.Logf("blk0 blocked after %d polls", i)

			break
		}

		time.Sleep(20 * time.Millisecond)
	}

	for _, n := range []string{"blk0.g10.test", "x.g10.test", "www.bing.com"} {
		t1 := time.Now()
		m := a.ask(n, dns.TypeA, "")
		t.Logf("A %s -> %s (%v)", n, zzG10Sig(m), time.Since(t1))
	}

	t0 = time.Now()
	err := a.stop()
	t.Logf("stop %v %v", time.Since(t0), err)
	t0 = time.Now()
	err = a.start()
	t.Logf("restart %v %v", time.Since(t0), err)
	a.kill()
	t0 = time.Now()
	err = a.start()
	t.Logf("boot after crash %v %v", time.Since(t0), err)
	t.Logf("log tail: %s", a.logTail())
}

// ------------------------------------------------------- concrete universe

// zzG10Lab is a label of specs/Persist.tla.
type zzG10Lab struct {
	Op string `json:"op"`
	X  string `json:"x"`
	C  string `json:"c"`
	V  string `json:"v"`
	W  string `json:"w"`
}

func (l zzG10Lab) String() (s string) {
	return strings.TrimRight(strings.Join([]string{l.Op, l.X, l.C, l.V, l.W}, ":"), ":")
}

var zzG10DefaultBlockedHosts = []string{"version.bind", "id.server", "hostname.bind"}

var zzG10Rules = map[string][]string{
	"none": {},
	"r1":   {"||u1.g10.test^"},
	"r12":  {"||u1.g10.test^", "||u2.g10.test^"},
	"r2":   {"||u2.g10.test^"},
}

var zzG10Rewrites = map[string][2]string{
	"r1": {"rw1.g10.test", "10.1.1.1"},
	"r2": {"rw2.g10.test", "10.1.1.2"},
	"r3": {"rw3.g10.test", "10.1.1.3"},
}

var zzG10Services = map[string][]string{
	"none": {}, "s1": {"4chan"}, "s12": {"4chan", "500px"}, "s2": {"500px"}, "s1p": {"4chan"},
	"unknown": {"4chan", "nosuchservice"},
}

var zzG10Num = map[string]int{
	"t10": 10, "t77": 77, "t3600": 3600,
	"4m": 4194304, "64k": 65536,
	"ivl7": 604800000, "ivl1": 86400000, "ivl30": 2592000000, "ivl90": 7776000000,
}

var zzG10ClientAddr = map[string]string{"c1": "127.0.0.2", "c2": "127.0.0.3"}

// DHCP settings are only ever stored, never enabled: the rig must not serve
// DHCP on the host.
var zzG10DHCP = map[string][5]string{
	"cfg1": {"192.168.10.1", "255.255.255.0", "192.168.10.100", "192.168.10.200", "3600"},
	"cfg2": {"192.168.20.1", "255.255.255.0", "192.168.20.100", "192.168.20.150", "7200"},
}

var zzG10Leases = map[string][3]string{
	"l1": {"aa:bb:cc:dd:ee:01", "192.168.10.50", "g10h1"},
	"l2": {"aa:bb:cc:dd:ee:02", "192.168.10.51", "g10h2"},
}

type zzG10M = map[string]any

func zzG10JSON(v any) (b []byte) {
	b, err := json.Marshal(v)
	if err != nil {
		panic(err)
	}

	return b
}

func zzG10Atoi(s string) (n int) {
	if v, ok := zzG10Num[s]; ok {
		return v
	}

	n, _ = strconv.Atoi(s)

	return n
}

func zzG10FullWeek() (m zzG10M) {
	m = zzG10M{"time_zone": "UTC"}
	for _, d := range []string{"sun", "mon", "tue", "wed", "thu", "fri", "sat"} {
		m[d] = zzG10M{"start": 0, "end": 86400000}
	}

	return m
}

func zzG10SafeSearch(v string) (m zzG10M) {
	m = zzG10M{"enabled": v == "all" || v == "nogoogle", "bing": true, "duckduckgo": true, "ecosia": true,
		"google": v != "nogoogle" && v != "offng", "pixabay": true, "yandex": true, "youtube": true}

	return m
}

func (a *zzG10Arena) accessBody(v string) (m zzG10M) {
	hosts := append([]string{}, zzG10DefaultBlockedHosts...)
	m = zzG10M{"allowed_clients": []string{}, "disallowed_clients": []string{}, "blocked_hosts": hosts}
	switch v {
	case "dis":
		m["disallowed_clients"] = []string{"127.0.0.9"}
	case "host":
		m["blocked_hosts"] = append(hosts, "acc.g10.test")
	case "allow":
		m["allowed_clients"] = []string{"127.0.0.1", "127.0.0.2", "127.0.0.3"}
	case "nohosts":
		m["blocked_hosts"] = []string{}
	case "dup":
		m["disallowed_clients"] = []string{"127.0.0.9", "127.0.0.9"}
		m["blocked_hosts"] = append(hosts, "other.g10.test")
	case "both":
		m["allowed_clients"] = []string{"127.0.0.1", "127.0.0.9"}
		m["disallowed_clients"] = []string{"127.0.0.9"}
		m["blocked_hosts"] = append(hosts, "other.g10.test")
	}

	return m
}

func zzG10ClientBody(k, variant, addr string) (m zzG10M) {
	m = zzG10M{
		"name": "g10" + k, "ids": []string{addr}, "tags": []string{}, "upstreams": []string{},
		"use_global_settings": variant != "a", "filtering_enabled": false, "parental_enabled": false,
		"safebrowsing_enabled": false, "safesearch_enabled": false,
		"use_global_blocked_services": variant != "b", "blocked_services": []string{},
	}
	if variant == "b" {
		m["blocked_services"] = []string{"9gag"}
		m["filtering_enabled"] = true
	}

	return m
}

func (a *zzG10Arena) logConfBody(kind, v string) (m zzG10M) {
	ivl := 7776000000
	if kind == "stats" {
		ivl = 86400000
	}

	m = zzG10M{"enabled": true, "interval": ivl, "ignored": []string{}}
	if kind == "qlog" {
		m["anonymize_client_ip"] = false
	}

	switch v {
	case "off":
		m["enabled"] = false
	case "anon":
		m["anonymize_client_ip"] = true
	case "ign":
		m["ignored"] = []string{"ign.g10.test"}
	case "noenabled":
		delete(m, "enabled")
		m["interval"] = 604800000
		m["ignored"] = []string{"other.g10.test"}
	case "def":
	default:
		m["interval"] = zzG10Atoi(v)
	}

	return m
}

// dnsField is the part of a POST /control/dns_config body that asks for value
// v of component c.  Refused values come with a valid change of the rate limit
// that must not be applied either.
func (a *zzG10Arena) dnsField(c, v string) (m zzG10M) {
	companion := func(m zzG10M) zzG10M { m["ratelimit"] = 999; return m }
	switch c {
	case "ups":
		if v == "bad" {
			return zzG10M{"upstream_dns": []string{"!!bad upstream!!"}}
		}

		var l []string
		for _, ch := range v {
			l = append(l, a.upstream(string(ch)))
		}

		return zzG10M{"upstream_dns": l}
	case "boot":
		switch v {
		case "b0":
			return zzG10M{"bootstrap_dns": []string{"9.9.9.10"}}
		case "b1":
			return zzG10M{"bootstrap_dns": []string{"149.112.112.10", "2620:fe::10"}}
		default:
			return zzG10M{"bootstrap_dns": []string{"not an address"}}
		}
	case "blk":
		switch v {
		case "custom1":
			return zzG10M{"blocking_mode": "custom_ip", "blocking_ipv4": "10.9.8.7", "blocking_ipv6": "fd00::7"}
		case "custom2":
			return zzG10M{"blocking_mode": "custom_ip", "blocking_ipv4": "10.9.8.8", "blocking_ipv6": "fd00::8"}
		case "bogus":
			return companion(zzG10M{"blocking_mode": "bogus"})
		default:
			return zzG10M{"blocking_mode": v}
		}
	case "blkttl":
		return zzG10M{"blocked_response_ttl": zzG10Atoi(v)}
	case "prot":
		return zzG10M{"protection_enabled": v == "on"}
	case "rl":
		return zzG10M{"ratelimit": zzG10Atoi(v)}
	case "rl4":
		m = zzG10M{"ratelimit_subnet_len_ipv4": zzG10Atoi(v)}
		if v == "33" {
			return companion(m)
		}

		return m
	case "ecs":
		m = zzG10M{"edns_cs_enabled": v != "off", "edns_cs_use_custom": v == "custom"}
		if v == "custom" {
			m["edns_cs_custom_ip"] = "203.0.113.5"
		}

		return m
	case "dnssec":
		return zzG10M{"dnssec_enabled": v == "on"}
	case "noaaaa":
		return zzG10M{"disable_ipv6": v == "on"}
	case "csize":
		return zzG10M{"cache_size": zzG10Atoi(v)}
	case "cttl":
		p := strings.SplitN(v, "-", 2)

		return zzG10M{"cache_ttl_min": zzG10Atoi(p[0]), "cache_ttl_max": zzG10Atoi(p[1])}
	case "upmode":
		switch v {
		case "lb":
			return zzG10M{"upstream_mode": "load_balance"}
		case "fastest":
			return zzG10M{"upstream_mode": "fastest_addr"}
		case "bogus":
			return companion(zzG10M{"upstream_mode": "bogus"})
		default:
			return zzG10M{"upstream_mode": v}
		}
	case "lptr":
		if v == "L" {
			return zzG10M{"local_ptr_upstreams": []string{a.upstream("L")}}
		}

		return zzG10M{"local_ptr_upstreams": []string{}}
	case "useptr":
		return zzG10M{"use_private_ptr_resolvers": v == "on"}
	case "uto":
		m = zzG10M{"upstream_timeout": zzG10Atoi(v)}
		if v == "0" {
			return companion(m)
		}

		return m
	}

	return nil
}

var zzG10DNSComps = map[string]bool{"ups": true, "boot": true, "blk": true, "blkttl": true, "prot": true, "rl": true,
	"rl4": true, "ecs": true, "dnssec": true, "noaaaa": true, "csize": true, "cttl": true, "upmode": true,
	"lptr": true, "useptr": true, "uto": true}

var zzG10Malformed = map[string][2]string{
	"dns_config":       {http.MethodPost, "/control/dns_config"},
	"filtering_config": {http.MethodPost, "/control/filtering/config"},
	"set_rules":        {http.MethodPost, "/control/filtering/set_rules"},
	"add_url":          {http.MethodPost, "/control/filtering/add_url"},
	"set_url":          {http.MethodPost, "/control/filtering/set_url"},
	"safesearch":       {http.MethodPut, "/control/safesearch/settings"},
	"rewrite_add":      {http.MethodPost, "/control/rewrite/add"},
	"services":         {http.MethodPut, "/control/blocked_services/update"},
	"access":           {http.MethodPost, "/control/access/set"},
	"clients_add":      {http.MethodPost, "/control/clients/add"},
	"querylog":         {http.MethodPut, "/control/querylog/config/update"},
	"stats":            {http.MethodPut, "/control/stats/config/update"},
	"language":         {http.MethodPost, "/control/i18n/change_language"},
	"profile":          {http.MethodPut, "/control/profile/update"},
	"dhcp_set_config":  {http.MethodPost, "/control/dhcp/set_config"},
	"dhcp_add_lease":   {http.MethodPost, "/control/dhcp/add_static_lease"},
}

// request turns a label into the HTTP request that asks for it.
func (a *zzG10Arena) request(l zzG10Lab) (method, path string, body []byte, ok bool) {
	post := http.MethodPost
	rw := func(id string) zzG10M {
		r := zzG10Rewrites[id]

		return zzG10M{"domain": r[0], "answer": r[1]}
	}

	switch l.Op {
	case "set":
		if zzG10DNSComps[l.C] {
			return post, "/control/dns_config", zzG10JSON(a.dnsField(l.C, l.V)), true
		}

		switch l.C {
		case "fcfg":
			p := strings.SplitN(l.V, "-", 2)

			return post, "/control/filtering/config", zzG10JSON(zzG10M{"enabled": p[0] == "on", "interval": zzG10Atoi(p[1])}), true
		case "rules":
			return post, "/control/filtering/set_rules", zzG10JSON(zzG10M{"rules": zzG10Rules[l.V]}), true
		case "sb":
			return post, "/control/safebrowsing/" + map[string]string{"on": "enable", "off": "disable"}[l.V], nil, true
		case "par":
			return post, "/control/parental/" + map[string]string{"on": "enable", "off": "disable"}[l.V], nil, true
		case "ss":
			return http.MethodPut, "/control/safesearch/settings", zzG10JSON(zzG10SafeSearch(l.V)), true
		case "svc":
			m := zzG10M{"ids": zzG10Services[l.V], "schedule": zzG10M{"time_zone": "UTC"}}
			switch l.V {
			case "s1p":
				m["schedule"] = zzG10FullWeek()
			case "badsched":
				m["ids"] = []string{"500px"}
				m["schedule"] = zzG10M{"time_zone": "UTC", "mon": zzG10M{"start": 7200000, "end": 3600000}}
			}

			return http.MethodPut, "/control/blocked_services/update", zzG10JSON(m), true
		case "acc":
			return post, "/control/access/set", zzG10JSON(a.accessBody(l.V)), true
		case "qlog":
			return http.MethodPut, "/control/querylog/config/update", zzG10JSON(a.logConfBody("qlog", l.V)), true
		case "stats":
			return http.MethodPut, "/control/stats/config/update", zzG10JSON(a.logConfBody("stats", l.V)), true
		case "lang":
			return post, "/control/i18n/change_language", zzG10JSON(zzG10M{"language": l.V}), true
		case "dhcp":
			c := zzG10DHCP[l.V]

			return post, "/control/dhcp/set_config", zzG10JSON(zzG10M{"enabled": false, "interface_name": "lo",
				"v4": zzG10M{"gateway_ip": c[0], "subnet_mask": c[1], "range_start": c[2], "range_end": c[3],
					"lease_duration": zzG10Atoi(c[4])}}), true
		}
	case "malformed":
		e, found := zzG10Malformed[l.C]

		return e[0], e[1], []byte(`{"enabled": tru`), found
	case "ls_add":
		return post, "/control/filtering/add_url", zzG10JSON(zzG10M{"name": l.V, "url": a.listPath(l.V[1:]), "whitelist": false}), true
	case "ls_rm":
		return post, "/control/filtering/remove_url", zzG10JSON(zzG10M{"url": a.listPath(l.V[1:]), "whitelist": false}), true
	case "ls_set":
		u := a.listPath(l.V[1:])

		return post, "/control/filtering/set_url", zzG10JSON(zzG10M{"url": u, "whitelist": false,
			"data": zzG10M{"name": l.V, "url": u, "enabled": l.W == "on"}}), true
	case "rw_add":
		return post, "/control/rewrite/add", zzG10JSON(rw(l.V)), true
	case "rw_del":
		return post, "/control/rewrite/delete", zzG10JSON(rw(l.V)), true
	case "rw_upd":
		return http.MethodPut, "/control/rewrite/update", zzG10JSON(zzG10M{"target": rw(l.V), "update": rw(l.W)}), true
	case "cl_add":
		return post, "/control/clients/add", zzG10JSON(zzG10ClientBody(l.V, l.W, zzG10ClientAddr[l.V])), true
	case "cl_upd":
		return post, "/control/clients/update", zzG10JSON(zzG10M{"name": "g10" + l.V,
			"data": zzG10ClientBody(l.V, l.W, zzG10ClientAddr[l.V])}), true
	case "cl_del":
		return post, "/control/clients/delete", zzG10JSON(zzG10M{"name": "g10" + l.V}), true
	case "cl_add_clash":
		return post, "/control/clients/add", zzG10JSON(zzG10ClientBody("c2", "b", zzG10ClientAddr["c1"])), true
	case "ss_enable":
		return post, "/control/safesearch/enable", nil, true
	case "ss_disable":
		return post, "/control/safesearch/disable", nil, true
	case "svc_legacy":
		return post, "/control/blocked_services/set", zzG10JSON(zzG10Services[l.V]), true
	case "lease_add", "lease_rm":
		e := zzG10Leases[l.V]
		path := map[string]string{"lease_add": "/control/dhcp/add_static_lease", "lease_rm": "/control/dhcp/remove_static_lease"}[l.Op]

		return post, path, zzG10JSON(zzG10M{"mac": e[0], "ip": e[1], "hostname": e[2]}), true
	case "profile":
		return http.MethodPut, "/control/profile/update", zzG10JSON(zzG10M{"name": "", "language": l.V, "theme": l.W}), true
	}

	return "", "", nil, false
}

// ----------------------------------------------------------- abstraction

// zzG10Dig walks nested maps; missing -> nil.
func zzG10Dig(m any, path ...string) (v any) {
	v = m
	for _, k := range path {
		mm, ok := v.(map[string]any)
		if !ok {
			return nil
		}

		v = mm[k]
	}

	return v
}

func zzG10Strs(v any) (l []string) {
	arr, _ := v.([]any)
	l = []string{}
	for _, x := range arr {
		l = append(l, fmt.Sprint(x))
	}

	return l
}

func zzG10Sorted(l []string) (out []string) {
	out = append([]string{}, l...)
	sort.Strings(out)

	return out
}

func zzG10Uniq(l []string) (out []string) {
	seen := map[string]bool{}
	for _, x := range l {
		if !seen[x] {
			seen[x] = true
			out = append(out, x)
		}
	}

	return out
}

func zzG10Bool(v any) (b bool) { b, _ = v.(bool); return b }

func zzG10Int(v any) (n int64) {
	switch x := v.(type) {
	case float64:
		return int64(x)
	case int:
		return int64(x)
	case int64:
		return x
	case uint64:
		return int64(x)
	case string:
		if d, err := time.ParseDuration(x); err == nil {
			return d.Milliseconds()
		}

		n, _ = strconv.ParseInt(x, 10, 64)
	}

	return n
}

func zzG10Str(v any) (s string) {
	if v == nil {
		return ""
	}

	return fmt.Sprint(v)
}

func zzG10OnOff(b bool) (s string) {
	if b {
		return "on"
	}

	return "off"
}

func zzG10Name(table map[string]int, n int64, prefix string) (s string) {
	for k, v := range table {
		if int64(v) == n && strings.HasPrefix(k, prefix) {
			return k
		}
	}

	return fmt.Sprintf("?%d", n)
}

// zzG10Raw is the concrete form of the settings as one place shows them,
// already in common units; absOf turns it into the abstract record.
type zzG10Raw struct {
	ups, boot, lptr                    []string
	blkMode, blk4, blk6                string
	blkttl, rl, rl4, csize, tmin, tmax int64
	utoMs                              int64
	prot, dnssec, noaaaa, useptr       bool
	ecsOn, ecsCustom                   bool
	ecsIP, upmode                      string
	fen                                bool
	fivl                               int64
	rules                              []string
	lists                              map[string]string // url -> on/off (without the background list)
	sb, par                            bool
	ss                                 map[string]bool
	rw                                 [][2]string
	svcIDs                             []string
	svcSched                           int // number of days with a range
	svcTZ                              string
	allowed, disallowed, hosts         []string
	clients                            []zzG10M
	qEnabled, qAnon                    bool
	qIvl                               int64
	qIgn                               []string
	sEnabled                           bool
	sIvl                               int64
	sIgn                               []string
	lang, theme                        string
	lang2                              string
	dhcpOn                             bool
	dhcpIface                          string
	dhcp4                              [5]string
	leases                             [][3]string
	bad                                []string
}

func (a *zzG10Arena) absOf(r *zzG10Raw) (st zzG10M) {
	st = zzG10M{}
	upName := func(l []string, none string) string {
		s := ""
		for _, u := range l {
			switch u {
			case a.upstream("A"):
				s += "A"
			case a.upstream("B"):
				s += "B"
			case a.upstream("L"):
				s += "L"
			case "!!bad upstream!!":
				s += "bad"
			default:
				s += "?" + u
			}
		}

		if s == "" {
			return none
		}

		return s
	}
	st["ups"] = upName(r.ups, "?empty")
	switch strings.Join(r.boot, ",") {
	case "9.9.9.10":
		st["boot"] = "b0"
	case "149.112.112.10,2620:fe::10":
		st["boot"] = "b1"
	case "not an address":
		st["boot"] = "bad"
	default:
		st["boot"] = "?" + strings.Join(r.boot, ",")
	}

	st["blk"] = r.blkMode
	if r.blkMode == "custom_ip" {
		switch r.blk4 + "|" + r.blk6 {
		case "10.9.8.7|fd00::7":
			st["blk"] = "custom1"
		case "10.9.8.8|fd00::8":
			st["blk"] = "custom2"
		default:
			st["blk"] = "?custom " + r.blk4 + "|" + r.blk6
		}
	}

	st["blkttl"] = fmt.Sprintf("t%d", r.blkttl)
	st["prot"] = zzG10OnOff(r.prot)
	st["rl"] = fmt.Sprint(r.rl)
	st["rl4"] = fmt.Sprint(r.rl4)
	switch {
	case !r.ecsOn && !r.ecsCustom:
		st["ecs"] = "off"
	case r.ecsOn && !r.ecsCustom:
		st["ecs"] = "on"
	case r.ecsOn && r.ecsCustom && r.ecsIP == "203.0.113.5":
		st["ecs"] = "custom"
	default:
		st["ecs"] = fmt.Sprintf("?%v/%v/%s", r.ecsOn, r.ecsCustom, r.ecsIP)
	}

	st["dnssec"] = zzG10OnOff(r.dnssec)
	st["noaaaa"] = zzG10OnOff(r.noaaaa)
	switch r.csize {
	case 4194304:
		st["csize"] = "4m"
	case 65536:
		st["csize"] = "64k"
	default:
		st["csize"] = fmt.Sprint(r.csize)
	}

	st["cttl"] = fmt.Sprintf("%d-%d", r.tmin, r.tmax)
	switch r.upmode {
	case "", "load_balance":
		st["upmode"] = "lb"
	case "parallel":
		st["upmode"] = "parallel"
	case "fastest_addr":
		st["upmode"] = "fastest"
	default:
		st["upmode"] = "?" + r.upmode
	}

	st["lptr"] = upName(r.lptr, "none")
	st["useptr"] = zzG10OnOff(r.useptr)
	if r.utoMs%1000 == 0 {
		st["uto"] = fmt.Sprint(r.utoMs / 1000)
	} else {
		st["uto"] = fmt.Sprintf("?%dms", r.utoMs)
	}

	st["fcfg"] = fmt.Sprintf("%s-%d", zzG10OnOff(r.fen), r.fivl)
	st["rules"] = "?" + strings.Join(r.rules, " ")
	for k, v := range zzG10Rules {
		if strings.Join(v, " ") == strings.Join(r.rules, " ") {
			st["rules"] = k
		}
	}

	lists := zzG10M{"L1": "absent", "L2": "absent"}
	for u, e := range r.lists {
		switch u {
		case a.listPath("1"):
			lists["L1"] = e
		case a.listPath("2"):
			lists["L2"] = e
		case a.listPath("0"):
			if e != "on" {
				r.bad = append(r.bad, "background list "+e)
			}
		default:
			lists["?"+u] = e
		}
	}

	if _, ok := r.lists[a.listPath("0")]; !ok {
		r.bad = append(r.bad, "background list absent")
	}

	st["lists"] = lists
	st["sb"] = zzG10OnOff(r.sb)
	st["par"] = zzG10OnOff(r.par)
	others := true
	for _, k := range []string{"bing", "duckduckgo", "ecosia", "pixabay", "yandex", "youtube"} {
		others = others && r.ss[k]
	}

	switch {
	case !others:
		st["ss"] = fmt.Sprintf("?%v", r.ss)
	case r.ss["enabled"] && r.ss["google"]:
		st["ss"] = "all"
	case r.ss["enabled"]:
		st["ss"] = "nogoogle"
	case r.ss["google"]:
		st["ss"] = "off"
	default:
		st["ss"] = "offng"
	}

	rws := []string{}
	seen := map[string]bool{}
	for _, e := range r.rw {
		id := "?" + e[0] + ">" + e[1]
		for k, v := range zzG10Rewrites {
			if v == e {
				id = k
			}
		}

		if !seen[id] {
			seen[id] = true
			rws = append(rws, id)
		}
	}

	sort.Strings(rws)
	st["rw"] = rws

	ids := strings.Join(zzG10Sorted(r.svcIDs), ",")
	switch {
	case r.svcSched == 0 && ids == "":
		st["svc"] = "none"
	case r.svcSched == 0 && ids == "4chan":
		st["svc"] = "s1"
	case r.svcSched == 0 && ids == "4chan,500px":
		st["svc"] = "s12"
	case r.svcSched == 0 && ids == "500px":
		st["svc"] = "s2"
	case r.svcSched == 0 && ids == "4chan,nosuchservice":
		st["svc"] = "unknown"
	case r.svcSched == 7 && ids == "4chan":
		st["svc"] = "s1p"
	default:
		st["svc"] = fmt.Sprintf("?%s/%d", ids, r.svcSched)
	}

	hosts := []string{}
	for _, h := range r.hosts {
		dflt := false
		for _, d := range zzG10DefaultBlockedHosts {
			dflt = dflt || d == h
		}

		if !dflt {
			hosts = append(hosts, h)
		}
	}

	acc := strings.Join(zzG10Sorted(r.allowed), ",") + "|" + strings.Join(zzG10Sorted(r.disallowed), ",") + "|" +
		strings.Join(zzG10Sorted(hosts), ",")
	switch acc {
	case "||":
		st["acc"] = "none"
	case "|127.0.0.9|":
		st["acc"] = "dis"
	case "||acc.g10.test":
		st["acc"] = "host"
	case "127.0.0.1,127.0.0.2,127.0.0.3||":
		st["acc"] = "allow"
	default:
		st["acc"] = "?" + acc
	}

	switch {
	case len(r.hosts) == 0 && acc == "||":
		st["acc"] = "nohosts"
	case len(r.hosts)-len(hosts) != len(zzG10DefaultBlockedHosts):
		st["acc"] = "?hosts " + strings.Join(r.hosts, ",")
	}

	cl := zzG10M{"c1": "absent", "c2": "absent"}
	for _, c := range r.clients {
		name := zzG10Str(c["name"])
		k := strings.TrimPrefix(name, "g10")
		if _, ok := zzG10ClientAddr[k]; !ok || !strings.HasPrefix(name, "g10") {
			cl["?"+name] = "present"

			continue
		}

		idl := strings.Join(zzG10Strs(c["ids"]), ",")
		ug, ubs := zzG10Bool(c["use_global_settings"]), zzG10Bool(c["use_global_blocked_services"])
		bs := strings.Join(zzG10Strs(c["blocked_services"]), ",")
		switch {
		case idl != zzG10ClientAddr[k]:
			cl[k] = "?ids " + idl
		case !ug && !zzG10Bool(c["filtering_enabled"]) && ubs && bs == "":
			cl[k] = "a"
		case ug && !ubs && bs == "9gag":
			cl[k] = "b"
		default:
			cl[k] = fmt.Sprintf("?%v/%v/%v/%s", ug, zzG10Bool(c["filtering_enabled"]), ubs, bs)
		}
	}

	st["cl"] = cl

	logName := func(enabled, anon bool, ivl int64, ign []string, dflt int64) string {
		n := 0
		s := "def"
		if !enabled {
			n++
			s = "off"
		}

		if anon {
			n++
			s = "anon"
		}

		if ivl != dflt {
			n++
			s = zzG10Name(zzG10Num, ivl, "ivl")
		}

		switch strings.Join(ign, ",") {
		case "":
		case "ign.g10.test":
			n++
			s = "ign"
		default:
			return "?ign " + strings.Join(ign, ",")
		}

		if n > 1 {
			return fmt.Sprintf("?%v/%v/%d/%v", enabled, anon, ivl, ign)
		}

		return s
	}
	st["qlog"] = logName(r.qEnabled, r.qAnon, r.qIvl, r.qIgn, 7776000000)
	st["stats"] = logName(r.sEnabled, false, r.sIvl, r.sIgn, 86400000)
	st["lang"] = r.lang
	if r.lang == "" {
		st["lang"] = "none"
	}

	if r.lang2 != r.lang {
		st["lang"] = "?" + r.lang + "/" + r.lang2
	}

	st["theme"] = r.theme

	st["dhcp"] = fmt.Sprintf("?%v %s %v", r.dhcpOn, r.dhcpIface, r.dhcp4)
	switch {
	case r.dhcpOn:
	case r.dhcpIface == "" && r.dhcp4[0] == "" && r.dhcp4[2] == "":
		st["dhcp"] = "none"
	case r.dhcpIface == "lo":
		for k, v := range zzG10DHCP {
			if v == r.dhcp4 {
				st["dhcp"] = k
			}
		}
	}

	ls := []string{}
	for _, e := range r.leases {
		id := "?" + strings.Join(e[:], "/")
		for k, v := range zzG10Leases {
			if v == e {
				id = k
			}
		}

		ls = append(ls, id)
	}

	sort.Strings(ls)
	st["leases"] = ls

	return st
}

// reported asks every GET endpoint of the settings families.
func (a *zzG10Arena) reported() (st zzG10M, err error) {
	get := func(p string) (v any, e error) {
		r := a.do(http.MethodGet, p, nil)
		if r.Code != 200 {
			return nil, fmt.Errorf("GET %s: %d %s %s", p, r.Code, r.Err, r.Body)
		}

		if e = json.Unmarshal(r.Body, &v); e != nil {
			return nil, fmt.Errorf("GET %s: %v", p, e)
		}

		return v, nil
	}

	var d, f, sb, par, ss, rw, svc, acc, cl, ql, sc, prof, lng, dh any
	for _, g := range []struct {
		p string
		v *any
	}{{"/control/dns_info", &d}, {"/control/filtering/status", &f}, {"/control/safebrowsing/status", &sb},
		{"/control/parental/status", &par}, {"/control/safesearch/status", &ss}, {"/control/rewrite/list", &rw},
		{"/control/blocked_services/get", &svc}, {"/control/access/list", &acc}, {"/control/clients", &cl},
		{"/control/querylog/config", &ql}, {"/control/stats/config", &sc}, {"/control/profile", &prof},
		{"/control/i18n/current_language", &lng}, {"/control/dhcp/status", &dh}} {
		if *g.v, err = get(g.p); err != nil {
			return nil, err
		}
	}

	r := &zzG10Raw{
		ups: zzG10Strs(zzG10Dig(d, "upstream_dns")), boot: zzG10Strs(zzG10Dig(d, "bootstrap_dns")),
		lptr:    zzG10Strs(zzG10Dig(d, "local_ptr_upstreams")),
		blkMode: zzG10Str(zzG10Dig(d, "blocking_mode")), blk4: zzG10Str(zzG10Dig(d, "blocking_ipv4")),
		blk6:   zzG10Str(zzG10Dig(d, "blocking_ipv6")),
		blkttl: zzG10Int(zzG10Dig(d, "blocked_response_ttl")), rl: zzG10Int(zzG10Dig(d, "ratelimit")),
		rl4:   zzG10Int(zzG10Dig(d, "ratelimit_subnet_len_ipv4")),
		csize: zzG10Int(zzG10Dig(d, "cache_size")), tmin: zzG10Int(zzG10Dig(d, "cache_ttl_min")),
		tmax: zzG10Int(zzG10Dig(d, "cache_ttl_max")), utoMs: 1000 * zzG10Int(zzG10Dig(d, "upstream_timeout")),
		prot: zzG10Bool(zzG10Dig(d, "protection_enabled")), dnssec: zzG10Bool(zzG10Dig(d, "dnssec_enabled")),
		noaaaa: zzG10Bool(zzG10Dig(d, "disable_ipv6")), useptr: zzG10Bool(zzG10Dig(d, "use_private_ptr_resolvers")),
		ecsOn: zzG10Bool(zzG10Dig(d, "edns_cs_enabled")), ecsCustom: zzG10Bool(zzG10Dig(d, "edns_cs_use_custom")),
		ecsIP: zzG10Str(zzG10Dig(d, "edns_cs_custom_ip")), upmode: zzG10Str(zzG10Dig(d, "upstream_mode")),
		fen: zzG10Bool(zzG10Dig(f, "enabled")), fivl: zzG10Int(zzG10Dig(f, "interval")),
		rules: zzG10Strs(zzG10Dig(f, "user_rules")), lists: map[string]string{},
		sb: zzG10Bool(zzG10Dig(sb, "enabled")), par: zzG10Bool(zzG10Dig(par, "enabled")), ss: map[string]bool{},
		svcIDs: zzG10Strs(zzG10Dig(svc, "ids")), svcTZ: zzG10Str(zzG10Dig(svc, "schedule", "time_zone")),
		allowed: zzG10Strs(zzG10Dig(acc, "allowed_clients")), disallowed: zzG10Strs(zzG10Dig(acc, "disallowed_clients")),
		hosts:    zzG10Strs(zzG10Dig(acc, "blocked_hosts")),
		qEnabled: zzG10Bool(zzG10Dig(ql, "enabled")), qAnon: zzG10Bool(zzG10Dig(ql, "anonymize_client_ip")),
		qIvl: zzG10Int(zzG10Dig(ql, "interval")), qIgn: zzG10Strs(zzG10Dig(ql, "ignored")),
		sEnabled: zzG10Bool(zzG10Dig(sc, "enabled")), sIvl: zzG10Int(zzG10Dig(sc, "interval")),
		sIgn: zzG10Strs(zzG10Dig(sc, "ignored")),
		lang: zzG10Str(zzG10Dig(prof, "language")), theme: zzG10Str(zzG10Dig(prof, "theme")),
		lang2:  zzG10Str(zzG10Dig(lng, "language")),
		dhcpOn: zzG10Bool(zzG10Dig(dh, "enabled")), dhcpIface: zzG10Str(zzG10Dig(dh, "interface_name")),
		dhcp4: [5]string{zzG10Str(zzG10Dig(dh, "v4", "gateway_ip")), zzG10Str(zzG10Dig(dh, "v4", "subnet_mask")),
			zzG10Str(zzG10Dig(dh, "v4", "range_start")), zzG10Str(zzG10Dig(dh, "v4", "range_end")),
			fmt.Sprint(zzG10Int(zzG10Dig(dh, "v4", "lease_duration")))},
	}
	if r.dhcpIface == "" {
		r.dhcp4[4] = ""
	}

	if l, ok := zzG10Dig(dh, "static_leases").([]any); ok {
		for _, x := range l {
			r.leases = append(r.leases, [3]string{zzG10Str(zzG10Dig(x, "mac")), zzG10Str(zzG10Dig(x, "ip")), zzG10Str(zzG10Dig(x, "hostname"))})
		}
	}
	if !r.ecsCustom {
		r.ecsIP = ""
	}

	for _, x := range func() []any { l, _ := zzG10Dig(f, "filters").([]any); return l }() {
		r.lists[zzG10Str(zzG10Dig(x, "url"))] = zzG10OnOff(zzG10Bool(zzG10Dig(x, "enabled")))
	}

	if m, ok := ss.(map[string]any); ok {
		for k, v := range m {
			r.ss[k] = zzG10Bool(v)
		}
	}

	if l, ok := rw.([]any); ok {
		for _, x := range l {
			r.rw = append(r.rw, [2]string{zzG10Str(zzG10Dig(x, "domain")), zzG10Str(zzG10Dig(x, "answer"))})
		}
	}

	r.svcSched = zzG10Days(zzG10Dig(svc, "schedule"))
	if l, ok := zzG10Dig(cl, "clients").([]any); ok {
		for _, x := range l {
			if m, isMap := x.(map[string]any); isMap {
				r.clients = append(r.clients, m)
			}
		}
	}

	st = a.absOf(r)
	if len(r.bad) > 0 {
		st["_bad"] = strings.Join(r.bad, "; ")
	}

	return st, nil
}

func zzG10Days(sched any) (n int) {
	m, _ := sched.(map[string]any)
	for _, d := range []string{"sun", "mon", "tue", "wed", "thu", "fri", "sat"} {
		if dm, ok := m[d].(map[string]any); ok && zzG10Int(dm["end"]) > zzG10Int(dm["start"]) {
			n++
		}
	}

	return n
}

// fileState parses AdGuardHome.yaml (yaml.v3 into a map, no struct of the
// server) and projects the same components.
func (a *zzG10Arena) fileState() (st zzG10M, err error) {
	b, err := os.ReadFile(a.confPath())
	if err != nil {
		return nil, err
	}

	var y any
	if err = yaml.Unmarshal(b, &y); err != nil {
		return nil, fmt.Errorf("configuration file does not parse: %w", err)
	}

	r := &zzG10Raw{
		ups: zzG10Strs(zzG10Dig(y, "dns", "upstream_dns")), boot: zzG10Strs(zzG10Dig(y, "dns", "bootstrap_dns")),
		lptr:    zzG10Strs(zzG10Dig(y, "dns", "local_ptr_upstreams")),
		blkMode: zzG10Str(zzG10Dig(y, "filtering", "blocking_mode")), blk4: zzG10Str(zzG10Dig(y, "filtering", "blocking_ipv4")),
		blk6:   zzG10Str(zzG10Dig(y, "filtering", "blocking_ipv6")),
		blkttl: zzG10Int(zzG10Dig(y, "filtering", "blocked_response_ttl")), rl: zzG10Int(zzG10Dig(y, "dns", "ratelimit")),
		rl4:   zzG10Int(zzG10Dig(y, "dns", "ratelimit_subnet_len_ipv4")),
		csize: zzG10Int(zzG10Dig(y, "dns", "cache_size")), tmin: zzG10Int(zzG10Dig(y, "dns", "cache_ttl_min")),
		tmax: zzG10Int(zzG10Dig(y, "dns", "cache_ttl_max")), utoMs: zzG10Int(zzG10Dig(y, "dns", "upstream_timeout")),
		prot: zzG10Bool(zzG10Dig(y, "filtering", "protection_enabled")), dnssec: zzG10Bool(zzG10Dig(y, "dns", "enable_dnssec")),
		noaaaa: zzG10Bool(zzG10Dig(y, "dns", "aaaa_disabled")), useptr: zzG10Bool(zzG10Dig(y, "dns", "use_private_ptr_resolvers")),
		ecsOn:     zzG10Bool(zzG10Dig(y, "dns", "edns_client_subnet", "enabled")),
		ecsCustom: zzG10Bool(zzG10Dig(y, "dns", "edns_client_subnet", "use_custom")),
		ecsIP:     zzG10Str(zzG10Dig(y, "dns", "edns_client_subnet", "custom_ip")), upmode: zzG10Str(zzG10Dig(y, "dns", "upstream_mode")),
		fen: zzG10Bool(zzG10Dig(y, "filtering", "filtering_enabled")), fivl: zzG10Int(zzG10Dig(y, "filtering", "filters_update_interval")),
		rules: zzG10Strs(zzG10Dig(y, "user_rules")), lists: map[string]string{},
		sb: zzG10Bool(zzG10Dig(y, "filtering", "safebrowsing_enabled")), par: zzG10Bool(zzG10Dig(y, "filtering", "parental_enabled")),
		ss:      map[string]bool{},
		svcIDs:  zzG10Strs(zzG10Dig(y, "filtering", "blocked_services", "ids")),
		svcTZ:   zzG10Str(zzG10Dig(y, "filtering", "blocked_services", "schedule", "time_zone")),
		allowed: zzG10Strs(zzG10Dig(y, "dns", "allowed_clients")), disallowed: zzG10Strs(zzG10Dig(y, "dns", "disallowed_clients")),
		hosts:    zzG10Strs(zzG10Dig(y, "dns", "blocked_hosts")),
		qEnabled: zzG10Bool(zzG10Dig(y, "querylog", "enabled")), qAnon: zzG10Bool(zzG10Dig(y, "dns", "anonymize_client_ip")),
		qIvl: zzG10Int(zzG10Dig(y, "querylog", "interval")), qIgn: zzG10Strs(zzG10Dig(y, "querylog", "ignored")),
		sEnabled: zzG10Bool(zzG10Dig(y, "statistics", "enabled")), sIvl: zzG10Int(zzG10Dig(y, "statistics", "interval")),
		sIgn: zzG10Strs(zzG10Dig(y, "statistics", "ignored")),
		lang: zzG10Str(zzG10Dig(y, "language")), theme: zzG10Str(zzG10Dig(y, "theme")),
	}
	r.lang2 = r.lang
	if !r.ecsCustom {
		r.ecsIP = ""
	}

	r.dhcpOn = zzG10Bool(zzG10Dig(y, "dhcp", "enabled"))
	r.dhcpIface = zzG10Str(zzG10Dig(y, "dhcp", "interface_name"))
	r.dhcp4 = [5]string{zzG10Str(zzG10Dig(y, "dhcp", "dhcpv4", "gateway_ip")), zzG10Str(zzG10Dig(y, "dhcp", "dhcpv4", "subnet_mask")),
		zzG10Str(zzG10Dig(y, "dhcp", "dhcpv4", "range_start")), zzG10Str(zzG10Dig(y, "dhcp", "dhcpv4", "range_end")),
		fmt.Sprint(zzG10Int(zzG10Dig(y, "dhcp", "dhcpv4", "lease_duration")))}
	if r.dhcpIface == "" {
		r.dhcp4[4] = ""
	}

	// The static leases live in data/leases.json.
	if lb, lerr := os.ReadFile(filepath.Join(a.work, "data", "leases.json")); lerr == nil {
		var lj any
		if json.Unmarshal(lb, &lj) != nil {
			r.bad = append(r.bad, "leases.json does not parse")
		}

		ll, _ := zzG10Dig(lj, "leases").([]any)
		for _, x := range ll {
			if zzG10Bool(zzG10Dig(x, "static")) {
				r.leases = append(r.leases, [3]string{zzG10Str(zzG10Dig(x, "mac")), zzG10Str(zzG10Dig(x, "ip")), zzG10Str(zzG10Dig(x, "hostname"))})
			}
		}
	}

	if l, ok := zzG10Dig(y, "filters").([]any); ok {
		ids := map[string]bool{}
		for _, x := range l {
			r.lists[zzG10Str(zzG10Dig(x, "url"))] = zzG10OnOff(zzG10Bool(zzG10Dig(x, "enabled")))
			id := zzG10Str(zzG10Dig(x, "id"))
			if ids[id] {
				// See notes(): remembered for the rest of the deployment.
				a.dupSeen = true
			}

			ids[id] = true
		}
	}

	if m, ok := zzG10Dig(y, "filtering", "safe_search").(map[string]any); ok {
		for k, v := range m {
			r.ss[k] = zzG10Bool(v)
		}
	}

	if l, ok := zzG10Dig(y, "filtering", "rewrites").([]any); ok {
		for _, x := range l {
			r.rw = append(r.rw, [2]string{zzG10Str(zzG10Dig(x, "domain")), zzG10Str(zzG10Dig(x, "answer"))})
		}
	}

	r.svcSched = zzG10YAMLDays(zzG10Dig(y, "filtering", "blocked_services", "schedule"))
	if l, ok := zzG10Dig(y, "clients", "persistent").([]any); ok {
		for _, x := range l {
			m, isMap := x.(map[string]any)
			if !isMap {
				continue
			}

			c := zzG10M{"name": m["name"], "ids": m["ids"], "use_global_settings": m["use_global_settings"],
				"filtering_enabled": m["filtering_enabled"], "use_global_blocked_services": m["use_global_blocked_services"],
				"blocked_services": zzG10Dig(m, "blocked_services", "ids")}
			r.clients = append(r.clients, c)
		}
	}

	st = a.absOf(r)
	if len(r.bad) > 0 {
		st["_bad"] = strings.Join(r.bad, "; ")
	}

	return st, nil
}

func zzG10YAMLDays(sched any) (n int) {
	m, _ := sched.(map[string]any)
	for _, d := range []string{"sun", "mon", "tue", "wed", "thu", "fri", "sat"} {
		if dm, ok := m[d].(map[string]any); ok && zzG10Int(dm["end"]) > zzG10Int(dm["start"]) {
			n++
		}
	}

	return n
}

func zzG10Canon(v any) (s string) {
	b, _ := json.Marshal(v)

	return string(b)
}

// ----------------------------------------------------------------- effects

// zzG10MockAnswer tells whether a signature is an answer of one of the mock
// upstreams (i.e. the question was forwarded, not answered locally).
func zzG10Forwarded(sig string) (ok bool) {
	return strings.Contains(sig, "A=192.0.2.") || strings.Contains(sig, "AAAA=2001:db8::")
}

// effects checks that what DNS clients experience is what the settings st
// (as REPORTED by the server) say.  It returns one line per component whose
// observable behaviour contradicts its reported value.  Components whose effect
// cannot be seen in the current settings (e.g. the blocking mode while
// protection is off) are skipped: see notes/G10.md for the table.
func (a *zzG10Arena) effects(st zzG10M) (bad []string) {
	s := func(c string) string { v, _ := st[c].(string); return v }
	sub := func(c, k string) string { m, _ := st[c].(zzG10M); v, _ := m[k].(string); return v }
	known := func(c string) bool { return !strings.HasPrefix(s(c), "?") && s(c) != "bad" && s(c) != "unknown" }
	miss := func(c, want, got string) {
		bad = append(bad, fmt.Sprintf("%s=%s: expected %s, saw %s", c, zzG10Canon(st[c]), want, got))
	}

	// Safe browsing and parental control ask a remote service for every
	// name: no DNS probes at all then.
	if s("sb") != "off" || s("par") != "off" {
		return nil
	}

	short := 120 * time.Millisecond
	// blocked reports whether name is answered locally (blocked) for src.
	sigOf := func(name string, qt uint16, src string) string { return zzG10Sig(a.ask(name, qt, src)) }
	fen := strings.HasPrefix(s("fcfg"), "on-")
	filt := s("prot") == "on" && fen && known("prot") && known("fcfg")

	// Upstream side.
	if known("ups") {
		name := a.fresh("u")
		sig := sigOf(name, dns.TypeA, "")
		sawA, sawB := a.mA.saw(name), a.mB.saw(name)
		got := ""
		if sawA.n > 0 {
			got += "A"
		}

		if sawB.n > 0 {
			got += "B"
		}

		if got != s("ups") || !zzG10Forwarded(sig) {
			miss("ups", "forwarded to "+s("ups"), "forwarded to '"+got+"' answer "+sig)
		} else {
			if known("csize") {
				_ = sigOf(name, dns.TypeA, "")
				n := a.mA.saw(name).n + a.mB.saw(name).n
				want := 1
				if s("csize") == "0" {
					want = 2
				}

				if n != want {
					miss("csize", fmt.Sprintf("%d upstream exchanges for a repeated question", want), fmt.Sprint(n))
				}
			}
		}

		if known("noaaaa") {
			name = a.fresh("v")
			sig = sigOf(name, dns.TypeAAAA, "")
			if zzG10Forwarded(sig) != (s("noaaaa") == "off") {
				miss("noaaaa", "AAAA forwarded iff off", sig)
			}
		}
	}

	// Protection / filtering switch, blocking mode, TTL.
	if known("prot") && known("fcfg") {
		m := a.ask("blk0.g10.test", dns.TypeA, "")
		sig := zzG10Sig(m)
		blocked := !zzG10Forwarded(sig)
		if blocked != filt {
			c := "prot"
			if s("prot") == "on" {
				c = "fcfg"
			}

			miss(c, fmt.Sprintf("background list blocks=%v", filt), sig)
		} else if filt && known("blk") {
			want := map[string]string{"default": "A=0.0.0.0", "null_ip": "A=0.0.0.0", "nxdomain": "rc=NXDOMAIN",
				"refused": "rc=REFUSED", "custom1": "A=10.9.8.7", "custom2": "A=10.9.8.8"}[s("blk")]
			if sig != want {
				miss("blk", want, sig)
			} else if strings.HasPrefix(sig, "A=") && known("blkttl") && len(m.Answer) == 1 {
				if ttl := fmt.Sprintf("t%d", m.Answer[0].Header().Ttl); ttl != s("blkttl") {
					miss("blkttl", s("blkttl"), ttl)
				}
			}
		}
	}

	if filt {
		if known("rules") {
			got := ""
			for _, n := range []string{"1", "2"} {
				if !zzG10Forwarded(sigOf("u"+n+".g10.test", dns.TypeA, "")) {
					got += n
				}
			}

			want := map[string]string{"none": "", "r1": "1", "r12": "12", "r2": "2"}[s("rules")]
			if got != want {
				miss("rules", "blocked user names '"+want+"'", "'"+got+"'")
			}
		}

		for _, n := range []string{"1", "2"} {
			e := sub("lists", "L"+n)
			if e == "" {
				continue
			}

			sig := sigOf("l"+n+".g10.test", dns.TypeA, "")
			if !zzG10Forwarded(sig) != (e == "on") {
				miss("lists", fmt.Sprintf("L%s blocks=%v", n, e == "on"), sig)
			}
		}

		if known("ss") {
			bing := strings.Contains(sigOf("www.bing.com", dns.TypeA, ""), "CNAME=strict.bing.com.")
			goog := strings.Contains(sigOf("www.google.com", dns.TypeA, ""), "CNAME=forcesafesearch.google.com.")
			wb := s("ss") == "all" || s("ss") == "nogoogle"
			wg := s("ss") == "all"
			if bing != wb || goog != wg {
				miss("ss", fmt.Sprintf("bing=%v google=%v", wb, wg), fmt.Sprintf("bing=%v google=%v", bing, goog))
			}
		}

		if known("svc") {
			got := ""
			if !zzG10Forwarded(sigOf("4chan.org", dns.TypeA, "")) {
				got += "1"
			}

			if !zzG10Forwarded(sigOf("500px.com", dns.TypeA, "")) {
				got += "2"
			}

			want := map[string]string{"none": "", "s1": "1", "s12": "12", "s2": "2", "s1p": ""}[s("svc")]
			if got != want {
				miss("svc", "blocked services '"+want+"'", "'"+got+"'")
			}
		}

		for k, addr := range zzG10ClientAddr {
			v := sub("cl", k)
			if v == "" || strings.HasPrefix(v, "?") {
				continue
			}

			b0 := !zzG10Forwarded(sigOf("blk0.g10.test", dns.TypeA, addr))
			gag := !zzG10Forwarded(sigOf("9gag.com", dns.TypeA, addr))
			if b0 != (v != "a") || gag != (v == "b") {
				miss("cl", fmt.Sprintf("%s=%s: list blocks=%v service blocks=%v", k, v, v != "a", v == "b"),
					fmt.Sprintf("list blocks=%v service blocks=%v", b0, gag))
			}
		}
	}

	// Rewrites are part of filtering: they are not applied while filtering
	// is switched off.
	if filt {
		rws, _ := st["rw"].([]string)
		for id, e := range zzG10Rewrites {
			has := false
			for _, x := range rws {
				has = has || x == id
			}

			// An entry added twice answers twice.
			sig := strings.Join(zzG10Uniq(strings.Split(sigOf(e[0], dns.TypeA, ""), ",")), ",")
			if (sig == "A="+e[1]) != has {
				miss("rw", fmt.Sprintf("%s present=%v", id, has), sig)
			}
		}
	}

	// Access lists: a refused client / name gets no usable answer.
	if known("acc") {
		denied := func(name, src string, expect bool) (got bool, sig string) {
			var m *dns.Msg
			if expect {
				m, _ = a.query(name, dns.TypeA, src, short)
			} else {
				m = a.ask(name, dns.TypeA, src)
			}

			sig = zzG10Sig(m)

			return !zzG10Forwarded(sig), sig
		}

		w9 := s("acc") == "dis" || s("acc") == "allow"
		if got, sig := denied(a.fresh("n"), "127.0.0.9", w9); got != w9 {
			miss("acc", fmt.Sprintf("client 127.0.0.9 denied=%v", w9), sig)
		}

		wh := s("acc") == "host"
		if got, sig := denied("acc.g10.test", "", wh); got != wh {
			miss("acc", fmt.Sprintf("blocked host denied=%v", wh), sig)
		}
	}

	// Query log and statistics.
	if known("qlog") {
		t0 := time.Now().Add(-50 * time.Millisecond)
		name := a.fresh("q")
		_ = sigOf(name, dns.TypeA, "")
		_ = sigOf("ign.g10.test", dns.TypeA, "")
		find := func(n string) (found bool, client string) {
			r := a.do(http.MethodGet, "/control/querylog?limit=20&search="+n, nil)
			var v any
			_ = json.Unmarshal(r.Body, &v)
			l, _ := zzG10Dig(v, "data").([]any)
			for _, e := range l {
				ts, err := time.Parse(time.RFC3339Nano, zzG10Str(zzG10Dig(e, "time")))
				if err == nil && ts.After(t0) && zzG10Str(zzG10Dig(e, "question", "name")) == n {
					return true, zzG10Str(zzG10Dig(e, "client"))
				}
			}

			return false, ""
		}

		found, client := find(name)
		ign, _ := find("ign.g10.test")
		wantFound := s("qlog") != "off"
		wantClient := "127.0.0.1"
		if s("qlog") == "anon" {
			wantClient = "127.0.0.0"
		}

		switch {
		case found != wantFound:
			miss("qlog", fmt.Sprintf("logged=%v", wantFound), fmt.Sprintf("logged=%v", found))
		case found && client != wantClient:
			miss("qlog", "client "+wantClient, "client "+client)
		case wantFound && ign != (s("qlog") != "ign"):
			miss("qlog", fmt.Sprintf("ignored name logged=%v", s("qlog") != "ign"), fmt.Sprintf("logged=%v", ign))
		}
	}

	if known("stats") {
		count := func() int64 {
			r := a.do(http.MethodGet, "/control/stats", nil)
			var v any
			_ = json.Unmarshal(r.Body, &v)

			return zzG10Int(zzG10Dig(v, "num_dns_queries"))
		}

		n0 := count()
		_ = sigOf(a.fresh("s"), dns.TypeA, "")
		n1 := count()
		if (n1 > n0) != (s("stats") != "off") {
			miss("stats", fmt.Sprintf("counting=%v", s("stats") != "off"), fmt.Sprintf("%d -> %d", n0, n1))
		}
	}

	// Private reverse DNS.
	if known("useptr") && known("lptr") && !(s("useptr") == "on" && s("lptr") != "L") {
		a.seq++
		name := fmt.Sprintf("%d.%d.168.192.in-addr.arpa", a.seq%250+1, (a.seq/250)%250)
		_ = sigOf(name, dns.TypePTR, "")
		saw := a.mL.saw(name).n > 0
		want := s("useptr") == "on" && s("lptr") == "L"
		if saw != want {
			miss("useptr", fmt.Sprintf("private PTR to local resolver=%v", want), fmt.Sprint(saw))
		}
	}

	return bad
}

// zzG10Obs is what the harness sees at a request boundary.
type zzG10Obs struct {
	Rep    zzG10M   `json:"rep"`
	File   zzG10M   `json:"file"`
	EffBad []string `json:"effbad"`
	Err    string   `json:"err,omitempty"`
	// Notes are remarks for the classifier of known findings; they are not
	// compared with anything.
	Notes []string `json:"notes,omitempty"`
}

// notes looks for the trace of a neighbour's known defect (G07: list ids are
// handed out again after a restart within the same second): two lists with
// one id in the file, or the start-up warning about it in the server's log.
func (a *zzG10Arena) notes() (n []string) {
	if b, err := os.ReadFile(a.logPath); err == nil && bytes.Contains(b, []byte("has duplicate id")) {
		a.dupSeen = true
	}

	if a.dupSeen {
		return []string{"duplicate filter id"}
	}

	return nil
}

// observe projects the three places.  Effects that lag (the filtering engine
// is rebuilt in the background) are given up to settle to show.
func (a *zzG10Arena) observe() (o zzG10Obs) {
	var err error
	if o.Rep, err = a.reported(); err != nil {
		o.Err = "reported: " + err.Error()

		return o
	}

	if o.File, err = a.fileState(); err != nil {
		o.Err = "file: " + err.Error()

		return o
	}

	o.EffBad = []string{}
	if os.Getenv("VERIF_G10_NOEFFECTS") != "" {
		return o
	}

	deadline := time.Now().Add(time.Duration(zzG10EnvInt("VERIF_G10_SETTLE_MS", 2500)) * time.Millisecond)
	for {
		o.EffBad = a.effects(o.Rep)
		if len(o.EffBad) == 0 || time.Now().After(deadline) {
			break
		}

		time.Sleep(25 * time.Millisecond)
	}

	if o.EffBad == nil {
		o.EffBad = []string{}
	}

	if len(o.EffBad) > 0 {
		o.Notes = a.notes()
	}

	return o
}

// -------------------------------------------------------------------- steps

// zzG10Step is the record of one executed label.
type zzG10Step struct {
	Lab  zzG10Lab `json:"lab"`
	Cls  string   `json:"cls"`
	Code int      `json:"code"`
	Body string   `json:"body,omitempty"`
	Obs  zzG10Obs `json:"obs"`
}

func zzG10Cls(code int) (cls string) {
	switch {
	case code >= 200 && code < 300:
		return "ok"
	case code >= 400 && code < 600:
		return "rej"
	default:
		return fmt.Sprintf("err%d", code)
	}
}

// exec runs one label against the deployment and observes.
func (a *zzG10Arena) exec(l zzG10Lab) (st zzG10Step) {
	st.Lab = l
	switch l.Op {
	case "restart":
		st.Cls = "boot"
		if err := a.stop(); err != nil {
			st.Cls = "stopfail"
			st.Body = err.Error()
		}

		if err := a.start(); err != nil {
			st.Cls = "bootfail"
			st.Body = err.Error()

			return st
		}
	case "crash":
		st.Cls = "boot"
		a.kill()
		if err := a.start(); err != nil {
			st.Cls = "bootfail"
			st.Body = err.Error()

			return st
		}
	case "crashduring":
		st.Cls = "boot"
		method, path, body, ok := a.request(zzG10Lab{Op: l.X, C: l.C, V: l.V, W: l.W})
		if !ok {
			st.Cls = "nolabel"

			return st
		}

		done := make(chan struct{})
		go func() { defer close(done); _ = a.do(method, path, body) }()
		// Requests take between a millisecond and (dns_config) a good 100 ms.
		d := time.Duration(a.rng.Intn(3000)) * time.Microsecond
		if a.rng.Intn(3) == 0 {
			d = time.Duration(a.rng.Intn(130)) * time.Millisecond
		}

		select {
		case <-done:
		case <-time.After(d):
		}

		a.kill()
		<-done
		if err := a.start(); err != nil {
			st.Cls = "bootfail"
			st.Body = err.Error()

			return st
		}
	default:
		method, path, body, ok := a.request(l)
		if !ok {
			st.Cls = "nolabel"

			return st
		}

		r := a.do(method, path, body)
		st.Code = r.Code
		st.Cls = zzG10Cls(r.Code)
		if st.Cls != "ok" {
			st.Body = strings.TrimSpace(string(r.Body)) + r.Err
			if len(st.Body) > 300 {
				st.Body = st.Body[:300]
			}
		}
	}

	st.Obs = a.observe()

	return st
}

// fresh deployment, started.
func (a *zzG10Arena) redeploy() (err error) {
	a.deploy()

	return a.start()
}

// TestZZVerifG10Script replays histories from a fresh deployment each:
// VERIF_G10_SCRIPTS names a file of {"id":..,"labs":[label...]} lines; every
// step with its observation goes to VERIF_G10_OUT.
func TestZZVerifG10Script(t *testing.T) {
	if os.Getenv("VERIF_G10_SCRIPTS") == "" {
		t.Skip("no VERIF_G10_SCRIPTS")
	}

	out := zzNewWriter(t, "VERIF_G10_OUT")
	defer out.close()

	type script struct {
		ID   string     `json:"id"`
		Labs []zzG10Lab `json:"labs"`
	}

	var scripts []script
	zzReadNDJSON(t, "VERIF_G10_SCRIPTS", func(line []byte) {
		s := script{}
		if err := json.Unmarshal(line, &s); err != nil {
			t.Fatalf("script: %v", err)
		}

		scripts = append(scripts, s)
	})

	nPar := zzG10EnvInt("VERIF_G10_PAR", 4)
	var mu sync.Mutex
	next := 0
	var wg sync.WaitGroup
	for w := 0; w < nPar && w < len(scripts); w++ {
		wg.Add(1)
		go func(w int) {
			defer wg.Done()

			a := zzG10NewArena(t, 100+w, zzSeed())
			defer a.destroy()

			for {
				mu.Lock()
				i := next
				next++
				mu.Unlock()
				if i >= len(scripts) {
					return
				}

				s := scripts[i]
				var rows []any
				if err := a.redeploy(); err != nil {
					rows = append(rows, zzG10M{"id": s.ID, "i": -1, "err": err.Error()})
				} else {
					rows = append(rows, zzG10M{"id": s.ID, "i": -1, "obs": a.observe()})
					for j, l := range s.Labs {
						st := a.exec(l)
						rows = append(rows, zzG10M{"id": s.ID, "i": j, "step": st})
						if strings.HasSuffix(st.Cls, "fail") {
							break
						}
					}
				}

				mu.Lock()
				for _, r := range rows {
					out.put(r)
				}
				mu.Unlock()
			}
		}(w)
	}

	wg.Wait()
}

// ------------------------------------------------------------- direction A

type zzG10Out struct {
	Cls string `json:"cls"`
	Dst int    `json:"dst"`
}

type zzG10Vec struct {
	ID     int        `json:"id"`
	Src    int        `json:"src"`
	Lab    zzG10Lab   `json:"lab"`
	Outs   []zzG10Out `json:"outs"`
	Target bool       `json:"target"`
	taken  bool
	failed bool
}

type zzG10Graph struct {
	Init   int         `json:"init"`
	States []zzG10M    `json:"states"`
	Vecs   []*zzG10Vec `json:"vecs"`
	canon  []string
	bySrc  map[int][]*zzG10Vec
	mu     sync.Mutex
	// labFails counts the disagreements per label.
	labFails map[zzG10Lab]int
}

func zzG10LoadGraph(t testing.TB, env string) (g *zzG10Graph) {
	b, err := os.ReadFile(os.Getenv(env))
	if err != nil {
		t.Fatalf("graph: %v", err)
	}

	g = &zzG10Graph{bySrc: map[int][]*zzG10Vec{}, labFails: map[zzG10Lab]int{}}
	if err = json.Unmarshal(b, g); err != nil {
		t.Fatalf("graph: %v", err)
	}

	for _, s := range g.States {
		g.canon = append(g.canon, zzG10CanonState(s))
	}

	for _, v := range g.Vecs {
		g.bySrc[v.Src] = append(g.bySrc[v.Src], v)
	}

	return g
}

// zzG10CanonState is the canonical text of an abstract settings record
// (arrays of names sorted; keys sorted by encoding/json).
func zzG10CanonState(s zzG10M) (c string) {
	m := zzG10M{}
	for k, v := range s {
		if k == "_bad" {
			continue
		}

		switch l := v.(type) {
		case []any:
			m[k] = zzG10Sorted(zzG10Strs(l))
		case []string:
			m[k] = zzG10Sorted(l)
		default:
			m[k] = v
		}
	}

	return zzG10Canon(m)
}

// pick chooses the next vector to execute from state cur: a target nobody has
// taken yet, else the first step of a shortest path to a state that has one.
func (g *zzG10Graph) pick(cur int, rng *rand.Rand, stop bool) (v *zzG10Vec) {
	g.mu.Lock()
	defer g.mu.Unlock()

	if stop {
		return nil
	}

	free := func(s int) (l []*zzG10Vec) {
		for _, x := range g.bySrc[s] {
			if x.Target && !x.taken {
				l = append(l, x)
			}
		}

		return l
	}

	if l := free(cur); len(l) > 0 {
		v = l[rng.Intn(len(l))]
		v.taken = true

		return v
	}

	// Breadth-first over the vectors with one outcome.
	first := map[int]*zzG10Vec{cur: nil}
	queue := []int{cur}
	for len(queue) > 0 {
		s := queue[0]
		queue = queue[1:]
		if s != cur && len(free(s)) > 0 {
			v = first[s]
			v.taken = true

			return v
		}

		for _, x := range g.bySrc[s] {
			if len(x.Outs) != 1 || x.Outs[0].Dst == s || x.Lab.Op == "crashduring" || x.failed {
				continue
			}

			d := x.Outs[0].Dst
			if _, seen := first[d]; seen {
				continue
			}

			if s == cur {
				first[d] = x
			} else {
				first[d] = first[s]
			}

			queue = append(queue, d)
		}
	}

	return nil
}

func (g *zzG10Graph) remaining() (n int) {
	g.mu.Lock()
	defer g.mu.Unlock()

	for _, v := range g.Vecs {
		if v.Target && !v.taken {
			n++
		}
	}

	return n
}

// match finds the admissible outcome the step realises.
func (g *zzG10Graph) match(v *zzG10Vec, st zzG10Step) (dst int, ok bool) {
	if st.Obs.Err != "" || len(st.Obs.EffBad) > 0 || st.Obs.Rep["_bad"] != nil || st.Obs.File["_bad"] != nil {
		return 0, false
	}

	rep, file := zzG10CanonState(st.Obs.Rep), zzG10CanonState(st.Obs.File)
	for _, o := range v.Outs {
		if o.Cls == st.Cls && g.canon[o.Dst] == rep && g.canon[o.Dst] == file {
			return o.Dst, true
		}
	}

	return 0, false
}

// TestZZVerifG10Walk covers the target vectors of VERIF_G10_GRAPH with tours on
// real deployments (VERIF_G10_PAR of them side by side).
func TestZZVerifG10Walk(t *testing.T) {
	if os.Getenv("VERIF_G10_GRAPH") == "" {
		t.Skip("no VERIF_G10_GRAPH")
	}

	g := zzG10LoadGraph(t, "VERIF_G10_GRAPH")
	out := zzNewWriter(t, "VERIF_G10_OUT")
	defer out.close()

	var omu sync.Mutex
	put := func(v any) { omu.Lock(); out.put(v); omu.Unlock() }
	deadline := time.Now().Add(time.Duration(zzG10EnvInt("VERIF_G10_BUDGET_S", 60)) * time.Second)
	maxHist := zzG10EnvInt("VERIF_G10_MAXHIST", 120)
	nPar := zzG10EnvInt("VERIF_G10_PAR", 4)
	var wg sync.WaitGroup
	for w := 0; w < nPar; w++ {
		wg.Add(1)
		go func(w int) {
			defer wg.Done()

			a := zzG10NewArena(t, w, zzSeed())
			defer a.destroy()

			cur := -1
			var hist []zzG10Lab
			fails := 0
			for {
				if cur < 0 {
					if err := a.redeploy(); err != nil {
						put(zzG10M{"kind": "rig", "err": "deploy: " + err.Error()})

						return
					}

					o := a.observe()
					st := zzG10Step{Cls: "init", Obs: o}
					if _, ok := g.match(&zzG10Vec{Outs: []zzG10Out{{Cls: "init", Dst: g.Init}}}, st); !ok {
						fails++
						put(zzG10M{"kind": "rig", "err": "a fresh deployment does not show the initial settings", "obs": o})
						if fails > 3 {
							return
						}

						continue
					}

					cur, hist = g.Init, nil
				}

				v := g.pick(cur, a.rng, time.Now().After(deadline))
				if v == nil {
					if cur != g.Init && !time.Now().After(deadline) && g.remaining() > 0 {
						cur = -1

						continue
					}

					return
				}

				st := a.exec(v.Lab)
				dst, ok := g.match(v, st)
				if ok && v.Lab.Op == "crashduring" {
					// Whether the interrupted change made it into the file
					// depends on timing: the history keeps what happened, in
					// a form that can be replayed.
					if dst != cur {
						hist = append(hist, zzG10Lab{Op: v.Lab.X, C: v.Lab.C, V: v.Lab.V, W: v.Lab.W})
					}

					hist = append(hist, zzG10Lab{Op: "crash"})
				} else {
					hist = append(hist, v.Lab)
				}

				if ok {
					put(zzG10M{"kind": "ok", "v": v.ID, "dst": dst, "cls": st.Cls, "n": len(hist)})
					cur = dst
					if len(hist) >= maxHist {
						cur = -1
					}

					continue
				}

				put(zzG10M{"kind": "bad", "v": v.ID, "step": st, "hist": hist, "arena": w})
				// Do not travel over this vector again, nor -- once it has
				// failed from three states -- over its label (every vector is
				// still tried once as a target).
				g.mu.Lock()
				v.failed = true
				g.labFails[v.Lab]++
				if g.labFails[v.Lab] >= 3 {
					for _, x := range g.Vecs {
						if x.Lab == v.Lab {
							x.failed = true
						}
					}
				}
				g.mu.Unlock()
				cur = -1
			}
		}(w)
	}

	wg.Wait()
	put(zzG10M{"kind": "end", "remaining": g.remaining()})
}

// ------------------------------------------------------------- direction B

// zzG10RandomLabel draws a label of the unbounded universe.  obs is the last
// observation (used only to avoid labels the specification gives no outcome).
func (a *zzG10Arena) randomLabel(rep zzG10M) (l zzG10Lab) {
	good := map[string][]string{
		"ups": {"A", "B"}, "boot": {"b0", "b1"}, "blk": {"default", "nxdomain", "refused", "null_ip", "custom1", "custom2"},
		"blkttl": {"t10", "t77", "t3600"}, "prot": {"on", "off"}, "rl": {"20", "0", "77", "5"}, "rl4": {"24", "16", "32"},
		"ecs": {"off", "on", "custom"}, "dnssec": {"off", "on"}, "noaaaa": {"off", "on"}, "csize": {"4m", "0", "64k"},
		"cttl": {"0-0", "60-3600", "0-600"}, "upmode": {"lb", "parallel", "fastest"}, "lptr": {"none", "L"},
		"useptr": {"off", "on"}, "uto": {"10", "3", "30"}, "fcfg": {"on-24", "off-24", "on-72", "on-0", "off-72", "on-168"},
		"rules": {"none", "r1", "r12", "r2"}, "sb": {"off", "on"}, "par": {"off", "on"}, "ss": {"off", "all", "nogoogle"},
		"svc": {"none", "s1", "s12", "s1p", "s2"}, "acc": {"none", "dis", "host", "allow", "nohosts"},
		"qlog": {"def", "off", "anon", "ivl7", "ign", "ivl1"}, "stats": {"def", "off", "ivl7", "ign", "ivl30"},
		"lang": {"en", "de", "fr"}, "dhcp": {"cfg1", "cfg2"},
	}
	refused := []zzG10Lab{
		{Op: "set", C: "blk", V: "bogus"}, {Op: "set", C: "rl4", V: "33"}, {Op: "set", C: "upmode", V: "bogus"},
		{Op: "set", C: "uto", V: "0"}, {Op: "set", C: "fcfg", V: "on-5"}, {Op: "set", C: "fcfg", V: "off-5"},
		{Op: "set", C: "svc", V: "badsched"}, {Op: "set", C: "svc", V: "unknown"}, {Op: "set", C: "acc", V: "dup"}, {Op: "set", C: "acc", V: "both"},
		{Op: "set", C: "qlog", V: "noenabled"}, {Op: "set", C: "stats", V: "noenabled"}, {Op: "set", C: "lang", V: "xx"},
		{Op: "set", C: "ups", V: "bad"}, {Op: "set", C: "boot", V: "bad"}, {Op: "set", C: "cttl", V: "3600-60"},
		{Op: "profile", V: "xx", W: "dark"}, {Op: "profile", V: "de", W: "pink"},
	}
	comps := make([]string, 0, len(good))
	for c := range good {
		comps = append(comps, c)
	}

	sort.Strings(comps)
	pick := func(l []string) string { return l[a.rng.Intn(len(l))] }
	change := func() zzG10Lab {
		switch n := a.rng.Intn(100); {
		case n < 55:
			c := pick(comps)

			return zzG10Lab{Op: "set", C: c, V: pick(good[c])}
		case n < 63:
			return zzG10Lab{Op: pick([]string{"ls_add", "ls_add", "ls_rm"}), V: pick([]string{"L1", "L2"})}
		case n < 67:
			return zzG10Lab{Op: "ls_set", V: pick([]string{"L1", "L2"}), W: pick([]string{"on", "off"})}
		case n < 74:
			return zzG10Lab{Op: pick([]string{"rw_add", "rw_add", "rw_del"}), V: pick([]string{"r1", "r2", "r3"})}
		case n < 77:
			return zzG10Lab{Op: "rw_upd", V: pick([]string{"r1", "r2", "r3"}), W: pick([]string{"r1", "r2", "r3"})}
		case n < 85:
			return zzG10Lab{Op: pick([]string{"cl_add", "cl_add", "cl_upd"}), V: pick([]string{"c1", "c2"}), W: pick([]string{"a", "b"})}
		case n < 88:
			return zzG10Lab{Op: "cl_del", V: pick([]string{"c1", "c2"})}
		case n < 89:
			return zzG10Lab{Op: pick([]string{"ss_enable", "ss_disable", "ss_disable"})}
		case n < 92:
			return zzG10Lab{Op: pick([]string{"lease_add", "lease_add", "lease_rm"}), V: pick([]string{"l1", "l2"})}
		case n < 95:
			if s, _ := rep["svc"].(string); s == "s1p" {
				return zzG10Lab{Op: "set", C: "svc", V: "none"}
			}

			return zzG10Lab{Op: "svc_legacy", V: pick([]string{"none", "s1", "s12"})}
		default:
			return zzG10Lab{Op: "profile", V: pick(good["lang"]), W: pick([]string{"auto", "dark", "light"})}
		}
	}

	// The documentation does not say what a rewrite entry added twice means:
	// never ask for one that is there.
	has := func(id string) bool {
		l, _ := rep["rw"].([]string)
		for _, x := range l {
			if x == id {
				return true
			}
		}

		return false
	}
	inner := change
	change = func() (l zzG10Lab) {
		for {
			l = inner()
			if (l.Op == "rw_add" && has(l.V)) || (l.Op == "rw_upd" && l.V != l.W && has(l.W)) {
				continue
			}

			// Labels that run into an open finding end the history (the
			// validator skips what follows): keep them, but rare.
			if (l.Op == "ss_enable" || (l.Op == "set" && l.C == "acc" && l.V == "nohosts")) && a.rng.Intn(4) != 0 {
				continue
			}

			// DHCP settings only without leases, leases only on cfg1's network.
			nl, _ := rep["leases"].([]string)
			dh, _ := rep["dhcp"].(string)
			if (l.Op == "set" && l.C == "dhcp" && len(nl) > 0) || (strings.HasPrefix(l.Op, "lease_") && dh != "cfg1") {
				continue
			}

			return l
		}
	}

	switch n := a.rng.Intn(100); {
	case n < 68:
		return change()
	case n < 80:
		if a.rng.Intn(4) == 0 {
			eps := make([]string, 0, len(zzG10Malformed))
			for e := range zzG10Malformed {
				eps = append(eps, e)
			}

			sort.Strings(eps)

			return zzG10Lab{Op: "malformed", C: pick(eps)}
		}

		return refused[a.rng.Intn(len(refused))]
	case n < 88:
		return zzG10Lab{Op: "restart"}
	case n < 94:
		return zzG10Lab{Op: "crash"}
	default:
		c := change()

		return zzG10Lab{Op: "crashduring", X: c.Op, C: c.C, V: c.V, W: c.W}
	}
}

// TestZZVerifG10Trace records seeded random histories for TracePersist.tla.
func TestZZVerifG10Trace(t *testing.T) {
	if os.Getenv("VERIF_G10_TRACE") == "" {
		t.Skip("no VERIF_G10_TRACE")
	}

	out := zzNewWriter(t, "VERIF_G10_TRACE")
	defer out.close()

	nHist := zzG10EnvInt("VERIF_G10_HISTORIES", 8)
	length := zzG10EnvInt("VERIF_G10_LENGTH", 60)
	nPar := zzG10EnvInt("VERIF_G10_PAR", 4)
	deadline := time.Now().Add(time.Duration(zzG10EnvInt("VERIF_G10_BUDGET_S", 60)) * time.Second)
	var mu sync.Mutex
	next := 0
	var wg sync.WaitGroup
	for w := 0; w < nPar; w++ {
		wg.Add(1)
		go func(w int) {
			defer wg.Done()

			a := zzG10NewArena(t, 50+w, zzSeed())
			defer a.destroy()

			for {
				mu.Lock()
				h := next
				next++
				mu.Unlock()
				if h >= nHist || time.Now().After(deadline) {
					return
				}

				a.rng = rand.New(rand.NewSource(zzSeed()*100003 + int64(h)))
				var rows []any
				if err := a.redeploy(); err != nil {
					rows = append(rows, zzG10M{"h": h, "i": 0, "ev": "rig", "err": err.Error()})
				} else {
					o := a.observe()
					rows = append(rows, zzG10M{"h": h, "i": 0, "ev": "reset", "lab": zzG10Lab{Op: "init"}, "cls": "init",
						"rep": o.Rep, "file": o.File, "effbad": o.EffBad, "err": o.Err})
					rep := o.Rep
					for i := 1; i <= length && !time.Now().After(deadline); i++ {
						l := a.randomLabel(rep)
						t0 := time.Now()
						st := a.exec(l)
						ms := time.Since(t0).Milliseconds()
						nz := func(m zzG10M) zzG10M {
							if m == nil {
								return zzG10M{}
							}

							return m
						}
						eb := st.Obs.EffBad
						if eb == nil {
							eb = []string{}
						}

						errs := st.Obs.Err
						if st.Obs.Rep == nil && errs == "" {
							errs = "no observation: " + st.Cls
						}

						rows = append(rows, zzG10M{"h": h, "i": i, "ev": "step", "lab": l, "cls": st.Cls, "code": st.Code,
							"rep": nz(st.Obs.Rep), "file": nz(st.Obs.File), "effbad": eb, "err": errs, "body": st.Body, "ms": ms, "notes": append([]string{}, st.Obs.Notes...)})
						// What follows a contradiction is skipped by the
						// validator anyway.
						if st.Obs.Rep == nil || len(eb) > 0 || errs != "" {
							break
						}

						rep = st.Obs.Rep
					}
				}

				mu.Lock()
				for _, r := range rows {
					out.put(r)
				}
				mu.Unlock()
			}
		}(w)
	}

	wg.Wait()
}
