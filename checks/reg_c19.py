PROPERTY = "C19"
ENTRY = {
    "text": "placeholder",
    "design_ref": "DESIGN.md section 4 C19",
    "note": "placeholder",
    "technique": "placeholder",
}
