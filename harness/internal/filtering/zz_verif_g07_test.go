package filtering

// G07 conformance harness: the life cycle of filter lists through the admin
// API (specs/FilterListsCore.tla, FilterLists.tla, TraceFilterLists.tla).
//
// A real DNSFilter over a temporary data directory is created the way package
// home does it (New, EnableFilters(false), Start) and driven ONLY through the
// handlers it registers (captured via Config.HTTPRegister): add_url,
// remove_url, set_url, set_rules, config, status, check_host.  A restart is
// WriteDiskConfig -> YAML -> Close -> New -> EnableFilters -> Start over the
// same directory.  The list sources are URLs of one httptest server that plays
// the behaviour scripted for the step.
//
// Every world lives in its own testing/synctest bubble: the clock is virtual
// (the id generator is seeded from it, so "the restart comes within the second"
// and "the restart comes later" are both deterministic), and synctest.Wait is
// the barrier for the asynchronous engine rebuild that the handlers trigger
// (EnableFilters(true)): it returns when the updates loop is idle again.  A
// rebuild that never happens is therefore observed as stale verdicts, not as
// a hang.  The httptest server runs outside of the bubbles.

import (
	"encoding/json"
	"fmt"
	"hash/fnv"
	"io"
	"math/rand"
	"net"
	"net/http"
	"net/http/httptest"
	"net/url"
	"os"
	"path/filepath"
	"sort"
	"strconv"
	"strings"
	"sync"
	"testing"
	"testing/synctest"
	"time"

	"github.com/AdguardTeam/golibs/log"
	"github.com/miekg/dns"
	"gopkg.in/yaml.v3"
)

// ------------------------------------------------------------------- types

type zzG07Act struct {
	A     string   `json:"a"`
	URL   string   `json:"url"`
	Side  string   `json:"side"`
	Name  string   `json:"name"`
	NURL  string   `json:"nurl"`
	En    bool     `json:"en"`
	Beh   string   `json:"beh"`
	Rules []string `json:"rules"`
	Late  bool     `json:"late"`
}

type zzG07Entry struct {
	P     bool     `json:"p"`
	Side  string   `json:"side"`
	Name  string   `json:"name"`
	En    bool     `json:"en"`
	ID    int      `json:"id"`
	Cnt   int      `json:"cnt"`
	Rules []string `json:"rules"`
	// Dup is the number of table entries with this URL (observations only).
	Dup int `json:"dup"`
	// File, FileRules: the list's file (observations only).
	File      bool     `json:"file"`
	FileRules []string `json:"file_rules"`
}

type zzG07Verdict struct {
	V   string `json:"v"`
	IDs []int  `json:"ids"`
}

type zzG07Obs struct {
	Lists map[string]zzG07Entry   `json:"lists"`
	User  []string                `json:"user"`
	Fen   bool                    `json:"fen"`
	Check map[string]zzG07Verdict `json:"check"`
	DNS   map[string]zzG07Verdict `json:"dns"`
	// Stray are the files in data/filters that belong to no list of the table
	// ("*.old" files are not looked at); Extra the table entries whose URL is
	// not of the universe (observations only).
	Stray []string `json:"stray"`
	Extra int      `json:"extra"`
}

type zzG07Step struct {
	Act  zzG07Act `json:"act"`
	Ok   string   `json:"ok"`
	DL   string   `json:"dl"`
	Used []int    `json:"used"`
	Exp  zzG07Obs `json:"exp"`
}

type zzG07Tour struct {
	ID    int         `json:"id"`
	Urls  []string    `json:"urls"`
	Steps []zzG07Step `json:"steps"`
}

var zzG07Probes = []string{"R1", "R2"}

func zzG07Host(atom string) (h string) { return "r" + atom[1:] + ".g07.example" }

func zzG07Rule(r string) (s string) {
	if strings.HasPrefix(r, "@@") {
		return "@@||" + zzG07Host(r[2:]) + "^"
	}

	return "||" + zzG07Host(r) + "^"
}

// zzG07Atom is the inverse of zzG07Rule; unknown lines become "?<line>".
func zzG07Atom(line string) (a string) {
	for _, p := range zzG07Probes {
		if line == zzG07Rule(p) {
			return p
		}

		if line == zzG07Rule("@@"+p) {
			return "@@" + p
		}
	}

	return "?" + line
}

func zzG07Content(c string) (atoms []string) {
	switch c {
	case "cA":
		return []string{"R1"}
	case "cB":
		return []string{"R1", "R2"}
	default:
		return nil
	}
}

var zzG07Names = map[string]string{"n1": "Name one", "n2": "Zweiter Name"}

func zzG07NameAbs(s string) (n string) {
	for k, v := range zzG07Names {
		if v == s {
			return k
		}
	}

	return "?" + s
}

// ------------------------------------------------------------ list server

// zzG07Server is the one list server of the test process; it runs outside of
// the bubbles and serves /<world>/<url>.txt according to the world's script.
type zzG07Server struct {
	srv        *httptest.Server
	closedAddr string

	mu     sync.Mutex
	worlds map[string]*zzG07World
}

var (
	zzG07Srv     *zzG07Server
	zzG07SrvOnce sync.Once
)

func zzG07TheServer() (s *zzG07Server) {
	zzG07SrvOnce.Do(func() {
		s = &zzG07Server{worlds: map[string]*zzG07World{}}
		s.srv = httptest.NewServer(http.HandlerFunc(s.serve))

		ln, err := net.Listen("tcp", "127.0.0.1:0")
		if err == nil {
			s.closedAddr = ln.Addr().String()
			_ = ln.Close()
		}

		zzG07Srv = s
	})

	return zzG07Srv
}

func (s *zzG07Server) serve(rw http.ResponseWriter, r *http.Request) {
	parts := strings.Split(strings.Trim(r.URL.Path, "/"), "/")
	if len(parts) != 2 {
		http.Error(rw, "bad path", http.StatusBadRequest)

		return
	}

	s.mu.Lock()
	w := s.worlds[parts[0]]
	s.mu.Unlock()

	if w == nil {
		http.Error(rw, "no such world", http.StatusGone)

		return
	}

	name := strings.TrimSuffix(parts[1], ".txt")

	w.mu.Lock()
	w.hits[name]++
	beh, flavour := w.beh, w.flavour
	w.mu.Unlock()

	switch beh {
	case "cA", "cB":
		rw.Header().Set("Content-Type", "text/plain")
		_, _ = rw.Write([]byte(zzG07Text(zzG07Content(beh), flavour)))
	case "blank":
		rw.Header().Set("Content-Type", "text/plain")
		_, _ = rw.Write([]byte([]string{"", "# nothing here\n", "\n\n", "! Title: Empty list\n! Homepage: x\n", " \t\r\n"}[flavour%5]))
	default:
		switch flavour % 5 {
		case 0:
			http.Error(rw, "not found", http.StatusNotFound)
		case 1:
			rw.WriteHeader(http.StatusServiceUnavailable)
		case 2:
			_, _ = rw.Write([]byte("<!DOCTYPE html>\n<html><body>" + zzG07Rule("R1") + "</body></html>\n"))
		case 3:
			_, _ = rw.Write([]byte(zzG07Rule("R2") + "\n\x00\x01\x02binary\n"))
		default:
			// Played by the transport: connection refused.  Reaching the server
			// means the transport did not play it.
			http.Error(rw, "unexpected", http.StatusTeapot)
		}
	}
}

// zzG07Text spells a rule list.
func zzG07Text(atoms []string, flavour int) (s string) {
	eol := "\n"
	if flavour%2 == 1 {
		eol = "\r\n"
	}

	b := &strings.Builder{}
	if flavour%3 == 0 {
		b.WriteString("! Title: Served title" + eol)
	}

	if flavour%5 < 2 {
		b.WriteString("# a comment" + eol + eol)
	}

	for i, a := range atoms {
		if flavour%7 == 3 {
			b.WriteString("  ")
		}

		b.WriteString(zzG07Rule(a))
		if i < len(atoms)-1 || flavour%4 != 0 {
			b.WriteString(eol)
		}
	}

	return b.String()
}

// zzG07Transport refuses the connection when the script says so.
type zzG07Transport struct {
	w    *zzG07World
	base http.RoundTripper
}

func (tr *zzG07Transport) RoundTrip(req *http.Request) (resp *http.Response, err error) {
	tr.w.mu.Lock()
	refuse := tr.w.beh == "fail" && tr.w.flavour%5 == 4
	if refuse {
		parts := strings.Split(strings.Trim(req.URL.Path, "/"), "/")
		tr.w.hits[strings.TrimSuffix(parts[len(parts)-1], ".txt")]++
	}
	tr.w.mu.Unlock()

	if refuse {
		return nil, fmt.Errorf("dial tcp %s: connect: connection refused", zzG07TheServer().closedAddr)
	}

	return tr.base.RoundTrip(req)
}

// ------------------------------------------------------------------- world

type zzG07World struct {
	key  string
	rng  *rand.Rand
	dir  string
	urls []string

	mu      sync.Mutex
	beh     string
	flavour int
	hits    map[string]int

	d    *DNSFilter
	conf *Config
	mux  map[string]http.HandlerFunc

	// bind maps the specification's ids to the real ones (direction A);
	// seen numbers the real ids in the order of their appearance (direction B).
	bind map[int]int
	seen map[int]int
}

var zzG07WorldSeq struct {
	mu sync.Mutex
	n  int
}

func zzG07NewWorld(rng *rand.Rand, urls []string) (w *zzG07World, err error) {
	dir, err := os.MkdirTemp("", "zzg07-")
	if err != nil {
		return nil, err
	}

	zzG07WorldSeq.mu.Lock()
	zzG07WorldSeq.n++
	key := "w" + strconv.Itoa(zzG07WorldSeq.n)
	zzG07WorldSeq.mu.Unlock()

	w = &zzG07World{
		key: key, rng: rng, dir: dir, urls: urls, hits: map[string]int{},
		bind: map[int]int{}, seen: map[int]int{},
	}

	s := zzG07TheServer()
	s.mu.Lock()
	s.worlds[key] = w
	s.mu.Unlock()

	err = w.start(&Config{FilteringEnabled: true, ProtectionEnabled: true})
	if err != nil {
		return nil, err
	}

	return w, nil
}

// start creates the DNSFilter the way package home does: New, EnableFilters,
// Start (which registers the handlers and starts the updates loop).
func (w *zzG07World) start(c *Config) (err error) {
	w.mux = map[string]http.HandlerFunc{}
	c.DataDir = filepath.Join(w.dir, "data")
	c.HTTPClient = &http.Client{
		Timeout:   5 * time.Second,
		Transport: &zzG07Transport{w: w, base: &http.Transport{DisableKeepAlives: true}},
	}
	c.HTTPRegister = func(method, u string, h http.HandlerFunc) { w.mux[method+" "+u] = h }
	c.ConfigModified = func() {}
	// No scheduled refreshes (C15 covers them).
	c.FiltersUpdateIntervalHours = 0
	w.conf = c

	w.d, err = New(c, nil)
	if err != nil {
		return err
	}

	w.d.EnableFilters(false)
	w.d.Start()

	return nil
}

// zzG07Persisted is what package home writes into the configuration file for
// this module.
type zzG07Persisted struct {
	Filtering        *Config      `yaml:"filtering"`
	Filters          []FilterYAML `yaml:"filters"`
	WhitelistFilters []FilterYAML `yaml:"whitelist_filters"`
	UserRules        []string     `yaml:"user_rules"`
}

// restart writes the configuration, stops the DNSFilter and creates a new one
// from the written configuration over the same data directory.  late: the
// (virtual) clock has passed every id in the table by then.
func (w *zzG07World) restart(late bool) (err error) {
	c := &Config{}
	w.d.WriteDiskConfig(c)

	b, err := yaml.Marshal(&zzG07Persisted{
		Filtering: c, Filters: c.Filters, WhitelistFilters: c.WhitelistFilters, UserRules: c.UserRules,
	})
	if err != nil {
		return fmt.Errorf("writing configuration: %w", err)
	}

	maxID := 0
	for _, fs := range [][]FilterYAML{c.Filters, c.WhitelistFilters} {
		for _, f := range fs {
			maxID = max(maxID, int(f.ID))
		}
	}

	w.d.Close()

	if late {
		if wait := int64(maxID) + 1 - time.Now().Unix(); wait > 0 {
			time.Sleep(time.Duration(wait) * time.Second)
		}
	}

	p := &zzG07Persisted{Filtering: &Config{}}
	err = yaml.Unmarshal(b, p)
	if err != nil {
		return fmt.Errorf("reading configuration: %w", err)
	}

	nc := p.Filtering
	nc.Filters, nc.WhitelistFilters, nc.UserRules = p.Filters, p.WhitelistFilters, p.UserRules

	return w.start(nc)
}

func (w *zzG07World) close() {
	w.d.Close()

	s := zzG07TheServer()
	s.mu.Lock()
	delete(s.worlds, w.key)
	s.mu.Unlock()

	_ = os.RemoveAll(w.dir)
}

// conc spells a URL of the universe.
func (w *zzG07World) conc(u string) (s string) {
	if u == "bad" {
		return []string{"ftp://lists.example/x.txt", "lists/relative.txt", "", "/nonexistent/zzg07/list.txt"}[w.rng.Intn(4)]
	}

	return zzG07TheServer().srv.URL + "/" + w.key + "/" + u + ".txt"
}

func (w *zzG07World) abs(s string) (u string) {
	for _, u = range w.urls {
		if s == zzG07TheServer().srv.URL+"/"+w.key+"/"+u+".txt" {
			return u
		}
	}

	return ""
}

func (w *zzG07World) call(method, path, body string) (code int, resp []byte, err error) {
	h := w.mux[method+" "+strings.SplitN(path, "?", 2)[0]]
	if h == nil {
		return 0, nil, fmt.Errorf("no handler for %s %s", method, path)
	}

	rec := httptest.NewRecorder()
	req := httptest.NewRequest(method, path, strings.NewReader(body))
	req.Header.Set("Content-Type", "application/json")
	h(rec, req)

	return rec.Code, rec.Body.Bytes(), nil
}

func zzG07JSON(v any) (s string) {
	b, err := json.Marshal(v)
	if err != nil {
		panic(err)
	}

	return string(b)
}

// do performs one request of the specification on the real object and waits
// for the updates loop to become idle.
func (w *zzG07World) do(act *zzG07Act) (code int, dl string, err error) {
	w.mu.Lock()
	w.beh, w.flavour = act.Beh, w.rng.Intn(1<<20)
	w.hits = map[string]int{}
	w.mu.Unlock()

	switch act.A {
	case "add":
		code, _, err = w.call(http.MethodPost, "/control/filtering/add_url", zzG07JSON(map[string]any{
			"name": zzG07Names[act.Name], "url": w.conc(act.URL), "whitelist": act.Side == "a",
		}))
	case "remove":
		code, _, err = w.call(http.MethodPost, "/control/filtering/remove_url", zzG07JSON(map[string]any{
			"url": w.conc(act.URL), "whitelist": act.Side == "a",
		}))
	case "seturl":
		code, _, err = w.call(http.MethodPost, "/control/filtering/set_url", zzG07JSON(map[string]any{
			"url": w.conc(act.URL), "whitelist": act.Side == "a",
			"data": map[string]any{"name": zzG07Names[act.Name], "url": w.conc(act.NURL), "enabled": act.En},
		}))
	case "rules":
		rules := []string{}
		for _, r := range act.Rules {
			rules = append(rules, zzG07Rule(r))
		}

		w.rng.Shuffle(len(rules), func(i, j int) { rules[i], rules[j] = rules[j], rules[i] })
		code, _, err = w.call(http.MethodPost, "/control/filtering/set_rules", zzG07JSON(map[string]any{"rules": rules}))
	case "config":
		code, _, err = w.call(http.MethodPost, "/control/filtering/config", zzG07JSON(map[string]any{
			"enabled": act.En, "interval": 0,
		}))
	case "restart":
		err = w.restart(act.Late)
		code = http.StatusOK
	default:
		err = fmt.Errorf("unknown request %q", act.A)
	}

	if err != nil {
		return 0, "", err
	}

	// The engines are rebuilt by the updates loop: wait until it is idle.
	synctest.Wait()

	w.mu.Lock()
	defer w.mu.Unlock()

	hit := []string{}
	for n := range w.hits {
		hit = append(hit, n)
	}
	sort.Strings(hit)

	dl = "-"
	if len(hit) > 0 {
		dl = strings.Join(hit, ",")
	}

	return code, dl, nil
}

func zzG07VerdictOf(reason string, ids []int) (v zzG07Verdict) {
	v = zzG07Verdict{IDs: ids}
	switch reason {
	case "NotFilteredNotFound":
		v.V = "none"
	case "NotFilteredWhiteList":
		v.V = "allow"
	case "FilteredBlackList":
		v.V = "block"
	default:
		v.V = "?" + reason
	}

	if v.IDs == nil {
		v.IDs = []int{}
	}

	return v
}

// observe projects the real state (real ids).
func (w *zzG07World) observe() (o *zzG07Obs, err error) {
	o = &zzG07Obs{
		Lists: map[string]zzG07Entry{}, User: []string{}, Stray: []string{},
		Check: map[string]zzG07Verdict{}, DNS: map[string]zzG07Verdict{},
	}

	_, body, err := w.call(http.MethodGet, "/control/filtering/status", "")
	if err != nil {
		return nil, err
	}

	status := &filteringConfig{}
	err = json.Unmarshal(body, status)
	if err != nil {
		return nil, fmt.Errorf("status: %w", err)
	}

	o.Fen = status.Enabled
	for _, r := range status.UserRules {
		o.User = append(o.User, zzG07Atom(r))
	}
	sort.Strings(o.User)

	for _, u := range w.urls {
		o.Lists[u] = zzG07Entry{Side: "-", Name: "-", Rules: []string{}, FileRules: []string{}}
	}

	owned := map[string]bool{}
	for side, arr := range map[string][]filterJSON{"b": status.Filters, "a": status.WhitelistFilters} {
		for _, f := range arr {
			u := w.abs(f.URL)
			if u == "" {
				o.Extra++

				continue
			}

			e := o.Lists[u]
			e.Dup++
			e.P, e.Side, e.Name, e.En, e.ID, e.Cnt = true, side, zzG07NameAbs(f.Name), f.Enabled, int(f.ID), int(f.RulesCount)

			fn := strconv.Itoa(int(f.ID)) + ".txt"
			owned[fn] = true
			b, rerr := os.ReadFile(filepath.Join(w.conf.DataDir, filterDir, fn))
			if rerr == nil {
				e.File = true
				for _, line := range strings.Split(string(b), "\n") {
					if line != "" {
						e.FileRules = append(e.FileRules, zzG07Atom(line))
					}
				}
				sort.Strings(e.FileRules)
			}

			o.Lists[u] = e
		}
	}

	des, err := os.ReadDir(filepath.Join(w.conf.DataDir, filterDir))
	if err != nil {
		return nil, err
	}

	for _, de := range des {
		if !owned[de.Name()] && !strings.HasSuffix(de.Name(), ".old") {
			o.Stray = append(o.Stray, de.Name())
		}
	}

	for _, p := range zzG07Probes {
		host := zzG07Host(p)

		_, body, err = w.call(http.MethodGet, "/control/filtering/check_host?name="+url.QueryEscape(host), "")
		if err != nil {
			return nil, err
		}

		resp := &checkHostResp{}
		err = json.Unmarshal(body, resp)
		if err != nil {
			return nil, fmt.Errorf("check_host: %w: %q", err, body)
		}

		ids := []int{}
		for _, r := range resp.Rules {
			ids = append(ids, int(r.FilterListID))
		}
		o.Check[p] = zzG07VerdictOf(resp.Reason, ids)

		// What a DNS query gets: the settings of the running filter, with
		// protection on, as dnsforward passes them.
		setts := w.d.Settings()
		setts.ProtectionEnabled = true
		res, cerr := w.d.CheckHost(host, dns.TypeA, setts)
		if cerr != nil {
			return nil, fmt.Errorf("CheckHost: %w", cerr)
		}

		ids = []int{}
		for _, r := range res.Rules {
			ids = append(ids, int(r.FilterListID))
		}
		o.DNS[p] = zzG07VerdictOf(res.Reason.String(), ids)
	}

	// Control probe: a name no rule mentions is never matched.
	res, _ := w.d.CheckHost("nomatch.g07.example", dns.TypeA, &Settings{FilteringEnabled: true, ProtectionEnabled: true})
	if res.Reason != NotFilteredNotFound {
		return nil, fmt.Errorf("control probe matched: %v", res.Reason)
	}

	return o, nil
}

// corrupted: two lists of the table share an id.
func zzG07Corrupted(o *zzG07Obs) (yes bool) {
	ids := map[int]bool{}
	for _, e := range o.Lists {
		if !e.P {
			continue
		}

		if ids[e.ID] {
			return true
		}

		ids[e.ID] = true
	}

	return false
}

func zzG07SameSet(a, b []string) (ok bool) {
	a, b = append([]string{}, a...), append([]string{}, b...)
	sort.Strings(a)
	sort.Strings(b)

	return strings.Join(a, ",") == strings.Join(b, ",")
}

// diff compares an observation with what the specification expects after a
// step whose source state had the ids `used` taken.
func (w *zzG07World) diff(st *zzG07Step, code int, dl string, o *zzG07Obs) (diffs []string) {
	switch st.Ok {
	case "yes":
		if code/100 != 2 {
			diffs = append(diffs, "reply")
		}
	case "no":
		if code/100 == 2 {
			diffs = append(diffs, "reply")
		}
	}

	if dl != st.DL {
		diffs = append(diffs, "contact")
	}

	used := map[int]bool{}
	forbidden := map[int]bool{}
	for _, a := range st.Used {
		used[a] = true
		forbidden[w.bind[a]] = true
	}

	for _, u := range w.urls {
		e, g := st.Exp.Lists[u], o.Lists[u]
		if e.P != g.P {
			diffs = append(diffs, "tab:"+u+":present")

			continue
		}

		if !e.P {
			continue
		}

		if g.Dup != 1 {
			diffs = append(diffs, "tab:"+u+":dup")
		}

		if e.Side != g.Side {
			diffs = append(diffs, "tab:"+u+":side")
		}

		if e.Name != g.Name {
			diffs = append(diffs, "tab:"+u+":name")
		}

		if e.En != g.En {
			diffs = append(diffs, "tab:"+u+":enabled")
		}

		if used[e.ID] {
			if w.bind[e.ID] != g.ID {
				diffs = append(diffs, "id:"+u+":changed")
			}
		} else {
			// A new list: its id must be fresh and not a reserved one.
			if g.ID <= 0 {
				diffs = append(diffs, "id:"+u+":reserved")
			} else if forbidden[g.ID] {
				diffs = append(diffs, "id:"+u+":notfresh")
			}

			w.bind[e.ID] = g.ID
		}

		if e.En {
			if e.Cnt != g.Cnt {
				diffs = append(diffs, "cnt:"+u)
			}

			if !g.File || !zzG07SameSet(e.Rules, g.FileRules) {
				diffs = append(diffs, "file:"+u)
			}
		}
	}

	if o.Extra != 0 {
		diffs = append(diffs, "tab:extra")
	}

	for _, s := range o.Stray {
		diffs = append(diffs, "stray:"+s)
	}

	if !zzG07SameSet(st.Exp.User, o.User) {
		diffs = append(diffs, "user")
	}

	if st.Exp.Fen != o.Fen {
		diffs = append(diffs, "fen")
	}

	for _, p := range zzG07Probes {
		for k, pair := range map[string][2]zzG07Verdict{"check": {st.Exp.Check[p], o.Check[p]}, "dns": {st.Exp.DNS[p], o.DNS[p]}} {
			e, g := pair[0], pair[1]
			ok := e.V == g.V
			if ok && e.V != "none" {
				adm := map[int]bool{}
				for _, a := range e.IDs {
					if a <= 0 {
						adm[a] = true
					} else {
						adm[w.bind[a]] = true
					}
				}

				ok = len(g.IDs) > 0
				for _, id := range g.IDs {
					ok = ok && adm[id]
				}
			}

			if !ok {
				diffs = append(diffs, k+":"+p)
			}
		}
	}

	sort.Strings(diffs)

	return diffs
}

// zzG07Rng derives a generator from the seed and a string.
func zzG07Rng(key string) (rng *rand.Rand) {
	h := fnv.New64a()
	_, _ = h.Write([]byte(key))

	return rand.New(rand.NewSource(zzSeed() ^ int64(h.Sum64()&0x7fffffffffffffff)))
}

// -------------------------------------------------------------- direction A

// zzG07RunTour walks one tour in its own bubble; every step is compared.
func zzG07RunTour(tour *zzG07Tour, put func(v any)) (steps, bad int) {
	synctest.Run(func() {
		rng := zzG07Rng("tour-" + strconv.Itoa(tour.ID))
		w, err := zzG07NewWorld(rng, tour.Urls)
		if err != nil {
			put(map[string]any{"kind": "skip", "tour": tour.ID, "err": err.Error()})

			return
		}
		defer w.close()

		for i := range tour.Steps {
			st := &tour.Steps[i]
			code, dl, serr := w.do(&st.Act)
			var o *zzG07Obs
			if serr == nil {
				o, serr = w.observe()
			}

			if serr != nil {
				put(map[string]any{"kind": "skip", "tour": tour.ID, "step": i, "err": serr.Error()})

				return
			}

			steps++
			diffs := w.diff(st, code, dl, o)
			if len(diffs) == 0 {
				continue
			}

			bad++
			put(map[string]any{
				"kind": "bad", "tour": tour.ID, "step": i, "diffs": diffs, "act": st.Act,
				"want": st.Exp, "want_ok": st.Ok, "want_dl": st.DL,
				"got": o, "code": code, "dl": dl, "bind": zzG07Bind(w.bind),
			})
			put(map[string]any{"kind": "truncated", "tour": tour.ID, "step": i, "lost": len(tour.Steps) - i - 1})

			return
		}
	})

	return steps, bad
}

func zzG07Bind(m map[int]int) (s map[string]int) {
	s = map[string]int{}
	for k, v := range m {
		s[strconv.Itoa(k)] = v
	}

	return s
}

// TestZZVerifG07Tours is direction A: the edges TLC emitted, walked.
func TestZZVerifG07Tours(t *testing.T) {
	log.SetOutput(io.Discard)
	zzG07TheServer()

	out := zzNewWriter(t, "VERIF_OUT")
	defer out.close()

	tours := []*zzG07Tour{}
	zzReadNDJSON(t, "VERIF_IN", func(line []byte) {
		tour := &zzG07Tour{}
		if err := json.Unmarshal(line, tour); err != nil {
			t.Fatalf("bad tour: %v", err)
		}

		tours = append(tours, tour)
	})

	par := 2
	if s := zzGetenv("VERIF_PAR"); s != "" {
		par, _ = strconv.Atoi(s)
	}

	var outMu, cntMu sync.Mutex
	put := func(v any) {
		outMu.Lock()
		defer outMu.Unlock()

		out.put(v)
	}

	steps, bad := 0, 0
	ch := make(chan *zzG07Tour)
	wg := &sync.WaitGroup{}
	for i := 0; i < par; i++ {
		wg.Add(1)
		go func() {
			defer wg.Done()

			for tour := range ch {
				s, b := zzG07RunTour(tour, put)
				cntMu.Lock()
				steps += s
				bad += b
				cntMu.Unlock()
			}
		}()
	}

	for _, tour := range tours {
		ch <- tour
	}
	close(ch)
	wg.Wait()

	put(map[string]any{"kind": "summary", "tours": len(tours), "steps": steps, "bad": bad})
}

// TestZZVerifG07Policy measures what the installation thinks of a list body
// without a single rule (add_url): valid or not.
func TestZZVerifG07Policy(t *testing.T) {
	log.SetOutput(io.Discard)
	zzG07TheServer()

	out := zzNewWriter(t, "VERIF_OUT")
	defer out.close()

	synctest.Run(func() {
		votes := 0
		const n = 5
		for i := 0; i < n; i++ {
			w, err := zzG07NewWorld(zzG07Rng("policy-"+strconv.Itoa(i)), []string{"u1"})
			if err != nil {
				t.Errorf("world: %v", err)

				return
			}

			code, _, err := w.do(&zzG07Act{A: "add", URL: "u1", Side: "b", Name: "n1", Beh: "blank"})
			if err != nil {
				t.Errorf("add: %v", err)
			}

			if code/100 == 2 {
				votes++
			}

			w.close()
		}

		out.put(map[string]any{"kind": "policy", "blank_ok": votes == n, "votes": votes, "of": n})
	})
}

// -------------------------------------------------------------- direction B

// traceID numbers the real ids in the order of their appearance; reserved
// ids stay what they are.
func (w *zzG07World) traceID(real int) (id int) {
	if real <= 0 {
		return real
	}

	if n, ok := w.seen[real]; ok {
		return n
	}

	w.seen[real] = len(w.seen) + 1

	return w.seen[real]
}

func (w *zzG07World) traceObs(o *zzG07Obs) (t *zzG07Obs) {
	t = &zzG07Obs{
		Lists: map[string]zzG07Entry{}, User: o.User, Fen: o.Fen, Stray: o.Stray, Extra: o.Extra,
		Check: map[string]zzG07Verdict{}, DNS: map[string]zzG07Verdict{},
	}

	for _, u := range w.urls {
		e := o.Lists[u]
		if e.P {
			e.ID = w.traceID(e.ID)
		}
		t.Lists[u] = e
	}

	for dst, src := range map[*map[string]zzG07Verdict]map[string]zzG07Verdict{&t.Check: o.Check, &t.DNS: o.DNS} {
		for p, v := range src {
			ids := []int{}
			for _, id := range v.IDs {
				ids = append(ids, w.traceID(id))
			}
			(*dst)[p] = zzG07Verdict{V: v.V, IDs: ids}
		}
	}

	return t
}

func zzG07RandAct(rng *rand.Rand, urls []string, last *zzG07Obs) (act *zzG07Act) {
	pick := func(xs []string) string { return xs[rng.Intn(len(xs))] }
	names := []string{"n1", "n2"}
	sides := []string{"b", "a"}
	behs := []string{"cA", "cA", "cB", "cB", "blank", "fail", "fail"}

	present, absent := []string{}, []string{}
	for _, u := range urls {
		if last != nil && last.Lists[u].P {
			present = append(present, u)
		} else {
			absent = append(absent, u)
		}
	}

	act = &zzG07Act{URL: "-", Side: "-", Name: "-", NURL: "-", Beh: "-", Rules: []string{}, Late: true}
	switch k := rng.Intn(100); {
	case k < 26:
		act.A, act.Side, act.Name, act.Beh = "add", pick(sides), pick(names), pick(behs)
		switch {
		case rng.Intn(12) == 0:
			act.URL = "bad"
		case len(absent) > 0 && rng.Intn(5) != 0:
			act.URL = pick(absent)
		default:
			act.URL = pick(urls)
		}
	case k < 38:
		act.A, act.Side = "remove", pick(sides)
		act.URL = pick(urls)
		if len(present) > 0 && rng.Intn(4) != 0 {
			act.URL = pick(present)
			if rng.Intn(5) != 0 {
				act.Side = last.Lists[act.URL].Side
			}
		}
	case k < 70:
		act.A, act.Side, act.Name, act.Beh, act.En = "seturl", pick(sides), pick(names), pick(behs), rng.Intn(3) != 0
		act.URL = pick(urls)
		if len(present) > 0 && rng.Intn(6) != 0 {
			act.URL = pick(present)
			if rng.Intn(8) != 0 {
				act.Side = last.Lists[act.URL].Side
			}
		}

		switch {
		case rng.Intn(15) == 0:
			act.NURL = "bad"
		case rng.Intn(2) == 0:
			act.NURL = act.URL
		default:
			act.NURL = pick(urls)
		}
	case k < 82:
		act.A = "rules"
		for _, r := range []string{"R1", "R2", "@@R1", "@@R2"} {
			if rng.Intn(3) == 0 {
				act.Rules = append(act.Rules, r)
			}
		}
	case k < 90:
		act.A, act.En = "config", rng.Intn(2) == 0
	default:
		act.A, act.Late = "restart", rng.Intn(5) != 0
	}

	return act
}

// TestZZVerifG07Trace is direction B: seeded random longer histories over
// three sources, recorded for TraceFilterLists.tla.
func TestZZVerifG07Trace(t *testing.T) {
	log.SetOutput(io.Discard)
	zzG07TheServer()

	out := zzNewWriter(t, "VERIF_OUT")
	defer out.close()

	nTraces, nSteps := 40, 40
	if zzGetenv("VERIF_TIER") == "thorough" {
		nTraces, nSteps = 240, 60
	}

	if s := zzGetenv("VERIF_N"); s != "" {
		nTraces, _ = strconv.Atoi(s)
	}

	only := map[int]bool{}
	for _, s := range strings.Split(zzGetenv("VERIF_ONLY"), ",") {
		if n, err := strconv.Atoi(s); err == nil {
			only[n] = true
		}
	}

	shard, shards := 0, 1
	if s := zzGetenv("VERIF_SHARD"); s != "" {
		_, _ = fmt.Sscanf(s, "%d/%d", &shard, &shards)
	}

	blankOK := zzGetenv("VERIF_BLANK_OK") == "1"
	urls := []string{"u1", "u2", "u3"}

	for tr := 0; tr < nTraces; tr++ {
		if len(only) > 0 && !only[tr] || tr%shards != shard {
			continue
		}

		synctest.Run(func() {
			rng := zzG07Rng("trace-" + strconv.Itoa(tr))
			w, err := zzG07NewWorld(rng, urls)
			if err != nil {
				t.Errorf("world: %v", err)

				return
			}
			defer w.close()

			out.put(map[string]any{"ev": "boot", "trace": tr, "blank": blankOK})

			var last *zzG07Obs
			for i := 0; i < nSteps; i++ {
				act := zzG07RandAct(rng, urls, last)
				code, dl, serr := w.do(act)
				var o *zzG07Obs
				if serr == nil {
					o, serr = w.observe()
				}

				if serr != nil {
					t.Errorf("trace %d step %d: %v", tr, i, serr)

					return
				}

				ok := "no"
				if code/100 == 2 {
					ok = "yes"
				}

				out.put(map[string]any{
					"ev": "step", "trace": tr, "i": i, "act": act, "ok": ok, "dl": dl, "obs": w.traceObs(o),
				})

				last = o
				if zzG07Corrupted(o) {
					// Two lists share an id (and with it their file): the history
					// has lost its meaning.  The line above is judged by TLC.
					out.put(map[string]any{"ev": "end", "trace": tr, "i": i, "why": "two lists share an id"})

					return
				}
			}
		})
	}
}
