SPECIFICATION Spec
CONSTANTS MaxLines = 2
          Shapes <- ShapesLen
          Endings <- EndingsLFCR
          Policies <- UniformPolicies
INVARIANTS Statement
