SPECIFICATION Spec
CONSTANT Mode = "walk"
VIEW WalkView
INVARIANTS SafeInv
