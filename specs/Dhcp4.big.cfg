SPECIFICATION GenSpec
CONSTANTS
  Macs = {"m1", "m2", "m3"}
  Pool = {1, 2, 3}
  Outs = {4}
  GW = 0
  Far = 5
  ReqHosts = {"", "h1", "g2", "bad"}
  BadHosts = {"bad"}
  StaticHosts = {"", "h1"}
  MaxStatic = 2
  LeaseT = 1
INVARIANTS
  OneHolderPerAddress KeyedByAddress OneLeasePerClient DynamicInsidePool
  ReservedClientGetsReservation OfferWhenFree DiskEqualsMemoryEachOnce
  RestartRestoresSameTable HostsUnique RemBounded NoReuseBeforeAnnouncedExpiry RemoveKeepsHeldDynamic BoundedStatics
