----------------------------- MODULE Protection -----------------------------
(***************************************************************************)
(* G04 -- the protection switch as a timed automaton.                      *)
(*                                                                         *)
(* Statement (notes/G04.md; derived from openapi.yaml, openapi/CHANGELOG,  *)
(* CHANGELOG and the doc comments, not from control flow):                 *)
(*                                                                         *)
(*   Protection is in one of three modes: ON, OFF ("until re-enabled") or  *)
(*   PAUSED until an instant U.  It is IN EFFECT at an instant iff the     *)
(*   mode is ON, or PAUSED with U already reached.  POST                   *)
(*   /control/protection {enabled, duration (ms)} sets the mode: enabled   *)
(*   -> ON (a running pause is cancelled); disabled with duration 0 or     *)
(*   absent -> OFF; disabled with duration d -> PAUSED until now + d       *)
(*   exactly, replacing whatever was there.  The `protection_enabled`      *)
(*   member of POST /control/dns_config switches ON / OFF too.  GET        *)
(*   /control/status reports protection_enabled = "in effect" and          *)
(*   protection_disabled_duration = U - now while a pause runs, else 0;    *)
(*   GET /control/dns_info reports protection_enabled likewise and         *)
(*   protection_disabled_until = U while a pause runs, else null.  While   *)
(*   protection is not in effect no query is blocked (rule lists, blocked  *)
(*   services, safe browsing, parental control, safe search, filtering of  *)
(*   upstream answers); while it is, they are blocked as configured --     *)
(*   from the very instant the pause ends; DNS rewrites apply either way.  *)
(*   None of this is changed by a restart of the process (mode and U are   *)
(*   stored as protection_enabled / protection_disabled_until) nor by the  *)
(*   server's own housekeeping.                                            *)
(*                                                                         *)
(* Quantifier: all timed histories of set-protection calls (enabled or     *)
(* not; duration absent, 0, 1 tick .. MaxD ticks, "big" = representable    *)
(* but beyond every horizon, "huge" = a uint64 whose deadline is not       *)
(* representable), dns_config switches, clock advances (before / at /      *)
(* after the deadline), status and dns_info reads, DNS queries of every    *)
(* blocked kind, restarts, and every scheduling of the write-back worker.  *)
(*                                                                         *)
(* Where the documentation is silent the model admits a SET of outcomes:   *)
(*   - the single instant now = U ("disabled until U": closed or open end  *)
(*     cannot be told from the prose): every observation made at that      *)
(*     instant may find protection in effect or not;                       *)
(*   - enabled = true together with a duration ("Enabled should be         *)
(*     false"): rejected with nothing changed, or accepted as a plain      *)
(*     "enable";                                                           *)
(*   - a "huge" duration (the documented type is uint64; now + d is not    *)
(*     representable): rejected with nothing changed, or accepted as a     *)
(*     pause that outlasts every horizon -- but never a shorter pause;     *)
(*   - dns_config protection_enabled = false while a pause runs: OFF, or   *)
(*     the pause is left as it is (protection is not in effect now either  *)
(*     way).  protection_enabled = true is not silent: the same object     *)
(*     read back must say true, so it cancels the pause.                   *)
(*                                                                         *)
(* Mechanism that the statement does not mention but the code has, and     *)
(* that is therefore modelled as something that must be INVISIBLE: the     *)
(* stored pair (enabled flag, deadline) is normalised lazily.  The first   *)
(* observation (status read, dns_info read or DNS query) that finds the    *)
(* deadline reached answers "in effect" at once and asks a background      *)
(* worker to write ON back (`pend`); the worker runs at any later point -- *)
(* possibly after further API calls.  A worker that finds anything else    *)
(* than a pause whose deadline has been reached must change nothing.       *)
(* What the file on disk holds is the stored pair at every moment, so a    *)
(* restart (which forgets a pending worker) changes nothing either.        *)
(*                                                                         *)
(* Time is an integer.  The module is used at two scales: small ticks for  *)
(* exhaustive exploration (modulo time translation, see View) and edge     *)
(* generation, and milliseconds by TraceProtection.tla, which reuses the   *)
(* pure operators below.                                                   *)
(***************************************************************************)
EXTENDS Integers, FiniteSets, Sequences, TLC, Json

CONSTANTS
    MaxD,       \* pause durations 1..MaxD ticks are explored (besides 0, Big, Huge)
    MaxTick,    \* largest single clock advance (> MaxD: runs past every deadline)
    Kinds,      \* kinds of DNS query (strings), see QueryRes
    AsBuilt     \* {} = the statement.  A subset of {"worker", "flag", "huge"} switches the
                \* named operation to the behaviour of the code as built; used only by the
                \* negative configurations, to show that the properties below see these
                \* behaviours (notes/G04.md, findings)

(***************************************************************************)
(* Vocabulary.                                                             *)
(***************************************************************************)
\* Duration tokens besides 0..MaxD.
Big  == -1      \* representable, longer than any horizon: the pause never ends in the model
Huge == -2      \* now + d is not representable

\* Values of `until`.
Forever == -1   \* a pause that never ends within any horizon
NoU     == 0    \* not paused (only meaningful together with mode # "paused")

S(mode, until, pend) == [mode |-> mode, until |-> until, pend |-> pend]

(***************************************************************************)
(* Pure part: a state s = [mode, until, pend] and the instant `now`.       *)
(***************************************************************************)
Running(s, now) == s.mode = "paused" /\ (s.until = Forever \/ now < s.until)
AtEnd(s, now)   == s.mode = "paused" /\ s.until # Forever /\ now = s.until
Elapsed(s, now) == s.mode = "paused" /\ s.until # Forever /\ now > s.until

\* The admissible truth values of "protection is in effect at `now`".
InEffectSet(s, now) ==
    IF s.mode = "on" \/ Elapsed(s, now) THEN {TRUE}
    ELSE IF AtEnd(s, now) THEN {TRUE, FALSE}
    ELSE {FALSE}

\* An observation that finds a pause over asks for the write-back.
AfterObs(s, e) == [s EXCEPT !.pend = @ \/ (e /\ s.mode = "paused")]

\* Remaining time / deadline as reported while protection is not in effect.
Rem(s, now, e) ==
    IF e \/ s.mode # "paused" THEN 0
    ELSE IF s.until = Forever THEN Forever ELSE s.until - now

Until(s, e) == IF e \/ s.mode # "paused" THEN NoU ELSE s.until

\* GET /control/status: [en, rem]; GET /control/dns_info: [en, until].
StatusOutcomes(s, now) ==
    {[st |-> AfterObs(s, e), en |-> e, rem |-> Rem(s, now, e)] : e \in InEffectSet(s, now)}

InfoOutcomes(s, now) ==
    {[st |-> AfterObs(s, e), en |-> e, until |-> Until(s, e)] : e \in InEffectSet(s, now)}

\* A DNS query.  Kinds: "rw" is a name with a DNS rewrite (applied whatever
\* the protection state), "clean" a name nothing matches; every other kind is
\* a name (or an upstream answer) that protection blocks -- "blk": the client
\* gets no upstream data; "up": the client gets the upstream's answer.
QueryRes(kind, e) ==
    IF kind = "rw" THEN "rw" ELSE IF kind = "clean" THEN "up" ELSE IF e THEN "blk" ELSE "up"

QueryOutcomes(s, kind, now) ==
    {[st |-> AfterObs(s, e), res |-> QueryRes(kind, e), e |-> e] : e \in InEffectSet(s, now)}

\* POST /control/protection {enabled: en, duration: d}.
On(s)        == [s EXCEPT !.mode = "on", !.until = NoU]
Off(s)       == [s EXCEPT !.mode = "off", !.until = NoU]
Paused(s, u) == [s EXCEPT !.mode = "paused", !.until = u]

SetOutcomes(s, en, d, now) ==
    IF en THEN
        IF d = 0 THEN {[st |-> On(s), res |-> "ok"]}
        ELSE {[st |-> s, res |-> "rej"], [st |-> On(s), res |-> "ok"]}
    ELSE IF d = 0 THEN {[st |-> Off(s), res |-> "ok"]}
    ELSE IF d = Huge THEN
        IF "huge" \in AsBuilt
        THEN {[st |-> Paused(s, now), res |-> "ok"]}          \* the deadline wraps around: over at once
        ELSE {[st |-> s, res |-> "rej"], [st |-> Paused(s, Forever), res |-> "ok"]}
    ELSE IF d = Big THEN {[st |-> Paused(s, Forever), res |-> "ok"]}
    ELSE {[st |-> Paused(s, now + d), res |-> "ok"]}

\* POST /control/dns_config {protection_enabled: b}.  Enabling cancels a
\* running pause; where the pause is over already (protection is in effect
\* either way) the stale record may be left to the worker.  Disabling while a
\* pause runs: OFF, or the pause is left as it is (documentation silent).
\* As built, only the flag moves: the state the code then is in (flag set,
\* deadline kept) behaves like the pause it was, and a cleared flag with a
\* reached deadline like ON.
FlagOutcomes(s, b, now) ==
    IF "flag" \in AsBuilt /\ s.mode = "paused" THEN {[st |-> s, res |-> "ok"]}
    ELSE IF b THEN
        IF AtEnd(s, now) \/ Elapsed(s, now)
        THEN {[st |-> On(s), res |-> "ok"], [st |-> s, res |-> "ok"]}
        ELSE {[st |-> On(s), res |-> "ok"]}
    ELSE IF Running(s, now) \/ AtEnd(s, now)
        THEN {[st |-> Off(s), res |-> "ok"], [st |-> s, res |-> "ok"]}
        ELSE {[st |-> Off(s), res |-> "ok"]}

\* The write-back worker, whenever it gets to run.
WorkerOutcomes(s, now) ==
    LET done == [s EXCEPT !.pend = FALSE] IN
    IF "worker" \in AsBuilt THEN {On(done)}                    \* writes ON whatever it finds
    ELSE IF Elapsed(s, now) THEN {On(done)}
    ELSE IF AtEnd(s, now) THEN {On(done), done}
    ELSE {done}

\* A restart: the stored mode and deadline come back from the file; a
\* pending worker dies with the process.
RestartOutcome(s) == [s EXCEPT !.pend = FALSE]

(***************************************************************************)
(* What the API was told, as a function of the accepted calls alone        *)
(* (ghost): g = [k, end].  This is the statement's own yardstick: nothing  *)
(* but an accepted set / switch call moves it.                             *)
(***************************************************************************)
Told(s2) == [k |-> s2.mode, end |-> s2.until]

\* What an accepted set-protection call asked for.
Asked(en, d, now) ==
    IF en THEN [k |-> "on", end |-> NoU]
    ELSE IF d = 0 THEN [k |-> "off", end |-> NoU]
    ELSE IF d \in {Big, Huge} THEN [k |-> "paused", end |-> Forever]
    ELSE [k |-> "paused", end |-> now + d]

ShouldSet(g, now) ==
    IF g.k = "on" THEN {TRUE}
    ELSE IF g.k = "off" THEN {FALSE}
    ELSE IF g.end = Forever \/ now < g.end THEN {FALSE}
    ELSE IF now = g.end THEN {TRUE, FALSE}
    ELSE {TRUE}

(***************************************************************************)
(* State machine.                                                          *)
(***************************************************************************)
VARIABLES
    mode, until, pend,   \* the state s
    clock,
    g,                   \* ghost: what the accepted calls said
    out                  \* last step: [act, res, e, kind] (e: protection was found in effect)

vars == <<mode, until, pend, clock, g, out>>

St == S(mode, until, pend)

Durs == (0..MaxD) \cup {Big, Huge}

NoOut == [act |-> "none", res |-> "none", e |-> FALSE, kind |-> ""]

\* Relative instants: the model is invariant under time translation, and a
\* deadline in the past is just "past" -- so TLC explores it modulo the
\* absolute clock (VIEW) and the edge graph is finite with no bound on the
\* length of histories.
RelForever == -1
RelPast    == -2
RelNone    == -3
Rel(m, u) ==
    IF m # "paused" THEN RelNone
    ELSE IF u = Forever THEN RelForever
    ELSE IF u < clock THEN RelPast
    ELSE u - clock

Proj == [m |-> mode, u |-> Rel(mode, until), w |-> pend]
View == <<Proj, [k |-> g.k, end |-> Rel(g.k, g.end)], out>>

Emit(act, dstProj, o) ==
    PrintT(<<"@@V", ToJson([src |-> Proj, act |-> act, dst |-> dstProj, out |-> o])>>)

SetSt(s2) == mode' = s2.mode /\ until' = s2.until /\ pend' = s2.pend

Init ==
    /\ mode \in {"on", "off"}       \* what the configuration file said
    /\ until = NoU
    /\ pend = FALSE
    /\ clock = 1                   \* instants are positive (0 is "no deadline")
    /\ g = [k |-> mode, end |-> NoU]
    /\ out = NoOut

\* Replies are emitted relative to the clock: a deadline as the time left.
RelReply(u) == IF u = NoU THEN RelNone ELSE IF u = Forever THEN RelForever ELSE u - clock

SetProtection(en, d) ==
    \E o \in SetOutcomes(St, en, d, clock) :
        /\ SetSt(o.st)
        /\ g' = IF o.res = "ok" THEN Asked(en, d, clock) ELSE g
        /\ out' = [act |-> "set", res |-> o.res, e |-> FALSE, kind |-> ""]
        /\ UNCHANGED clock
        /\ Emit([k |-> "set", en |-> en, d |-> d], Proj', o.res)

SetFlag(b) ==
    \E o \in FlagOutcomes(St, b, clock) :
        /\ SetSt(o.st)
        /\ g' = IF "flag" \in AsBuilt /\ mode = "paused"
                THEN [k |-> IF b THEN "on" ELSE "off", end |-> NoU]    \* what the caller asked for
                ELSE IF o.st # St THEN Told(o.st) ELSE g                 \* left as it was: nothing new was said
        /\ out' = [act |-> "flag", res |-> o.res, e |-> FALSE, kind |-> ""]
        /\ UNCHANGED clock
        /\ Emit([k |-> "flag", en |-> b, d |-> 0], Proj', o.res)

Status ==
    \E o \in StatusOutcomes(St, clock) :
        /\ SetSt(o.st)
        /\ out' = [act |-> "status", res |-> ToString(o.rem), e |-> o.en, kind |-> ""]
        /\ UNCHANGED <<clock, g>>
        /\ Emit([k |-> "status", en |-> FALSE, d |-> 0], Proj',
                [en |-> o.en, rem |-> IF o.rem = Forever THEN RelForever ELSE o.rem])

Info ==
    \E o \in InfoOutcomes(St, clock) :
        /\ SetSt(o.st)
        /\ out' = [act |-> "info", res |-> ToString(RelReply(o.until)), e |-> o.en, kind |-> ""]
        /\ UNCHANGED <<clock, g>>
        /\ Emit([k |-> "info", en |-> FALSE, d |-> 0], Proj', [en |-> o.en, until |-> RelReply(o.until)])

Query(kind) ==
    \E o \in QueryOutcomes(St, kind, clock) :
        /\ SetSt(o.st)
        /\ out' = [act |-> "query", res |-> o.res, e |-> o.e, kind |-> kind]
        /\ UNCHANGED <<clock, g>>
        /\ Emit([k |-> "query", kind |-> kind, en |-> FALSE, d |-> 0], Proj', o.res)

Worker ==
    /\ pend
    /\ \E s2 \in WorkerOutcomes(St, clock) :
        /\ SetSt(s2)
        /\ out' = [act |-> "worker", res |-> "none", e |-> FALSE, kind |-> ""]
        /\ UNCHANGED <<clock, g>>
        /\ Emit([k |-> "worker", en |-> FALSE, d |-> 0], Proj', "none")

Restart ==
    /\ SetSt(RestartOutcome(St))
    /\ out' = [act |-> "restart", res |-> "none", e |-> FALSE, kind |-> ""]
    /\ UNCHANGED <<clock, g>>
    /\ Emit([k |-> "restart", en |-> FALSE, d |-> 0], Proj', "none")

Tick(d) ==
    /\ clock' = clock + d
    /\ out' = [act |-> "tick", res |-> "none", e |-> FALSE, kind |-> ""]
    /\ UNCHANGED <<mode, until, pend, g>>
    /\ Emit([k |-> "tick", en |-> FALSE, d |-> d], Proj', "none")

Next ==
    \/ \E en \in BOOLEAN, d \in Durs : SetProtection(en, d)
    \/ \E b \in BOOLEAN : SetFlag(b)
    \/ Status \/ Info
    \/ \E kind \in Kinds : Query(kind)
    \/ Worker \/ Restart
    \/ \E d \in 1..MaxTick : Tick(d)

Spec == Init /\ [][Next]_vars

(***************************************************************************)
(* The statement as properties of the model, in terms of the ghost.        *)
(***************************************************************************)
TypeOK ==
    /\ mode \in {"on", "off", "paused"}
    /\ (mode # "paused" => until = NoU)
    /\ (mode = "paused" => until = Forever \/ until > 0)
    /\ pend \in BOOLEAN

\* "In effect iff enabled and not inside a pause; a pause of d started at t
\* ends at t + d exactly; enabling cancels a pause; a new pause replaces the
\* old one; 0 / absent = until re-enabled" -- and neither the passage of time,
\* nor the worker, nor a restart, nor any read or query has a say: at every
\* moment what the state implies is what the accepted calls said (at the one
\* instant where the calls leave it open, the state may have settled it).
EffectFollowsCalls == InEffectSet(St, clock) \subseteq ShouldSet(g, clock)

\* While a pause runs, the stored deadline is the one that was asked for.
DeadlineIsTheOneAsked == Running(St, clock) => g.k = "paused" /\ until = g.end

\* Every read reports exactly that, with a consistent remaining time.
ReadsAreConsistent ==
    /\ (out.act \in {"status", "info"} => out.e \in ShouldSet(g, clock))
    /\ (out.act = "status" /\ out.e => out.res = "0")
    /\ (out.act = "status" /\ ~out.e /\ g.k = "off" => out.res = "0")
    /\ (out.act = "status" /\ ~out.e /\ g.k = "paused" =>
            out.res = ToString(IF g.end = Forever THEN Forever ELSE g.end - clock))
    /\ (out.act = "info" /\ (out.e \/ g.k = "off") => out.res = ToString(RelNone))
    /\ (out.act = "info" /\ ~out.e /\ g.k = "paused" =>
            out.res = ToString(IF g.end = Forever THEN RelForever ELSE g.end - clock))

\* Nothing is blocked while protection is not in effect, everything is while
\* it is -- the first query after the deadline included, whether or not the
\* worker has run; rewrites and clean names do not depend on the switch.
QueriesFollowCalls ==
    out.act = "query" =>
        /\ out.e \in ShouldSet(g, clock)
        /\ out.res = QueryRes(out.kind, out.e)
        /\ (out.kind \notin {"rw", "clean"} => (out.res = "blk" <=> out.e))

\* The worker, a restart and the clock never change what was asked for.
HousekeepingIsInvisible ==
    [][out'.act \in {"worker", "restart", "tick", "status", "info", "query"} => g' = g]_vars

\* Only a set / switch call changes the stored mode, except for the one
\* normalisation the statement allows: a pause that is over becomes ON.
OnlyCallsMoveTheMode ==
    [][out'.act \in {"worker", "restart", "tick", "status", "info", "query"} =>
          \/ mode' = mode /\ until' = until
          \/ out'.act = "worker" /\ mode = "paused" /\ until # Forever /\ clock >= until /\ mode' = "on"]_vars

\* A rejected call changes nothing.
RejectedChangesNothing ==
    [][out'.res = "rej" => mode' = mode /\ until' = until /\ pend' = pend /\ g' = g]_vars
=============================================================================
